#!/usr/bin/env python3
"""seed_targets.py [jobs] — re-runs, for every seed under /verif/seeded, the check of the seed's own
property against a scratch copy of /repo with the seed applied (never /repo itself), and records the
outcome in meta.json under "own_check". Prints one line per seed."""
import sys, os, json, subprocess, tempfile, shutil, concurrent.futures as cf
jobs = int(sys.argv[1]) if len(sys.argv) > 1 else 4
BIN = os.environ.get("SPDXVERIF_BIN", "/verif/bin/spdxverif")
def one(sid):
    d = f"/verif/seeded/{sid}"
    meta = json.load(open(f"{d}/meta.json"))
    target = meta["target_property"]
    tmp = tempfile.mkdtemp(prefix="spdxseedt.")
    try:
        subprocess.run(f"rsync -a --exclude .git /repo/ {tmp}/repo/", shell=True, check=True)
        if meta.get("base_patch"):
            # a seed made on top of a behaviour-preserving refactoring: the base goes on first
            rb = subprocess.run(f"patch -p1 -s --no-backup-if-mismatch -i {d}/{meta['base_patch']}", shell=True, cwd=f"{tmp}/repo", capture_output=True, text=True)
            if rb.returncode != 0:
                return sid, target, None, ["base patch does not apply"]
        r = subprocess.run(f"patch -p1 -s --no-backup-if-mismatch -i {d}/patch.diff", shell=True, cwd=f"{tmp}/repo", capture_output=True, text=True)
        if r.returncode != 0:
            return sid, target, None, ["patch does not apply"]
        os.makedirs(f"{tmp}/ev"); shutil.copy("/verif/known_findings.json", f"{tmp}/ev/")
        r = subprocess.run(f"{BIN} check -property {target} -repo {tmp}/repo -verif {tmp}/ev", shell=True, capture_output=True, text=True)
        first = [l.strip()[:300] for l in (r.stdout + r.stderr).split("\n") if l.strip().startswith(("violated", "undecided"))][:3]
        return sid, target, r.returncode != 0, first
    finally:
        shutil.rmtree(tmp, ignore_errors=True)
sids = sorted(x for x in os.listdir("/verif/seeded") if os.path.exists(f"/verif/seeded/{x}/meta.json"))
with cf.ThreadPoolExecutor(max_workers=jobs) as ex:
    for sid, target, fired, first in ex.map(one, sids):
        meta = json.load(open(f"/verif/seeded/{sid}/meta.json"))
        meta["own_check"] = {"property": target, "fired": fired, "first_reports": first}
        json.dump(meta, open(f"/verif/seeded/{sid}/meta.json", "w"), indent=1)
        print(sid, target, "FIRED" if fired else "silent", (first[0][:120] if first else ""))
