#!/bin/bash
# Runs ONE property's check over every row of the control corpus that lists it (tools/run_controls.sh runs
# every listed property per row, which is ~50 min for a column).  usage: tools/run_controls_prop.sh Cnn [jobs]
# honours SPDXVERIF_BIN (validate a dev binary before rebuilding bin/).
V=/verif
export PROP=${1:?property id}
jobs=${2:-15}
one() {
  line="$1"
  patch=$(echo "$line" | cut -f1); kind=$(echo "$line" | cut -f2)
  d=$(mktemp -d /tmp/spdxctlp.XXXXXX)
  rsync -a --exclude .git /repo/ "$d/repo/"
  if ! (cd "$d/repo" && patch -p1 -s --no-backup-if-mismatch < $V/controls/$patch >/dev/null 2>&1); then echo "SKIP  $patch"; rm -rf "$d"; return; fi
  mkdir -p "$d/ev"; cp $V/known_findings.json "$d/ev/"
  out=$(${SPDXVERIF_BIN:-$V/bin/spdxverif} check -property "$PROP" -repo "$d/repo" -verif "$d/ev" 2>&1); rc=$?
  nv=$(echo "$out" | grep -c '^VIOLATION')
  if [ "$kind" = pos ]; then
    if [ $rc -ne 0 ] && [ $nv -gt 0 ]; then echo "OK    $patch fired"; else echo "MISS  $patch silent"; fi
  else
    if [ $rc -eq 0 ]; then echo "OK    $patch silent"; else echo "FALSE $patch raised: $(echo "$out" | grep -m1 -E '^\s+(violated|undecided)' | cut -c1-200)"; fi
  fi
  rm -rf "$d"
}
export -f one; export V
grep -v '^#' $V/controls/expect.tsv | grep -P "\t$PROP|,$PROP" | xargs -d '\n' -P "$jobs" -I{} bash -c 'one "{}"'
