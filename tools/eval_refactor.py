#!/usr/bin/env python3
"""eval_refactor.py <patch> [props...] — a behaviour-preserving refactoring: apply to a scratch copy of /repo, confirm build+vet+suite,
run the checks (default all 15) and print which ones raise an alarm (every alarm is a false alarm). Scratch copy removed."""
import sys, os, subprocess, shutil, tempfile, json, concurrent.futures as cf
patch = os.path.realpath(sys.argv[1])
props = sys.argv[2:] or ["C%02d" % i for i in range(1, 16)]
BIN = os.environ.get("SPDXVERIF_BIN", "/verif/bin/spdxverif")
ENV = dict(os.environ, GOFLAGS="-mod=mod", GOPROXY="off", GOSUMDB="off", GOTOOLCHAIN="local"); ENV.pop("GOWORK", None)
def sh(cmd, cwd=None):
    p = subprocess.run(cmd, shell=True, cwd=cwd, env=ENV, capture_output=True, text=True, timeout=1800)
    return p.returncode, p.stdout + p.stderr
d = tempfile.mkdtemp(prefix="spdxref.")
try:
    sh(f"rsync -a --exclude .git /repo/ {d}/repo/")
    rc, out = sh(f"patch -p1 -s --no-backup-if-mismatch -i {patch}", cwd=f"{d}/repo")
    if rc != 0:
        print(json.dumps({"patch": patch, "applies": False})); sys.exit(0)
    rc1, o1 = sh("go build ./... && go vet ./... && go test -count=1 ./...", cwd=f"{d}/repo")
    def chk(p):
        ev = tempfile.mkdtemp(prefix="spdxrefev.")
        shutil.copy("/verif/known_findings.json", ev)
        rc, out = sh(f"{BIN} check -property {p} -repo {d}/repo -verif {ev}")
        shutil.rmtree(ev)
        first = [l.strip()[:400] for l in out.split("\n") if l.strip().startswith(("violated", "undecided"))]
        return p, rc, first[:4]
    res = {}
    with cf.ThreadPoolExecutor(max_workers=8) as ex:
        for p, rc, first in ex.map(chk, props):
            if rc != 0: res[p] = first
    print(json.dumps({"patch": patch, "applies": True, "suite_ok": rc1 == 0, "alarms": res}, indent=1))
finally:
    shutil.rmtree(d)
