#!/usr/bin/env python3
"""eval_seed.py <src_dir> <seed_id> <target_property> [props...]
Confirms a seeded change (patch.diff + demo) on scratch copies of /repo, runs the checks against it,
and stores it under /verif/seeded/<seed_id>/ with meta.json. Scratch copies are removed."""
import sys, os, subprocess, shutil, tempfile, json, concurrent.futures as cf
src, sid, target = sys.argv[1:4]
props = sys.argv[4:] or ["C%02d" % i for i in range(1, 16)]
ENV = dict(os.environ, GOFLAGS="-mod=mod", GOPROXY="off", GOSUMDB="off", GOTOOLCHAIN="local")
ENV.pop("GOWORK", None)
def sh(cmd, cwd=None, timeout=900):
    p = subprocess.run(cmd, shell=True, cwd=cwd, env=ENV, capture_output=True, text=True, timeout=timeout)
    return p.returncode, (p.stdout + p.stderr)
def scratch(with_patch):
    d = tempfile.mkdtemp(prefix="spdxseed.")
    sh(f"rsync -a --exclude .git --exclude OUT --exclude PROPERTY.txt --exclude INSTRUCTIONS.md /repo/ {d}/repo/")
    if with_patch:
        rc, out = sh(f"patch -p1 -s --no-backup-if-mismatch -i {src}/patch.diff", cwd=f"{d}/repo")
        if rc != 0:
            shutil.rmtree(d); raise SystemExit("patch does not apply: " + out)
    return d
meta = {"seed": sid, "target_property": target, "source": "independent sub-agent given only the property text and a scratch worktree"}
ran = []
# 1. with patch: build, vet, tests
d = scratch(True)
rc, out = sh("go build ./... && go vet ./...", cwd=f"{d}/repo"); ran.append(("go build ./... && go vet ./... (patched)", rc))
meta["builds"] = rc == 0
rc, out = sh("go test -count=1 ./...", cwd=f"{d}/repo"); ran.append(("go test -count=1 ./... (patched, existing suite)", rc))
meta["existing_tests_pass"] = rc == 0
demo = None
for cand in ("demo_test.go",):
    if os.path.exists(f"{src}/{cand}"): demo = cand
pkgline = open(f"{src}/{demo}").read().split("\n")
pkg = [l for l in pkgline if l.startswith("package ")][0].split()[1]
dest = {"spdxexp": "spdxexp", "spdxlicenses": "spdxexp/spdxlicenses", "main": "cmd", "spdxexp_test": "spdxexp"}.get(pkg, "spdxexp")
shutil.copy(f"{src}/{demo}", f"{d}/repo/{dest}/zz_seed_demo_test.go")
race = "-race" if "race" in open(f"{src}/NOTES.md").read().lower() and target == "C13" else ""
rc, out = sh(f"go test {race} -count=1 -run TestSeedDemo ./{dest}/", cwd=f"{d}/repo"); ran.append((f"go test {race} -run TestSeedDemo ./{dest}/ (patched)", rc))
meta["demo_fails_with_patch"] = rc != 0
meta["demo_output_patched"] = out[-800:]
# checks against the patched copy
def run_check(p):
    ev = tempfile.mkdtemp(prefix="spdxseedev.")
    shutil.copy("/verif/known_findings.json", ev)
    rc, out = sh(os.environ.get("SPDXVERIF_BIN", "/verif/bin/spdxverif") + f" check -property {p} -repo {d}/repo -verif {ev}", timeout=2400)
    shutil.rmtree(ev)
    first = [l.strip() for l in out.split("\n") if l.strip().startswith(("violated", "undecided"))]
    return p, rc, first[:3]
os.remove(f"{d}/repo/{dest}/zz_seed_demo_test.go")
res = {}
with cf.ThreadPoolExecutor(max_workers=6) as ex:
    for p, rc, first in ex.map(run_check, props):
        res[p] = {"fired": rc != 0, "first_reports": [f[:300] for f in first]}
shutil.rmtree(d)
# 2. clean tree: demo passes
d = scratch(False)
shutil.copy(f"{src}/{demo}", f"{d}/repo/{dest}/zz_seed_demo_test.go")
rc, out = sh(f"go test {race} -count=1 -run TestSeedDemo ./{dest}/", cwd=f"{d}/repo"); ran.append((f"go test {race} -run TestSeedDemo ./{dest}/ (clean tree)", rc))
meta["demo_passes_without_patch"] = rc == 0
shutil.rmtree(d)
meta["checks"] = res
meta["caught_by"] = sorted(p for p in res if res[p]["fired"])
meta["caught_by_target"] = res.get(target, {}).get("fired", False)
meta["what_i_ran"] = [f"{c} -> exit {r}" for c, r in ran] + [f"bin/spdxverif check -property {p} -repo <scratch copy with patch>" for p in props]
meta["confirmed"] = bool(meta["builds"] and meta["existing_tests_pass"] and meta["demo_fails_with_patch"] and meta["demo_passes_without_patch"])
notes = open(f"{src}/NOTES.md").read()
meta["needs_to_manifest"] = notes[:1500]
out_dir = f"/verif/seeded/{sid}"
if meta["confirmed"]:
    os.makedirs(out_dir, exist_ok=True)
    shutil.copy(f"{src}/patch.diff", out_dir); shutil.copy(f"{src}/{demo}", out_dir); shutil.copy(f"{src}/NOTES.md", out_dir)
    json.dump(meta, open(f"{out_dir}/meta.json", "w"), indent=1)
print(json.dumps({k: meta[k] for k in ("seed", "confirmed", "builds", "existing_tests_pass", "demo_fails_with_patch", "demo_passes_without_patch", "caught_by", "caught_by_target")}))
for p in meta["caught_by"]:
    print("  ", p, res[p]["first_reports"][:1])
