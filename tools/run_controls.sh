#!/bin/bash
# Runs the control corpus: each patch applied to its own scratch copy of /repo, analysed in its own
# process, scratch copy removed at once.   usage: tools/run_controls.sh [filter-regex] [jobs]
V=/verif
filter=${1:-.}
jobs=${2:-6}
one() {
  line="$1"
  patch=$(echo "$line" | cut -f1); kind=$(echo "$line" | cut -f2); props=$(echo "$line" | cut -f3)
  d=$(mktemp -d /tmp/spdxctl.XXXXXX)
  rsync -a --exclude .git /repo/ "$d/repo/"
  if ! (cd "$d/repo" && patch -p1 -s --no-backup-if-mismatch < $V/controls/$patch >/dev/null 2>&1); then
    echo "SKIP  $patch (does not apply)"; rm -rf "$d"; return
  fi
  for p in $(echo "$props" | tr ',' ' '); do
    mkdir -p "$d/ev"; cp $V/known_findings.json "$d/ev/"
    out=$(${SPDXVERIF_BIN:-$V/bin/spdxverif} check -property "$p" -repo "$d/repo" -verif "$d/ev" 2>&1); rc=$?
    nv=$(echo "$out" | grep -c '^VIOLATION')
    if [ "$kind" = pos ]; then
      if [ $rc -ne 0 ] && [ $nv -gt 0 ]; then echo "OK    $patch $p fired ($nv)"; else echo "MISS  $patch $p silent"; fi
    else
      if [ $rc -eq 0 ]; then echo "OK    $patch $p silent"; else echo "FALSE $patch $p raised: $(echo "$out" | grep -m1 -E '^\s+(violated|undecided)' | cut -c1-200)"; fi
    fi
  done
  rm -rf "$d"
}
export -f one; export V
grep -v '^#' $V/controls/expect.tsv | grep -E "$filter" | xargs -d '\n' -P "$jobs" -I{} bash -c 'one "{}"'
