PENDING = "rule set for this property is still under construction in this build session (DESIGN.md section 9 gives the order); not claimed until its checker passes both-way controls"
for i in range(1, 16):
    NA["C%02d" % i] = PENDING

def claim(pid, *a):
    NA.pop(pid, None)
    check(pid, *a)

claim("C11", "other",
  "Exhaustive, exact decision of the table clause (every range entry listed, at one position, families well-shaped, ascending in natural version order, complete for every covered signature) on the constant tables extracted from the compiled getters on every run; the code clause is decided by structural rules. Not a behavioural test: nothing is executed.",
  "Trusts go/ssa lowering of composite literals and the id-shape grammar prefix-version[-variant] stated in DESIGN.md C11; whether natural version order is the legally meaningful one is outside the property.",
  "constant-table extraction from SSA + exhaustive table lint", "DESIGN.md section 3 C11")

claim("C12", "translation_validation",
  "The three generated Go files are validated byte for byte against the translation of cmd/licenses.json and cmd/exceptions.json under the generator's own template, which is extracted statically from the SSA of package cmd on every run; the compiled tables are compared with the JSON projections; all ~740 ids are linted for disjointness, fold-uniqueness and scannability. A stale table, a hand edit, a flipped filter, a changed header or output path all differ. L7: each exported accessor returns a fresh copy, never the slice the lookups read.",
  "Trusts go/ssa, the checker's mirror of encoding/json field matching, and that the generator writes only through os.WriteFile with constant paths (anything else is reported undecided, i.e. as a violation).",
  "static template extraction + translation validation against JSON data", "DESIGN.md section 3 C12")

claim("C13", "proof",
  "Sound whole-program effect analysis over every function reachable from the exported API: the property holds because of what the code does not contain (global state, writes to argument memory, output, nondeterministic constructs, shared results), which a static rule shows for all inputs, histories and schedules. obligations == discharged.",
  "Trusted base: go/ssa + call-graph soundness without reflect/unsafe/cgo (absence checked), the stdlib classification table in analyzer/effects.go, immutability/concurrency-safety of the stdlib objects used, the Go memory model.",
  "effect / taint / freshness analysis over the call graph", "DESIGN.md section 3 C13")

claim("C03", "other",
  "Complete enumeration of panic-capable SSA instructions in all functions reachable from the API; nil dereferences decided by a whole-program abstract interpreter (nil-ness, struct shapes derived from construction sites, trace partitioning, recursive summaries), bounds by linear entailment (Fourier-Motzkin) from dominating conditions, memory versioning, stdlib contracts and Houdini-inferred object invariants / cursor contracts; explicit panics, divisions, type assertions and stdlib callees enumerated against a no-panic table. Every obligation is discharged or reported with file:line and witness. Holds for all inputs because no input value is represented.",
  "Not claimed: stack exhaustion by nesting depth, memory exhaustion (C14). Trusted: go/ssa lowering, the stdlib contract table (regexp, strings, sort, errors, fmt), Go semantics of nil slices/maps and of sort.Slice's index contract.",
  "abstract interpretation (nil-ness/shapes) + linear-inequality entailment with inferred invariants", "DESIGN.md section 3 C03")

claim("C01", "other",
  "Structural necessary conditions of the verdict's correctness, each decided on every run for all inputs: every kind of node contributes on every path of every dispatcher of the expansion (X1, abstract interpretation per node shape), no positional selection or re-slicing of alternative lists (X2), ownership of every append to a node slice (X3), nodes are neither constructed nor mutated by the expansion (X5), the verdict is derived as the formula 'exists alternative, forall term, exists allowed node: pair matches' from the loops and early exits (X4), AND binds tighter than OR and parentheses are transparent by construction of the parser, and no operand is returned alone in place of the joined node except under an identity guard (P1); the allowed nodes are built, sorted and compacted under S1/S3 with an unrewritten canonical text as key (S5).",
  "Does not decide that appendTerms/mergeTerms compute exactly the cross product, nor the pair matcher (C02). Trusted: go/ssa lowering; shape tables are derived from the construction sites of the current tree.",
  "abstract interpretation over node shapes + slice-ownership + loop-to-quantifier summarisation + parser layering", "DESIGN.md section 3 C01")

claim("C06", "other",
  "'No term lost, none invented' along parse -> expand -> flatten -> canonical text -> de-duplicate, decided structurally: the expansion rules shared with C01 (X1, X2, X3, X5), the expansion never filters alternatives or terms (X6), the pipeline is element-wise, total and unconditional (E1), de-duplication keeps first occurrences only (E2), canonical text uses all and only the node's canonical fields (E3), printer constants are scanner keywords (E4), the text is used as assembled — not trimmed, replaced, case-mapped or sliced afterwards, white-space trimming excepted (E5).",
  "The round-trip equalities themselves (a returned string re-parses to the same term; the result satisfies the expression) are value-level and not decided. Trusted: go/ssa lowering.",
  "abstract interpretation + loop-shape recognition + printer/scanner constant agreement", "DESIGN.md section 3 C06")

claim("C07", "other",
  "Sound sufficient condition for set-semantics and monotonicity of the allowed list: independent construction of allowed nodes (S1), only permutation/compaction before use (S3), the allowed nodes occur in the derived verdict formula only as the domain of one positive existential (S2), the caller's list is only read (S4), spacing cannot reach the parser (W1), letter case is canonicalised before any comparison (K0-K3).",
  "S3 follows the node slice through every function it reaches and requires the compaction to drop an element only when its canonical text equals its neighbour's; the letter-case clause is decided by the canonicalisation chain K0-K3 (same rules as C09); the matcher-purity premise of S2 and the quantifier shape of the verdict are checked (X4). S5: the canonical text that serves as sort/compaction key is used as assembled (the printer and the helpers rendering its parts do not trim, replace, case-map or slice it; white-space trimming excepted). Residual not decided: that the assembled parts separate any two different nodes (C06 E3 decides which parts are written).",
  "loop-to-quantifier summarisation with polarity + taint + write-set classification", "DESIGN.md section 3 C07")

claim("C10", "other",
  "Narrow structural claim: the clauses whose failure produced the known shape asymmetries (X1-X4 as in C01), transparency of parentheses and precedence by construction (P1, including: a node constructor or parser function returns one operand alone, after both were parsed, only under a guard of pointer equality or == of canonical texts), spacing non-interference (W1), and agreement of all expansion dispatchers on the callee family per node kind (SIB).",
  "Commutativity, associativity, idempotence, absorption and distribution as algebraic laws of the expansion are NOT decided (relations over unboundedly many pairs of runtime trees).",
  "abstract interpretation + sibling cross-check of dispatchers", "DESIGN.md section 3 C10")

claim("C04", "other",
  "Error discipline decided over every return and every call of the single validity oracle: who may call the scanner/parser (V1), error implies zero result at every return in every analysed context (V2, abstract interpreter), no parse error dropped (V3), the origins of every error an entry point can return are exactly the specified ones (V4), ValidateLicenses is an in-order filter by 'parse fails' (V5), compound allowed entries are rejected before use (V6), no entry point can report success before parse accepted its expression argument (V7).",
  "That parse's accept/reject decision is the SPDX grammar is C05; determinism is C13. V4 compares error origins and their guards with the specified set (helpers expanded down to parse; guards that only say an earlier check did not fire are ignored: which of two errors wins on doubly invalid input is not part of the property), so a new legitimate error condition must be added to the specification table in rules_c04.go.",
  "call-graph who-may-call + abstract interpretation of result tuples + error provenance", "DESIGN.md section 3 C04")

claim("C05", "other",
  "Narrow necessary conditions of 'the accepted language is the SPDX grammar': scanner/parser operator and token-role tables agree (G1, G3), keyword order (G2), every buffer rewrite keeps all unread input and every cursor advance covers only matched text (G4, linear entailment under inferred cursor invariants), acceptance only at end of input (G5), consumption implies error or progress (G6, abstract interpretation with a symbolic cursor), every listed id is readable (G7), the id reader's byte class is exactly the SPDX idstring alphabet [A-Za-z0-9.-] (G10: what a LicenseRef/DocumentRef name may consist of), one ':' per reference atom (G11: the code that runs after a successful ':' probe neither probes for ':' again, nor calls a parser function that can consume ':', nor loops back to the probe), precedence layering and parenthesis transparency (P1).",
  "G8/G8p: one '+' per license atom, decided by evaluating the extracted lookup plan on X++ for every listed id, and the parser's '+' probe is independent of the token's text. W1: parse uses its argument only for the emptiness test and as the scanner's input (no cache or pre-normalisation keyed by a transformed text). G9: no error is recorded by the scanner on a path behind a successful lookup/normalisation (a listed id is never rejected afterwards). Language equality itself is NOT decided (e.g. which interleavings of WITH, ':' are accepted). No recogniser is extracted and run.",
  "writer/reader table agreement + linear entailment on cursor arithmetic + abstract interpretation of the token cursor", "DESIGN.md section 3 C05")

claim("C09", "other",
  "Table clauses exhaustive over all listed ids (fold-uniqueness under the exact relation strings.EqualFold implements; no id has a case variant beginning with a scanner keyword; K0c: the id reader's pattern / byte class admits every listed id whole in all-upper and all-lower case), code clauses by provenance (the lookup folds and returns list spelling; only list spelling reaches tokens and node fields; later comparisons are between canonical strings; K5: behind a successful lookup/normalisation no scanner branch mentions the raw id text; K6: before recognition the raw id is judged only through the folding lookups, constant-suffix tests and '+' probes (the normalisation resolves into the decision list C08 evaluates)).",
  "Operators, reference prefixes and -only/-or-later suffixes are matched case-sensitively by construction and are outside the property. Output casing relies on C06 E3.",
  "exhaustive table lint + provenance of token and node text", "DESIGN.md section 3 C09")

claim("C02", "other",
  "The pair matcher is inlined into one propositional formula over canonical atoms and decided by exhaustive truth tables: role gates (M1), exception gate and its meaning (M2), symmetry under exchange of the two terms (M3), reflexivity (M4); M7: for two LicenseRefs the matcher is exactly 'identical LicenseRef id, DocumentRef both absent or both present and identical' with == on the strings (no case folding or coarser comparison); suffix arithmetic (M5) and the +/no+ cell structure with the direction of 'later' (M6/T7) structurally; the family table the position atoms read is checked exhaustively (T1-T4) together with its readers (T5, T6, T8); X4: Satisfies consults the allowed entries through the two pair matchers only (no index, fast path or side table between a term and an entry).",
  "Atoms (string equalities, position comparisons) are treated as independent propositions apart from the identities x==x, EqualFold(x,x), not(x>x); per-pair outcomes over the ~670 ids are value-level and follow only through the table rules. Known finding T2 (MPL-1.0/MPL-1.1) applies.",
  "symbolic inlining to a propositional formula + exhaustive truth tables + table lint", "DESIGN.md section 3 C02")

claim("C08", "other",
  "The scanner's id-normalisation plan is extracted from the SSA on every run and interpreted over the extracted tables (a finite evaluation of constants, nothing under /repo is executed): for every active id all four spellings are valid (Q1), for every listed id both spelling pairs denote interchangeable nodes (Q2: equal plus flag and equal id or same family and version group), the family lookup strips exactly the suffix the scanner rewrites (Q3). Exhaustive over all ~670 listed ids. T5-T8 (shared with C11): the range lookup records the table's own (family, version group, index) positions of the simplified id, every comparison of positions is under the same-family gate and in the right direction, the table getter returns a fresh literal.",
  "An unrecognised argument transform or guard in normalizeLicense makes the plan undecided (reported as a violation); guards are read off the path condition with boolean helpers inlined. X4 (verdict = exists alternative, forall term, exists allowed entry: matcher(term, entry), matchers write nothing) lifts node-level interchangeability to the verdict; S1/S3 (every allowed entry becomes a node only through parse, the node slice is only permuted/compacted) make the decision list apply to allowed entries as well.",
  "decision-list extraction from SSA + exhaustive evaluation over constant tables", "DESIGN.md section 3 C08")

claim("C14", "other",
  "Narrow necessary conditions for 'no exponential family': no multiplicative recurrence inside a recursive cycle (C1), no recursive result computed twice on one path (C2), no re-traversal of a subtree by two members of one cycle of the resolved call graph (C2b), no left recursion in the token parser (C3), no cursor restore across a recursive production (C5), no allocation inside a recursive cycle of the expansion sized by an unconditional multiple (>= 2x) of an input size or capacity (C6). The cross product in expandAnd/appendTerms violates C1 on the current tree and is a recorded known finding; any other product or a second instance is still reported.",
  "A polynomial bound itself (loop bounds over runtime sizes, allocation volume) is NOT decided; scanner progress per iteration is not decided. Loop-nest degrees are reported as information only.",
  "recurrence-shape analysis over the call graph (product loops x recursive results) + left-recursion check", "DESIGN.md section 3 C14")

claim("C15", "other",
  "Where reported offsets come from and whether the text they index can differ from the caller's string: every offset-bearing message prints cursor + compensation (O1), every rewrite of the scan buffer books exactly the removed bytes (O2, linear entailment), the cited lexeme was read from the restored position (O3), cursor and compensation invariants are inductive (O4), the scanned text is the caller's string (O5), returned errors originate in this call (O6).",
  "Relies on the linear facts proved by the bounds engine (Fourier-Motzkin over inferred invariants); messages are recognised as a constant fragment 'offset %d' / 'offset ' + Itoa(n), directly, through printf-style wrappers or through offset-appending helpers. O5: the scan buffer is the caller's own string along every call chain; O6: every returned error was constructed in this call.",
  "provenance of message operands + linear entailment on cursor/compensation arithmetic", "DESIGN.md section 3 C15")
