PENDING = "rule set for this property is still under construction in this build session (DESIGN.md section 9 gives the order); not claimed until its checker passes both-way controls"
for i in range(1, 16):
    NA["C%02d" % i] = PENDING

def claim(pid, *a):
    NA.pop(pid, None)
    check(pid, *a)

claim("C11", "other",
  "Exhaustive, exact decision of the table clause (every range entry listed, at one position, families well-shaped, ascending in natural version order, complete for every covered signature) on the constant tables extracted from the compiled getters on every run; the code clause is decided by structural rules. Not a behavioural test: nothing is executed.",
  "Trusts go/ssa lowering of composite literals and the id-shape grammar prefix-version[-variant] stated in DESIGN.md C11; whether natural version order is the legally meaningful one is outside the property.",
  "constant-table extraction from SSA + exhaustive table lint", "DESIGN.md section 3 C11")
