PENDING = "rule set for this property is still under construction in this build session (DESIGN.md section 9 gives the order); not claimed until its checker passes both-way controls"
for i in range(1, 16):
    NA["C%02d" % i] = PENDING

def claim(pid, *a):
    NA.pop(pid, None)
    check(pid, *a)

claim("C11", "other",
  "Exhaustive, exact decision of the table clause (every range entry listed, at one position, families well-shaped, ascending in natural version order, complete for every covered signature) on the constant tables extracted from the compiled getters on every run; the code clause is decided by structural rules. Not a behavioural test: nothing is executed.",
  "Trusts go/ssa lowering of composite literals and the id-shape grammar prefix-version[-variant] stated in DESIGN.md C11; whether natural version order is the legally meaningful one is outside the property.",
  "constant-table extraction from SSA + exhaustive table lint", "DESIGN.md section 3 C11")

claim("C12", "translation_validation",
  "The three generated Go files are validated byte for byte against the translation of cmd/licenses.json and cmd/exceptions.json under the generator's own template, which is extracted statically from the SSA of package cmd on every run; the compiled tables are compared with the JSON projections; all ~740 ids are linted for disjointness, fold-uniqueness and scannability. A stale table, a hand edit, a flipped filter, a changed header or output path all differ.",
  "Trusts go/ssa, the checker's mirror of encoding/json field matching, and that the generator writes only through os.WriteFile with constant paths (anything else is reported undecided, i.e. as a violation).",
  "static template extraction + translation validation against JSON data", "DESIGN.md section 3 C12")

claim("C13", "proof",
  "Sound whole-program effect analysis over every function reachable from the exported API: the property holds because of what the code does not contain (global state, writes to argument memory, output, nondeterministic constructs, shared results), which a static rule shows for all inputs, histories and schedules. obligations == discharged.",
  "Trusted base: go/ssa + call-graph soundness without reflect/unsafe/cgo (absence checked), the stdlib classification table in analyzer/effects.go, immutability/concurrency-safety of the stdlib objects used, the Go memory model.",
  "effect / taint / freshness analysis over the call graph", "DESIGN.md section 3 C13")

claim("C03", "other",
  "Complete enumeration of panic-capable SSA instructions in all functions reachable from the API; nil dereferences decided by a whole-program abstract interpreter (nil-ness, struct shapes derived from construction sites, trace partitioning, recursive summaries), bounds by linear entailment (Fourier-Motzkin) from dominating conditions, memory versioning, stdlib contracts and Houdini-inferred object invariants / cursor contracts; explicit panics, divisions, type assertions and stdlib callees enumerated against a no-panic table. Every obligation is discharged or reported with file:line and witness. Holds for all inputs because no input value is represented.",
  "Not claimed: stack exhaustion by nesting depth, memory exhaustion (C14). Trusted: go/ssa lowering, the stdlib contract table (regexp, strings, sort, errors, fmt), Go semantics of nil slices/maps and of sort.Slice's index contract.",
  "abstract interpretation (nil-ness/shapes) + linear-inequality entailment with inferred invariants", "DESIGN.md section 3 C03")
