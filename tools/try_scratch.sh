#!/bin/bash
# usage: try_scratch.sh <patch> <props...>   — apply patch to a scratch copy of /repo (never /repo itself), run checks, remove copy
set -u
patch=$(realpath "$1"); shift
tmp=$(mktemp -d /tmp/tryscratch.XXXXXX)
trap 'rm -rf "$tmp"' EXIT
rsync -a --exclude .git /repo/ "$tmp/repo/"
( cd "$tmp/repo" && patch -p1 -s --no-backup-if-mismatch -i "$patch" ) || { echo "PATCH DOES NOT APPLY"; exit 3; }
mkdir -p "$tmp/ev"; cp /verif/known_findings.json "$tmp/ev/"
for p in "$@"; do
  ${SPDXVERIF_BIN:-/verif/bin/spdxverif} check -property "$p" -tier quick -repo "$tmp/repo" -verif "$tmp/ev" 2>&1 | grep -E "^ *(violated|undecided|OK|VIOLATION|KNOWN|FAIL)" | cut -c1-400
done
