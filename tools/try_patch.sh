#!/bin/bash
# usage: tools/try_patch.sh <patch> <property>...   — apply patch to /repo, run quick checks, revert.
set -u
patch=$(realpath "$1"); shift
cd /repo || exit 2
if ! git diff --quiet; then echo "/repo dirty"; exit 2; fi
git apply "$patch" || { echo "patch does not apply"; exit 2; }
trap 'git -C /repo checkout -- . ; git -C /repo clean -fdq' EXIT
cp /verif/known_findings.json /tmp/verif_scratch_ev/ 2>/dev/null; rc=0
for p in "$@"; do
  out=$(/verif/bin/spdxverif check -property "$p" -verif /tmp/verif_scratch_ev 2>&1); e=$?
  nv=$(echo "$out" | grep -c '^VIOLATION')
  echo "== $p exit=$e violations=$nv"
  echo "$out" | grep -E '^\s+(violated|undecided)' | head -${MAXL:-6}
done
