#!/usr/bin/env python3
"""seed_matrix.py [seed_id...] — re-run all 15 checks (current bin/spdxverif) against every stored seeded change
(/verif/seeded/<id>/patch.diff applied to a scratch copy of /repo, removed afterwards) and update meta.json's
checks / caught_by / caught_by_target. Prints the matrix. /repo itself is never touched."""
import sys, os, subprocess, shutil, tempfile, json, concurrent.futures as cf
ENV = dict(os.environ, GOFLAGS="-mod=mod", GOPROXY="off", GOSUMDB="off", GOTOOLCHAIN="local"); ENV.pop("GOWORK", None)
BIN = os.environ.get("SPDXVERIF_BIN", "/verif/bin/spdxverif")
PROPS = ["C%02d" % i for i in range(1, 16)]
seeds = sys.argv[1:] or sorted(os.listdir("/verif/seeded"))
def sh(cmd, cwd=None):
    p = subprocess.run(cmd, shell=True, cwd=cwd, env=ENV, capture_output=True, text=True, timeout=1800)
    return p.returncode, p.stdout + p.stderr
def one(sid):
    src = f"/verif/seeded/{sid}"
    d = tempfile.mkdtemp(prefix="spdxseed.")
    try:
        sh(f"rsync -a --exclude .git /repo/ {d}/repo/")
        rc, out = sh(f"patch -p1 -s --no-backup-if-mismatch -i {src}/patch.diff", cwd=f"{d}/repo")
        if rc != 0:
            return sid, None
        def chk(p):
            ev = tempfile.mkdtemp(prefix="spdxseedev.")
            shutil.copy("/verif/known_findings.json", ev)
            rc, out = sh(f"{BIN} check -property {p} -repo {d}/repo -verif {ev}")
            shutil.rmtree(ev)
            first = [l.strip() for l in out.split("\n") if l.strip().startswith(("violated", "undecided"))]
            return p, rc, first[:3]
        res = {}
        with cf.ThreadPoolExecutor(max_workers=8) as ex:
            for p, rc, first in ex.map(chk, PROPS):
                res[p] = {"fired": rc != 0, "first_reports": [f[:300] for f in first]}
        return sid, res
    finally:
        shutil.rmtree(d)
with cf.ThreadPoolExecutor(max_workers=2) as ex:
    for sid, res in ex.map(one, seeds):
        if res is None:
            print(sid, "PATCH DOES NOT APPLY"); continue
        mp = f"/verif/seeded/{sid}/meta.json"
        meta = json.load(open(mp))
        meta["checks"] = res
        meta["caught_by"] = sorted(p for p in res if res[p]["fired"])
        meta["caught_by_target"] = res[meta["target_property"]]["fired"]
        json.dump(meta, open(mp, "w"), indent=1)
        print(sid, "target" if meta["caught_by_target"] else "MISSED-BY-TARGET", " ".join(meta["caught_by"]), flush=True)
