#!/usr/bin/env python3
"""mkpatch.py <out.patch> (<file> <old> <new>)...  — make a patch against /repo HEAD by exact replacement (each old must occur once).
Works in a throw-away clone under /tmp; /repo itself is never touched."""
import sys, subprocess, tempfile, shutil
out = sys.argv[1]; args = sys.argv[2:]
assert len(args) % 3 == 0
tmp = tempfile.mkdtemp(prefix="mkpatch.")
try:
    subprocess.check_call(["git", "clone", "-q", "/repo", tmp + "/r"])
    for i in range(0, len(args), 3):
        f, old, new = args[i:i+3]
        p = tmp + "/r/" + f
        s = open(p).read()
        if s.count(old) != 1:
            sys.exit(f"{f}: pattern occurs {s.count(old)} times: {old[:60]!r}")
        open(p, "w").write(s.replace(old, new))
    d = subprocess.check_output(["git", "-C", tmp + "/r", "diff"]).decode()
    open(out, "w").write(d)
finally:
    shutil.rmtree(tmp)
print("wrote", out, len(d.splitlines()), "lines")
