#!/usr/bin/env python3
"""mkpatch.py <out.patch> (<file> <old> <new>)...  — make a patch against /repo HEAD by exact replacement (each old must occur once)."""
import sys, subprocess
out = sys.argv[1]; args = sys.argv[2:]
assert len(args) % 3 == 0
subprocess.check_call(["git", "-C", "/repo", "diff", "--quiet"])
try:
    for i in range(0, len(args), 3):
        f, old, new = args[i:i+3]
        p = "/repo/" + f
        s = open(p).read()
        if s.count(old) != 1:
            sys.exit(f"{f}: pattern occurs {s.count(old)} times: {old[:60]!r}")
        open(p, "w").write(s.replace(old, new))
    subprocess.check_call("cd /repo && gofmt -l . >/dev/null", shell=True)
    d = subprocess.check_output(["git", "-C", "/repo", "diff"]).decode()
    open(out, "w").write(d)
finally:
    subprocess.check_call(["git", "-C", "/repo", "checkout", "--", "."])
print("wrote", out, len(d.splitlines()), "lines")
