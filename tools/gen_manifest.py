#!/usr/bin/env python3
"""Writes /verif/MANIFEST.json from the table below (kept in one place so it stays valid)."""
import json, os
V = os.path.dirname(os.path.dirname(os.path.abspath(__file__)))
SETUP = ("cd /verif/analyzer && env GOFLAGS=-mod=mod GOPROXY=off GOSUMDB=off GOTOOLCHAIN=local GOWORK=off "
         "go build -o /verif/bin/spdxverif .")
BASE = json.load(open("/root/.vp/BASELINE.json"))["cmd"] if os.path.exists("/root/.vp/BASELINE.json") else "cd /repo && go test -count=1 ./..."

CHECKS = {}
NA = {}

def check(pid, cat, text, note, technique, design):
    CHECKS[pid] = dict(property_id=pid,
        quick_cmd=f"bin/spdxverif check -property {pid} -tier quick",
        thorough_cmd=f"bin/spdxverif check -property {pid} -tier thorough",
        evidence_file=f"evidence/{pid}.json",
        replay_cmd_template="bin/spdxverif explain {path}",
        engine="spdxverif",
        level_claimed=dict(category=cat, text=text, design_ref=design),
        level_note=note, technique=technique)

exec(open(os.path.join(V, "tools", "manifest_table.py")).read())

m = dict(version=1, setup_cmd=SETUP,
    hooks=dict(guard="verif", enable="none - the checks are static analyses of /repo's working tree as it is; no instrumentation or hook exists in /repo",
               baseline_off_cmd=BASE, source_commits=[], add_only=True),
    engines=[dict(name="spdxverif", path="analyzer/", serves_properties=sorted(CHECKS),
                  kind_free_text="repository-specific static analyser over go/packages + go/ssa (x/tools v0.29.0): constant-table extraction, abstract interpretation (roles/nilness/error typestate), linear bounds entailment, effect/taint, slice ownership, provenance; nothing under /repo is executed")],
    checks=[CHECKS[k] for k in sorted(CHECKS)],
    not_applicable=[dict(property_id=k, reason=NA[k]) for k in sorted(NA)],
    notes="fix: commits in /repo: e355e69 ed82b21 f738bc3 ec0bfda 51dd8db adde3f9 632fc87 (see known_findings.json, DESIGN.md sections 8 and 11.3). Known findings: T2 MPL-1.0/MPL-1.1 (C11, C02); C1 expandAnd product of two recursive expansions (C14). Known imprecision (behaviour-preserving refactorings on which a check still alarms): controls/known_imprecision.tsv.")
json.dump(m, open(os.path.join(V, "MANIFEST.json"), "w"), indent=1)
print("checks:", sorted(CHECKS), "n/a:", sorted(NA))
