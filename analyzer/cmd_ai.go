package main

import (
	"fmt"
	"sort"
)

func cmdAI(args []string) int {
	repo := "/repo"
	if len(args) > 0 {
		repo = args[0]
	}
	p, err := Load(repo, Config{}, "vta")
	if err != nil {
		fmt.Println("load:", err)
		return 1
	}
	eng := RunEngine(p)
	eng.dumpRunCounts()
	fmt.Println("rounds:", eng.rounds, "runs:", eng.runs, "syms:", len(eng.symName), "objs:", len(eng.objName))
	var ts []string
	for t := range eng.shapeTab {
		ts = append(ts, t)
	}
	sort.Strings(ts)
	for _, t := range ts {
		fmt.Println("shapes of", t)
		for i, s := range eng.shapeTab[t] {
			fmt.Printf("  [%d] %s\n", i, s.key)
		}
	}
	for f := range eng.rec {
		fmt.Println("recursive:", p.shortKey(f), "entry:", eng.entry[f])
		for _, o := range eng.summ[f] {
			fmt.Println("    outcome:", o.key)
		}
	}
	var bad []*DerefRec
	n := 0
	for _, r := range eng.derefs {
		n++
		if r.Bad > 0 {
			bad = append(bad, r)
		}
	}
	sort.Slice(bad, func(i, j int) bool { return p.pos(bad[i].Instr.Pos()) < p.pos(bad[j].Instr.Pos()) })
	fmt.Println("deref obligations:", n, "bad:", len(bad))
	for _, r := range bad {
		fmt.Printf("  %s %s: %s (%d/%d visits)\n", p.pos(r.Instr.Pos()), p.shortKey(r.Fn), r.Witness, r.Bad, r.Visits)
	}
	for _, f := range p.RList {
		if eng.fnVisits[f] == 0 {
			fmt.Println("never analysed:", p.shortKey(f))
		}
	}
	var ns []string
	for n := range eng.notes {
		ns = append(ns, n)
	}
	sort.Strings(ns)
	for _, n := range ns {
		fmt.Println("note:", n)
	}
	return 0
}
