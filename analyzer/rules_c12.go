package main

import (
	"bytes"
	"encoding/json"
	"fmt"
	"go/constant"
	"go/token"
	"go/types"
	"os"
	"path/filepath"
	"reflect"
	"regexp"
	"regexp/syntax"
	"sort"
	"strconv"
	"strings"

	"golang.org/x/tools/go/ssa"
	"golang.org/x/tools/go/ssa/ssautil"
)

// ---------------------------------------------------------------------------------------------
// L1 — generator model extraction from the SSA of package cmd.

type strPart struct {
	Const string
	Elem  ssa.Value // the list a range element is taken from (nil for constants)
}

type projection struct {
	JSONFile    string
	ListField   string // JSON name of the list field in the decoded document
	ElemField   string // JSON name of the string field appended
	FilterField string // JSON name of the bool field tested ("" = unfiltered)
	FilterWant  bool
}

func (pr projection) String() string {
	s := fmt.Sprintf("%s: %s[].%s", pr.JSONFile, pr.ListField, pr.ElemField)
	if pr.FilterField != "" {
		s += fmt.Sprintf(" where %s == %v", pr.FilterField, pr.FilterWant)
	}
	return s
}

type tmplPart struct {
	Const string
	Rep   *tmplRepeat
}

type tmplRepeat struct {
	Proj      projection
	Pre, Post string
}

type genArtefact struct {
	Path  string // as written in the generator (relative to cmd/)
	Parts []tmplPart
	Pos   token.Pos
	Fn    *ssa.Function
}

func (g genArtefact) describe() string {
	var b strings.Builder
	for _, p := range g.Parts {
		if p.Rep != nil {
			fmt.Fprintf(&b, "{for id in %s: %q id %q}", p.Rep.Proj, p.Rep.Pre, p.Rep.Post)
		} else {
			fmt.Fprintf(&b, "Const(%d bytes)", len(p.Const))
		}
		b.WriteString(" ")
	}
	return strings.TrimSpace(b.String())
}

type genModel struct {
	p *Prog
	// bind: parameters of a writing helper bound to the arguments of the call site under analysis
	bind      map[*ssa.Parameter]ssa.Value
	listDepth int
	strDepth  int
}

// deref replaces a bound parameter by the caller's argument.
func (g *genModel) deref(v ssa.Value) ssa.Value {
	for i := 0; i < 8; i++ {
		prm, ok := v.(*ssa.Parameter)
		if !ok {
			return v
		}
		a, ok := g.bind[prm]
		if !ok {
			return v
		}
		v = a
	}
	return v
}

func constString(v ssa.Value) (string, bool) {
	c, ok := v.(*ssa.Const)
	if !ok || c.Value == nil || c.Value.Kind() != constant.String {
		return "", false
	}
	return constant.StringVal(c.Value), true
}

// strExpr resolves a string-typed value into constant and range-element parts.
func (g *genModel) strExpr(v ssa.Value) ([]strPart, error) {
	v = g.deref(v)
	if s, ok := constString(v); ok {
		return []strPart{{Const: s}}, nil
	}
	switch v := v.(type) {
	case *ssa.BinOp:
		if v.Op == token.ADD {
			a, err := g.strExpr(v.X)
			if err != nil {
				return nil, err
			}
			b, err := g.strExpr(v.Y)
			if err != nil {
				return nil, err
			}
			return append(a, b...), nil
		}
	case *ssa.UnOp:
		if v.Op == token.MUL {
			if ia, ok := v.X.(*ssa.IndexAddr); ok {
				if err := isRangeIndexOf(ia.Index, ia.X); err != nil {
					return nil, fmt.Errorf("%s: %v", g.p.pos(v.Pos()), err)
				}
				return []strPart{{Elem: ia.X}}, nil
			}
		}
	case *ssa.Field:
		// a field of a descriptor struct handed to the writing helper by value
		if fv, ok := g.structFieldValue(v.X, v.Field, 0); ok {
			return g.strExpr(fv)
		}
	case *ssa.Call:
		// a string-valued helper with one return (a descriptor's path()): what it returns, with its parameters
		// bound to this call's arguments
		if h := v.Call.StaticCallee(); h != nil && g.p.InModule(h) && len(h.Blocks) > 0 && g.strDepth < 4 && h.Signature.Results().Len() == 1 {
			var rets []ssa.Value
			for _, b := range h.Blocks {
				if ret, ok := b.Instrs[len(b.Instrs)-1].(*ssa.Return); ok && len(ret.Results) == 1 {
					rets = append(rets, ret.Results[0])
				}
			}
			if len(rets) == 1 {
				if g.bind == nil {
					g.bind = map[*ssa.Parameter]ssa.Value{}
				}
				var added []*ssa.Parameter
				for i, prm := range h.Params {
					if i < len(v.Call.Args) {
						if _, had := g.bind[prm]; !had {
							g.bind[prm] = v.Call.Args[i]
							added = append(added, prm)
						}
					}
				}
				g.strDepth++
				ps, err := g.strExpr(rets[0])
				g.strDepth--
				for _, prm := range added {
					delete(g.bind, prm)
				}
				return ps, err
			}
		}
	case *ssa.Phi:
		// range over value (for _, id := range ids) may appear as a load; other phis are not supported
	}
	if ld, ok := v.(*ssa.UnOp); ok && ld.Op == token.MUL {
		if fa, ok := ld.X.(*ssa.FieldAddr); ok {
			if fv, ok := g.structFieldValue(fa.X, fa.Field, 0); ok {
				return g.strExpr(fv)
			}
		}
	}
	return nil, fmt.Errorf("%s: string expression %s is not built from constants and range elements", g.p.pos(v.Pos()), v)
}

// isRangeIndexOf checks that idx is the induction variable of a full forward range over list:
// idx = phi(-1, idx) + 1 and the loop condition is idx < len(list).
// sameSlotValue: a and b are the same SSA value, or both are loads of one local cell that is stored exactly
// once (a variable captured by a closure is spilled to such a cell and re-loaded at every use).
func sameSlotValue(a, b ssa.Value) bool {
	if a == b {
		return true
	}
	la, ok1 := a.(*ssa.UnOp)
	lb, ok2 := b.(*ssa.UnOp)
	if !ok1 || !ok2 || la.Op != token.MUL || lb.Op != token.MUL {
		return false
	}
	// the same element of the same list, re-read (ranges[i] written out twice) in a function that writes no
	// element of that type and calls nothing but len/cap
	if ia, ok := la.X.(*ssa.IndexAddr); ok {
		ib, ok := lb.X.(*ssa.IndexAddr)
		if !ok || ia.Index != ib.Index || !sameSlotValue(ia.X, ib.X) && ia.X != ib.X || la.Parent() == nil || la.Parent() != lb.Parent() {
			return false
		}
		et := ia.Type().Underlying().(*types.Pointer).Elem()
		for _, blk := range la.Parent().Blocks {
			for _, in := range blk.Instrs {
				switch t := in.(type) {
				case *ssa.Store:
					if sa, ok := t.Addr.(*ssa.IndexAddr); ok && types.Identical(sa.Type().Underlying().(*types.Pointer).Elem(), et) {
						return false
					}
				case ssa.CallInstruction:
					if bi, ok := t.Common().Value.(*ssa.Builtin); !ok || (bi.Name() != "len" && bi.Name() != "cap") {
						return false
					}
				}
			}
		}
		return true
	}
	if la.X != lb.X {
		return false
	}
	al, ok := la.X.(*ssa.Alloc)
	if !ok {
		return false
	}
	stores := 0
	for _, ref := range *al.Referrers() {
		switch ref := ref.(type) {
		case *ssa.Store:
			if ref.Addr == ssa.Value(al) {
				stores++
			} else {
				return false
			}
		case *ssa.UnOp, *ssa.DebugRef:
		case *ssa.MakeClosure:
			// the closure must not write the cell
			fn, _ := ref.Fn.(*ssa.Function)
			if fn == nil {
				return false
			}
			for i, bnd := range ref.Bindings {
				if bnd != ssa.Value(al) || i >= len(fn.FreeVars) {
					continue
				}
				for _, r2 := range *fn.FreeVars[i].Referrers() {
					switch r2.(type) {
					case *ssa.UnOp, *ssa.DebugRef:
					default:
						return false
					}
				}
			}
		default:
			return false
		}
	}
	return stores == 1
}

func isRangeIndexOf(idx ssa.Value, list ssa.Value) error {
	// the classic form: for i := 0; i < len(list); i++ — i is a phi(0, i+1) tested against len(list) in
	// its own block
	if phi, ok := idx.(*ssa.Phi); ok && len(phi.Edges) == 2 {
		var step *ssa.BinOp
		zero := false
		for _, e := range phi.Edges {
			if c, ok := e.(*ssa.Const); ok && c.Value != nil && c.Int64() == 0 {
				zero = true
			}
			if bo, ok := e.(*ssa.BinOp); ok && bo.Op == token.ADD && bo.X == ssa.Value(phi) {
				if one, ok := bo.Y.(*ssa.Const); ok && one.Value != nil && one.Int64() == 1 {
					step = bo
				}
			}
		}
		if zero && step != nil {
			blk := phi.Block()
			if ifi, ok := blk.Instrs[len(blk.Instrs)-1].(*ssa.If); ok {
				if cmp, ok := ifi.Cond.(*ssa.BinOp); ok && cmp.Op == token.LSS && cmp.X == ssa.Value(phi) {
					if ln, ok := cmp.Y.(*ssa.Call); ok {
						if b, ok := ln.Call.Value.(*ssa.Builtin); ok && b.Name() == "len" && sameSlotValue(ln.Call.Args[0], list) {
							// the step must be the only other definition reaching the header: no extra updates of i
							return nil
						}
					}
				}
			}
		}
	}
	add, ok := idx.(*ssa.BinOp)
	if !ok || add.Op != token.ADD {
		return fmt.Errorf("index %s is not a range induction variable", idx)
	}
	one, ok := add.Y.(*ssa.Const)
	if !ok || one.Int64() != 1 {
		return fmt.Errorf("index step is not 1")
	}
	phi, ok := add.X.(*ssa.Phi)
	if !ok {
		return fmt.Errorf("index %s is not a range induction variable", idx)
	}
	sawInit := false
	for _, e := range phi.Edges {
		if c, ok := e.(*ssa.Const); ok && c.Int64() == -1 {
			sawInit = true
			continue
		}
		if e != add {
			return fmt.Errorf("range index has an extra update")
		}
	}
	if !sawInit {
		return fmt.Errorf("range index does not start at the first element")
	}
	// loop condition
	blk := phi.Block()
	ifi, ok := blk.Instrs[len(blk.Instrs)-1].(*ssa.If)
	if !ok {
		return fmt.Errorf("range header without condition")
	}
	cmp, ok := ifi.Cond.(*ssa.BinOp)
	if !ok || cmp.Op != token.LSS || cmp.X != add {
		return fmt.Errorf("loop condition is not index < len(list)")
	}
	if k, ok := cmp.Y.(*ssa.Const); ok && list != nil {
		// range over an array: the bound is the array's length
		tt := list.Type().Underlying()
		if pt, ok := tt.(*types.Pointer); ok {
			tt = pt.Elem().Underlying()
		}
		if at, ok := tt.(*types.Array); ok && k.Value != nil && k.Int64() == at.Len() {
			return nil
		}
		return fmt.Errorf("loop bound is a constant other than the array's length")
	}
	ln, ok := cmp.Y.(*ssa.Call)
	if !ok {
		return fmt.Errorf("loop bound is not len(list)")
	}
	if b, ok := ln.Call.Value.(*ssa.Builtin); !ok || b.Name() != "len" || !sameSlotValue(ln.Call.Args[0], list) {
		return fmt.Errorf("loop bound is not len of the ranged list")
	}
	return nil
}

// structFieldValue: the value stored into field #field of the struct x denotes (x: a struct value or a
// pointer to one), when x is a local literal written once per field — possibly reached through bound
// parameters and by-value copies.
func (g *genModel) structFieldValue(x ssa.Value, field int, d int) (ssa.Value, bool) {
	if d > 8 {
		return nil, false
	}
	x = g.deref(x)
	switch t := x.(type) {
	case *ssa.UnOp:
		if t.Op == token.MUL {
			return g.structFieldValue(t.X, field, d+1) // the struct a pointer points to
		}
	case *ssa.Global:
		return globalStructField(t, field)
	case *ssa.Alloc:
		var whole ssa.Value
		nWhole := 0
		var fv ssa.Value
		nField := 0
		for _, r := range *t.Referrers() {
			switch r := r.(type) {
			case *ssa.Store:
				if r.Addr == ssa.Value(t) {
					whole = r.Val
					nWhole++
				}
			case *ssa.FieldAddr:
				for _, rr := range *r.Referrers() {
					if st, ok := rr.(*ssa.Store); ok && st.Addr == ssa.Value(r) {
						if r.Field == field {
							fv = st.Val
							nField++
						}
					}
				}
			}
		}
		switch {
		case nWhole == 1 && nField == 0:
			return g.structFieldValue(whole, field, d+1) // a by-value copy (a spilled parameter)
		case nWhole == 0 && nField == 1:
			return fv, true
		}
	}
	return nil, false
}

// globalStructField: the value of field #field of a package-level struct variable that is written only by its
// initialiser (one store per field, in the package's init) and otherwise only read.
func globalStructField(g *ssa.Global, field int) (ssa.Value, bool) {
	if g.Pkg == nil {
		return nil, false
	}
	if _, ok := g.Type().Underlying().(*types.Pointer).Elem().Underlying().(*types.Struct); !ok {
		return nil, false
	}
	var fv ssa.Value
	n := 0
	for f := range ssautil.AllFunctions(g.Pkg.Prog) {
		if !(f.Pkg == g.Pkg || (f.Parent() != nil && f.Parent().Pkg == g.Pkg)) {
			continue
		}
		for _, b := range f.Blocks {
			for _, in := range b.Instrs {
				for _, op := range in.Operands(nil) {
					if op == nil || *op != ssa.Value(g) {
						continue
					}
					switch t := in.(type) {
					case *ssa.UnOp:
						if t.Op != token.MUL {
							return nil, false
						}
					case *ssa.FieldAddr:
						for _, rr := range *t.Referrers() {
							switch x := rr.(type) {
							case *ssa.Store:
								if x.Addr != ssa.Value(t) || f.Name() != "init" || f.Parent() != nil {
									return nil, false
								}
								if t.Field == field {
									fv = x.Val
									n++
								}
							case *ssa.UnOp:
								if x.Op != token.MUL {
									return nil, false
								}
							case *ssa.DebugRef:
							default:
								return nil, false
							}
						}
					case *ssa.DebugRef:
					default:
						return nil, false // stored whole, address passed on: not followed
					}
				}
			}
		}
	}
	if n == 1 {
		return fv, true
	}
	return nil, false
}

// builderExpr resolves what a local strings.Builder / bytes.Buffer holds when `end` (its String / Bytes
// call) runs: the writes that dominate `end`, in order, and range loops whose single body block writes.
func (g *genModel) builderExpr(bld *ssa.Alloc, end *ssa.Call) ([]tmplPart, error) {
	type emit struct {
		call *ssa.Call
		arg  ssa.Value
		byt  bool
	}
	var emits []emit
	fmtArgs := map[*ssa.Call][]strPart{} // fmt.Fprintf(&b, "const format", args…) expanded
	for _, r := range *bld.Referrers() {
		if mi, isMI := r.(*ssa.MakeInterface); isMI {
			// the builder as an io.Writer: fmt.Fprintf(&b, format, args…) with a constant format of %s / %[n]s verbs
			for _, rr := range *mi.Referrers() {
				fc, ok := rr.(*ssa.Call)
				if !ok {
					if _, isDbg := rr.(*ssa.DebugRef); isDbg {
						continue
					}
					return nil, fmt.Errorf("%s: the builder is used as a writer in a way the template extraction does not model", g.p.pos(rr.Pos()))
				}
				callee := fc.Call.StaticCallee()
				if callee == nil || callee.String() != "fmt.Fprintf" || len(fc.Call.Args) != 3 || fc.Call.Args[0] != ssa.Value(mi) {
					return nil, fmt.Errorf("%s: the builder is handed to a writer function other than fmt.Fprintf", g.p.pos(fc.Pos()))
				}
				parts, err := g.fprintfParts(fc)
				if err != nil {
					return nil, err
				}
				fmtArgs[fc] = parts
				emits = append(emits, emit{fc, nil, false})
			}
			continue
		}
		c, ok := r.(*ssa.Call)
		if !ok {
			if _, isDbg := r.(*ssa.DebugRef); isDbg {
				continue
			}
			return nil, fmt.Errorf("%s: the builder is used in a way the template extraction does not model (%T)", g.p.pos(r.Pos()), r)
		}
		callee := c.Call.StaticCallee()
		if callee == nil || len(c.Call.Args) == 0 || c.Call.Args[0] != ssa.Value(bld) {
			return nil, fmt.Errorf("%s: the builder is handed to another function", g.p.pos(c.Pos()))
		}
		switch callee.String() {
		case "(*strings.Builder).WriteString", "(*bytes.Buffer).WriteString":
			emits = append(emits, emit{c, c.Call.Args[1], false})
		case "(*strings.Builder).WriteByte", "(*bytes.Buffer).WriteByte", "(*strings.Builder).WriteRune", "(*bytes.Buffer).WriteRune":
			emits = append(emits, emit{c, c.Call.Args[1], true})
		case "(*strings.Builder).String", "(*bytes.Buffer).String", "(*bytes.Buffer).Bytes", "(*strings.Builder).Len", "(*bytes.Buffer).Len", "(*strings.Builder).Grow", "(*bytes.Buffer).Grow":
		default:
			return nil, fmt.Errorf("%s: %s on the builder is not modelled", g.p.pos(c.Pos()), callee)
		}
	}
	partsOf := func(e emit) ([]strPart, error) {
		if ps, ok := fmtArgs[e.call]; ok {
			return ps, nil
		}
		if e.byt {
			if k, ok := g.deref(e.arg).(*ssa.Const); ok && k.Value != nil && k.Value.Kind() == constant.Int {
				return []strPart{{Const: string(rune(k.Int64()))}}, nil
			}
			return nil, fmt.Errorf("%s: a non-constant character is written", g.p.pos(e.call.Pos()))
		}
		return g.strExpr(e.arg)
	}
	// order: blocks that dominate the end, by dominance; a loop is placed at its header
	type item struct {
		blk  *ssa.BasicBlock
		ord  int
		part []tmplPart
	}
	var items []item
	byBlock := map[*ssa.BasicBlock][]emit{}
	for _, e := range emits {
		byBlock[e.call.Block()] = append(byBlock[e.call.Block()], e)
	}
	endBlk := end.Block()
	for blk, es := range byBlock {
		sort.Slice(es, func(i, j int) bool { return blockOrder(es[i].call) < blockOrder(es[j].call) })
		inLoop := len(blk.Succs) == 1 && isLoopHeader(blk.Succs[0]) && len(blk.Preds) == 1 && blk.Preds[0] == blk.Succs[0]
		if !inLoop {
			if !(blk == endBlk || blk.Dominates(endBlk)) {
				return nil, fmt.Errorf("%s: a write to the builder is conditional", g.p.pos(es[0].call.Pos()))
			}
			var ps []tmplPart
			for _, e := range es {
				if blk == endBlk && blockOrder(e.call) > blockOrder(end) {
					return nil, fmt.Errorf("%s: a write after the builder was read", g.p.pos(e.call.Pos()))
				}
				sps, err := partsOf(e)
				if err != nil {
					return nil, err
				}
				for _, sp := range sps {
					if sp.Elem != nil {
						return nil, fmt.Errorf("%s: range element used outside its loop", g.p.pos(e.call.Pos()))
					}
					ps = append(ps, tmplPart{Const: sp.Const})
				}
			}
			items = append(items, item{blk, 0, ps})
			continue
		}
		hdr := blk.Succs[0]
		if !hdr.Dominates(endBlk) {
			return nil, fmt.Errorf("%s: the emitting loop is conditional", g.p.pos(es[0].call.Pos()))
		}
		rep := &tmplRepeat{}
		var list ssa.Value
		for _, e := range es {
			sps, err := partsOf(e)
			if err != nil {
				return nil, err
			}
			for _, sp := range sps {
				if sp.Elem != nil {
					if list != nil {
						return nil, fmt.Errorf("%s: element emitted twice per iteration", g.p.pos(e.call.Pos()))
					}
					list = sp.Elem
					continue
				}
				if list == nil {
					rep.Pre += sp.Const
				} else {
					rep.Post += sp.Const
				}
			}
		}
		if list == nil {
			return nil, fmt.Errorf("%s: loop emits no element", g.p.pos(es[0].call.Pos()))
		}
		proj, err := g.listExpr(list)
		if err != nil {
			return nil, err
		}
		rep.Proj = *proj
		items = append(items, item{hdr, 0, []tmplPart{{Rep: rep}}})
	}
	// dominance is a total order on blocks that all dominate endBlk
	sort.Slice(items, func(i, j int) bool {
		if items[i].blk == items[j].blk {
			return false
		}
		return items[i].blk.Dominates(items[j].blk)
	})
	var out []tmplPart
	for _, it := range items {
		out = append(out, it.part...)
	}
	return out, nil
}

// fprintfParts expands fmt.Fprintf(w, format, args…): the format must be a constant using only %s, %v,
// %[n]s, %[n]v and %%; every argument must be a string the template can express.
func (g *genModel) fprintfParts(fc *ssa.Call) ([]strPart, error) {
	format, ok := constString(g.deref(fc.Call.Args[1]))
	if !ok {
		return nil, fmt.Errorf("%s: Fprintf with a non-constant format", g.p.pos(fc.Pos()))
	}
	// the variadic arguments: a slice of a local [n]any whose slots hold MakeInterface(string)
	var args [][]strPart
	switch va := fc.Call.Args[2].(type) {
	case *ssa.Const:
		if !va.IsNil() {
			return nil, fmt.Errorf("%s: Fprintf arguments not understood", g.p.pos(fc.Pos()))
		}
	case *ssa.Slice:
		al, ok := va.X.(*ssa.Alloc)
		if !ok {
			return nil, fmt.Errorf("%s: Fprintf arguments are not a literal list", g.p.pos(fc.Pos()))
		}
		at, ok := al.Type().Underlying().(*types.Pointer).Elem().Underlying().(*types.Array)
		if !ok {
			return nil, fmt.Errorf("%s: Fprintf arguments are not a literal list", g.p.pos(fc.Pos()))
		}
		args = make([][]strPart, int(at.Len()))
		for _, r := range *al.Referrers() {
			ia, ok := r.(*ssa.IndexAddr)
			if !ok {
				continue
			}
			k, ok := ia.Index.(*ssa.Const)
			if !ok {
				return nil, fmt.Errorf("%s: Fprintf arguments are not a literal list", g.p.pos(fc.Pos()))
			}
			for _, rr := range *ia.Referrers() {
				st, ok := rr.(*ssa.Store)
				if !ok || st.Addr != ssa.Value(ia) {
					continue
				}
				mi, ok := st.Val.(*ssa.MakeInterface)
				if !ok || !isStringType(mi.X.Type()) {
					return nil, fmt.Errorf("%s: a Fprintf argument is not a string", g.p.pos(fc.Pos()))
				}
				ps, err := g.strExpr(mi.X)
				if err != nil {
					return nil, err
				}
				args[int(k.Int64())] = ps
			}
		}
	default:
		return nil, fmt.Errorf("%s: Fprintf arguments not understood", g.p.pos(fc.Pos()))
	}
	var out []strPart
	lit := ""
	flush := func() {
		if lit != "" {
			out = append(out, strPart{Const: lit})
			lit = ""
		}
	}
	next := 0
	for i := 0; i < len(format); i++ {
		ch := format[i]
		if ch != '%' {
			lit += string(ch)
			continue
		}
		i++
		if i >= len(format) {
			return nil, fmt.Errorf("%s: Fprintf format ends in %%", g.p.pos(fc.Pos()))
		}
		if format[i] == '%' {
			lit += "%"
			continue
		}
		idx := next
		if format[i] == '[' {
			j := strings.IndexByte(format[i:], ']')
			if j < 0 {
				return nil, fmt.Errorf("%s: malformed argument index in Fprintf format", g.p.pos(fc.Pos()))
			}
			n, err := strconv.Atoi(format[i+1 : i+j])
			if err != nil || n < 1 {
				return nil, fmt.Errorf("%s: malformed argument index in Fprintf format", g.p.pos(fc.Pos()))
			}
			idx = n - 1
			i += j + 1
			if i >= len(format) {
				return nil, fmt.Errorf("%s: Fprintf format ends in an argument index", g.p.pos(fc.Pos()))
			}
		}
		if format[i] != 's' && format[i] != 'v' {
			return nil, fmt.Errorf("%s: Fprintf verb %%%c is not modelled", g.p.pos(fc.Pos()), format[i])
		}
		if idx >= len(args) || args[idx] == nil {
			return nil, fmt.Errorf("%s: Fprintf verb refers to a missing argument", g.p.pos(fc.Pos()))
		}
		flush()
		out = append(out, args[idx]...)
		next = idx + 1
	}
	flush()
	return out, nil
}

// bytesExpr resolves a []byte value into a template.
func (g *genModel) bytesExpr(v ssa.Value, depth int) ([]tmplPart, error) {
	if depth > 64 {
		return nil, fmt.Errorf("template too deep")
	}
	v = g.deref(v)
	switch v := v.(type) {
	case *ssa.Convert:
		if s, ok := constString(g.deref(v.X)); ok {
			return []tmplPart{{Const: s}}, nil
		}
		// []byte(builder.String())
		if c, ok := g.deref(v.X).(*ssa.Call); ok && c.Call.StaticCallee() != nil && len(c.Call.Args) == 1 {
			if n := c.Call.StaticCallee().String(); n == "(*strings.Builder).String" || n == "(*bytes.Buffer).String" {
				if bld, ok := c.Call.Args[0].(*ssa.Alloc); ok {
					return g.builderExpr(bld, c)
				}
			}
		}
		// []byte(strings.Join(lines, "")) of a list of pieces built by appends
		if c, ok := g.deref(v.X).(*ssa.Call); ok && c.Call.StaticCallee() != nil && c.Call.StaticCallee().String() == "strings.Join" && len(c.Call.Args) == 2 {
			if sep, ok := constString(g.deref(c.Call.Args[1])); ok && sep == "" {
				return g.bytesExpr(c.Call.Args[0], depth+1)
			}
			return nil, fmt.Errorf("%s: strings.Join with a separator is not modelled", g.p.pos(c.Pos()))
		}
		// []byte(a + b + …) of constants and descriptor fields
		if sps, err := g.strExpr(v.X); err == nil {
			var out []tmplPart
			for _, sp := range sps {
				if sp.Elem != nil {
					return nil, fmt.Errorf("%s: range element used outside its loop", g.p.pos(v.Pos()))
				}
				out = append(out, tmplPart{Const: sp.Const})
			}
			return out, nil
		}
	case *ssa.Call:
		if callee := v.Call.StaticCallee(); callee != nil && callee.String() == "(*bytes.Buffer).Bytes" && len(v.Call.Args) == 1 {
			if bld, ok := v.Call.Args[0].(*ssa.Alloc); ok {
				return g.builderExpr(bld, v)
			}
		}
		if callee := v.Call.StaticCallee(); callee != nil && g.p.InModule(callee) && len(callee.Blocks) > 0 && depth < 8 {
			// a rendering helper: its single result, with its parameters bound to this call's arguments
			var rets []ssa.Value
			for _, b := range callee.Blocks {
				if ret, ok := b.Instrs[len(b.Instrs)-1].(*ssa.Return); ok && len(ret.Results) >= 1 {
					rets = append(rets, ret.Results[0])
				}
			}
			if len(rets) == 1 {
				if g.bind == nil {
					g.bind = map[*ssa.Parameter]ssa.Value{}
				}
				var added []*ssa.Parameter
				for i, prm := range callee.Params {
					if i < len(v.Call.Args) {
						if _, had := g.bind[prm]; !had {
							g.bind[prm] = v.Call.Args[i]
							added = append(added, prm)
						}
					}
				}
				parts, err := g.bytesExpr(rets[0], depth+1)
				for _, prm := range added {
					delete(g.bind, prm)
				}
				return parts, err
			}
		}
		if b, ok := v.Call.Value.(*ssa.Builtin); ok && b.Name() == "append" && len(v.Call.Args) == 2 {
			head, err := g.bytesExpr(v.Call.Args[0], depth+1)
			if err != nil {
				return nil, err
			}
			parts, err := g.appendedStrParts(v)
			if err != nil {
				return nil, err
			}
			for _, sp := range parts {
				if sp.Elem != nil {
					return nil, fmt.Errorf("%s: range element used outside its loop", g.p.pos(v.Pos()))
				}
				head = append(head, tmplPart{Const: sp.Const})
			}
			return head, nil
		}
	case *ssa.MakeSlice:
		// make([]T, 0, n): nothing written yet
		if k, ok := v.Len.(*ssa.Const); ok && k.Value != nil && k.Int64() == 0 {
			return nil, nil
		}
		return nil, fmt.Errorf("%s: output accumulator starts with a non-zero length", g.p.pos(v.Pos()))
	case *ssa.Const:
		if v.IsNil() {
			return nil, nil
		}
	case *ssa.Phi:
		// loop accumulator: phi(init, append(phi, expr...))
		if len(v.Edges) != 2 {
			return nil, fmt.Errorf("%s: byte accumulator with %d incoming edges", g.p.pos(v.Pos()), len(v.Edges))
		}
		var init ssa.Value
		var step *ssa.Call
		for _, e := range v.Edges {
			if c, ok := e.(*ssa.Call); ok {
				if b, ok := c.Call.Value.(*ssa.Builtin); ok && b.Name() == "append" && c.Call.Args[0] == v {
					step = c
					continue
				}
			}
			init = e
		}
		if init == nil || step == nil {
			return nil, fmt.Errorf("%s: loop-carried bytes are not of the form acc = append(acc, …)", g.p.pos(v.Pos()))
		}
		head, err := g.bytesExpr(init, depth+1)
		if err != nil {
			return nil, err
		}
		parts, err := g.appendedStrParts(step)
		if err != nil {
			return nil, err
		}
		// unconditional: the append's block is the only loop-body block (header -> body -> header)
		hdr := v.Block()
		body := step.Block()
		if len(body.Succs) != 1 || body.Succs[0] != hdr || len(body.Preds) != 1 || body.Preds[0] != hdr {
			return nil, fmt.Errorf("%s: emission inside the loop is conditional", g.p.pos(step.Pos()))
		}
		rep := &tmplRepeat{}
		var list ssa.Value
		seenElem := false
		for _, sp := range parts {
			if sp.Elem != nil {
				if seenElem {
					return nil, fmt.Errorf("%s: element emitted twice per iteration", g.p.pos(step.Pos()))
				}
				seenElem = true
				list = sp.Elem
				continue
			}
			if !seenElem {
				rep.Pre += sp.Const
			} else {
				rep.Post += sp.Const
			}
		}
		if list == nil {
			return nil, fmt.Errorf("%s: loop emits no element", g.p.pos(step.Pos()))
		}
		// the header's loop must be the range over that list
		proj, err := g.listExpr(list)
		if err != nil {
			return nil, err
		}
		rep.Proj = *proj
		return append(head, tmplPart{Rep: rep}), nil
	}
	return nil, fmt.Errorf("%s: unsupported byte-template construct %T (%s)", g.p.pos(v.Pos()), v, v)
}

// appendedStrParts: the text one append adds to an accumulator of output — the spread string of
// append(bytes, s...), or the pieces of append(lines, a, b) for a list of strings that is joined without a
// separator at the end.
func (g *genModel) appendedStrParts(app *ssa.Call) ([]strPart, error) {
	arg := app.Call.Args[1]
	if isStringType(arg.Type()) {
		return g.strExpr(arg)
	}
	sl, ok := arg.(*ssa.Slice)
	if !ok {
		return g.strExpr(arg)
	}
	al, ok := sl.X.(*ssa.Alloc)
	if !ok {
		return nil, fmt.Errorf("%s: append of a list that is not a literal argument list", g.p.pos(app.Pos()))
	}
	at, ok := al.Type().Underlying().(*types.Pointer).Elem().Underlying().(*types.Array)
	if !ok || !isStringType(at.Elem()) {
		return nil, fmt.Errorf("%s: append of a list that is not a literal argument list", g.p.pos(app.Pos()))
	}
	vals := make([]ssa.Value, at.Len())
	for _, r := range *al.Referrers() {
		ia, ok := r.(*ssa.IndexAddr)
		if !ok {
			continue
		}
		kc, ok := ia.Index.(*ssa.Const)
		if !ok || kc.Value == nil {
			return nil, fmt.Errorf("%s: appended pieces are not stored at constant positions", g.p.pos(app.Pos()))
		}
		for _, rr := range *ia.Referrers() {
			if st, ok := rr.(*ssa.Store); ok && st.Addr == ssa.Value(ia) {
				i := int(kc.Int64())
				if i < 0 || i >= len(vals) || vals[i] != nil {
					return nil, fmt.Errorf("%s: appended piece stored twice", g.p.pos(app.Pos()))
				}
				vals[i] = st.Val
			}
		}
	}
	var out []strPart
	for _, v := range vals {
		if v == nil {
			return nil, fmt.Errorf("%s: appended piece not found", g.p.pos(app.Pos()))
		}
		ps, err := g.strExpr(v)
		if err != nil {
			return nil, err
		}
		out = append(out, ps...)
	}
	return out, nil
}

// listExpr resolves a []string accumulated in a range over a decoded JSON list.
func (g *genModel) listExpr(v ssa.Value) (*projection, error) {
	v = g.deref(v)
	// the list is what a helper returns (ids := activeIDs(data.Exceptions); a, d := data.idsByStatus()):
	// the helper's returned accumulator, with its parameters bound to this call's arguments
	{
		var call *ssa.Call
		idx := 0
		switch t := v.(type) {
		case *ssa.Call:
			call = t
		case *ssa.Extract:
			call, _ = t.Tuple.(*ssa.Call)
			idx = t.Index
		}
		if call != nil {
			if h := call.Call.StaticCallee(); h != nil && g.p.InModule(h) && len(h.Blocks) > 0 && g.listDepth < 4 {
				var rets []ssa.Value
				for _, b := range h.Blocks {
					if ret, ok := b.Instrs[len(b.Instrs)-1].(*ssa.Return); ok && idx < len(ret.Results) {
						rets = append(rets, ret.Results[idx])
					}
				}
				if len(rets) == 1 {
					if g.bind == nil {
						g.bind = map[*ssa.Parameter]ssa.Value{}
					}
					var added []*ssa.Parameter
					for i, prm := range h.Params {
						if i < len(call.Call.Args) {
							if _, had := g.bind[prm]; !had {
								g.bind[prm] = call.Call.Args[i]
								added = append(added, prm)
							}
						}
					}
					g.listDepth++
					pr, err := g.listExpr(rets[0])
					g.listDepth--
					for _, prm := range added {
						delete(g.bind, prm)
					}
					return pr, err
				}
			}
		}
	}
	// the list is a field of a struct of accumulators (ids.active, ids.deprecated): of a local struct, or of
	// the struct a helper fills and returns
	if cell, field, ok := g.accumulatorField(v, 0); ok {
		return g.listFromFieldCell(cell, field)
	}
	phi, ok := v.(*ssa.Phi)
	if !ok {
		return nil, fmt.Errorf("%s: id list is not accumulated in a loop (%T)", g.p.pos(v.Pos()), v)
	}
	hdr := phi.Block()
	var step *ssa.Call
	for _, e := range phi.Edges {
		switch e := e.(type) {
		case *ssa.Const:
			if !e.IsNil() {
				return nil, fmt.Errorf("id list starts non-empty")
			}
		case *ssa.Phi:
			if e != phi {
				return nil, fmt.Errorf("id list merges with another list")
			}
		case *ssa.Call:
			b, ok := e.Call.Value.(*ssa.Builtin)
			if !ok || b.Name() != "append" || e.Call.Args[0] != phi || step != nil {
				return nil, fmt.Errorf("%s: id list is updated by something other than one append per iteration", g.p.pos(e.Pos()))
			}
			step = e
		default:
			return nil, fmt.Errorf("id list has an unsupported incoming value %T", e)
		}
	}
	if step == nil {
		return nil, fmt.Errorf("id list is never appended to")
	}
	return g.projectionFromStep(step, hdr)
}

// projectionFromStep: the projection described by a loop (header hdr) that appends one value per iteration
// through the append call `step`.
func (g *genModel) projectionFromStep(step *ssa.Call, hdr *ssa.BasicBlock) (*projection, error) {
	// appended value: varargs slice holding exactly one string X
	sl, ok := step.Call.Args[1].(*ssa.Slice)
	if !ok {
		return nil, fmt.Errorf("%s: append of a non-literal", g.p.pos(step.Pos()))
	}
	al, ok := sl.X.(*ssa.Alloc)
	if !ok {
		return nil, fmt.Errorf("append of non-varargs")
	}
	at, ok := al.Type().Underlying().(*types.Pointer).Elem().Underlying().(*types.Array)
	if !ok || at.Len() != 1 {
		return nil, fmt.Errorf("%s: more than one element appended per iteration", g.p.pos(step.Pos()))
	}
	var x ssa.Value
	for _, r := range *al.Referrers() {
		if ia, ok := r.(*ssa.IndexAddr); ok {
			for _, rr := range *ia.Referrers() {
				if st, ok := rr.(*ssa.Store); ok && st.Addr == ia {
					if x != nil {
						return nil, fmt.Errorf("varargs element stored twice")
					}
					x = st.Val
				}
			}
		}
	}
	if x == nil {
		return nil, fmt.Errorf("appended element not found")
	}
	// the appended value is field F of the current element: of its per-iteration copy (for _, e := range src)
	// or of src[i] itself (for i := range src)
	src, elemKey, elemField, err := g.elemFieldOf(x, hdr)
	if err != nil {
		return nil, fmt.Errorf("%s: appended value: %v", g.p.pos(step.Pos()), err)
	}
	// condition: exactly one If in the loop body
	pr := &projection{}
	loopBlocks := loopBody(hdr)
	var ifs []*ssa.If
	for _, b := range loopBlocks {
		if b == hdr {
			continue
		}
		if ifi, ok := b.Instrs[len(b.Instrs)-1].(*ssa.If); ok {
			ifs = append(ifs, ifi)
		}
	}
	stepBlk := step.Block()
	switch len(ifs) {
	case 0:
		if len(stepBlk.Preds) != 1 || stepBlk.Preds[0] != hdr {
			return nil, fmt.Errorf("unconditional append not directly in loop body")
		}
	case 1:
		ifi := ifs[0]
		csrc, ckey, cf, err := g.elemFieldOf(ifi.Cond, hdr)
		if err != nil || csrc != src || ckey != elemKey {
			return nil, fmt.Errorf("%s: filter condition is not a bool field of the current element", g.p.pos(ifi.Pos()))
		}
		ib := ifi.Block()
		switch {
		case ib.Succs[0] == stepBlk && len(stepBlk.Preds) == 1:
			pr.FilterWant = true
		case ib.Succs[1] == stepBlk && len(stepBlk.Preds) == 1:
			pr.FilterWant = false
		default:
			return nil, fmt.Errorf("%s: append is not the direct target of the filter branch", g.p.pos(step.Pos()))
		}
		pr.FilterField = jsonName(cf)
		if b, ok := cf.Type().Underlying().(*types.Basic); !ok || b.Kind() != types.Bool {
			return nil, fmt.Errorf("filter field is not bool")
		}
	default:
		return nil, fmt.Errorf("%s: more than one condition in the projection loop", g.p.pos(ifs[1].Pos()))
	}
	if len(stepBlk.Succs) != 1 || stepBlk.Succs[0] != hdr {
		return nil, fmt.Errorf("append block does not return to the loop header")
	}
	pr.ElemField = jsonName(elemField)
	// src = field F of the decoded document (directly, or through by-value copies, bound parameters and a
	// loader helper that returns the document)
	doc, fieldIdx, err := g.docOfList(src, 0)
	if err != nil {
		return nil, err
	}
	st := doc.Type().Underlying().(*types.Pointer).Elem().Underlying().(*types.Struct)
	pr.ListField = jsonName(st.Field(fieldIdx))
	file, err := g.decodedFrom(doc)
	if err != nil {
		return nil, err
	}
	pr.JSONFile = file
	return pr, nil
}

// accumulatorField: v reads field #field of a struct of list accumulators; returns the local struct (in the
// function that fills it) the field belongs to. Helper calls that return the struct are followed with
// their parameters bound to the call's arguments (the bindings stay in place for the caller's use).
func (g *genModel) accumulatorField(v ssa.Value, d int) (*ssa.Alloc, int, bool) {
	v = g.deref(v)
	var x ssa.Value
	field := 0
	switch t := v.(type) {
	case *ssa.Field:
		x, field = t.X, t.Field
	case *ssa.UnOp:
		fa, ok := t.X.(*ssa.FieldAddr)
		if !ok || t.Op != token.MUL {
			return nil, 0, false
		}
		x, field = fa.X, fa.Field
	default:
		return nil, 0, false
	}
	al := g.accumulatorStruct(x, d)
	if al == nil {
		return nil, 0, false
	}
	st, ok := al.Type().Underlying().(*types.Pointer).Elem().Underlying().(*types.Struct)
	if !ok || field >= st.NumFields() {
		return nil, 0, false
	}
	if sl, ok := st.Field(field).Type().Underlying().(*types.Slice); !ok || !isStringType(sl.Elem()) {
		return nil, 0, false
	}
	return al, field, true
}

// accumulatorStruct: the local struct variable behind x (a struct value, a pointer to one, a by-value copy,
// or the single result of a helper that returns its local struct).
func (g *genModel) accumulatorStruct(x ssa.Value, d int) *ssa.Alloc {
	if d > 8 {
		return nil
	}
	x = g.deref(x)
	switch t := x.(type) {
	case *ssa.Alloc:
		if _, ok := t.Type().Underlying().(*types.Pointer).Elem().Underlying().(*types.Struct); !ok {
			return nil
		}
		// a by-value copy: stored whole exactly once and no field written
		var whole ssa.Value
		nWhole, nField := 0, 0
		for _, r := range *t.Referrers() {
			switch r := r.(type) {
			case *ssa.Store:
				if r.Addr == ssa.Value(t) {
					whole = r.Val
					nWhole++
				}
			case *ssa.FieldAddr:
				for _, rr := range *r.Referrers() {
					if st, ok := rr.(*ssa.Store); ok && st.Addr == ssa.Value(r) {
						nField++
					}
				}
			}
		}
		switch {
		case nWhole == 1 && nField == 0:
			return g.accumulatorStruct(whole, d+1)
		case nWhole == 0:
			return t
		}
		return nil
	case *ssa.UnOp:
		if t.Op == token.MUL {
			return g.accumulatorStruct(t.X, d+1)
		}
	case *ssa.Call:
		h := t.Call.StaticCallee()
		if h == nil || !g.p.InModule(h) || len(h.Blocks) == 0 || h.Signature.Results().Len() != 1 {
			return nil
		}
		var rets []ssa.Value
		for _, b := range h.Blocks {
			if ret, ok := b.Instrs[len(b.Instrs)-1].(*ssa.Return); ok && len(ret.Results) == 1 {
				rets = append(rets, ret.Results[0])
			}
		}
		if len(rets) != 1 {
			return nil
		}
		if g.bind == nil {
			g.bind = map[*ssa.Parameter]ssa.Value{}
		}
		for i, prm := range h.Params {
			if i < len(t.Call.Args) {
				if _, had := g.bind[prm]; !had {
					g.bind[prm] = t.Call.Args[i]
				}
			}
		}
		return g.accumulatorStruct(rets[0], d+1)
	}
	return nil
}

// listFromFieldCell: field #field of the local struct `cell` starts empty (the struct is zeroed) and is only
// ever updated by cell.f = append(cell.f, x), at one place, inside one loop.
func (g *genModel) listFromFieldCell(cell *ssa.Alloc, field int) (*projection, error) {
	var step *ssa.Call
	var stepStore *ssa.Store
	for _, r := range *cell.Referrers() {
		switch r := r.(type) {
		case *ssa.FieldAddr:
			if r.Field != field {
				continue
			}
			for _, rr := range *r.Referrers() {
				switch x := rr.(type) {
				case *ssa.Store:
					if x.Addr != ssa.Value(r) {
						return nil, fmt.Errorf("%s: the address of the accumulator field is stored", g.p.pos(x.Pos()))
					}
					if stepStore != nil {
						return nil, fmt.Errorf("%s: the accumulator field is assigned at more than one place", g.p.pos(x.Pos()))
					}
					stepStore = x
				case *ssa.UnOp, *ssa.DebugRef:
				default:
					return nil, fmt.Errorf("%s: the accumulator field is used by %T", g.p.pos(rr.Pos()), rr)
				}
			}
		case *ssa.Store:
			if r.Addr == ssa.Value(cell) {
				return nil, fmt.Errorf("%s: the accumulator struct is assigned as a whole", g.p.pos(r.Pos()))
			}
		case *ssa.UnOp, *ssa.DebugRef:
		default:
			return nil, fmt.Errorf("%s: the accumulator struct is used by %T", g.p.pos(r.Pos()), r)
		}
	}
	if stepStore == nil {
		return nil, fmt.Errorf("%s: the accumulator field is never appended to", g.p.pos(cell.Pos()))
	}
	call, ok := stepStore.Val.(*ssa.Call)
	if !ok {
		return nil, fmt.Errorf("%s: the accumulator field is assigned something other than append(field, x)", g.p.pos(stepStore.Pos()))
	}
	if b, ok := call.Call.Value.(*ssa.Builtin); !ok || b.Name() != "append" || len(call.Call.Args) != 2 {
		return nil, fmt.Errorf("%s: the accumulator field is assigned something other than append(field, x)", g.p.pos(stepStore.Pos()))
	}
	ld, ok := call.Call.Args[0].(*ssa.UnOp)
	if !ok || ld.Op != token.MUL || ld.Block() != stepStore.Block() {
		return nil, fmt.Errorf("%s: the accumulator field is assigned something other than append(field, x)", g.p.pos(stepStore.Pos()))
	}
	if fa, ok := ld.X.(*ssa.FieldAddr); !ok || fa.X != ssa.Value(cell) || fa.Field != field {
		return nil, fmt.Errorf("%s: the accumulator field is assigned something other than append(field, x)", g.p.pos(stepStore.Pos()))
	}
	step = call
	// the innermost loop around the append
	var hdr *ssa.BasicBlock
	for _, h := range step.Parent().Blocks {
		if !h.Dominates(step.Block()) || h == step.Block() {
			continue
		}
		in := false
		for _, lb := range loopBody(h) {
			if lb == step.Block() {
				in = true
			}
		}
		isHdr := false
		for _, pr := range h.Preds {
			if h.Dominates(pr) {
				isHdr = true
			}
		}
		if in && isHdr && (hdr == nil || hdr.Dominates(h)) {
			hdr = h
		}
	}
	if hdr == nil {
		return nil, fmt.Errorf("%s: the accumulator field is not appended to in a loop", g.p.pos(step.Pos()))
	}
	return g.projectionFromStep(step, hdr)
}

func jsonName(f *types.Var) string {
	// struct tag lookup needs the parent struct; tags are attached in fieldTag below
	if t, ok := fieldTags[f]; ok {
		if n := strings.Split(reflect.StructTag(t).Get("json"), ",")[0]; n != "" && n != "-" {
			return n
		}
	}
	return f.Name()
}

var fieldTags = map[*types.Var]string{}

func indexFieldTags(pkg *types.Package) {
	sc := pkg.Scope()
	for _, n := range sc.Names() {
		tn, ok := sc.Lookup(n).(*types.TypeName)
		if !ok {
			continue
		}
		st, ok := tn.Type().Underlying().(*types.Struct)
		if !ok {
			continue
		}
		for i := 0; i < st.NumFields(); i++ {
			fieldTags[st.Field(i)] = st.Tag(i)
		}
	}
}

// fieldLoadOfLocalCopy: v = *(&local.F) with local an Alloc; returns local and F.
func fieldLoadOfLocalCopy(v ssa.Value) (*ssa.Alloc, *types.Var, error) {
	ld, ok := v.(*ssa.UnOp)
	if !ok || ld.Op != token.MUL {
		return nil, nil, fmt.Errorf("not a field load (%s)", v)
	}
	fa, ok := ld.X.(*ssa.FieldAddr)
	if !ok {
		return nil, nil, fmt.Errorf("not a field load")
	}
	al, ok := fa.X.(*ssa.Alloc)
	if !ok {
		return nil, nil, fmt.Errorf("field of a non-local")
	}
	st := al.Type().Underlying().(*types.Pointer).Elem().Underlying().(*types.Struct)
	return al, st.Field(fa.Field), nil
}

// elemFieldOf: v is the load of field F of the current element of the range loop with header hdr — either of
// the loop's local copy of the element or of src[idx] directly. Returns the ranged list, a key identifying
// "the current element" (the local copy, or the index value) and F.
func (g *genModel) elemFieldOf(v ssa.Value, hdr *ssa.BasicBlock) (ssa.Value, ssa.Value, *types.Var, error) {
	// a value-receiver getter applied to the current element (e.id() with func (e T) id() string { return e.F }):
	// field F of that element
	if c, ok := v.(*ssa.Call); ok && len(c.Call.Args) == 1 {
		if fidx, ok := valueGetterField(g.p, c.Call.StaticCallee()); ok {
			if ld, ok := c.Call.Args[0].(*ssa.UnOp); ok && ld.Op == token.MUL {
				switch x := ld.X.(type) {
				case *ssa.Alloc:
					if st, ok := x.Type().Underlying().(*types.Pointer).Elem().Underlying().(*types.Struct); ok && fidx < st.NumFields() {
						src, err := g.rangeCopySource(x, hdr)
						if err != nil {
							return nil, nil, nil, err
						}
						return src, x, st.Field(fidx), nil
					}
				case *ssa.IndexAddr:
					if st, ok := x.Type().Underlying().(*types.Pointer).Elem().Underlying().(*types.Struct); ok && fidx < st.NumFields() {
						if err := isRangeIndexOf(x.Index, x.X); err != nil {
							return nil, nil, nil, err
						}
						if h := rangeHeaderOf(x.Index); h != hdr {
							return nil, nil, nil, fmt.Errorf("element is taken from a different loop")
						}
						return x.X, x.Index, st.Field(fidx), nil
					}
				}
			}
		}
	}
	if al, fld, err := fieldLoadOfLocalCopy(v); err == nil {
		src, err := g.rangeCopySource(al, hdr)
		if err != nil {
			return nil, nil, nil, err
		}
		return src, al, fld, nil
	}
	ld, ok := v.(*ssa.UnOp)
	if !ok || ld.Op != token.MUL {
		return nil, nil, nil, fmt.Errorf("not a field load (%s)", v)
	}
	fa, ok := ld.X.(*ssa.FieldAddr)
	if !ok {
		return nil, nil, nil, fmt.Errorf("not a field load")
	}
	ia, ok := fa.X.(*ssa.IndexAddr)
	if !ok {
		return nil, nil, nil, fmt.Errorf("field of a non-local")
	}
	if err := isRangeIndexOf(ia.Index, ia.X); err != nil {
		return nil, nil, nil, err
	}
	if h := rangeHeaderOf(ia.Index); h != hdr {
		return nil, nil, nil, fmt.Errorf("element is taken from a different loop")
	}
	st, ok := ia.Type().Underlying().(*types.Pointer).Elem().Underlying().(*types.Struct)
	if !ok {
		return nil, nil, nil, fmt.Errorf("element is not a struct")
	}
	return ia.X, ia.Index, st.Field(fa.Field), nil
}

// valueGetterField: h is a one-block method with a by-value struct receiver and no other parameter that returns
// one field of its receiver; returns that field's index.
func valueGetterField(p *Prog, h *ssa.Function) (int, bool) {
	if h == nil || !p.InModule(h) || len(h.Blocks) != 1 || len(h.Params) != 1 {
		return 0, false
	}
	if _, ok := h.Params[0].Type().Underlying().(*types.Struct); !ok {
		return 0, false
	}
	ret, ok := h.Blocks[0].Instrs[len(h.Blocks[0].Instrs)-1].(*ssa.Return)
	if !ok || len(ret.Results) != 1 {
		return 0, false
	}
	switch t := ret.Results[0].(type) {
	case *ssa.Field:
		if t.X == ssa.Value(h.Params[0]) {
			return t.Field, true
		}
	case *ssa.UnOp:
		if t.Op != token.MUL {
			return 0, false
		}
		fa, ok := t.X.(*ssa.FieldAddr)
		if !ok {
			return 0, false
		}
		al, ok := fa.X.(*ssa.Alloc)
		if !ok {
			return 0, false
		}
		// the receiver spilled to a local
		n := 0
		for _, r := range *al.Referrers() {
			if st, ok := r.(*ssa.Store); ok {
				if st.Addr != ssa.Value(al) || st.Val != ssa.Value(h.Params[0]) {
					return 0, false
				}
				n++
			}
		}
		if n == 1 {
			return fa.Field, true
		}
	}
	return 0, false
}

// rangeCopySource: local receives exactly one store, *local = *(&src[idx]) inside the loop with header hdr,
// idx being the range induction variable over src. Returns src.
func (g *genModel) rangeCopySource(local *ssa.Alloc, hdr *ssa.BasicBlock) (ssa.Value, error) {
	var st *ssa.Store
	for _, r := range *local.Referrers() {
		if s, ok := r.(*ssa.Store); ok && s.Addr == local {
			if st != nil {
				return nil, fmt.Errorf("range variable assigned twice")
			}
			st = s
		} else if _, ok := r.(*ssa.FieldAddr); ok {
			fa := r.(*ssa.FieldAddr)
			for _, rr := range *fa.Referrers() {
				if s, ok := rr.(*ssa.Store); ok && s.Addr == fa {
					return nil, fmt.Errorf("%s: field of the range variable is modified", g.p.pos(s.Pos()))
				}
			}
		}
	}
	if st == nil {
		return nil, fmt.Errorf("range variable never assigned")
	}
	ld, ok := st.Val.(*ssa.UnOp)
	if !ok || ld.Op != token.MUL {
		return nil, fmt.Errorf("range variable is not a copy of a list element")
	}
	ia, ok := ld.X.(*ssa.IndexAddr)
	if !ok {
		return nil, fmt.Errorf("range variable is not a copy of a list element")
	}
	if err := isRangeIndexOf(ia.Index, ia.X); err != nil {
		return nil, err
	}
	if ia.Index.(*ssa.BinOp).X.(*ssa.Phi).Block() != hdr {
		return nil, fmt.Errorf("element is taken from a different loop")
	}
	if len(st.Block().Preds) != 1 || st.Block().Preds[0] != hdr {
		return nil, fmt.Errorf("element copy is not at the top of the loop body")
	}
	return ia.X, nil
}

func loopBody(hdr *ssa.BasicBlock) []*ssa.BasicBlock {
	// natural loop of all back edges into hdr
	in := map[*ssa.BasicBlock]bool{hdr: true}
	var work []*ssa.BasicBlock
	for _, p := range hdr.Preds {
		if hdr.Dominates(p) {
			if !in[p] {
				in[p] = true
				work = append(work, p)
			}
		}
	}
	for len(work) > 0 {
		b := work[len(work)-1]
		work = work[:len(work)-1]
		for _, p := range b.Preds {
			if !in[p] {
				in[p] = true
				work = append(work, p)
			}
		}
	}
	var out []*ssa.BasicBlock
	for b := range in {
		out = append(out, b)
	}
	sort.Slice(out, func(i, j int) bool { return out[i].Index < out[j].Index })
	return out
}

// decodedFrom: doc is filled by exactly one (*json.Decoder).Decode(&doc) whose decoder reads the file
// opened with a constant name; no field of doc is stored otherwise.
// docOfList: src is field #f of a struct that is (a copy of) a locally decoded document; returns that
// document's allocation and f.
func (g *genModel) docOfList(src ssa.Value, d int) (*ssa.Alloc, int, error) {
	src = g.deref(src)
	switch t := src.(type) {
	case *ssa.UnOp:
		if fa, ok := t.X.(*ssa.FieldAddr); ok && t.Op == token.MUL {
			doc, err := g.docFromPtr(fa.X, d+1)
			return doc, fa.Field, err
		}
	case *ssa.Field:
		doc, err := g.docFromVal(t.X, d+1)
		return doc, t.Field, err
	}
	return nil, 0, fmt.Errorf("ranged list is not a field of the decoded document")
}

func (g *genModel) docFromPtr(ptr ssa.Value, d int) (*ssa.Alloc, error) {
	if d > 8 {
		return nil, fmt.Errorf("decoded document is handed on too many times to follow")
	}
	ptr = g.deref(ptr)
	al, ok := ptr.(*ssa.Alloc)
	if !ok {
		return nil, fmt.Errorf("decoded document is not a local variable")
	}
	// a by-value copy (a spilled parameter or result): the value it was filled from
	var whole ssa.Value
	n := 0
	for _, r := range *al.Referrers() {
		if st, ok := r.(*ssa.Store); ok && st.Addr == ssa.Value(al) {
			whole = st.Val
			n++
		}
	}
	if n == 1 {
		return g.docFromVal(whole, d+1)
	}
	if n > 1 {
		return nil, fmt.Errorf("decoded document is assigned more than once")
	}
	return al, nil
}

func (g *genModel) docFromVal(v ssa.Value, d int) (*ssa.Alloc, error) {
	if d > 8 {
		return nil, fmt.Errorf("decoded document is handed on too many times to follow")
	}
	v = g.deref(v)
	switch t := v.(type) {
	case *ssa.UnOp:
		if t.Op == token.MUL {
			return g.docFromPtr(t.X, d+1)
		}
	case *ssa.Extract, *ssa.Call:
		var call *ssa.Call
		idx := 0
		if ex, ok := t.(*ssa.Extract); ok {
			call, _ = ex.Tuple.(*ssa.Call)
			idx = ex.Index
		} else {
			call = t.(*ssa.Call)
		}
		if call == nil || call.Call.StaticCallee() == nil || !g.p.InModule(call.Call.StaticCallee()) {
			return nil, fmt.Errorf("decoded document comes from a call that cannot be followed")
		}
		h := call.Call.StaticCallee()
		// the loader's parameters (the file name) stand for this call's arguments
		if g.bind == nil {
			g.bind = map[*ssa.Parameter]ssa.Value{}
		}
		for i, prm := range h.Params {
			if i < len(call.Call.Args) {
				g.bind[prm] = call.Call.Args[i]
			}
		}
		var doc *ssa.Alloc
		for _, b := range h.Blocks {
			ret, ok := b.Instrs[len(b.Instrs)-1].(*ssa.Return)
			if !ok || idx >= len(ret.Results) {
				continue
			}
			// a return that carries a non-nil error is the failure path: what it returns besides is not used.
			// A return that hands on an error variable (return data, err) carries the document when err is nil:
			// it counts when what it returns is a decoded document, and is a failure path otherwise.
			errNil := true
			for _, rv := range ret.Results {
				if isErrorType(rv.Type()) {
					if c, isC := rv.(*ssa.Const); !isC || !c.IsNil() {
						errNil = false
					}
				}
			}
			if !errNil {
				if c, isC := ret.Results[idx].(*ssa.Const); isC && c.Value == nil {
					continue // zero document beside the error
				}
			}
			var al *ssa.Alloc
			var err error
			switch rv := ret.Results[idx].(type) {
			case *ssa.UnOp:
				if rv.Op == token.MUL {
					al, err = g.docFromPtr(rv.X, d+1)
				} else {
					err = fmt.Errorf("not a document")
				}
			case *ssa.Extract, *ssa.Call:
				al, err = g.docFromVal(rv, d+1) // a loader that calls a more general loader
			default:
				err = fmt.Errorf("not a document")
			}
			if err == nil && !errNil {
				if _, derr := g.decodedFrom(al); derr != nil {
					continue // a zero value beside the error
				}
			}
			if err != nil {
				if !errNil {
					continue
				}
				return nil, fmt.Errorf("%s: the loader does not return its decoded document", g.p.pos(ret.Pos()))
			}
			if doc != nil && doc != al {
				return nil, fmt.Errorf("%s: the loader does not return its decoded document", g.p.pos(ret.Pos()))
			}
			doc = al
		}
		if doc == nil {
			return nil, fmt.Errorf("the loader returns no document")
		}
		return doc, nil
	}
	return nil, fmt.Errorf("decoded document is not a local variable")
}

func (g *genModel) decodedFrom(doc *ssa.Alloc) (string, error) {
	var file string
	found := false
	for _, r := range *doc.Referrers() {
		switch r := r.(type) {
		case *ssa.MakeInterface:
			for _, rr := range *r.Referrers() {
				c, ok := rr.(*ssa.Call)
				if !ok {
					return "", fmt.Errorf("decoded document escapes")
				}
				callee := c.Call.StaticCallee()
				if callee == nil {
					return "", fmt.Errorf("decoded document passed to a dynamic call")
				}
				switch callee.String() {
				case "(*encoding/json.Decoder).Decode":
					dec := c.Call.Args[0]
					nd, ok := dec.(*ssa.Call)
					if !ok || nd.Call.StaticCallee() == nil || nd.Call.StaticCallee().String() != "encoding/json.NewDecoder" {
						return "", fmt.Errorf("decoder is not json.NewDecoder(file)")
					}
					// the reader: the file itself, or an io.Reader parameter bound to it at the call site
					mi, ok := g.deref(nd.Call.Args[0]).(*ssa.MakeInterface)
					if !ok {
						return "", fmt.Errorf("decoder source is not a file")
					}
					name, err := g.openedName(mi.X, 0)
					if err != nil {
						return "", err
					}
					if found {
						return "", fmt.Errorf("document decoded twice")
					}
					file, found = name, true
				default:
					return "", fmt.Errorf("decoded document passed to %s", callee)
				}
			}
		case *ssa.FieldAddr:
			for _, rr := range *r.Referrers() {
				if s, ok := rr.(*ssa.Store); ok && s.Addr == r {
					return "", fmt.Errorf("%s: field of the decoded document is overwritten", g.p.pos(s.Pos()))
				}
			}
		case *ssa.DebugRef:
		case *ssa.UnOp:
			// read as a whole (returned or passed by value): reads do not change what was decoded
		default:
			return "", fmt.Errorf("decoded document used by %T", r)
		}
	}
	if !found {
		return "", fmt.Errorf("document is never decoded")
	}
	return file, nil
}

// tableRowField: v reads field f of the current row of a full range over a local literal table of structs
// (for _, row := range []struct{…}{{a, b}, {c, d}} { use(row.f) }); returns, row by row, the value the
// literal puts into that field.
func tableRowField(v ssa.Value) ([]ssa.Value, bool) {
	ld, ok := v.(*ssa.UnOp)
	if !ok || ld.Op != token.MUL {
		return nil, false
	}
	fa, ok := ld.X.(*ssa.FieldAddr)
	if !ok {
		return nil, false
	}
	// the row: the element itself, or a per-iteration copy of it
	var ia *ssa.IndexAddr
	switch b := fa.X.(type) {
	case *ssa.IndexAddr:
		ia = b
	case *ssa.Alloc:
		var src ssa.Value
		n := 0
		for _, r := range *b.Referrers() {
			switch r := r.(type) {
			case *ssa.Store:
				if r.Addr != ssa.Value(b) {
					return nil, false
				}
				src = r.Val
				n++
			case *ssa.FieldAddr:
				for _, rr := range *r.Referrers() {
					if st, ok := rr.(*ssa.Store); ok && st.Addr == ssa.Value(r) {
						return nil, false // the copy is modified
					}
				}
			}
		}
		if n != 1 {
			return nil, false
		}
		el, ok := src.(*ssa.UnOp)
		if !ok || el.Op != token.MUL {
			return nil, false
		}
		ia, _ = el.X.(*ssa.IndexAddr)
	}
	if ia == nil {
		return nil, false
	}
	sl, ok := ia.X.(*ssa.Slice)
	if !ok || sl.Low != nil || sl.High != nil || sl.Max != nil {
		return nil, false
	}
	arr, ok := sl.X.(*ssa.Alloc)
	if !ok {
		return nil, false
	}
	at, ok := arr.Type().Underlying().(*types.Pointer).Elem().Underlying().(*types.Array)
	if !ok {
		return nil, false
	}
	if _, ok := at.Elem().Underlying().(*types.Struct); !ok {
		return nil, false
	}
	if isRangeIndexOf(ia.Index, sl) != nil {
		return nil, false
	}
	out := make([]ssa.Value, at.Len())
	for _, r := range *arr.Referrers() {
		ea, ok := r.(*ssa.IndexAddr)
		if !ok {
			if _, isSl := r.(*ssa.Slice); isSl {
				continue
			}
			if _, isDbg := r.(*ssa.DebugRef); isDbg {
				continue
			}
			return nil, false
		}
		kc, ok := ea.Index.(*ssa.Const)
		if !ok || kc.Value == nil {
			return nil, false
		}
		k := int(kc.Int64())
		if k < 0 || k >= len(out) {
			return nil, false
		}
		for _, rr := range *ea.Referrers() {
			switch x := rr.(type) {
			case *ssa.Store:
				// the row stored as a whole from a literal, or field by field
				if x.Addr != ssa.Value(ea) {
					return nil, false
				}
				rl, ok := x.Val.(*ssa.UnOp)
				if !ok || rl.Op != token.MUL {
					return nil, false
				}
				lit, ok := rl.X.(*ssa.Alloc)
				if !ok {
					return nil, false
				}
				for _, lr := range *lit.Referrers() {
					lfa, ok := lr.(*ssa.FieldAddr)
					if !ok || lfa.Field != fa.Field {
						continue
					}
					for _, lrr := range *lfa.Referrers() {
						if st, ok := lrr.(*ssa.Store); ok && st.Addr == ssa.Value(lfa) {
							if out[k] != nil {
								return nil, false
							}
							out[k] = st.Val
						}
					}
				}
			case *ssa.FieldAddr:
				if x.Field != fa.Field {
					continue
				}
				for _, lrr := range *x.Referrers() {
					if st, ok := lrr.(*ssa.Store); ok && st.Addr == ssa.Value(x) {
						if out[k] != nil {
							return nil, false
						}
						out[k] = st.Val
					}
				}
			}
		}
	}
	for _, v := range out {
		if v == nil {
			return nil, false
		}
	}
	return out, true
}

// openedName: v is the file os.Open returned for a constant name — directly, as a bound parameter, or as
// the result of an opening helper (whose failure paths are skipped).
func (g *genModel) openedName(v ssa.Value, d int) (string, error) {
	if d > 6 {
		return "", fmt.Errorf("the opened file is handed on too many times to follow")
	}
	v = g.deref(v)
	var call *ssa.Call
	idx := 0
	switch t := v.(type) {
	case *ssa.Extract:
		call, _ = t.Tuple.(*ssa.Call)
		idx = t.Index
	case *ssa.Call:
		call = t
	}
	if call == nil || call.Call.StaticCallee() == nil {
		return "", fmt.Errorf("decoder source is not the result of os.Open")
	}
	h := call.Call.StaticCallee()
	if h.String() == "os.Open" {
		if idx != 0 {
			return "", fmt.Errorf("decoder source is not the result of os.Open")
		}
		name, ok := constString(g.deref(call.Call.Args[0]))
		if !ok {
			return "", fmt.Errorf("os.Open with a non-constant name")
		}
		return name, nil
	}
	if !g.p.InModule(h) || len(h.Blocks) == 0 {
		return "", fmt.Errorf("decoder source is not the result of os.Open")
	}
	if g.bind == nil {
		g.bind = map[*ssa.Parameter]ssa.Value{}
	}
	for i, prm := range h.Params {
		if i < len(call.Call.Args) {
			g.bind[prm] = call.Call.Args[i]
		}
	}
	name, found := "", false
	for _, b := range h.Blocks {
		ret, ok := b.Instrs[len(b.Instrs)-1].(*ssa.Return)
		if !ok || idx >= len(ret.Results) {
			continue
		}
		if c, isC := ret.Results[idx].(*ssa.Const); isC && c.IsNil() {
			continue // no file: the failure path
		}
		n, err := g.openedName(ret.Results[idx], d+1)
		if err != nil {
			return "", err
		}
		if found && n != name {
			return "", fmt.Errorf("the opening helper returns files of different names")
		}
		name, found = n, true
	}
	if !found {
		return "", fmt.Errorf("the opening helper returns no file")
	}
	return name, nil
}

// extractGenerator finds every file-writing call in package cmd and resolves its content template.
func extractGenerator(p *Prog) ([]genArtefact, []string, error) {
	if p.CmdPkg == nil {
		return nil, nil, fmt.Errorf("unresolved anchor: package cmd")
	}
	indexFieldTags(p.CmdPkg.Types)
	g := &genModel{p: p}
	var arts []genArtefact
	var undecided []string
	for _, fn := range p.AllModuleFuncs(p.CmdPkg) {
		for _, b := range fn.Blocks {
			for _, in := range b.Instrs {
				c, ok := in.(*ssa.Call)
				if !ok {
					continue
				}
				callee := c.Call.StaticCallee()
				if callee == nil {
					if c.Call.IsInvoke() && (c.Call.Method.Name() == "Write" || c.Call.Method.Name() == "WriteString") {
						undecided = append(undecided, fmt.Sprintf("%s: dynamic %s call in generator", p.pos(c.Pos()), c.Call.Method.Name()))
					}
					continue
				}
				name := callee.String()
				switch name {
				case "os.WriteFile", "io/ioutil.WriteFile":
					// a writing helper (path, header, ids as parameters) is analysed once per call site,
					// with its parameters bound to that site's arguments
					var binds []map[*ssa.Parameter]ssa.Value
					var sitePos []token.Pos
					if len(fn.Params) > 0 {
						for _, caller := range p.AllModuleFuncs(p.CmdPkg) {
							for _, cb := range caller.Blocks {
								for _, cin := range cb.Instrs {
									if cc, ok := cin.(*ssa.Call); ok && cc.Call.StaticCallee() == fn {
										// a call in a loop over a literal table of (descriptor, ids) rows stands for one call
										// per row: arguments that are fields of the current row are bound row by row
										rows := 1
										alts := make([][]ssa.Value, len(fn.Params))
										for i := range fn.Params {
											if i < len(cc.Call.Args) {
												if a, ok := tableRowField(cc.Call.Args[i]); ok {
													alts[i] = a
													if len(a) > rows {
														rows = len(a)
													}
												}
											}
										}
										for k := 0; k < rows; k++ {
											m := map[*ssa.Parameter]ssa.Value{}
											for i, prm := range fn.Params {
												if i >= len(cc.Call.Args) {
													continue
												}
												if alts[i] != nil && k < len(alts[i]) {
													m[prm] = alts[i][k]
												} else {
													m[prm] = cc.Call.Args[i]
												}
											}
											binds = append(binds, m)
											sitePos = append(sitePos, cc.Pos())
										}
									}
								}
							}
						}
					}
					if len(binds) == 0 {
						binds = append(binds, nil)
						sitePos = append(sitePos, c.Pos())
					}
					for bi, bnd := range binds {
						g.bind = bnd
						path, ok := constString(g.deref(c.Call.Args[0]))
						if !ok {
							if sps, err := g.strExpr(c.Call.Args[0]); err == nil && len(sps) > 0 {
								// a path put together from constants (a directory constant + a descriptor's file name)
								all := true
								joined := ""
								for _, sp := range sps {
									if sp.Elem != nil {
										all = false
									}
									joined += sp.Const
								}
								if all {
									path, ok = joined, true
								}
							}
						}
						if !ok {
							undecided = append(undecided, fmt.Sprintf("%s: output path is not a constant", p.pos(sitePos[bi])))
							continue
						}
						parts, err := g.bytesExpr(c.Call.Args[1], 0)
						if err != nil {
							undecided = append(undecided, fmt.Sprintf("%s: content of %s: %v", p.pos(sitePos[bi]), path, err))
							continue
						}
						arts = append(arts, genArtefact{Path: path, Parts: parts, Pos: sitePos[bi], Fn: fn})
					}
					g.bind = nil
				case "os.Create", "os.OpenFile", "(*os.File).Write", "(*os.File).WriteString", "(*os.File).WriteAt", "os.Rename", "os.Remove":
					undecided = append(undecided, fmt.Sprintf("%s: generator uses %s, which the template extraction does not model", p.pos(c.Pos()), name))
				}
			}
		}
	}
	return arts, undecided, nil
}

// ---------------------------------------------------------------------------------------------

func readJSONProjection(repo string, pr projection) ([]string, error) {
	b, err := os.ReadFile(filepath.Join(repo, "cmd", pr.JSONFile))
	if err != nil {
		return nil, err
	}
	var doc map[string]json.RawMessage
	if err := json.Unmarshal(b, &doc); err != nil {
		return nil, fmt.Errorf("%s: %v", pr.JSONFile, err)
	}
	raw, ok := lookupFold(doc, pr.ListField)
	if !ok {
		return nil, fmt.Errorf("%s has no field %q", pr.JSONFile, pr.ListField)
	}
	var list []map[string]json.RawMessage
	if err := json.Unmarshal(raw, &list); err != nil {
		return nil, fmt.Errorf("%s.%s: %v", pr.JSONFile, pr.ListField, err)
	}
	var out []string
	for i, e := range list {
		if pr.FilterField != "" {
			fv := false
			if raw, ok := lookupFold(e, pr.FilterField); ok {
				if err := json.Unmarshal(raw, &fv); err != nil {
					return nil, fmt.Errorf("%s.%s[%d].%s: %v", pr.JSONFile, pr.ListField, i, pr.FilterField, err)
				}
			}
			if fv != pr.FilterWant {
				continue
			}
		}
		id := ""
		if raw, ok := lookupFold(e, pr.ElemField); ok {
			if err := json.Unmarshal(raw, &id); err != nil {
				return nil, fmt.Errorf("%s.%s[%d].%s: %v", pr.JSONFile, pr.ListField, i, pr.ElemField, err)
			}
		}
		out = append(out, id)
	}
	return out, nil
}

// readJSONProjectionStrict reads the reference projection: keys are the schema's exact names, and an
// entry that lacks the id key or the deprecation key is an error, not a zero value.
func readJSONProjectionStrict(repo string, pr projection) ([]string, error) {
	b, err := os.ReadFile(filepath.Join(repo, "cmd", pr.JSONFile))
	if err != nil {
		return nil, err
	}
	var doc map[string]json.RawMessage
	if err := json.Unmarshal(b, &doc); err != nil {
		return nil, fmt.Errorf("%s: %v", pr.JSONFile, err)
	}
	raw, ok := doc[pr.ListField]
	if !ok {
		return nil, fmt.Errorf("%s has no key %q", pr.JSONFile, pr.ListField)
	}
	var list []map[string]json.RawMessage
	if err := json.Unmarshal(raw, &list); err != nil {
		return nil, fmt.Errorf("%s.%s: %v", pr.JSONFile, pr.ListField, err)
	}
	var out []string
	for i, e := range list {
		var dep bool
		var id string
		rd, ok1 := e[pr.FilterField]
		ri, ok2 := e[pr.ElemField]
		if !ok1 || !ok2 {
			return nil, fmt.Errorf("%s.%s[%d] lacks %q or %q", pr.JSONFile, pr.ListField, i, pr.FilterField, pr.ElemField)
		}
		if err := json.Unmarshal(rd, &dep); err != nil {
			return nil, fmt.Errorf("%s.%s[%d].%s: %v", pr.JSONFile, pr.ListField, i, pr.FilterField, err)
		}
		if err := json.Unmarshal(ri, &id); err != nil {
			return nil, fmt.Errorf("%s.%s[%d].%s: %v", pr.JSONFile, pr.ListField, i, pr.ElemField, err)
		}
		if dep == pr.FilterWant {
			out = append(out, id)
		}
	}
	return out, nil
}

// lookupFold mirrors encoding/json's field matching: exact key first, then case-insensitive.
func lookupFold(m map[string]json.RawMessage, key string) (json.RawMessage, bool) {
	if v, ok := m[key]; ok {
		return v, true
	}
	var ks []string
	for k := range m {
		ks = append(ks, k)
	}
	sort.Strings(ks)
	for _, k := range ks {
		if strings.EqualFold(k, key) {
			return m[k], true
		}
	}
	return nil, false
}

func (g genArtefact) instantiate(repo string) ([]byte, map[string][]string, error) {
	var out bytes.Buffer
	lists := map[string][]string{}
	for _, part := range g.Parts {
		if part.Rep == nil {
			out.WriteString(part.Const)
			continue
		}
		ids, err := readJSONProjection(repo, part.Rep.Proj)
		if err != nil {
			return nil, nil, err
		}
		lists[part.Rep.Proj.String()] = ids
		for _, id := range ids {
			out.WriteString(part.Rep.Pre)
			out.WriteString(id)
			out.WriteString(part.Rep.Post)
		}
	}
	return out.Bytes(), lists, nil
}

// ---------------------------------------------------------------------------------------------

func rulesC12(p *Prog, r *Report) {
	r.Rule("A1", "exact", 3, "the three id tables are compile-time constants the checker can evaluate from the SSA of their getter functions")
	r.Rule("L1", "exact", 3, "generator model: the content of every file the generator writes resolves to Const·Repeat(projection of the decoded JSON)·Const; unrecognised shapes are undecided")
	r.Rule("L2", "exact", 3, "byte equality: the extracted template instantiated on the JSON files equals the committed generated file")
	r.Rule("L3", "exact", 3, "the compiled tables (A1) equal the JSON projections: active = non-deprecated licenseId, deprecated = deprecated licenseId, exceptions = non-deprecated licenseExceptionId")
	t, err := p.LoadTables()
	if err != nil {
		r.Unknown("A1", "tables", "-", err.Error())
		return
	}
	r.OK("A1", "GetLicenses", "-", "evaluated", fmt.Sprintf("%d ids", len(t.Active)), true)
	r.OK("A1", "GetDeprecated", "-", "evaluated", fmt.Sprintf("%d ids", len(t.Deprecated)), true)
	r.OK("A1", "GetExceptions", "-", "evaluated", fmt.Sprintf("%d ids", len(t.Exceptions)), true)

	arts, und, err := extractGenerator(p)
	if err != nil {
		r.Unknown("L1", "cmd", "-", err.Error())
		return
	}
	for _, u := range und {
		r.Unknown("L1", "generator-write", "-", "kind=undecided: "+u)
	}
	bytesCompared := 0
	var tmplDescr []map[string]string
	type want struct {
		name string
		got  []string
	}
	projByFile := map[string]projection{}
	projPos := map[string]token.Pos{}
	for _, a := range arts {
		key := "write:" + a.Path
		r.Funcs[p.shortKey(a.Fn)] = true
		r.OK("L1", key, p.pos(a.Pos), "template", a.describe(), true)
		tmplDescr = append(tmplDescr, map[string]string{"path": a.Path, "template": a.describe()})
		gen, lists, err := a.instantiate(p.RepoDir)
		if err != nil {
			r.Bad("L2", key, p.pos(a.Pos), "cannot instantiate template: "+err.Error())
			continue
		}
		target := filepath.Clean(filepath.Join(p.RepoDir, "cmd", a.Path))
		have, err := os.ReadFile(target)
		if err != nil {
			r.Bad("L2", key, p.pos(a.Pos), fmt.Sprintf("generator writes %s but it cannot be read: %v", a.Path, err))
			continue
		}
		bytesCompared += len(gen)
		if bytes.Equal(gen, have) {
			r.OK("L2", key, p.pos(a.Pos), "bytes equal", fmt.Sprintf("%d bytes", len(gen)), true)
		} else {
			off, line := firstDiff(gen, have)
			rel, _ := filepath.Rel(p.RepoDir, target)
			r.Bad("L2", key, fmt.Sprintf("%s:%d", rel, line), fmt.Sprintf("re-running the generator would not reproduce %s: first difference at byte %d (line %d): generator %q, committed %q", rel, off, line, excerpt(gen, off), excerpt(have, off)))
		}
		rel, _ := filepath.Rel(p.RepoDir, target)
		_ = lists
		for _, part := range a.Parts {
			if part.Rep != nil {
				projByFile[rel] = part.Rep.Proj
				projPos[rel] = a.Pos
			}
		}
	}
	// L3: the reference projections are fixed by the SPDX list-data schema the property names, NOT by
	// the generator: licenses.json {licenses[].licenseId, isDeprecatedLicenseId}, exceptions.json
	// {exceptions[].licenseExceptionId, isDeprecatedLicenseId}. L3g: the generator's own projection
	// (extracted in L1) must be that projection, so that a refresh of the data keeps producing it.
	r.Rule("L3g", "exact", 3, "the generator's projection for each table is the SPDX schema's: same JSON file, list, id key, deprecation key (keys compared as encoding/json matches them, case-insensitively) and polarity")
	ref := map[string]projection{
		"GetLicenses":   {JSONFile: "licenses.json", ListField: "licenses", ElemField: "licenseId", FilterField: "isDeprecatedLicenseId", FilterWant: false},
		"GetDeprecated": {JSONFile: "licenses.json", ListField: "licenses", ElemField: "licenseId", FilterField: "isDeprecatedLicenseId", FilterWant: true},
		"GetExceptions": {JSONFile: "exceptions.json", ListField: "exceptions", ElemField: "licenseExceptionId", FilterField: "isDeprecatedLicenseId", FilterWant: false},
	}
	for _, x := range []struct {
		name string
		ids  []string
		fn   string
	}{{"GetLicenses", t.Active, "GetLicenses"}, {"GetDeprecated", t.Deprecated, "GetDeprecated"}, {"GetExceptions", t.Exceptions, "GetExceptions"}} {
		fn := p.Func(p.LicPkg, x.fn)
		file := strings.Split(p.pos(fn.Pos()), ":")[0]
		want, err := readJSONProjectionStrict(p.RepoDir, ref[x.name])
		if err != nil {
			r.Unknown("L3", x.name, p.pos(fn.Pos()), "kind=undecided: cannot read the SPDX data: "+err.Error())
		} else if d := diffLists(want, x.ids); d != "" {
			r.Bad("L3", x.name, p.pos(fn.Pos()), fmt.Sprintf("compiled table %s differs from the SPDX data (%s): %s", x.name, ref[x.name], d))
		} else {
			r.OK("L3", x.name, p.pos(fn.Pos()), "equal", fmt.Sprintf("%d ids = %s", len(x.ids), ref[x.name]), true)
		}
		gp, ok := projByFile[file]
		if !ok {
			r.Bad("L3g", x.name, p.pos(fn.Pos()), fmt.Sprintf("%s is defined in %s, which no generator output covers", x.name, file))
			continue
		}
		rp := ref[x.name]
		same := gp.JSONFile == rp.JSONFile && strings.EqualFold(gp.ListField, rp.ListField) && strings.EqualFold(gp.ElemField, rp.ElemField) &&
			strings.EqualFold(gp.FilterField, rp.FilterField) && gp.FilterWant == rp.FilterWant
		if same {
			r.OK("L3g", x.name, p.pos(projPos[file]), "generator projection = schema projection", gp.String(), true)
		} else {
			r.Bad("L3g", x.name, p.pos(projPos[file]), fmt.Sprintf("the generator fills %s from «%s», the SPDX schema says «%s»: a key the data does not have decodes to the zero value silently", x.name, gp, rp))
		}
	}
	// every generated file must define one of the getters (no orphan output)
	r.Extra["programs"] = len(arts)
	r.Extra["disagreements_checked"] = bytesCompared
	r.Extra["templates"] = tmplDescr

	// L7: the tables the library validates against cannot be changed from outside: every getter hands out
	// a fresh literal on every call
	r.Rule("L7", "necessary", 3, "each table getter returns a freshly built literal on every call (a shared backing array could be rewritten by any caller, after which the library no longer validates against the SPDX data)")
	for _, name := range []string{"GetLicenses", "GetDeprecated", "GetExceptions"} {
		g := p.Func(p.LicPkg, name)
		if g == nil {
			r.Unknown("L7", name, "-", "unresolved anchor")
			continue
		}
		fr := &freshness{p: p, memo: map[ssa.Value]string{}, taint: &taintResult{Params: map[*ssa.Parameter]bool{}}}
		bad := ""
		for _, b := range g.Blocks {
			if ret, ok := b.Instrs[len(b.Instrs)-1].(*ssa.Return); ok {
				if why := fr.notFresh(ret.Results[0], map[ssa.Value]bool{}); why != "" {
					bad = why
				}
			}
		}
		if bad == "" {
			r.OK("L7", name, p.pos(g.Pos()), "fresh literal per call", "", true)
		} else {
			r.Bad("L7", name, p.pos(g.Pos()), "the table handed to callers is shared with the library's own lookups: "+bad)
		}
	}
	ruleFoldUnique(p, r, t, "L4")
	ruleK1(p, r) // L5b evaluates the lookups as exact membership tests; K1 is what makes them so
	kw, kerr := scannerKeywords(p)
	if kerr != nil {
		r.Rule("L5", "necessary", 500, "every listed id is readable by the scanner in its role")
		r.Unknown("L5", "scanner-keywords", "-", kerr.Error())
	} else {
		ruleIDsScannable(p, r, t, kw, "L5")
	}
}

func firstDiff(a, b []byte) (int, int) {
	n := len(a)
	if len(b) < n {
		n = len(b)
	}
	i := 0
	for i < n && a[i] == b[i] {
		i++
	}
	return i, 1 + bytes.Count(b[:min(i, len(b))], []byte("\n"))
}

func excerpt(b []byte, off int) string {
	lo := off - 10
	if lo < 0 {
		lo = 0
	}
	hi := off + 30
	if hi > len(b) {
		hi = len(b)
	}
	if lo > hi {
		lo = hi
	}
	return string(b[lo:hi])
}

func diffLists(want, have []string) string {
	if len(want) == len(have) {
		same := true
		for i := range want {
			if want[i] != have[i] {
				same = false
				break
			}
		}
		if same {
			return ""
		}
	}
	ws := map[string]bool{}
	for _, s := range want {
		ws[s] = true
	}
	hs := map[string]bool{}
	for _, s := range have {
		hs[s] = true
	}
	var missing, extra []string
	for _, s := range want {
		if !hs[s] {
			missing = append(missing, s)
		}
	}
	for _, s := range have {
		if !ws[s] {
			extra = append(extra, s)
		}
	}
	if len(missing) == 0 && len(extra) == 0 {
		return "same ids in a different order or multiplicity"
	}
	return fmt.Sprintf("in JSON but not compiled: %v; compiled but not in JSON: %v", trunc(missing), trunc(extra))
}

func trunc(s []string) []string {
	if len(s) > 6 {
		return append(s[:6:6], "…")
	}
	return s
}

// ---------------------------------------------------------------------------------------------
// scanner constants (shared by C05 G1/G7, C09 K0, C12 L5)

type scanKeywords struct {
	Operators []string // constants tried by readOperator, in order
	Prefixes  []string // DocumentRef- / LicenseRef-
	IDPattern string
	Patterns  []string
	WSPattern string
	ReadFn    *ssa.Function
	ReadRegex *ssa.Function
	ReadClass *ssa.Function // the stream method that reads a run of bytes accepted by a func(byte) bool
	// every function that reads a run of id bytes: ReadClass and the stream methods with such a loop in place
	ClassReaders []*ssa.Function
	OperatorFn   *ssa.Function
}

func (k *scanKeywords) All() []string {
	return append(append([]string{}, k.Operators...), k.Prefixes...)
}

// makesOperatorTokens: f builds a scanner token whose role is the operator role.
func makesOperatorTokens(p *Prog, f *ssa.Function) bool {
	oc, _ := p.ExpPkg.Types.Scope().Lookup("operatorToken").(*types.Const)
	if oc == nil {
		return false
	}
	want, _ := constant.Int64Val(oc.Val())
	for _, tl := range tokenLitsIn(p, f) {
		if tl.Role == nil {
			if want == 0 {
				return true
			}
			continue
		}
		if rc, ok := tl.Role.(*ssa.Const); ok && rc.Value != nil {
			if v, exact := constant.Int64Val(constant.ToInt(rc.Value)); exact && v == want {
				return true
			}
		}
	}
	return false
}

// firstByteGuard: the call is dominated by the true branch of a test `s[i] == c` of one byte of a string
// against a constant (the case of a switch on the next byte); returns c.
func firstByteGuard(c *ssa.Call) (byte, bool) {
	cb := c.Block()
	under := func(s *ssa.BasicBlock) bool { return s == cb || s.Dominates(cb) }
	for _, d := range c.Parent().Blocks {
		if d == cb || !d.Dominates(cb) || len(d.Succs) != 2 || d.Succs[0] == d.Succs[1] {
			continue
		}
		ifi, ok := d.Instrs[len(d.Instrs)-1].(*ssa.If)
		if !ok || !under(d.Succs[0]) || under(d.Succs[1]) || len(d.Succs[0].Preds) != 1 {
			continue
		}
		bo, ok := ifi.Cond.(*ssa.BinOp)
		if !ok || bo.Op != token.EQL {
			continue
		}
		for _, pair := range [][2]ssa.Value{{bo.X, bo.Y}, {bo.Y, bo.X}} {
			kc, isK := pair[1].(*ssa.Const)
			if !isK || kc.Value == nil {
				continue
			}
			isByteOfString := false
			switch t := pair[0].(type) {
			case *ssa.Index:
				isByteOfString = isStringType(t.X.Type())
			case *ssa.Lookup:
				isByteOfString = isStringType(t.X.Type())
			}
			if !isByteOfString {
				continue
			}
			if v, exact := constant.Int64Val(constant.ToInt(kc.Value)); exact && v >= 0 && v < 256 {
				return byte(v), true
			}
		}
	}
	return 0, false
}

// scannerKeywords discovers the literal strings the scanner matches before ids: every call in R of
// the stream method that wraps strings.HasPrefix ("read") with a constant or with a range element
// of a constant list; and the regexp constants given to the method that wraps regexp.Compile.
func scannerKeywords(p *Prog) (*scanKeywords, error) {
	k := &scanKeywords{}
	// discover read / readRegex structurally: methods in R calling strings.HasPrefix / regexp.Compile
	for _, cs := range p.StdCallees["strings.HasPrefix"] {
		if cs.Caller.Signature.Recv() != nil && strings.Contains(cs.Caller.String(), "expressionStream") {
			// the keyword matcher tests for its own string parameter
			args := cs.Instr.Common().Args
			if len(args) == 2 {
				if prm, ok := args[1].(*ssa.Parameter); ok && prm.Parent() == cs.Caller {
					k.ReadFn = cs.Caller
				}
			}
		}
	}
	for _, name := range []string{"regexp.Compile", "regexp.MustCompile"} {
		for _, cs := range p.StdCallees[name] {
			if cs.Caller.Signature.Recv() != nil {
				k.ReadRegex = cs.Caller
			}
		}
	}
	// the pattern reader may also take a compiled expression (package-level, compiled once): it is the
	// stream method that applies FindStringIndex
	var extraPatterns []string
	for _, cs := range p.StdCallees["(*regexp.Regexp).FindStringIndex"] {
		f := cs.Caller
		if f.Signature.Recv() == nil || !strings.Contains(f.String(), "expressionStream") {
			continue
		}
		if k.ReadRegex == nil {
			k.ReadRegex = f
		}
		if pats, ok := regexPatternsOf(p, cs.Instr.Common().Args[0], 0); ok {
			extraPatterns = append(extraPatterns, pats...)
		}
	}
	// a class reader: a stream method that is handed a func(byte) bool and reads the longest run of accepted
	// bytes (readWhile(isIDByte)): each predicate passed to it is evaluated on all 256 bytes and stands for
	// the pattern [class]+ (or [class]* when it accepts no letter or digit: the separator class)
	for _, f := range p.RList {
		if f.Signature.Recv() == nil || !strings.Contains(f.String(), "expressionStream") {
			continue
		}
		pidx := -1
		for i, prm := range f.Params {
			if sig, ok := prm.Type().Underlying().(*types.Signature); ok && sig.Params().Len() == 1 && sig.Results().Len() == 1 && isBoolType(sig.Results().At(0).Type()) {
				if b, ok := sig.Params().At(0).Type().Underlying().(*types.Basic); ok && (b.Kind() == types.Uint8 || b.Kind() == types.Byte) {
					pidx = i
				}
			}
		}
		if pidx < 0 {
			continue
		}
		for _, g := range p.RList {
			for _, gb := range g.Blocks {
				for _, gin := range gb.Instrs {
					gc, ok := gin.(*ssa.Call)
					if !ok || gc.Call.StaticCallee() != f || pidx >= len(gc.Call.Args) {
						continue
					}
					pred, ok := gc.Call.Args[pidx].(*ssa.Function)
					if !ok {
						return nil, fmt.Errorf("%s: the byte predicate handed to %s is not a plain function", p.pos(gc.Pos()), f.Name())
					}
					cls, err := evalBytePred(pred)
					if err != nil {
						return nil, fmt.Errorf("%s: byte predicate %s: %v", p.pos(gc.Pos()), pred.Name(), err)
					}
					rep := "*"
					if cls['a'] || cls['A'] || cls['0'] {
						rep = "+"
					}
					pat, err := byteClassPattern(cls, rep)
					if err != nil {
						return nil, fmt.Errorf("%s: byte predicate %s: %v", p.pos(gc.Pos()), pred.Name(), err)
					}
					extraPatterns = append(extraPatterns, pat)
				}
			}
		}
		k.ReadClass = f
	}
	// the same reader written in place: a loop of a stream method that tests the byte at the cursor with a
	// byte predicate (or against one constant byte) and steps the cursor by one while it holds
	for _, f := range p.RList {
		if f.Signature.Recv() == nil || !strings.Contains(f.String(), "expressionStream") || len(f.Params) == 0 {
			continue
		}
		for _, b := range f.Blocks {
			ifi, ok := b.Instrs[len(b.Instrs)-1].(*ssa.If)
			if !ok {
				continue
			}
			var counter *ssa.Phi
			byteAtCursor := func(v ssa.Value) (string, bool) {
				var x, idx ssa.Value
				switch t := v.(type) {
				case *ssa.Index:
					x, idx = t.X, t.Index
				case *ssa.Lookup:
					x, idx = t.X, t.Index
				default:
					return "", false
				}
				// rest[n] with rest := buffer[cursor:] (or the stream's own rest()) and n a counter from 0
				if ph, isPhi := idx.(*ssa.Phi); isPhi && isStringType(x.Type()) {
					var sl *ssa.Slice
					recv := ssa.Value(f.Params[0])
					switch r := x.(type) {
					case *ssa.Slice:
						sl = r
					case *ssa.Call:
						if h := r.Call.StaticCallee(); h != nil && p.InModule(h) && len(h.Blocks) == 1 && len(h.Params) == 1 && len(r.Call.Args) == 1 && r.Call.Args[0] == recv {
							if ret, ok := h.Blocks[0].Instrs[len(h.Blocks[0].Instrs)-1].(*ssa.Return); ok && len(ret.Results) == 1 {
								sl, _ = ret.Results[0].(*ssa.Slice)
								recv = h.Params[0]
							}
						}
					}
					if sl == nil || sl.High != nil || sl.Max != nil || sl.Low == nil {
						return "", false
					}
					lx, ok1 := sl.X.(*ssa.UnOp)
					li, ok2 := sl.Low.(*ssa.UnOp)
					if !ok1 || !ok2 || lx.Op != token.MUL || li.Op != token.MUL {
						return "", false
					}
					fx, ok1 := lx.X.(*ssa.FieldAddr)
					fi, ok2 := li.X.(*ssa.FieldAddr)
					if !ok1 || !ok2 || fx.X != recv || fi.X != recv {
						return "", false
					}
					for _, e := range ph.Edges {
						if kc, ok := e.(*ssa.Const); ok && kc.Value != nil && kc.Int64() == 0 {
							continue
						}
						bo, ok := e.(*ssa.BinOp)
						if !ok || bo.Op != token.ADD || bo.X != ssa.Value(ph) {
							return "", false
						}
						if one, ok := bo.Y.(*ssa.Const); !ok || one.Value == nil || one.Int64() != 1 {
							return "", false
						}
					}
					counter = ph
					return fieldOf(fi).Field, true
				}
				lx, ok1 := x.(*ssa.UnOp)
				li, ok2 := idx.(*ssa.UnOp)
				if !ok1 || !ok2 || lx.Op != token.MUL || li.Op != token.MUL || !isStringType(x.Type()) {
					return "", false
				}
				fx, ok1 := lx.X.(*ssa.FieldAddr)
				fi, ok2 := li.X.(*ssa.FieldAddr)
				if !ok1 || !ok2 || fx.X != ssa.Value(f.Params[0]) || fi.X != ssa.Value(f.Params[0]) {
					return "", false
				}
				return fieldOf(fi).Field, true
			}
			var cls [256]bool
			cursor := ""
			switch c := ifi.Cond.(type) {
			case *ssa.Call:
				pred := c.Call.StaticCallee()
				if pred == nil || !p.InModule(pred) || len(c.Call.Args) != 1 || pred.Signature.Recv() != nil {
					continue
				}
				fld, ok := byteAtCursor(c.Call.Args[0])
				if !ok {
					continue
				}
				cursor = fld
				var err error
				cls, err = evalBytePred(pred)
				if err != nil {
					return nil, fmt.Errorf("%s: byte predicate %s: %v", p.pos(c.Pos()), pred.Name(), err)
				}
			case *ssa.BinOp:
				if c.Op != token.EQL {
					continue
				}
				matched := false
				for _, pair := range [][2]ssa.Value{{c.X, c.Y}, {c.Y, c.X}} {
					kc, isK := pair[1].(*ssa.Const)
					fld, ok := byteAtCursor(pair[0])
					if !isK || !ok || kc.Value == nil {
						continue
					}
					if bv, exact := constant.Int64Val(constant.ToInt(kc.Value)); exact && bv >= 0 && bv < 256 {
						cls[bv] = true
						cursor = fld
						matched = true
					}
				}
				if !matched {
					continue
				}
			default:
				continue
			}
			// the accepted edge steps the cursor by one and loops
			steps := false
			tb := b.Succs[0]
			for _, in := range tb.Instrs {
				st, ok := in.(*ssa.Store)
				if !ok {
					continue
				}
				fa, ok := st.Addr.(*ssa.FieldAddr)
				if !ok || fa.X != ssa.Value(f.Params[0]) || fieldOf(fa).Field != cursor {
					continue
				}
				if bo, ok := st.Val.(*ssa.BinOp); ok && bo.Op == token.ADD {
					if one, ok := bo.Y.(*ssa.Const); ok && one.Value != nil && one.Int64() == 1 {
						if ld, ok := bo.X.(*ssa.UnOp); ok && ld.Op == token.MUL {
							if fa2, ok := ld.X.(*ssa.FieldAddr); ok && fa2.X == fa.X && fieldOf(fa2).Field == cursor {
								steps = true
							}
						}
					}
				}
			}
			if counter != nil {
				// the counter is stepped on the accepted edge
				for _, in := range tb.Instrs {
					if bo, ok := in.(*ssa.BinOp); ok && bo.Op == token.ADD && bo.X == ssa.Value(counter) {
						steps = true
					}
				}
			}
			loops := false
			for _, s2 := range tb.Succs {
				if s2 == b || s2.Dominates(b) {
					loops = true
				}
			}
			if !steps || !loops {
				continue
			}
			rep := "*"
			if cls['a'] || cls['A'] || cls['0'] {
				rep = "+"
				k.ClassReaders = append(k.ClassReaders, f)
			}
			pat, err := byteClassPattern(cls, rep)
			if err != nil {
				return nil, fmt.Errorf("%s: byte class of the scanning loop: %v", p.pos(ifi.Pos()), err)
			}
			extraPatterns = append(extraPatterns, pat)
		}
	}
	if k.ReadClass != nil {
		k.ClassReaders = append(k.ClassReaders, k.ReadClass)
	}
	if k.ReadFn == nil {
		return nil, fmt.Errorf("unresolved anchor: the stream method that matches literal keywords (wrapper of strings.HasPrefix)")
	}
	for _, f := range p.RList {
		for _, b := range f.Blocks {
			for _, in := range b.Instrs {
				c, ok := in.(*ssa.Call)
				if !ok {
					continue
				}
				callee := c.Call.StaticCallee()
				if callee == nil {
					continue
				}
				if callee == k.ReadFn {
					arg := c.Call.Args[1]
					if s, ok := constString(arg); ok {
						if makesOperatorTokens(p, f) {
							// the operator reader tries its keywords one by one as constants (a switch on the next
							// byte, an if-chain): a byte test that guards the attempt must agree with the keyword
							if gb, guarded := firstByteGuard(c); guarded && (len(s) == 0 || s[0] != gb) {
								return nil, fmt.Errorf("%s: operator %q is only tried when the next byte is %q: it can never be read", p.pos(c.Pos()), s, string(rune(gb)))
							}
							k.Operators = append(k.Operators, s)
							k.OperatorFn = f
							continue
						}
						k.Prefixes = append(k.Prefixes, s)
						continue
					}
					// the caller's own string parameter (a shared reader of "prefix + id" tokens): the
					// constants its call sites pass
					if prm, ok := arg.(*ssa.Parameter); ok {
						idx := -1
						for i, fp := range f.Params {
							if fp == prm {
								idx = i
							}
						}
						var consts []string
						okAll := idx >= 0
						for _, g := range p.RList {
							for _, gb := range g.Blocks {
								for _, gin := range gb.Instrs {
									if gc, ok := gin.(*ssa.Call); ok && gc.Call.StaticCallee() == f && idx < len(gc.Call.Args) {
										if s, ok := constString(gc.Call.Args[idx]); ok {
											consts = append(consts, s)
										} else {
											okAll = false
										}
									}
								}
							}
						}
						if okAll && len(consts) > 0 {
							k.Prefixes = append(k.Prefixes, consts...)
							continue
						}
					}
					// range element of a literal array: t = *alloc; t[i]
					if ix, ok := arg.(*ssa.Index); ok {
						if ld, ok := ix.X.(*ssa.UnOp); ok && ld.Op == token.MUL {
							if al, ok := ld.X.(*ssa.Alloc); ok {
								te := &tableEval{p: p}
								if tv, err := te.evalArray(al, f); err == nil {
									if ss, err := tv.Strings(); err == nil {
										if err := isRangeIndexOf(ix.Index, ix.X); err != nil {
											return nil, fmt.Errorf("%s: keyword list is not tried by a full forward range: %v", p.pos(c.Pos()), err)
										}
										k.Operators = append(k.Operators, ss...)
										k.OperatorFn = f
										continue
									}
								}
							}
						}
					}
					// range element of an immutable package-level array (var operators = [...]string{…})
					{
						var gtbl, gidx ssa.Value
						if ix, ok := arg.(*ssa.Index); ok {
							gtbl, gidx = ix.X, ix.Index
						} else if ld, ok := arg.(*ssa.UnOp); ok && ld.Op == token.MUL {
							if ia, ok := ld.X.(*ssa.IndexAddr); ok {
								gtbl, gidx = ia.X, ia.Index
							}
						}
						if gtbl != nil {
							if g := tableGlobalOf(gtbl); g != nil {
								var ss []string
								okAll := true
								for _, e := range globalArrayInit(g) {
									if sv, ok := constString(e); ok {
										ss = append(ss, sv)
									} else {
										okAll = false
									}
								}
								if okAll && len(ss) > 0 {
									if err := isRangeIndexOf(gidx, gtbl); err != nil {
										return nil, fmt.Errorf("%s: keyword list is not tried by a full forward range: %v", p.pos(c.Pos()), err)
									}
									k.Operators = append(k.Operators, ss...)
									k.OperatorFn = f
									continue
								}
							}
						}
					}
					// range element of a list parameter (readAnyOf(candidates ...string)): the literal list passed at
					// the single call site
					if ld, ok := arg.(*ssa.UnOp); ok && ld.Op == token.MUL {
						if ia, ok := ld.X.(*ssa.IndexAddr); ok {
							if lp, isPrm := ia.X.(*ssa.Parameter); isPrm {
								pidx := -1
								for i, fp := range f.Params {
									if fp == lp {
										pidx = i
									}
								}
								var sites []*ssa.Call
								for _, g := range p.RList {
									for _, gb := range g.Blocks {
										for _, gin := range gb.Instrs {
											if gc, ok := gin.(*ssa.Call); ok && gc.Call.StaticCallee() == f && pidx >= 0 && pidx < len(gc.Call.Args) {
												sites = append(sites, gc)
											}
										}
									}
								}
								if len(sites) == 1 {
									te := &tableEval{p: p}
									if tv, err := te.eval(sites[0].Call.Args[pidx], sites[0].Parent()); err == nil {
										if ss, err := tv.Strings(); err == nil {
											if err := isRangeIndexOf(ia.Index, ia.X); err != nil {
												return nil, fmt.Errorf("%s: keyword list is not tried by a full forward range: %v", p.pos(c.Pos()), err)
											}
											k.Operators = append(k.Operators, ss...)
											k.OperatorFn = sites[0].Parent()
											continue
										}
									}
								}
							}
						}
					}
					// range element of a literal list
					if ld, ok := arg.(*ssa.UnOp); ok && ld.Op == token.MUL {
						if ia, ok := ld.X.(*ssa.IndexAddr); ok {
							te := &tableEval{p: p}
							if tv, err := te.eval(ia.X, f); err == nil {
								if ss, err := tv.Strings(); err == nil {
									if err := isRangeIndexOf(ia.Index, ia.X); err != nil {
										return nil, fmt.Errorf("%s: keyword list is not tried by a full forward range: %v", p.pos(c.Pos()), err)
									}
									k.Operators = append(k.Operators, ss...)
									k.OperatorFn = f
									continue
								}
							}
						}
					}
					return nil, fmt.Errorf("%s: keyword argument of %s is neither a constant nor an element of a constant list", p.pos(c.Pos()), p.shortKey(callee))
				}
				if k.ReadRegex != nil && callee == k.ReadRegex {
					s, ok := constString(c.Call.Args[1])
					if !ok {
						if _, okRe := regexPatternsOf(p, c.Call.Args[1], 0); okRe {
							continue // a compiled expression with known constant patterns (collected above)
						}
						return nil, fmt.Errorf("%s: regexp pattern is not a constant", p.pos(c.Pos()))
					}
					k.Patterns = append(k.Patterns, s)
					if re, err := regexp.Compile(`^(?:` + s + `)`); err == nil {
						isID := false
						for _, probe := range []string{"a", "A", "0"} {
							if loc := re.FindStringIndex(probe); loc != nil && loc[1] > 0 {
								isID = true
							}
						}
						if isID {
							if k.IDPattern != "" && k.IDPattern != s {
								return nil, fmt.Errorf("%s: two different id patterns %q and %q", p.pos(c.Pos()), k.IDPattern, s)
							}
							k.IDPattern = s
						} else {
							k.WSPattern = s
						}
					}
				}
			}
		}
	}
	for _, s := range extraPatterns {
		dup := false
		for _, x := range k.Patterns {
			if x == s {
				dup = true
			}
		}
		if dup {
			continue
		}
		k.Patterns = append(k.Patterns, s)
		if re, err := regexp.Compile(`^(?:` + s + `)`); err == nil {
			isID := false
			for _, probe := range []string{"a", "A", "0"} {
				if loc := re.FindStringIndex(probe); loc != nil && loc[1] > 0 {
					isID = true
				}
			}
			if isID {
				if k.IDPattern != "" && k.IDPattern != s {
					return nil, fmt.Errorf("two different id patterns %q and %q", k.IDPattern, s)
				}
				k.IDPattern = s
			} else {
				k.WSPattern = s
			}
		}
	}
	if len(k.Operators) == 0 {
		return nil, fmt.Errorf("unresolved anchor: scanner operator list")
	}
	return k, nil
}

// regexPatternsOf: the constant patterns a *regexp.Regexp value can have been compiled from: a direct
// Compile/MustCompile of a constant, a parameter (all reachable call sites), or a package-level variable
// initialised once with such a compilation.
func regexPatternsOf(p *Prog, v ssa.Value, d int) ([]string, bool) {
	if d > 4 {
		return nil, false
	}
	switch t := v.(type) {
	case *ssa.Extract:
		return regexPatternsOf(p, t.Tuple, d+1)
	case *ssa.Call:
		c := t.Call.StaticCallee()
		if c == nil || (c.String() != "regexp.Compile" && c.String() != "regexp.MustCompile") {
			return nil, false
		}
		if s, ok := constString(t.Call.Args[0]); ok {
			return []string{s}, true
		}
		if prm, ok := t.Call.Args[0].(*ssa.Parameter); ok {
			cs, ok := paramConsts(p, prm)
			if !ok {
				return nil, false
			}
			var out []string
			for _, k := range cs {
				if k.Value.Kind() == constant.String {
					out = append(out, constant.StringVal(k.Value))
				}
			}
			return out, len(out) > 0
		}
	case *ssa.Parameter:
		f := t.Parent()
		idx := -1
		for i, fp := range f.Params {
			if fp == t {
				idx = i
			}
		}
		var out []string
		n := 0
		for _, g := range p.RList {
			for _, b := range g.Blocks {
				for _, in := range b.Instrs {
					ci, ok := in.(ssa.CallInstruction)
					if !ok || ci.Common().StaticCallee() != f || idx < 0 || idx >= len(ci.Common().Args) {
						continue
					}
					n++
					ps, ok := regexPatternsOf(p, ci.Common().Args[idx], d+1)
					if !ok {
						return nil, false
					}
					out = append(out, ps...)
				}
			}
		}
		return out, n > 0
	case *ssa.UnOp:
		g, ok := t.X.(*ssa.Global)
		if !ok || t.Op != token.MUL {
			return nil, false
		}
		var out []string
		n := 0
		for _, fn := range p.AllModuleFuncsOfSSAPkg(g.Pkg) {
			for _, b := range fn.Blocks {
				for _, in := range b.Instrs {
					st, ok := in.(*ssa.Store)
					if !ok || st.Addr != ssa.Value(g) {
						continue
					}
					n++
					if fn.Name() != "init" {
						return nil, false // written outside initialisation
					}
					ps, ok := regexPatternsOf(p, st.Val, d+1)
					if !ok {
						return nil, false
					}
					out = append(out, ps...)
				}
			}
		}
		return out, n == 1
	}
	return nil, false
}

// ruleIDsScannable (G7 / L5a): every listed id, minus one trailing '+', fully matches the id pattern.
func ruleIDsScannable(p *Prog, r *Report, t *Tables, k *scanKeywords, rule string) {
	r.Rule(rule, "necessary", 500, "every listed id (minus one trailing '+') is matched in full by the scanner's id pattern and does not begin with a keyword the scanner tries first")
	if k.IDPattern == "" {
		r.Unknown(rule, "id-pattern", "-", "unresolved anchor: id regexp constant")
		return
	}
	if _, err := syntax.Parse(k.IDPattern, syntax.Perl); err != nil {
		r.Bad(rule, "id-pattern", "-", fmt.Sprintf("id pattern %q does not compile: %v", k.IDPattern, err))
		return
	}
	re := regexp.MustCompile(`^(?:` + k.IDPattern + `)`)
	for _, e := range t.allIDs() {
		id := strings.TrimSuffix(e.ID, "+")
		key := e.List + ":" + e.ID
		loc := re.FindStringIndex(id)
		if loc == nil || loc[1] != len(id) || id == "" {
			r.Bad(rule, key, p.pos(e.Pos), fmt.Sprintf("%s id %q is not matched in full by the scanner's id pattern %q", e.List, e.ID, k.IDPattern))
			continue
		}
		bad := ""
		for _, kw := range k.All() {
			if strings.HasPrefix(e.ID, kw) {
				bad = kw
			}
		}
		if bad != "" {
			r.Bad(rule, key, p.pos(e.Pos), fmt.Sprintf("%s id %q begins with scanner keyword %q and can never be read as an id", e.List, e.ID, bad))
			continue
		}
		r.OK(rule, key, p.pos(e.Pos), "matches id pattern", "", false)
	}
}
