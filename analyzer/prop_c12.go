package main

func init() {
	register("C12", &propDef{
		Level:   "translation_validation",
		Explain: "Translation validation of the three generated Go tables against cmd/licenses.json and cmd/exceptions.json under the generator's own template, which is extracted statically from the SSA of package cmd on every run (L1) and instantiated on the JSON data (L2, byte equality with the committed files). L3 compares the tables as compiled with the projection the SPDX schema fixes (licenseId / licenseExceptionId filtered by isDeprecatedLicenseId, missing keys are errors) independently of the generator, and L3g requires the generator's extracted projection to be that one. K1: the list lookup is an exhaustive EqualFold scan returning list spelling. Plus exhaustive lints over all ids: pairwise disjoint and fold-unique (L4), every id readable by the scanner in its role (L5), token roles consumed only where the grammar allows (L6). Nothing under /repo is executed.",
		Run:     rulesC12,
		Trusted: []string{"go/ssa lowering", "encoding/json field matching (exact, then case-insensitive) as mirrored by the checker", "the generator writes files only through os.WriteFile (other writers are reported undecided)"},
	})
}
