package main

import (
	"fmt"
	"go/types"
	"sort"
	"strings"

	"golang.org/x/tools/go/ssa"
)

type objInfo struct {
	Type     types.Type // type of the object (struct, array elem cell, scalar)
	Local    bool       // allocated by the code under analysis in this call (fresh), strong updates
	Summary  bool       // stands for several concrete objects: weak updates only
	Pub      bool       // a pointer to it has been abstracted to a CF (shape published)
	Desc     string
	FromSym  SymID // materialised target of this symbol (0 if allocated)
	ElemCell bool  // summary cell of a slice/array/map
	Dirty    bool  // a materialised (non-local) object that has been written since materialisation
}

// Env is one abstract state. Values of SSA registers of all active (inlined) frames share one map.
type Env struct {
	vals    map[ssa.Value]AV
	cells   map[cellKey]AV
	objs    map[ObjID]*objInfo
	nilOf   map[SymID]nilness
	shapes  map[SymID][]int // restriction of shapes for a pointer-to-struct symbol; absent = any
	tgt     map[SymID]ObjID
	sumSym  map[SymID]bool  // symbol stands for several values; facts may only be weakened
	marks   map[string]bool // path marks set by observers; joined by intersection ("on every path")
	ver     map[cellKey]int // version of strongly updatable cells (bumped by every write)
	pure    map[string]tri  // outcome of pure comparisons over current cell versions, learned from branches
	marksAV map[string]AV   // values remembered by observers (kept on joins only when equal)
	dead    bool
}

func newEnv() *Env {
	return &Env{vals: map[ssa.Value]AV{}, cells: map[cellKey]AV{}, objs: map[ObjID]*objInfo{}, nilOf: map[SymID]nilness{},
		shapes: map[SymID][]int{}, tgt: map[SymID]ObjID{}, sumSym: map[SymID]bool{}, marks: map[string]bool{}, ver: map[cellKey]int{}, pure: map[string]tri{}}
}

func (e *Env) clone() *Env {
	n := &Env{vals: make(map[ssa.Value]AV, len(e.vals)), cells: make(map[cellKey]AV, len(e.cells)), objs: make(map[ObjID]*objInfo, len(e.objs)),
		nilOf: make(map[SymID]nilness, len(e.nilOf)), shapes: make(map[SymID][]int, len(e.shapes)), tgt: make(map[SymID]ObjID, len(e.tgt)), sumSym: make(map[SymID]bool, len(e.sumSym))}
	for k, v := range e.vals {
		n.vals[k] = v
	}
	for k, v := range e.cells {
		n.cells[k] = v
	}
	for k, v := range e.objs {
		c := *v
		n.objs[k] = &c
	}
	for k, v := range e.nilOf {
		n.nilOf[k] = v
	}
	for k, v := range e.shapes {
		n.shapes[k] = v
	}
	for k, v := range e.tgt {
		n.tgt[k] = v
	}
	for k, v := range e.sumSym {
		n.sumSym[k] = v
	}
	n.marks = make(map[string]bool, len(e.marks))
	for k, v := range e.marks {
		n.marks[k] = v
	}
	n.ver = make(map[cellKey]int, len(e.ver))
	for k, v := range e.ver {
		n.ver[k] = v
	}
	n.pure = make(map[string]tri, len(e.pure))
	for k, v := range e.pure {
		n.pure[k] = v
	}
	if e.marksAV != nil {
		n.marksAV = make(map[string]AV, len(e.marksAV))
		for k, v := range e.marksAV {
			n.marksAV[k] = v
		}
	}
	return n
}

// nilnessOf returns the nil-ness of a reference value in this environment.
func (e *Env) nilnessOf(a AV) nilness {
	switch a.K {
	case KPtr:
		if a.Obj != 0 {
			return nonNil
		}
	case KIface, KSlice, KMap, KFunc:
	case KTop:
		return maybeNil
	default:
		return nonNil
	}
	if a.Sym != 0 {
		if n, ok := e.nilOf[a.Sym]; ok {
			return n
		}
		return maybeNil
	}
	if a.Nil == nilBot {
		return maybeNil
	}
	return a.Nil
}

func (e *Env) setNil(a AV, n nilness) {
	if a.Sym != 0 && !e.sumSym[a.Sym] {
		e.nilOf[a.Sym] = n
	}
}

// avKey renders a value canonically (for environment comparison).
func (e *Env) avKey(a AV) string {
	var b strings.Builder
	e.writeAV(&b, a, 0)
	return b.String()
}

func (e *Env) writeAV(b *strings.Builder, a AV, d int) {
	if d > 6 {
		b.WriteString("…")
		return
	}
	if a.Expr != "" {
		b.WriteString("E[" + a.Expr + "]")
	}
	switch a.K {
	case KBot:
		b.WriteString("⊥")
	case KTop:
		b.WriteString("⊤")
	case KBool:
		b.WriteString("b" + a.B.String())
	case KNum:
		if a.Set != nil {
			b.WriteString("{" + strings.Join(a.Set, ",") + "}")
		} else if a.Base != 0 {
			fmt.Fprintf(b, "s%d%+d", a.Base, a.Off)
		} else {
			b.WriteString("n")
		}
	case KPtr, KIface, KSlice, KMap, KFunc:
		fmt.Fprintf(b, "r%d", a.K)
		if a.Sym != 0 {
			fmt.Fprintf(b, "s%d", a.Sym)
		}
		b.WriteString(e.nilnessOf(a).String())
		if a.Obj != 0 {
			fmt.Fprintf(b, "o%d%s", a.Obj, a.Path)
		}
		if a.Fn != nil {
			b.WriteString(a.Fn.Name())
		}
		for _, f := range a.Fns {
			b.WriteString("|" + f.Name())
		}
		if a.In != nil {
			b.WriteString("<")
			e.writeAV(b, *a.In, d+1)
			b.WriteString(">")
		}
	case KTuple:
		b.WriteString("(")
		for _, x := range a.Tup {
			e.writeAV(b, x, d+1)
			b.WriteString(",")
		}
		b.WriteString(")")
	case KStruct:
		var ks []string
		for k := range a.Flds {
			ks = append(ks, k)
		}
		sort.Strings(ks)
		b.WriteString("{")
		for _, k := range ks {
			b.WriteString(k + ":")
			e.writeAV(b, a.Flds[k], d+1)
			b.WriteString(" ")
		}
		b.WriteString("}")
	}
}

// key renders the whole state restricted to the given live registers (for dedup of disjuncts).
func (e *Env) key(live []ssa.Value) string {
	var b strings.Builder
	for _, v := range live {
		if a, ok := e.vals[v]; ok {
			b.WriteString(v.Name())
			b.WriteString("=")
			e.writeAV(&b, a, 0)
			b.WriteString(";")
		}
	}
	var cks []cellKey
	for k := range e.cells {
		cks = append(cks, k)
	}
	sort.Slice(cks, func(i, j int) bool {
		if cks[i].Obj != cks[j].Obj {
			return cks[i].Obj < cks[j].Obj
		}
		return cks[i].Path < cks[j].Path
	})
	for _, k := range cks {
		fmt.Fprintf(&b, "o%d%s=", k.Obj, k.Path)
		e.writeAV(&b, e.cells[k], 0)
		b.WriteString(";")
	}
	var ss []int
	for s := range e.shapes {
		ss = append(ss, int(s))
	}
	sort.Ints(ss)
	for _, s := range ss {
		fmt.Fprintf(&b, "S%d=%v;", s, e.shapes[SymID(s)])
	}
	var mvk []string
	for k, v := range e.marksAV {
		mvk = append(mvk, k+"="+e.avKey(bare(v)))
	}
	sort.Strings(mvk)
	for _, k := range mvk {
		b.WriteString("MV:" + k + ";")
	}
	var pk []string
	for k, v := range e.pure {
		pk = append(pk, k+"="+v.String())
	}
	sort.Strings(pk)
	for _, k := range pk {
		b.WriteString("P:" + k + ";")
	}
	var mk []string
	for m := range e.marks {
		mk = append(mk, m)
	}
	sort.Strings(mk)
	for _, m := range mk {
		b.WriteString("M:" + m + ";")
	}
	var ts []int
	for s := range e.tgt {
		ts = append(ts, int(s))
	}
	sort.Ints(ts)
	for _, s := range ts {
		fmt.Fprintf(&b, "T%d=%d;", s, e.tgt[SymID(s)])
	}
	return b.String()
}

// ---------------------------------------------------------------------------------------------
// join of two environments (pointwise, deterministic symbols supplied by the engine)

type joiner struct {
	eng  *Engine
	a, b *Env
	out  *Env
	site string // deterministic naming prefix for join symbols
	n    int
}

func (j *joiner) joinAV(x, y AV, tag string) AV {
	if x.K == KBot {
		return y
	}
	if y.K == KBot {
		return x
	}
	if j.a.avKey(x) == j.b.avKey(y) && sameFacts(j.a, j.b, x, y) {
		return x
	}
	if x.K != y.K {
		// nil constant of a reference type joins with the reference
		return top()
	}
	switch x.K {
	case KBool:
		return boolAV(joinTri(x.B, y.B))
	case KNum:
		if x.Set != nil && y.Set != nil {
			return AV{K: KNum, Set: joinSets(x.Set, y.Set)}
		}
		if x.Base != 0 && x.Base == y.Base && x.Off == y.Off {
			return AV{K: KNum, Base: x.Base, Off: x.Off}
		}
		return numTop()
	case KPtr, KIface, KSlice, KMap, KFunc:
		out := AV{K: x.K}
		nn := joinNil(j.a.nilnessOf(x), j.b.nilnessOf(y))
		if x.K == KPtr && x.Obj != 0 && x.Obj == y.Obj && x.Path == y.Path {
			return x
		}
		if (x.K == KSlice || x.K == KMap) && x.Obj == y.Obj && x.Path == y.Path {
			out.Obj, out.Path = x.Obj, x.Path
		} else if x.K == KSlice || x.K == KMap {
			// different element cells: a nil/empty side contributes nothing
			switch {
			case x.Obj == 0:
				out.Obj, out.Path = y.Obj, y.Path
			case y.Obj == 0:
				out.Obj, out.Path = x.Obj, x.Path
			default:
				// merge the two cells into a deterministic summary cell
				oid := j.eng.internObj("join:" + j.site + ":" + tag)
				if _, ok := j.out.objs[oid]; !ok {
					j.out.objs[oid] = &objInfo{Summary: true, ElemCell: true, Desc: "joined element cell", Type: j.a.objs[x.Obj].Type}
				}
				ca := j.a.cells[cellKey{x.Obj, x.Path}]
				cb := j.b.cells[cellKey{y.Obj, y.Path}]
				old := j.out.cells[cellKey{oid, "[]"}]
				j.out.cells[cellKey{oid, "[]"}] = j.joinAV(old, j.joinAV(ca, cb, tag+"[]"), tag+"[]o")
				out.Obj, out.Path = oid, "[]"
			}
		}
		if x.K == KFunc && x.Fn == y.Fn {
			out.Fn = x.Fn
			out.Bind = x.Bind
			if x.Fn == nil && len(x.Fns) > 0 && sameFns(x.Fns, y.Fns) {
				out.Fns = x.Fns
			}
		}
		if x.K == KFunc && y.K == KFunc && out.Fn == nil && len(out.Fns) == 0 {
			// different targets that share their bindings (method values of one receiver collected in a
			// table, or plain functions): the value is one of them
			alts := func(v AV) []*ssa.Function {
				if v.Fn != nil {
					return []*ssa.Function{v.Fn}
				}
				return v.Fns
			}
			fa, fb := alts(x), alts(y)
			same := len(fa) > 0 && len(fb) > 0 && len(x.Bind) == len(y.Bind)
			if same {
				for i := range x.Bind {
					if j.a.avKey(bare(x.Bind[i])) != j.b.avKey(bare(y.Bind[i])) {
						same = false
					}
				}
			}
			if same {
				seen := map[*ssa.Function]bool{}
				var all []*ssa.Function
				for _, f := range append(append([]*ssa.Function{}, fa...), fb...) {
					if !seen[f] {
						seen[f] = true
						all = append(all, f)
					}
				}
				sort.Slice(all, func(i, k int) bool { return all[i].String() < all[k].String() })
				out.Fns = all
				out.Bind = x.Bind
			}
		}
		// symbol: same symbol on both sides keeps it (facts joined below); else a join symbol
		if x.Sym != 0 && x.Sym == y.Sym {
			out.Sym = x.Sym
			return out
		}
		s := j.eng.internSym("join:" + j.site + ":" + tag)
		out.Sym = s
		j.out.nilOf[s] = nn
		// shapes: union of both restrictions (absent = any)
		if x.K == KPtr {
			sa, oka := j.shapeSet(j.a, x)
			sb, okb := j.shapeSet(j.b, y)
			na, nb := j.a.nilnessOf(x), j.b.nilnessOf(y)
			switch {
			case na == isNil && okb:
				j.out.shapes[s] = sb
			case nb == isNil && oka:
				j.out.shapes[s] = sa
			case oka && okb:
				j.out.shapes[s] = joinInts(sa, sb)
			}
			delete(j.out.tgt, s)
		}
		return out
	case KTuple:
		if len(x.Tup) != len(y.Tup) {
			return top()
		}
		out := AV{K: KTuple}
		for i := range x.Tup {
			out.Tup = append(out.Tup, j.joinAV(x.Tup[i], y.Tup[i], fmt.Sprintf("%s.%d", tag, i)))
		}
		return out
	case KStruct:
		out := AV{K: KStruct, Flds: map[string]AV{}}
		for k, v := range x.Flds {
			if w, ok := y.Flds[k]; ok {
				out.Flds[k] = j.joinAV(v, w, tag+k)
			}
		}
		return out
	}
	return top()
}

// shapeSet returns the explicit shape restriction of a pointer value, if it has one: from its symbol,
// or — for a pointer to a known local object — none (ok=false).
func (j *joiner) shapeSet(e *Env, a AV) ([]int, bool) {
	if a.Sym != 0 {
		if s, ok := e.shapes[a.Sym]; ok {
			return s, true
		}
	}
	return nil, false
}

func sameFacts(a, b *Env, x, y AV) bool {
	if x.Sym != y.Sym {
		return false
	}
	if x.Sym == 0 {
		return true
	}
	if a.nilOf[x.Sym] != b.nilOf[x.Sym] {
		return false
	}
	sa, oka := a.shapes[x.Sym]
	sb, okb := b.shapes[x.Sym]
	if oka != okb || fmt.Sprint(sa) != fmt.Sprint(sb) {
		return false
	}
	return a.tgt[x.Sym] == b.tgt[x.Sym]
}

// joinEnvs computes the pointwise join. live limits the registers kept.
func (eng *Engine) joinEnvs(a, b *Env, site string, live []ssa.Value) *Env {
	out := newEnv()
	j := &joiner{eng: eng, a: a, b: b, out: out, site: site}
	// facts for symbols present in both with equal value are copied; others joined
	// every symbol gets an explicit nil-ness when it is created, so a symbol missing on one side was
	// never created (or already collected) there: its facts are taken from the side that has it
	for s, na := range a.nilOf {
		if nb, ok := b.nilOf[s]; ok {
			out.nilOf[s] = joinNil(na, nb)
		} else {
			out.nilOf[s] = na
		}
	}
	for s, nb := range b.nilOf {
		if _, ok := a.nilOf[s]; !ok {
			out.nilOf[s] = nb
		}
	}
	for s, sa := range a.shapes {
		if sb, ok := b.shapes[s]; ok {
			out.shapes[s] = joinInts(sa, sb)
		} else if _, inB := b.nilOf[s]; !inB {
			out.shapes[s] = sa
		}
	}
	for s, sb := range b.shapes {
		if _, ok := a.shapes[s]; !ok {
			if _, inA := a.nilOf[s]; !inA {
				out.shapes[s] = sb
			}
		}
	}
	for s, ta := range a.tgt {
		if tb, ok := b.tgt[s]; ok && ta == tb {
			out.tgt[s] = ta
		} else if _, inB := b.nilOf[s]; !inB {
			out.tgt[s] = ta
		}
	}
	for s, tb := range b.tgt {
		if _, ok := a.tgt[s]; !ok {
			if _, inA := a.nilOf[s]; !inA {
				out.tgt[s] = tb
			}
		}
	}
	for m := range a.marks {
		if b.marks[m] {
			out.marks[m] = true
		}
	}
	for k, va := range a.ver {
		if vb, ok := b.ver[k]; ok && va == vb {
			out.ver[k] = va
		} else {
			m := va
			if vb > m {
				m = vb
			}
			out.ver[k] = m + 1
		}
	}
	for k, vb := range b.ver {
		if _, ok := a.ver[k]; !ok {
			out.ver[k] = vb + 1
		}
	}
	for k, ta := range a.pure {
		if tb, ok := b.pure[k]; ok && ta == tb {
			out.pure[k] = ta
		}
	}
	for k, va := range a.marksAV {
		if vb, ok := b.marksAV[k]; ok && a.avKey(bare(va)) == b.avKey(bare(vb)) {
			if out.marksAV == nil {
				out.marksAV = map[string]AV{}
			}
			out.marksAV[k] = va
		}
	}
	for s := range a.sumSym {
		out.sumSym[s] = true
	}
	for s := range b.sumSym {
		out.sumSym[s] = true
	}
	for id, oi := range a.objs {
		c := *oi
		out.objs[id] = &c
	}
	for id, oi := range b.objs {
		if o, ok := out.objs[id]; ok {
			o.Summary = o.Summary || oi.Summary
			o.Pub = o.Pub || oi.Pub
			o.Dirty = o.Dirty || oi.Dirty
		} else {
			c := *oi
			out.objs[id] = &c
		}
	}
	// a clean (unwritten) materialised object whose shape differs on the two sides is un-materialised:
	// its cells would otherwise be joined across shapes and lose the correlation between fields.
	// Dirty objects keep their joined cells and lose the shape restriction instead.
	unmat := map[ObjID]bool{}
	for s, t := range out.tgt {
		sa, oka := a.shapes[s]
		sb, okb := b.shapes[s]
		_, inA := a.tgt[s]
		_, inB := b.tgt[s]
		if !(inA && inB) {
			continue
		}
		if oka == okb && fmt.Sprint(sa) == fmt.Sprint(sb) {
			continue
		}
		oi := out.objs[t]
		if oi != nil && oi.Dirty {
			delete(out.shapes, s)
			continue
		}
		delete(out.tgt, s)
		unmat[t] = true
	}
	for _, v := range live {
		x, okx := a.vals[v]
		y, oky := b.vals[v]
		switch {
		case okx && oky:
			out.vals[v] = j.joinAV(x, y, "v:"+v.Parent().Name()+"."+v.Name())
		case okx:
			out.vals[v] = x
		case oky:
			out.vals[v] = y
		}
	}
	oneSided := func(x AV, k cellKey, here, other *Env, xFirst bool) {
		oh := here.objs[k.Obj]
		oo, inOther := other.objs[k.Obj]
		switch {
		case !inOther:
			out.cells[k] = x // the other path never saw this object
		case oo.ElemCell || (oh != nil && oh.ElemCell):
			out.cells[k] = x // nothing stored on the other path: ⊥ there
		case oh != nil && oh.Local && oo.Local && oh.Type != nil:
			// a local object's unwritten cell holds the zero value
			if ft := pathTypeOf(oh.Type, k.Path); ft != types.Typ[types.Invalid] && kindOf(ft) != KStruct {
				z := zeroAV(ft)
				if xFirst {
					out.cells[k] = j.joinAV(x, z, fmt.Sprintf("cz:%d%s", k.Obj, k.Path))
				} else {
					out.cells[k] = j.joinAV(z, x, fmt.Sprintf("cz:%d%s", k.Obj, k.Path))
				}
			}
		default:
			// unknown on the other path: drop (reads fall back to the type default)
		}
	}
	for k, x := range a.cells {
		if unmat[k.Obj] {
			continue
		}
		if y, ok := b.cells[k]; ok {
			out.cells[k] = j.joinAV(x, y, fmt.Sprintf("c:%d%s", k.Obj, k.Path))
		} else {
			oneSided(x, k, a, b, true)
		}
	}
	for k, y := range b.cells {
		if unmat[k.Obj] {
			continue
		}
		if _, ok := a.cells[k]; !ok {
			oneSided(y, k, b, a, false)
		}
	}
	for o := range unmat {
		delete(out.objs, o)
	}
	if checkAI {
		cnt := func(e *Env, o ObjID) int {
			n := 0
			for k := range e.cells {
				if k.Obj == o {
					n++
				}
			}
			return n
		}
		for sy, t := range out.tgt {
			if cnt(out, t) == 0 {
				fmt.Printf("JOIN-INCONSISTENT sym=%s tgt=%d a.tgt=%v b.tgt=%v a.shapes=%v b.shapes=%v a.cells=%d b.cells=%d a.nil=%v b.nil=%v unmat=%v\n", eng.symName[sy], t, a.tgt[sy], b.tgt[sy], a.shapes[sy], b.shapes[sy], cnt(a, t), cnt(b, t), a.nilOf[sy], b.nilOf[sy], unmat[t])
			}
		}
	}
	return out
}

// refsSym reports whether sym occurs in any cell or in a register other than except.
func (e *Env) refsSym(s SymID, except ssa.Value) bool {
	var has func(a AV, d int) bool
	has = func(a AV, d int) bool {
		if d > 5 {
			return false
		}
		if a.Sym == s || a.Base == s {
			return true
		}
		for _, t := range a.Tup {
			if has(t, d+1) {
				return true
			}
		}
		for _, t := range a.Flds {
			if has(t, d+1) {
				return true
			}
		}
		for _, t := range a.Bind {
			if has(t, d+1) {
				return true
			}
		}
		if a.In != nil && has(*a.In, d+1) {
			return true
		}
		return false
	}
	for _, c := range e.cells {
		if has(c, 0) {
			return true
		}
	}
	for v, a := range e.vals {
		if v != except && has(a, 0) {
			return true
		}
	}
	return false
}

// refsObj reports whether a pointer into obj occurs in any cell or in a register other than except.
func (e *Env) refsObj(o ObjID, except ssa.Value) bool {
	var has func(a AV, d int) bool
	has = func(a AV, d int) bool {
		if d > 5 {
			return false
		}
		if a.Obj == o {
			return true
		}
		for _, t := range a.Tup {
			if has(t, d+1) {
				return true
			}
		}
		for _, t := range a.Flds {
			if has(t, d+1) {
				return true
			}
		}
		for _, t := range a.Bind {
			if has(t, d+1) {
				return true
			}
		}
		if a.In != nil && has(*a.In, d+1) {
			return true
		}
		return false
	}
	for k, c := range e.cells {
		if k.Obj != o && has(c, 0) {
			return true
		}
	}
	for v, a := range e.vals {
		if v != except && has(a, 0) {
			return true
		}
	}
	return false
}

func (e *Env) dropObj(o ObjID) {
	for k := range e.cells {
		if k.Obj == o {
			delete(e.cells, k)
		}
	}
}

// bump advances the version of a cell and forgets pure facts about its previous value.
func (e *Env) bump(k cellKey) {
	e.ver[k]++
	tag := fmt.Sprintf("c%d%s@", k.Obj, k.Path)
	for f := range e.pure {
		if strings.Contains(f, tag) {
			delete(e.pure, f)
		}
	}
}

func sameFns(a, b []*ssa.Function) bool {
	if len(a) != len(b) {
		return false
	}
	for i := range a {
		if a[i] != b[i] {
			return false
		}
	}
	return true
}
