package main

import (
	"fmt"
	"regexp"
	"sort"
	"strings"

	"golang.org/x/tools/go/ssa"
)

// the whole list of allowed nodes, possibly passed through the set-preserving sort/dedup helper
var allowedCollRe = regexp.MustCompile(`^(spdxexp\.sortAndDedup\()*spdxexp\.stringsToNodes\(param:allowedList\)#0\)*$`)

// the whole expansion of the parsed test expression
var expandCollRe = regexp.MustCompile(`^\(\*spdxexp\.node\)\.expand\(spdxexp\.parse\(param:testExpression\)#0, (true|false)\)$`)

// satisfiesFormula derives the verdict of Satisfies as a quantified formula.
func satisfiesFormula(p *Prog) (*qf, *ssa.Function, error) {
	fn := p.Func(p.ExpPkg, "Satisfies")
	if fn == nil {
		return nil, nil, fmt.Errorf("unresolved anchor: spdxexp.Satisfies")
	}
	// helpers are seen through; the functions the expected shape names stay opaque
	qz := &quantizer{p: p, elemVar: map[ssa.Value]string{}, stop: map[string]bool{
		"parse": true, "expand": true, "stringsToNodes": true, "sortAndDedup": true,
		"licensesAreCompatible": true, "licenseRefsAreCompatible": true}}
	f := qz.funcFormulaWith(fn, 0, nil)
	if f == nil {
		return nil, fn, fmt.Errorf("no formula")
	}
	return stripErr(f), fn, nil
}

// ruleX4: the verdict is ∃ alternative ∈ expand(parse(expr)) ∀ term ∈ alternative ∃ a ∈ nodes(allowedList) M(term, a),
// M the disjunction of the two pair matchers applied to the pair (term, a).
func ruleX4(p *Prog, r *Report, rule string) *qf {
	r.Rule(rule, "necessary", 1, "quantifier structure of the verdict: ∃ alternative of the expansion ∀ term of it ∃ allowed node: the pair (term, allowed) matches as licenses or as license references; derived from the loops, early exits and phis of Satisfies and its callees, never assumed")
	f, fn, err := satisfiesFormula(p)
	if err != nil {
		r.Unknown(rule, "Satisfies", "-", err.Error())
		return nil
	}
	r.Extra["verdict_formula"] = f.String()
	pos := p.pos(fn.Pos())
	fail := func(why string) *qf {
		r.Bad(rule, "Satisfies|verdict", pos, why+"; derived formula: "+f.String())
		return f
	}
	if f.has("unknown") {
		r.Unknown(rule, "Satisfies|verdict", pos, "kind=undecided: the verdict could not be summarised as a quantified formula: "+f.String())
		return f
	}
	if f.Op != "exists" {
		return fail("the verdict is not an existential over the alternatives of the expansion")
	}
	if !expandCollRe.MatchString(f.Coll) {
		return fail("the outer loop does not range over the expansion of the parsed test expression (ranges over " + f.Coll + ")")
	}
	g := f.Args[0]
	if g.Op != "forall" || g.Coll != f.Var {
		return fail("each alternative is not tested with a universal over its own terms")
	}
	h := g.Args[0]
	if h.Op != "exists" {
		return fail("a term is not tested with an existential over the allowed nodes")
	}
	if !allowedCollRe.MatchString(h.Coll) {
		return fail("the inner loop does not range over the nodes built from the allowed list (ranges over " + h.Coll + ")")
	}
	m := h.Args[0]
	var atoms []*qf
	if m.Op == "or" {
		atoms = m.Args
	} else {
		atoms = []*qf{m}
	}
	pair := fmt.Sprintf("&{firstNode:%s, secondNode:%s}", g.Var, h.Var)
	want := map[string]bool{"licensesAreCompatible": false, "licenseRefsAreCompatible": false}
	for _, a := range atoms {
		if a.Op != "atom" {
			return fail("the matcher is not a disjunction of pair-matcher calls")
		}
		ok := false
		for name := range want {
			if strings.Contains(a.Atom, ")."+name+"(") {
				if !strings.Contains(a.Atom, pair) {
					return fail(fmt.Sprintf("%s is not applied to the pair (term, allowed): %s", name, a.Atom))
				}
				want[name] = true
				ok = true
			}
		}
		if !ok {
			return fail("unexpected disjunct in the matcher: " + a.Atom)
		}
	}
	for name, seen := range want {
		if !seen {
			return fail("the matcher does not consult " + name)
		}
	}
	// premise of reading the loops as quantifiers: the matchers are functions of the pair — they write
	// no field of any object (a matcher that flips or caches inside the pair carries state from one
	// comparison to the next when the pair is reused)
	for _, name := range []string{"(*nodePair).licensesAreCompatible", "(*nodePair).licenseRefsAreCompatible"} {
		m := p.Func(p.ExpPkg, name)
		if m == nil {
			r.Unknown(rule, "matcher "+name, "-", "unresolved anchor")
			continue
		}
		ws := writesToExisting(p, m, map[*ssa.Function]bool{})
		if len(ws) > 0 {
			sort.Strings(ws)
			r.Bad(rule, "matcher "+name+"|pure", p.pos(m.Pos()), fmt.Sprintf("%s writes memory that existed before the call (%s): the outcome of one comparison can depend on the comparisons made before it, so the verdict is not the ∃∀∃ formula the loops suggest", name, strings.Join(ws, "; ")))
		} else {
			r.OK(rule, "matcher "+name+"|pure", p.pos(m.Pos()), "writes only objects it allocates itself", "", false)
		}
	}
	r.OK(rule, "Satisfies|verdict", pos, "∃∀∃ with both pair matchers", f.String(), true)
	return f
}

// writesToExisting: the stores (in f and everything it calls in the module) whose target is not inside an
// object allocated by the storing function itself — i.e. writes to receiver, arguments, globals.
func writesToExisting(p *Prog, f *ssa.Function, seen map[*ssa.Function]bool) []string {
	if f == nil || seen[f] || !p.InModule(f) {
		return nil
	}
	seen[f] = true
	var out []string
	freshBase := func(v ssa.Value) bool {
		for d := 0; d < 8; d++ {
			switch t := v.(type) {
			case *ssa.Alloc, *ssa.MakeSlice, *ssa.MakeMap:
				return true
			case *ssa.FieldAddr:
				v = t.X
			case *ssa.IndexAddr:
				v = t.X
			case *ssa.Slice:
				v = t.X
			default:
				return false
			}
		}
		return false
	}
	for _, b := range f.Blocks {
		for _, in := range b.Instrs {
			switch t := in.(type) {
			case *ssa.Store:
				if !freshBase(t.Addr) {
					out = append(out, fmt.Sprintf("%s: store through %s", p.pos(t.Pos()), describe(t.Addr)))
				}
			case *ssa.MapUpdate:
				if !freshBase(t.Map) {
					out = append(out, fmt.Sprintf("%s: map update", p.pos(t.Pos())))
				}
			case ssa.CallInstruction:
				if c := t.Common().StaticCallee(); c != nil {
					if p.InModule(c) {
						out = append(out, writesToExisting(p, c, seen)...)
					} else if si := classifyStd(c); si.Class == stdMutatesArg && si.MutArg < len(t.Common().Args) && !freshBase(t.Common().Args[si.MutArg]) {
						out = append(out, fmt.Sprintf("%s: %s rewrites its argument", p.pos(in.Pos()), c))
					}
				}
				for _, a := range t.Common().Args {
					if mc, ok := a.(*ssa.MakeClosure); ok {
						out = append(out, writesToExisting(p, mc.Fn.(*ssa.Function), seen)...)
					}
				}
			}
		}
	}
	return out
}
