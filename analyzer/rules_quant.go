package main

import (
	"fmt"
	"regexp"
	"sort"
	"strings"

	"golang.org/x/tools/go/ssa"
)

// the whole list of allowed nodes, possibly passed through the set-preserving sort/dedup helper
var allowedCollRe = regexp.MustCompile(`^(spdxexp\.sortAndDedup\()*spdxexp\.stringsToNodes\(param:allowedList\)#0\)*$`)

// the whole expansion of the parsed test expression
var expandCollRe = regexp.MustCompile(`^\(\*spdxexp\.node\)\.expand\(spdxexp\.parse\(param:testExpression\)#0, (true|false)\)$`)

// satisfiesFormula derives the verdict of Satisfies as a quantified formula.
func satisfiesFormula(p *Prog) (*qf, *ssa.Function, error) {
	fn := p.Func(p.ExpPkg, "Satisfies")
	if fn == nil {
		return nil, nil, fmt.Errorf("unresolved anchor: spdxexp.Satisfies")
	}
	// helpers are seen through; the functions the expected shape names stay opaque
	qz := &quantizer{p: p, elemVar: map[ssa.Value]string{}, stop: map[string]bool{
		"parse": true, "expand": true, "stringsToNodes": true, "sortAndDedup": true,
		"licensesAreCompatible": true, "licenseRefsAreCompatible": true}}
	f := qz.funcFormulaWith(fn, 0, nil)
	if f == nil {
		return nil, fn, fmt.Errorf("no formula")
	}
	return stripErr(f), fn, nil
}

// ruleX4: the verdict is ∃ alternative ∈ expand(parse(expr)) ∀ term ∈ alternative ∃ a ∈ nodes(allowedList) M(term, a),
// M the disjunction of the two pair matchers applied to the pair (term, a).
func ruleX4(p *Prog, r *Report, rule string) *qf {
	r.Rule(rule, "necessary", 1, "quantifier structure of the verdict: ∃ alternative of the expansion ∀ term of it ∃ allowed node: the pair (term, allowed) matches as licenses or as license references; derived from the loops, early exits and phis of Satisfies and its callees, never assumed")
	f, fn, err := satisfiesFormula(p)
	if err != nil {
		r.Unknown(rule, "Satisfies", "-", err.Error())
		return nil
	}
	r.Extra["verdict_formula"] = f.String()
	pos := p.pos(fn.Pos())
	fail := func(why string) *qf {
		r.Bad(rule, "Satisfies|verdict", pos, why+"; derived formula: "+f.String())
		return f
	}
	if f.has("unknown") {
		r.Unknown(rule, "Satisfies|verdict", pos, "kind=undecided: the verdict could not be summarised as a quantified formula: "+f.String())
		return f
	}
	if f.Op != "exists" {
		return fail("the verdict is not an existential over the alternatives of the expansion")
	}
	if !expandCollRe.MatchString(f.Coll) {
		return fail("the outer loop does not range over the expansion of the parsed test expression (ranges over " + f.Coll + ")")
	}
	g := f.Args[0]
	if g.Op != "forall" || g.Coll != f.Var {
		return fail("each alternative is not tested with a universal over its own terms")
	}
	h := g.Args[0]
	if h.Op != "exists" {
		return fail("a term is not tested with an existential over the allowed nodes")
	}
	if !allowedCollRe.MatchString(h.Coll) {
		return fail("the inner loop does not range over the nodes built from the allowed list (ranges over " + h.Coll + ")")
	}
	m := h.Args[0]
	var atoms []*qf
	if m.Op == "or" {
		atoms = m.Args
	} else {
		atoms = []*qf{m}
	}
	pair := fmt.Sprintf("&{firstNode:%s, secondNode:%s}", g.Var, h.Var)
	want := map[string]bool{"licensesAreCompatible": false, "licenseRefsAreCompatible": false}
	for _, a := range atoms {
		if a.Op != "atom" {
			return fail("the matcher is not a disjunction of pair-matcher calls")
		}
		ok := false
		for name := range want {
			if strings.Contains(a.Atom, ")."+name+"(") {
				if !strings.Contains(a.Atom, pair) {
					return fail(fmt.Sprintf("%s is not applied to the pair (term, allowed): %s", name, a.Atom))
				}
				want[name] = true
				ok = true
			}
		}
		if !ok {
			return fail("unexpected disjunct in the matcher: " + a.Atom)
		}
	}
	for name, seen := range want {
		if !seen {
			return fail("the matcher does not consult " + name)
		}
	}
	// premise of reading the loops as quantifiers: the matchers are functions of the pair — they write
	// no field of any object (a matcher that flips or caches inside the pair carries state from one
	// comparison to the next when the pair is reused)
	for _, name := range []string{"(*nodePair).licensesAreCompatible", "(*nodePair).licenseRefsAreCompatible"} {
		m := p.Func(p.ExpPkg, name)
		if m == nil {
			r.Unknown(rule, "matcher "+name, "-", "unresolved anchor")
			continue
		}
		ws := writesToExisting(p, m, map[*ssa.Function]bool{})
		if len(ws) > 0 {
			sort.Strings(ws)
			r.Bad(rule, "matcher "+name+"|pure", p.pos(m.Pos()), fmt.Sprintf("%s writes memory that existed before the call (%s): the outcome of one comparison can depend on the comparisons made before it, so the verdict is not the ∃∀∃ formula the loops suggest", name, strings.Join(ws, "; ")))
		} else {
			r.OK(rule, "matcher "+name+"|pure", p.pos(m.Pos()), "writes only objects it allocates itself", "", false)
		}
	}
	r.OK(rule, "Satisfies|verdict", pos, "∃∀∃ with both pair matchers", f.String(), true)
	return f
}

// writesToExisting: the stores (in f and everything it calls in the module) whose target is not inside an
// object allocated on the way — i.e. writes to f's receiver and arguments, to globals, or through pointers
// loaded from memory. A helper that writes through one of its own parameters (a *strings.Builder it is
// handed, an output slice) writes "existing" memory only if what the caller passes there is itself not
// fresh in the caller.
func writesToExisting(p *Prog, f *ssa.Function, seen map[*ssa.Function]bool) []string {
	sum := writeSummary(p, f, map[*ssa.Function]*writeSum{}, 0)
	if sum == nil {
		return nil
	}
	out := append([]string{}, sum.other...)
	for _, ws := range sum.viaParam {
		out = append(out, ws...)
	}
	return out
}

type writeSum struct {
	other    []string         // writes to globals / through loaded pointers / unknown bases
	viaParam map[int][]string // writes into memory reachable from parameter #i (by address arithmetic only)
}

// writeBase classifies the object an address points into: "fresh" (allocated in this function), a
// parameter index, or neither.
func writeBase(f *ssa.Function, v ssa.Value) (fresh bool, param int) {
	for d := 0; d < 8; d++ {
		switch t := v.(type) {
		case *ssa.Alloc, *ssa.MakeSlice, *ssa.MakeMap:
			return true, -1
		case *ssa.Parameter:
			for i, prm := range f.Params {
				if prm == t {
					return false, i
				}
			}
			return false, -1
		case *ssa.FieldAddr:
			v = t.X
		case *ssa.IndexAddr:
			v = t.X
		case *ssa.Slice:
			v = t.X
		case *ssa.ChangeType:
			v = t.X
		default:
			return false, -1
		}
	}
	return false, -1
}

func writeSummary(p *Prog, f *ssa.Function, memo map[*ssa.Function]*writeSum, depth int) *writeSum {
	if f == nil || !p.InModule(f) {
		return nil
	}
	if s, ok := memo[f]; ok {
		return s // nil while in progress (recursion): the cycle's own stores are counted where they occur
	}
	memo[f] = nil
	sum := &writeSum{viaParam: map[int][]string{}}
	record := func(addr ssa.Value, msg string) {
		fresh, prm := writeBase(f, addr)
		switch {
		case fresh:
		case prm >= 0:
			sum.viaParam[prm] = append(sum.viaParam[prm], msg)
		default:
			sum.other = append(sum.other, msg)
		}
	}
	for _, b := range f.Blocks {
		for _, in := range b.Instrs {
			switch t := in.(type) {
			case *ssa.Store:
				record(t.Addr, fmt.Sprintf("%s: store through %s", p.pos(t.Pos()), describe(t.Addr)))
			case *ssa.MapUpdate:
				record(t.Map, fmt.Sprintf("%s: map update", p.pos(t.Pos())))
			case ssa.CallInstruction:
				com := t.Common()
				if c := com.StaticCallee(); c != nil {
					if p.InModule(c) {
						if cs := writeSummary(p, c, memo, depth+1); cs != nil {
							sum.other = append(sum.other, cs.other...)
							for i, ws := range cs.viaParam {
								if i >= len(com.Args) {
									sum.other = append(sum.other, ws...)
									continue
								}
								fresh, prm := writeBase(f, com.Args[i])
								switch {
								case fresh:
								case prm >= 0:
									sum.viaParam[prm] = append(sum.viaParam[prm], ws...)
								default:
									sum.other = append(sum.other, ws...)
								}
							}
						}
					} else if si := classifyStd(c); si.Class == stdMutatesArg && si.MutArg < len(com.Args) {
						record(com.Args[si.MutArg], fmt.Sprintf("%s: %s rewrites its argument", p.pos(in.Pos()), c))
					}
				}
				for _, a := range com.Args {
					if mc, ok := a.(*ssa.MakeClosure); ok {
						// a closure's writes: through its own parameters they hit what its caller passes (unknown
						// here: counted), through captured variables they hit this function's locals or beyond
						if cs := writeSummary(p, mc.Fn.(*ssa.Function), memo, depth+1); cs != nil {
							sum.other = append(sum.other, cs.other...)
							for _, ws := range cs.viaParam {
								sum.other = append(sum.other, ws...)
							}
						}
					}
				}
			}
		}
	}
	memo[f] = sum
	return sum
}
