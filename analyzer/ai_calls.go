package main

import (
	"fmt"
	"go/constant"
	"go/token"
	"go/types"
	"os"
	"regexp/syntax"
	"sort"
	"strings"

	"golang.org/x/tools/go/ssa"
)

var traceFn = os.Getenv("SPDXVERIF_TRACE_FN")

func (eng *Engine) setResult(env *Env, in ssa.CallInstruction, rets []AV) {
	v, ok := in.(ssa.Value)
	if !ok {
		return
	}
	switch len(rets) {
	case 0:
	case 1:
		env.vals[v] = stripSrc(rets[0])
	default:
		env.vals[v] = AV{K: KTuple, Tup: rets}
	}
}

func (eng *Engine) defaultResult(env *Env, in ssa.CallInstruction) {
	if v, ok := in.(ssa.Value); ok {
		if tt, isT := v.Type().(*types.Tuple); isT && tt.Len() == 0 {
			return
		}
		env.vals[v] = eng.fromCF(env, defaultCF(v.Type(), 0), v.Type(), eng.instrKey(in))
	}
}

func (eng *Engine) execCall(fn *ssa.Function, in ssa.CallInstruction, env *Env) []*Env {
	com := in.Common()
	if b, ok := com.Value.(*ssa.Builtin); ok {
		return eng.execBuiltin(b, in, env)
	}
	var args []AV
	for _, a := range com.Args {
		args = append(args, eng.val(env, a))
	}
	if com.IsInvoke() {
		recv := eng.val(env, com.Value)
		if !eng.checkNonNil(in, recv, env, "interface value "+describe(com.Value), "nil") {
			return nil
		}
		env.setNil(recv, nonNil)
		eng.defaultResult(env, in)
		return []*Env{env}
	}
	callee := com.StaticCallee()
	var bind []AV
	if callee == nil {
		fv := eng.val(env, com.Value)
		if !eng.checkNonNil(in, fv, env, "function value "+describe(com.Value), "nilfunc") {
			return nil
		}
		if fv.K == KFunc && fv.Fn == nil && len(fv.Fns) > 0 {
			// one of a known table of functions: every target is analysed on its own copy of the state
			var outs []*Env
			for _, target := range fv.Fns {
				e2 := env.clone()
				outs = append(outs, eng.callResolved(fn, target, fv.Bind, in, args, e2)...)
			}
			return outs
		}
		if fv.K == KFunc && fv.Fn != nil {
			callee = fv.Fn
			bind = fv.Bind
		} else {
			eng.note("dynamic call in %s with unknown target; result unknown, no effects assumed on call-local memory", fn)
			eng.defaultResult(env, in)
			return []*Env{env}
		}
	} else if mc, ok := com.Value.(*ssa.MakeClosure); ok {
		for _, b := range mc.Bindings {
			bind = append(bind, eng.val(env, b))
		}
	}
	return eng.callResolved(fn, callee, bind, in, args, env)
}

// callResolved: the call with its target known.
func (eng *Engine) callResolved(fn, callee *ssa.Function, bind []AV, in ssa.CallInstruction, args []AV, env *Env) []*Env {
	// a thunk for a method expression T.m: its body is the call of the method
	if callee.Synthetic != "" && len(callee.Blocks) > 0 && !eng.p.InModule(callee) && eng.p.inModuleLoose(callee) && !eng.rec[callee] {
		return eng.inline(callee, in, args, bind, env)
	}
	if callee.Synthetic != "" && len(callee.Blocks) > 0 && !eng.p.InModule(callee) && eng.p.inModuleLoose(callee) && eng.rec[callee] {
		// a bound-method wrapper / method-expression thunk on a recursive cycle (parser combinators handed
		// t.parseAnd): the call is the call of the method it forwards to, with the bound receiver first
		if inner := unwrapThunk(eng.p, callee); inner != nil && inner != callee && eng.p.InModule(inner) {
			full := append(append([]AV{}, bind...), args...)
			if len(full) == len(inner.Params) {
				return eng.callResolved(fn, inner, nil, in, full, env)
			}
		}
	}
	if !eng.p.InModule(callee) {
		return eng.execStd(callee, in, args, env)
	}
	if eng.rec[callee] {
		// a parser combinator on a recursive cycle, instantiated by a thin wrapper with its operator and
		// sub-parsers known (parseAnd = parseBinary("AND", t.parseAtom)): it is analysed inline with those
		// values; a nested call of the very same instantiation is the recursion of the wrapper itself
		if key, ok := eng.combinatorKey(callee, args); ok {
			for _, fr := range eng.combStack {
				if fr.key == key {
					return eng.callSummary(fr.wrapper, in, []AV{args[0]}, env)
				}
			}
			if fn != callee && eng.thinWrapperCall(fn, callee, in) {
				eng.combStack = append(eng.combStack, combFrame{key: key, wrapper: fn})
				outs := eng.inline(callee, in, args, bind, env)
				eng.combStack = eng.combStack[:len(eng.combStack)-1]
				return outs
			}
		}
	}
	if eng.rec[callee] || len(eng.stack) > 40 {
		return eng.callSummary(callee, in, args, env)
	}
	return eng.inline(callee, in, args, bind, env)
}

type combFrame struct {
	key     string
	wrapper *ssa.Function
}

// combinatorKey: callee takes at least one function-typed parameter and every argument other than the receiver
// is a known function (a plain function, or a method value bound to the receiver argument itself) or a single
// constant; the key names that instantiation.
func (eng *Engine) combinatorKey(callee *ssa.Function, args []AV) (string, bool) {
	if len(args) != len(callee.Params) || len(args) < 2 {
		return "", false
	}
	hasFn := false
	key := callee.String()
	for i, a := range args {
		if i == 0 {
			continue
		}
		_, isSig := callee.Params[i].Type().Underlying().(*types.Signature)
		switch {
		case isSig:
			if a.K != KFunc || a.Fn == nil || len(a.Bind) > 1 {
				return "", false
			}
			if len(a.Bind) == 1 {
				b, r := a.Bind[0], args[0]
				if b.K != r.K || b.Obj != r.Obj || b.Path != r.Path || b.Sym != r.Sym {
					return "", false
				}
			}
			hasFn = true
			key += "|fn:" + a.Fn.String()
		default:
			v, ok := a.single()
			if !ok {
				return "", false
			}
			key += "|" + v
		}
	}
	return key, hasFn
}

// thinWrapperCall: caller is a recursive one-block method of one parameter (its receiver) whose body is this
// call, on its own receiver, and the return of its result.
func (eng *Engine) thinWrapperCall(caller, callee *ssa.Function, in ssa.CallInstruction) bool {
	if caller == nil || !eng.rec[caller] || len(caller.Blocks) != 1 || len(caller.Params) != 1 {
		return false
	}
	com := in.Common()
	if len(com.Args) == 0 || com.Args[0] != ssa.Value(caller.Params[0]) {
		return false
	}
	v, ok := in.(ssa.Value)
	if !ok || v.Referrers() == nil {
		return false
	}
	for _, r := range *v.Referrers() {
		switch r.(type) {
		case *ssa.Return, *ssa.DebugRef:
		default:
			return false
		}
	}
	for _, x := range caller.Blocks[0].Instrs {
		if ci, ok := x.(ssa.CallInstruction); ok && ci != in {
			return false
		}
	}
	return true
}

func (eng *Engine) inline(callee *ssa.Function, in ssa.CallInstruction, args, bind []AV, env *Env) []*Env {
	for i, fv := range callee.FreeVars {
		if i < len(bind) {
			env.vals[fv] = bind[i]
		}
	}
	eng.pushCtx(eng.siteTag(in))
	if traceFn != "" && strings.Contains(traceFn, callee.Name()) {
		for i, a := range args {
			fmt.Printf("CALL %s arg%d = %s\n", callee.Name(), i, eng.toCF(env, a, callee.Params[i].Type(), 0))
		}
	}
	outs := eng.runFunction(callee, env, args)
	if traceFn != "" && strings.Contains(traceFn, callee.Name()) {
		for _, o := range outs {
			for i, r := range o.Rets {
				fmt.Printf("RET  %s ret%d = %s\n", callee.Name(), i, eng.toCF(o.Env, r, callee.Signature.Results().At(i).Type(), 0))
			}
		}
	}
	eng.popCtx()
	var res []*Env
	calleeVals := fnValues(callee)
	// outcomes that return the same abstract value are merged: splits made inside the callee that did
	// not influence its result are forgotten (keeps correlation between results and heap facts only)
	groups := map[string]*Env{}
	var order []string
	for _, o := range outs {
		e := o.Env
		for _, v := range calleeVals {
			delete(e.vals, v)
		}
		eng.setResult(e, in, o.Rets)
		e.gc(eng.pinned)
		k := ""
		for _, r := range o.Rets {
			k += e.avKey(r) + "|"
		}
		// never merge across different shapes of a materialised object
		var ms []int
		for sy := range e.tgt {
			ms = append(ms, int(sy))
		}
		sort.Ints(ms)
		for _, sy := range ms {
			k += fmt.Sprintf("S%d=%v;", sy, e.shapes[SymID(sy)])
		}
		if g, ok := groups[k]; ok {
			groups[k] = eng.joinEnvsKeep(g, e, eng.instrKey(in)+":ret:"+k, callee)
		} else {
			groups[k] = e
			order = append(order, k)
		}
	}
	for _, k := range order {
		res = append(res, groups[k])
	}
	return res
}

func (eng *Engine) siteTag(in ssa.Instruction) string {
	b := in.Block()
	idx := 0
	for i, x := range b.Instrs {
		if x == in {
			idx = i
		}
	}
	return fmt.Sprintf("%s#%d.%d", in.Parent().Name(), b.Index, idx)
}

// callSummary applies the context-free summary of a recursive function.
func (eng *Engine) callSummary(callee *ssa.Function, in ssa.CallInstruction, args []AV, env *Env) []*Env {
	// objects the callee may mutate must be explicit in the caller's state, so that the outcome's
	// effects can be applied to them (keeps the correlation between result and effects)
	mods0 := eng.eff.trans[callee]
	for i, p := range callee.Params {
		if i >= len(args) {
			break
		}
		pt, ok := p.Type().Underlying().(*types.Pointer)
		if !ok {
			continue
		}
		n, _ := namedStruct(pt.Elem())
		if n == nil {
			continue
		}
		touched := false
		for fk := range mods0 {
			if fk.Struct == n.String() {
				touched = true
			}
		}
		a := args[i]
		if !touched || a.Obj != 0 || a.Sym == 0 || env.nilnessOf(a) == isNil {
			continue
		}
		if _, ok := env.tgt[a.Sym]; ok {
			continue
		}
		envs := eng.materialise(env, a, n)
		if len(envs) == 1 && envs[0] == env {
			if _, ok := env.tgt[a.Sym]; !ok {
				continue
			}
		}
		var out []*Env
		for _, e2 := range envs {
			out = append(out, eng.callSummary(callee, in, args, e2)...)
		}
		return out
	}
	// grow the entry state
	ent := eng.entry[callee]
	if ent == nil {
		ent = make([]CF, len(callee.Params))
	}
	grown := false
	for i, p := range callee.Params {
		if i >= len(args) {
			break
		}
		c := eng.toCF(env, args[i], p.Type(), 0)
		j := joinCF(ent[i], c)
		if !cfEqual(j, ent[i]) {
			if traceShapes {
				fmt.Printf("entry %s#%d: %s  +  %s  =>  %s   (ctx %s)\n", callee.Name(), i, ent[i], c, j, eng.ctxKey())
			}
			ent[i] = j
			grown = true
		}
	}
	if grown || eng.entry[callee] == nil {
		eng.entry[callee] = ent
		eng.changed = true
	}
	outs := eng.summ[callee]
	var res []*Env
	key := eng.instrKey(in)
	mods := eng.eff.trans[callee]
	for oi, o := range outs {
		e := env
		if len(outs) > 1 {
			e = env.clone()
		}
		var rets []AV
		res0 := callee.Signature.Results()
		for i, rc := range o.Rets {
			rets = append(rets, eng.fromCF(e, rc, res0.At(i).Type(), fmt.Sprintf("%s:o%d:r%d", key, oi, i)))
		}
		// effects on the objects the pointer arguments point to
		for i, p := range callee.Params {
			if i >= len(args) {
				break
			}
			pt, ok := p.Type().Underlying().(*types.Pointer)
			if !ok {
				continue
			}
			n, _ := namedStruct(pt.Elem())
			if n == nil {
				continue
			}
			a := args[i]
			obj, path := a.Obj, a.Path
			if obj == 0 && a.Sym != 0 {
				if t, ok := e.tgt[a.Sym]; ok {
					obj = t
				}
			}
			touched := false
			for fk := range mods {
				if fk.Struct == n.String() {
					touched = true
				}
			}
			if !touched {
				continue
			}
			if a.Sym != 0 {
				delete(e.shapes, a.Sym)
			}
			if obj == 0 {
				continue
			}
			for fp, fc := range o.Eff[i] {
				ft := pathTypeOf(n, fp)
				nv := eng.fromCF(e, fc, ft, fmt.Sprintf("%s:o%d:e%d%s", key, oi, i, fp))
				if od := e.objs[obj]; od != nil && !od.Local {
					od.Dirty = true
				}
				if od := e.objs[obj]; od != nil && !od.Summary {
					nv.Expr = ""
					e.cells[cellKey{obj, path + fp}] = stripSrc(nv)
					e.bump(cellKey{obj, path + fp})
				} else {
					eng.writeAt(e, obj, path+fp, nv, ft)
				}
			}
			// fields the callee may write but the outcome does not describe: unknown
			for fk := range mods {
				if fk.Struct != n.String() {
					continue
				}
				fp := "." + fk.Field
				if _, ok := o.Eff[i][fp]; ok {
					continue
				}
				ft := pathTypeOf(n, fp)
				for k := range e.cells {
					if k.Obj == obj && strings.HasPrefix(k.Path, path+fp) {
						delete(e.cells, k)
						e.bump(k)
					}
				}
				_ = ft
			}
		}
		// other objects of struct types the callee may mutate: havoc those fields
		for fk := range mods {
			for k := range e.cells {
				od := e.objs[k.Obj]
				if od == nil || od.Type == nil || od.ElemCell {
					continue
				}
				if od.Type.String() == fk.Struct && strings.HasPrefix(k.Path, "."+fk.Field) {
					isArg := false
					for _, a := range args {
						if a.Obj == k.Obj || (a.Sym != 0 && e.tgt[a.Sym] == k.Obj) {
							isArg = true
						}
					}
					if !isArg {
						delete(e.cells, k)
						e.bump(k)
						if od.Local {
							// a local object's missing cell reads as zero; make it unknown explicitly
							ft := pathTypeOf(od.Type, k.Path)
							e.cells[k] = eng.fromCF(e, defaultCF(ft, 0), ft, fmt.Sprintf("%s:hv:%d%s", key, k.Obj, k.Path))
						}
					}
				}
			}
		}
		eng.setResult(e, in, rets)
		res = append(res, e)
	}
	return res
}

// analyzeRecursive runs a recursive function on its accumulated entry state and refreshes its summary.
func (eng *Engine) analyzeRecursive(f *ssa.Function) {
	ent := eng.entry[f]
	if ent == nil {
		return
	}
	env := newEnv()
	var args []AV
	for i, p := range f.Params {
		if ent[i].K == KBot {
			return // never called with a value yet
		}
		args = append(args, eng.fromCF(env, ent[i], p.Type(), fmt.Sprintf("entry:%s:%d", f.String(), i)))
	}
	eng.ctx = []string{"rec:" + f.String()}
	eng.pinned = args // the parameters' facts are read again at every return
	outs := eng.runFunction(f, env, args)
	eng.pinned = nil
	eng.ctx = nil
	mods := eng.eff.trans[f]
	var cfs []*OutcomeCF
	seen := map[string]bool{}
	groupIdx := map[string]int{}
	res := f.Signature.Results()
	for _, o := range outs {
		oc := &OutcomeCF{Eff: map[int]map[string]CF{}}
		for i, r := range o.Rets {
			oc.Rets = append(oc.Rets, eng.toCF(o.Env, r, res.At(i).Type(), 0))
		}
		for i, p := range f.Params {
			pt, ok := p.Type().Underlying().(*types.Pointer)
			if !ok {
				continue
			}
			n, _ := namedStruct(pt.Elem())
			if n == nil {
				continue
			}
			a := args[i]
			obj := a.Obj
			if obj == 0 && a.Sym != 0 {
				if t, ok := o.Env.tgt[a.Sym]; ok {
					obj = t
				}
			}
			m := map[string]CF{}
			for fk := range mods {
				if fk.Struct != n.String() {
					continue
				}
				fp := "." + fk.Field
				ft := pathTypeOf(n, fp)
				if kindOf(ft) == KStruct {
					continue
				}
				if obj == 0 {
					// the object was never materialised on this path but callees may have written it
					if traceShapes {
						fmt.Printf("EFF-UNKNOWN %s outcome ret=%v: param %d not materialised at return (shapes=%v)\n", f.Name(), oc.Rets, i, o.Env.shapes[a.Sym])
					}
					m[fp] = defaultCF(ft, 1)
					continue
				}
				m[fp] = eng.toCF(o.Env, eng.readCell(o.Env, cellKey{obj, fp}, ft), ft, 0)
			}
			if len(m) > 0 {
				oc.Eff[i] = m
			}
		}
		oc.key = outcomeKey(oc)
		if traceShapes {
			fmt.Printf("RAW-OUTCOME %s: %s\n", f.Name(), oc.key)
		}
		// group by the nil-ness pattern of results and of the described effects; join within a group
		gk := groupKey(oc)
		if i, ok := groupIdx[gk]; ok {
			m := joinOutcome(cfs[i], oc)
			m.key = outcomeKey(m)
			cfs[i] = m
		} else {
			groupIdx[gk] = len(cfs)
			cfs = append(cfs, oc)
		}
	}
	for _, oc := range cfs {
		seen[oc.key] = true
	}
	sort.Slice(cfs, func(i, j int) bool { return cfs[i].key < cfs[j].key })
	// group indices refer to positions: rebuild them after sorting
	groupIdx = map[string]int{}
	for i, oc := range cfs {
		groupIdx[groupKey(oc)] = i
	}
	if len(cfs) > 12 {
		m := cfs[0]
		for _, o := range cfs[1:] {
			m = joinOutcome(m, o)
		}
		m.key = outcomeKey(m)
		cfs = []*OutcomeCF{m}
		groupIdx = map[string]int{groupKey(m): 0}
	}
	old := eng.summ[f]
	same := len(old) == len(cfs)
	if same {
		for i := range cfs {
			if old[i].key != cfs[i].key {
				same = false
			}
		}
	}
	if !same {
		// summaries only grow: join old outcomes into their groups (monotone)
		for _, o := range old {
			if seen[o.key] {
				continue
			}
			gk := groupKey(o)
			if i, ok := groupIdx[gk]; ok {
				m := joinOutcome(cfs[i], o)
				m.key = outcomeKey(m)
				cfs[i] = m
			} else {
				groupIdx[gk] = len(cfs)
				cfs = append(cfs, o)
			}
		}
		// after joining, compare again with the old summary
		sort.Slice(cfs, func(i, j int) bool { return cfs[i].key < cfs[j].key })
		same2 := len(old) == len(cfs)
		if same2 {
			for i := range cfs {
				if old[i].key != cfs[i].key {
					same2 = false
				}
			}
		}
		if same2 {
			return
		}
		sort.Slice(cfs, func(i, j int) bool { return cfs[i].key < cfs[j].key })
		if len(cfs) > 12 {
			m := cfs[0]
			for _, o := range cfs[1:] {
				m = joinOutcome(m, o)
			}
			m.key = outcomeKey(m)
			cfs = []*OutcomeCF{m}
		}
		eng.summ[f] = cfs
		eng.changed = true
		if traceShapes {
			for _, o := range cfs {
				fmt.Printf("summary %s: %s\n", f.Name(), o.key)
			}
		}
	}
}

// groupKey: nil-ness of reference results and of reference-valued effects, booleans of results.
func groupKey(o *OutcomeCF) string {
	var b strings.Builder
	sig := func(c CF) string {
		switch c.K {
		case KPtr, KIface, KSlice, KMap, KFunc:
			return c.Nil.String()
		case KBool:
			return c.B.String()
		}
		return "-"
	}
	for _, r := range o.Rets {
		b.WriteString(sig(r) + "|")
	}
	var is []int
	for i := range o.Eff {
		is = append(is, i)
	}
	sort.Ints(is)
	for _, i := range is {
		var ks []string
		for k := range o.Eff[i] {
			ks = append(ks, k)
		}
		sort.Strings(ks)
		for _, k := range ks {
			fmt.Fprintf(&b, "p%d%s=%s;", i, k, sig(o.Eff[i][k]))
		}
	}
	return b.String()
}

func outcomeKey(o *OutcomeCF) string {
	var b strings.Builder
	for _, r := range o.Rets {
		b.WriteString(r.String())
		b.WriteString("|")
	}
	var is []int
	for i := range o.Eff {
		is = append(is, i)
	}
	sort.Ints(is)
	for _, i := range is {
		fmt.Fprintf(&b, "p%d{%s}", i, shapeKey(o.Eff[i]))
	}
	return b.String()
}

func joinOutcome(a, b *OutcomeCF) *OutcomeCF {
	o := &OutcomeCF{Eff: map[int]map[string]CF{}}
	for i := range a.Rets {
		if i < len(b.Rets) {
			o.Rets = append(o.Rets, joinCF(a.Rets[i], b.Rets[i]))
		}
	}
	for i, m := range a.Eff {
		o.Eff[i] = map[string]CF{}
		for k, v := range m {
			if w, ok := b.Eff[i][k]; ok {
				o.Eff[i][k] = joinCF(v, w)
			}
		}
	}
	return o
}

// ---------------------------------------------------------------------------------------------
// builtins

func (eng *Engine) execBuiltin(b *ssa.Builtin, in ssa.CallInstruction, env *Env) []*Env {
	com := in.Common()
	v, isVal := in.(ssa.Value)
	switch b.Name() {
	case "len", "cap":
		a := eng.val(env, com.Args[0])
		res := numTop()
		if s, ok := a.single(); ok && len(s) > 0 && s[0] == '"' {
			res = constAV(constant.MakeInt64(int64(len(constant.StringVal(parseConst(s))))))
		}
		if sl, ok := com.Args[0].(*ssa.Slice); ok && b.Name() == "len" {
			// the full slice of a local array literal has the array's length
			if al := tableAllocOf(sl); al != nil {
				at := al.Type().Underlying().(*types.Pointer).Elem().Underlying().(*types.Array)
				res = constAV(constant.MakeInt64(at.Len()))
			}
		}
		if a.Expr != "" && res.Set == nil {
			res.Expr = "len(" + a.Expr + ")"
		}
		if isVal {
			env.vals[v] = res
		}
	case "append":
		a := eng.val(env, com.Args[0])
		var bval AV
		if len(com.Args) > 1 {
			bval = eng.val(env, com.Args[1])
		}
		st := com.Args[0].Type().Underlying().(*types.Slice)
		res := AV{K: KSlice, Nil: maybeNil}
		if a.K == KSlice && a.Obj != 0 {
			res.Obj, res.Path = a.Obj, a.Path
		} else {
			// nil/unknown destination: fresh backing store at this site (the unknown contents, if any, flow in)
			oid := eng.internObj(eng.instrKey(in))
			if _, ok := env.objs[oid]; !ok {
				env.objs[oid] = &objInfo{Type: st.Elem(), Local: true, ElemCell: true, Summary: true, Desc: "append result"}
			}
			res.Obj, res.Path = oid, "[]"
			if a.K == KSlice && env.nilnessOf(a) != isNil {
				dv := eng.fromCF(env, defaultCF(st.Elem(), 0), st.Elem(), eng.instrKey(in)+":old")
				eng.markSummary(env, dv)
				eng.writeAt(env, oid, "[]", dv, st.Elem())
			}
		}
		if bval.K == KSlice && bval.Obj != 0 {
			if cv, ok := env.cells[cellKey{bval.Obj, bval.Path}]; ok {
				eng.writeAt(env, res.Obj, res.Path, cv, st.Elem())
			} else if od := env.objs[bval.Obj]; od != nil && kindOf(st.Elem()) == KStruct {
				eng.writeAt(env, res.Obj, res.Path, eng.readAt(env, bval.Obj, bval.Path, st.Elem()), st.Elem())
			}
		} else if bval.K == KSlice && env.nilnessOf(bval) != isNil {
			dv := eng.fromCF(env, defaultCF(st.Elem(), 0), st.Elem(), eng.instrKey(in)+":src")
			eng.markSummary(env, dv)
			eng.writeAt(env, res.Obj, res.Path, dv, st.Elem())
		} else if bval.K == KNum {
			// append([]byte, string...)
			eng.writeAt(env, res.Obj, res.Path, numTop(), st.Elem())
		}
		if env.nilnessOf(a) == nonNil {
			res.Nil = nonNil
		}
		if isVal {
			env.vals[v] = res
		}
	case "copy":
		dst := eng.val(env, com.Args[0])
		src := eng.val(env, com.Args[1])
		if dst.K == KSlice && dst.Obj != 0 {
			st := com.Args[0].Type().Underlying().(*types.Slice)
			if src.K == KSlice && src.Obj != 0 {
				if cv, ok := env.cells[cellKey{src.Obj, src.Path}]; ok {
					eng.writeAt(env, dst.Obj, dst.Path, cv, st.Elem())
				}
			} else {
				dv := eng.fromCF(env, defaultCF(st.Elem(), 0), st.Elem(), eng.instrKey(in)+":src")
				eng.writeAt(env, dst.Obj, dst.Path, dv, st.Elem())
			}
		}
		if isVal {
			env.vals[v] = numTop()
		}
	case "delete", "print", "println", "clear":
	case "panic":
		return nil
	case "min", "max":
		if isVal {
			env.vals[v] = numTop()
		}
	case "new":
		eng.defaultResult(env, in)
	default:
		eng.note("builtin %s not modelled", b.Name())
		eng.defaultResult(env, in)
	}
	return []*Env{env}
}

// ---------------------------------------------------------------------------------------------
// standard library models

func (eng *Engine) execStd(callee *ssa.Function, in ssa.CallInstruction, args []AV, env *Env) []*Env {
	name := callee.String()
	v, isVal := in.(ssa.Value)
	set := func(e *Env, a AV) {
		if isVal {
			e.vals[v] = a
		}
	}
	switch name {
	case "errors.New", "fmt.Errorf":
		set(env, AV{K: KIface, Nil: nonNil})
		return []*Env{env}
	case "fmt.Sprintf", "fmt.Sprint", "fmt.Sprintln":
		set(env, numTop())
		return []*Env{env}
	case "strings.ToLower", "strings.ToUpper":
		res := numTop()
		if args[0].K == KNum && args[0].Set != nil {
			var out []string
			for _, s := range args[0].Set {
				c := parseConst(s)
				if c.Kind() != constant.String {
					out = nil
					break
				}
				str := constant.StringVal(c)
				if name == "strings.ToLower" {
					str = strings.ToLower(str)
				} else {
					str = strings.ToUpper(str)
				}
				out = append(out, constant.MakeString(str).ExactString())
			}
			if out != nil {
				sort.Strings(out)
				res = AV{K: KNum, Set: out}
			}
		}
		set(env, res)
		return []*Env{env}
	case "strings.HasPrefix", "strings.HasSuffix", "strings.EqualFold", "strings.Contains":
		res := boolAV(triU)
		a, oka := args[0].single()
		b, okb := args[1].single()
		if oka && okb {
			x, y := constant.StringVal(parseConst(a)), constant.StringVal(parseConst(b))
			var r bool
			switch name {
			case "strings.HasPrefix":
				r = strings.HasPrefix(x, y)
			case "strings.HasSuffix":
				r = strings.HasSuffix(x, y)
			case "strings.EqualFold":
				r = strings.EqualFold(x, y)
			case "strings.Contains":
				r = strings.Contains(x, y)
			}
			if r {
				res = boolAV(triT)
			} else {
				res = boolAV(triF)
			}
		}
		set(env, res)
		return []*Env{env}
	case "regexp.Compile":
		// (re, nil) when the pattern is a constant that compiles; otherwise both outcomes
		ok := false
		if s, single := args[0].single(); single {
			if c := parseConst(s); c.Kind() == constant.String {
				if _, err := syntax.Parse(constant.StringVal(c), syntax.Perl); err == nil {
					ok = true
				}
			}
		}
		good := AV{K: KTuple, Tup: []AV{{K: KPtr, Nil: nonNil}, {K: KIface, Nil: isNil}}}
		if ok {
			set(env, good)
			return []*Env{env}
		}
		e2 := env.clone()
		set(env, good)
		set(e2, AV{K: KTuple, Tup: []AV{{K: KPtr, Nil: isNil}, {K: KIface, Nil: nonNil}}})
		return []*Env{env, e2}
	case "regexp.MustCompile":
		set(env, AV{K: KPtr, Nil: nonNil})
		return []*Env{env}
	case "sort.Slice", "sort.SliceStable":
		// the comparator is called with in-range indices; elements are permuted
		fv := args[1]
		if fv.K == KFunc && fv.Fn != nil {
			e := env
			for i, f := range fv.Fn.FreeVars {
				if i < len(fv.Bind) {
					e.vals[f] = fv.Bind[i]
				}
			}
			eng.pushCtx(eng.siteTag(in) + ":less")
			outs := eng.runFunction(fv.Fn, e.clone(), []AV{numTop(), numTop()})
			eng.popCtx()
			_ = outs
		}
		return []*Env{env}
	}
	base := callee.Name()
	if o := callee.Origin(); o != nil {
		base = o.Name()
	}
	pkgPath := ""
	if callee.Pkg != nil {
		pkgPath = callee.Pkg.Pkg.Path()
	} else if o := callee.Origin(); o != nil && o.Pkg != nil {
		pkgPath = o.Pkg.Pkg.Path()
	}
	runClosure := func(fv AV, cargs []AV, tag string) {
		if fv.K != KFunc || fv.Fn == nil {
			return
		}
		for _, ca := range cargs {
			if ca.K == KBot {
				return // an element of an empty collection: the callback is never called
			}
		}
		e := env.clone()
		for i, f := range fv.Fn.FreeVars {
			if i < len(fv.Bind) {
				e.vals[f] = fv.Bind[i]
			}
		}
		eng.pushCtx(eng.siteTag(in) + ":" + tag)
		eng.runFunction(fv.Fn, e, cargs)
		eng.popCtx()
	}
	elemOf := func(s AV, st types.Type) AV {
		sl, ok := st.Underlying().(*types.Slice)
		if !ok {
			return top()
		}
		if s.K == KSlice && s.Obj != 0 {
			return eng.instantiate(env, eng.readAt(env, s.Obj, s.Path, sl.Elem()), in, "cbelem")
		}
		return eng.fromCF(env, defaultCF(sl.Elem(), 0), sl.Elem(), eng.instrKey(in)+":cbelem")
	}
	if pkgPath == "slices" && (len(args) == 2 || len(args) == 3) {
		switch base {
		case "Grow":
			// same elements, more room: the grown slice stands for the argument's element cell; growing a nil
			// slice gives a slice without elements (nil when the count is zero)
			a := args[0]
			if a.K == KSlice && a.Obj != 0 {
				r := a
				r.Sym = 0
				r.Nil = maybeNil
				if env.nilnessOf(a) == nonNil {
					r.Nil = nonNil
				}
				set(env, r)
				return []*Env{env}
			}
			if a.K == KSlice && env.nilnessOf(a) == isNil {
				if sl, ok := in.Common().Args[0].Type().Underlying().(*types.Slice); ok {
					oid := eng.internObj(eng.instrKey(in))
					if self, isVal := in.(ssa.Value); isVal {
						eng.resetObj(env, oid, self)
					}
					env.objs[oid] = &objInfo{Type: sl.Elem(), Local: true, ElemCell: true, Summary: true, Desc: "grown nil slice"}
					set(env, AV{K: KSlice, Nil: maybeNil, Obj: oid, Path: "[]"})
					return []*Env{env}
				}
			}
		case "ContainsFunc", "IndexFunc":
			// the callback is applied to elements of the slice; it cannot modify call-local state that matters here.
			// A nil slice has no elements: the callback is never called.
			if !(args[0].K == KSlice && env.nilnessOf(args[0]) == isNil) {
				runClosure(args[1], []AV{elemOf(args[0], in.Common().Args[0].Type())}, "cb")
			}
			if base == "ContainsFunc" {
				set(env, boolAV(triU))
			} else {
				set(env, numTop())
			}
			return []*Env{env}
		case "CompareFunc", "EqualFunc":
			// cmp(a[i], b[i]) on elements of the two slices
			if len(args) == 3 && !(args[0].K == KSlice && env.nilnessOf(args[0]) == isNil) && !(args[1].K == KSlice && env.nilnessOf(args[1]) == isNil) {
				runClosure(args[2], []AV{elemOf(args[0], in.Common().Args[0].Type()), elemOf(args[1], in.Common().Args[1].Type())}, "cmp")
			}
			if base == "CompareFunc" {
				set(env, numTop())
			} else {
				set(env, boolAV(triU))
			}
			return []*Env{env}
		case "SortFunc", "SortStableFunc":
			e1 := elemOf(args[0], in.Common().Args[0].Type())
			e2 := elemOf(args[0], in.Common().Args[0].Type())
			runClosure(args[1], []AV{e1, e2}, "cmp")
			return []*Env{env}
		}
	}
	if name == "(*sync.Once).Do" && len(args) == 2 {
		// the function runs at most once, possibly in another call: both outcomes
		fv := args[1]
		if fv.K == KFunc && fv.Fn != nil {
			e := env.clone()
			for i, f := range fv.Fn.FreeVars {
				if i < len(fv.Bind) {
					e.vals[f] = fv.Bind[i]
				}
			}
			eng.pushCtx(eng.siteTag(in) + ":once")
			outs := eng.runFunction(fv.Fn, e, nil)
			eng.popCtx()
			res := []*Env{env}
			for _, o := range outs {
				for _, vv := range fnValues(fv.Fn) {
					delete(o.Env.vals, vv)
				}
				res = append(res, o.Env)
			}
			return res
		}
		return []*Env{env}
	}
	// receiver of a stdlib method must be non-nil when it is a pointer the method dereferences
	if callee.Signature.Recv() != nil && len(args) > 0 && args[0].K == KPtr {
		if !eng.checkNonNil(in, args[0], env, "receiver of "+name, "nil") {
			return nil
		}
	}
	si := classifyStd(callee)
	if si.Class == stdUnknown || si.Class == stdForbidden {
		eng.note("call to %s: no model; result unknown, no effect on call-local memory assumed", name)
	}
	eng.defaultResult(env, in)
	if si.Fresh && isVal {
		// fresh results are at least well-typed unknowns; nil-ness stays unknown
	}
	_ = token.ADD
	return []*Env{env}
}
