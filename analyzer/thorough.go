package main

import (
	"bufio"
	"encoding/json"
	"fmt"
	"os"
	"os/exec"
	"path/filepath"
	"sort"
	"strings"
	"sync"

	"golang.org/x/tools/go/ssa"
)

// runThorough adds to the quick result: (i) the same rule set on the configuration matrix
// {linux/amd64, linux/386, windows/amd64} × {without, with test files}, each in its own process;
// (ii) a call-graph cross-check (reachable sets under CHA, RTA and VTA); (iii) the control corpus of
// this property — seeded variants that must be reported and behaviour-preserving refactors that must
// stay silent — each applied to a scratch copy of the repository in a fresh temporary directory,
// analysed in a separate process and removed at once. Control outcomes are evidence only: a patch
// that no longer applies to an edited tree is skipped, never failed.
func runThorough(p *Prog, r *Report, d *propDef, repo, verif string, noControls bool) {
	self, err := os.Executable()
	if err != nil {
		r.Note("thorough: cannot locate own executable: %v", err)
		return
	}
	// ---- (ii) call graphs
	r.Rule("CG", "exact", 1, "call-graph cross-check: the set of in-module functions reachable from the API is the same under CHA, RTA and VTA (direct static callees and closures are followed independently of the algorithm)")
	sets := map[string][]string{}
	for _, kind := range []string{"vta", "cha", "rta"} {
		q := *p
		if err := (&q).buildCallGraph(kind); err != nil {
			r.Unknown("CG", kind, "-", err.Error())
			continue
		}
		var names []string
		for _, f := range q.RList {
			names = append(names, p.shortKey(f))
		}
		sort.Strings(names)
		sets[kind] = names
	}
	p.buildCallGraph("vta")
	base := strings.Join(sets["vta"], "\n")
	okCG := true
	for kind, names := range sets {
		if strings.Join(names, "\n") != base {
			okCG = false
			r.Bad("CG", kind, "-", fmt.Sprintf("reachable set under %s differs from VTA: %d vs %d functions", kind, len(names), len(sets["vta"])))
		}
	}
	if okCG {
		r.OK("CG", "reachable sets", "-", "identical under vta/cha/rta", fmt.Sprintf("%d functions", len(sets["vta"])), true)
	}

	// ---- (i) configuration matrix
	r.Rule("CFG", "exact", 5, "the property's rule set gives the same verdict on every build configuration (a file behind a build tag or an architecture-dependent constant cannot hide a violation)")
	type cfgRes struct {
		name string
		out  string
		code int
	}
	var cfgs []Config
	for _, osarch := range [][2]string{{"linux", "amd64"}, {"linux", "386"}, {"windows", "amd64"}} {
		for _, tests := range []bool{false, true} {
			if osarch[0] == "linux" && osarch[1] == "amd64" && !tests {
				continue // the quick run itself
			}
			cfgs = append(cfgs, Config{GOOS: osarch[0], GOARCH: osarch[1], Tests: tests})
		}
	}
	results := make([]cfgRes, len(cfgs))
	var wg sync.WaitGroup
	sem := make(chan bool, 6)
	for i, c := range cfgs {
		wg.Add(1)
		go func(i int, c Config) {
			defer wg.Done()
			sem <- true
			defer func() { <-sem }()
			tmp, err := os.MkdirTemp("", "spdxverif-cfg-")
			if err != nil {
				results[i] = cfgRes{c.String(), err.Error(), 2}
				return
			}
			defer os.RemoveAll(tmp)
			copyFile(filepath.Join(verif, "known_findings.json"), filepath.Join(tmp, "known_findings.json"))
			args := []string{"check", "-property", r.Property, "-tier", "quick", "-repo", repo, "-verif", tmp, "-goos", c.GOOS, "-goarch", c.GOARCH}
			if c.Tests {
				args = append(args, "-tests")
			}
			cmd := exec.Command(self, args...)
			cmd.Env = append(os.Environ(), "VERIF_TIER=quick")
			out, err := cmd.CombinedOutput()
			code := 0
			if err != nil {
				code = 1
			}
			results[i] = cfgRes{c.String(), string(out), code}
		}(i, c)
	}
	wg.Wait()
	var cfgNames []string
	for _, cr := range results {
		cfgNames = append(cfgNames, cr.name)
		if cr.code == 0 {
			r.OK("CFG", cr.name, "-", "same verdict", lastLine(cr.out), true)
		} else {
			var v []string
			sc := bufio.NewScanner(strings.NewReader(cr.out))
			for sc.Scan() {
				l := strings.TrimSpace(sc.Text())
				if strings.HasPrefix(l, "violated") || strings.HasPrefix(l, "undecided") {
					v = append(v, l)
				}
			}
			if len(v) > 3 {
				v = v[:3]
			}
			r.Bad("CFG", cr.name, "-", "under configuration "+cr.name+": "+strings.Join(v, " | "))
		}
	}
	r.Extra["configs"] = append([]string{p.Cfg.String() + " (this run)"}, cfgNames...)

	// ---- (iii) controls
	if noControls {
		return
	}
	type ctl struct {
		patch, kind string
	}
	var ctls []ctl
	if b, err := os.ReadFile(filepath.Join(verif, "controls", "expect.tsv")); err == nil {
		seen := map[string]bool{}
		for _, line := range strings.Split(string(b), "\n") {
			if strings.HasPrefix(line, "#") || strings.TrimSpace(line) == "" {
				continue
			}
			f := strings.Split(line, "\t")
			if len(f) < 3 {
				continue
			}
			for _, pr := range strings.Split(f[2], ",") {
				if strings.TrimSpace(pr) == r.Property && !seen[f[0]] {
					seen[f[0]] = true
					ctls = append(ctls, ctl{f[0], f[1]})
				}
			}
		}
	}
	type ctlRes struct {
		Patch   string `json:"patch"`
		Kind    string `json:"kind"`
		Outcome string `json:"outcome"` // fired | silent | skipped
		Expect  string `json:"expected"`
		OK      bool   `json:"as_expected"`
		First   string `json:"first_report,omitempty"`
	}
	cres := make([]ctlRes, len(ctls))
	sem2 := make(chan bool, 8)
	for i, c := range ctls {
		wg.Add(1)
		go func(i int, c ctl) {
			defer wg.Done()
			sem2 <- true
			defer func() { <-sem2 }()
			res := ctlRes{Patch: c.patch, Kind: c.kind, Expect: map[string]string{"pos": "fired", "neg": "silent"}[c.kind]}
			defer func() { cres[i] = res }()
			tmp, err := os.MkdirTemp("", "spdxverif-ctl-")
			if err != nil {
				res.Outcome = "skipped"
				return
			}
			defer os.RemoveAll(tmp)
			scratch := filepath.Join(tmp, "repo")
			if out, err := exec.Command("rsync", "-a", "--exclude", ".git", repo+"/", scratch+"/").CombinedOutput(); err != nil {
				res.Outcome = "skipped"
				res.First = "copy failed: " + string(out)
				return
			}
			pc := exec.Command("patch", "-p1", "-s", "--no-backup-if-mismatch", "-i", filepath.Join(verif, "controls", c.patch))
			pc.Dir = scratch
			if _, err := pc.CombinedOutput(); err != nil {
				res.Outcome = "skipped"
				res.First = "patch no longer applies to the current tree"
				res.OK = true
				return
			}
			ev := filepath.Join(tmp, "ev")
			os.MkdirAll(ev, 0o755)
			copyFile(filepath.Join(verif, "known_findings.json"), filepath.Join(ev, "known_findings.json"))
			cmd := exec.Command(self, "check", "-property", r.Property, "-tier", "quick", "-repo", scratch, "-verif", ev)
			out, err := cmd.CombinedOutput()
			fired := err != nil && strings.Contains(string(out), "VIOLATION property=")
			if fired {
				res.Outcome = "fired"
				sc := bufio.NewScanner(strings.NewReader(string(out)))
				for sc.Scan() {
					l := strings.TrimSpace(sc.Text())
					if strings.HasPrefix(l, "violated") || strings.HasPrefix(l, "undecided") {
						if len(l) > 240 {
							l = l[:240]
						}
						res.First = l
						break
					}
				}
			} else {
				res.Outcome = "silent"
			}
			res.OK = res.Outcome == res.Expect
		}(i, c)
	}
	wg.Wait()
	nOK, nBad, nSkip := 0, 0, 0
	for _, c := range cres {
		switch {
		case c.Outcome == "skipped":
			nSkip++
		case c.OK:
			nOK++
		default:
			nBad++
			r.Note("control %s (%s) was %s, expected %s", c.Patch, c.Kind, c.Outcome, c.Expect)
		}
	}
	r.Extra["controls"] = cres
	r.Extra["controls_summary"] = map[string]int{"as_expected": nOK, "not_as_expected": nBad, "skipped": nSkip}
}

func lastLine(s string) string {
	s = strings.TrimSpace(s)
	if i := strings.LastIndex(s, "\n"); i >= 0 {
		return s[i+1:]
	}
	return s
}

func copyFile(src, dst string) {
	if b, err := os.ReadFile(src); err == nil {
		os.WriteFile(dst, b, 0o644)
	}
}

// cmdExplain re-reads a replay file and prints the obligation with its rule.
func cmdExplain(args []string) int {
	if len(args) < 1 {
		fmt.Fprintln(os.Stderr, "usage: spdxverif explain <replay.json>")
		return 2
	}
	b, err := os.ReadFile(args[0])
	if err != nil {
		fmt.Fprintln(os.Stderr, err)
		return 2
	}
	var m map[string]any
	if err := json.Unmarshal(b, &m); err != nil {
		fmt.Fprintln(os.Stderr, err)
		return 2
	}
	fmt.Printf("property : %v\nrule     : %v — %v\nconstruct: %v\nwhere    : %v\nstatus   : %v\nreason   : %v\n", m["property"], m["rule"], m["rule_doc"], m["construct"], m["pos"], m["status"], m["reason"])
	fmt.Printf("\nto re-decide on the current tree: bin/spdxverif check -property %v -tier quick\n", m["property"])
	return 0
}

var _ = ssa.BuilderMode(0)
