package main

// runThorough adds the configuration matrix, the call-graph cross-check and the control corpus.
func runThorough(p *Prog, r *Report, d *propDef, repo, verif string, noControls bool) {
}

func cmdExplain(args []string) int { return 0 }
