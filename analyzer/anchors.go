package main

// Anchor renaming.
//
// The rules name their anchors (isCompatible, (*tokenStream).parseOperator, the fields of token …) the way
// the reference tree does. A consistent rename of an unexported function, method, type or struct field is
// behaviour-preserving, and must not turn into "unresolved anchor". Before the analysis proper, the
// package-level declarations of the library packages are compared with the reference inventory
// (anchors_ref.json, produced by `spdxverif anchors-ref` from the reference tree). A reference name that is
// gone is matched with a declaration that is new — same kind, same receiver, same signature / field type,
// and, when several qualify, the most similar body (callees and string constants) by a clear margin. Every
// matched identifier is then renamed back to its reference name in an in-memory overlay of the sources (all
// definitions and uses, resolved through go/types — not text), and the analysis runs on that overlay. Line
// numbers are unchanged. Nothing is matched by guesswork: without a unique candidate the name stays
// unresolved and the rules report it as before.

import (
	_ "embed"
	"encoding/json"
	"fmt"
	"go/ast"
	"go/parser"
	"go/token"
	"go/types"
	"os"
	"path/filepath"
	"regexp"
	"sort"
	"strings"

	"golang.org/x/tools/go/packages"
)

//go:embed anchors_ref.json
var anchorsRefJSON []byte

type invFunc struct {
	Name    string   `json:"name"`
	Recv    string   `json:"recv,omitempty"`
	Sig     string   `json:"sig"`
	SigU    string   `json:"sigu,omitempty"`
	Callees []string `json:"callees,omitempty"`
	Consts  []string `json:"consts,omitempty"`
}

type invField2 struct {
	Name string `json:"name"`
	Type string `json:"type"`
}

type invType struct {
	Name   string      `json:"name"`
	Kind   string      `json:"kind"`
	Fields []invField2 `json:"fields,omitempty"`
}

type invPkg struct {
	Dir   string    `json:"dir"` // relative to the module root
	Funcs []invFunc `json:"funcs"`
	Types []invType `json:"types"`
}

type refInventory struct {
	Pkgs []invPkg `json:"pkgs"`
}

// the packages whose unexported names the rules mention; cmd: functions only (its struct fields are JSON keys)
var anchorDirs = []string{"spdxexp", "cmd"}

func wordReplace(s string, m map[string]string) string {
	if len(m) == 0 {
		return s
	}
	return identRe.ReplaceAllStringFunc(s, func(w string) string {
		if r, ok := m[w]; ok {
			return r
		}
		return w
	})
}

var identRe = regexp.MustCompile(`[A-Za-z_][A-Za-z0-9_]*`)

// describePkg lists the package-level functions, methods and types declared in the non-test files of pk.
func describePkg(pk *packages.Package, dir string) invPkg {
	out := invPkg{Dir: dir}
	qual := func(p *types.Package) string {
		if p == pk.Types {
			return ""
		}
		return p.Name()
	}
	for _, f := range pk.Syntax {
		fn := pk.Fset.Position(f.Pos()).Filename
		if strings.HasSuffix(fn, "_test.go") {
			continue
		}
		for _, d := range f.Decls {
			switch d := d.(type) {
			case *ast.FuncDecl:
				obj, _ := pk.TypesInfo.Defs[d.Name].(*types.Func)
				if obj == nil {
					continue
				}
				sig := obj.Type().(*types.Signature)
				rf := invFunc{Name: d.Name.Name}
				if sig.Recv() != nil {
					rt := sig.Recv().Type()
					if pt, ok := rt.(*types.Pointer); ok {
						rt = pt.Elem()
					}
					if nt, ok := rt.(*types.Named); ok {
						rf.Recv = nt.Obj().Name()
					}
				}
				anon := func(t *types.Tuple) *types.Tuple {
					var vs []*types.Var
					for i := 0; i < t.Len(); i++ {
						vs = append(vs, types.NewVar(token.NoPos, nil, "", t.At(i).Type()))
					}
					return types.NewTuple(vs...)
				}
				rf.Sig = types.TypeString(types.NewSignatureType(nil, nil, nil, anon(sig.Params()), anon(sig.Results()), sig.Variadic()), qual)
				// the same with every in-package named non-struct type replaced by its underlying type (a new
				// `type allowList []*node` in a signature is still the old []*node)
				rf.SigU = types.TypeString(types.NewSignatureType(nil, nil, nil, anonU(pk.Types, sig.Params()), anonU(pk.Types, sig.Results()), sig.Variadic()), qual)
				if tp := sig.TypeParams(); tp != nil && tp.Len() > 0 {
					rf.Sig = fmt.Sprintf("[%d]%s", tp.Len(), rf.Sig)
				}
				cs, ks := map[string]bool{}, map[string]bool{}
				nLoops, nIfs, nIdx := 0, 0, 0
				if d.Body != nil {
					ast.Inspect(d.Body, func(n ast.Node) bool {
						switch n := n.(type) {
						case *ast.CallExpr:
							var id *ast.Ident
							switch fx := n.Fun.(type) {
							case *ast.Ident:
								id = fx
							case *ast.SelectorExpr:
								id = fx.Sel
							}
							if id != nil {
								if bo, ok := pk.TypesInfo.Uses[id].(*types.Builtin); ok {
									cs["builtin."+bo.Name()] = true
								}
								if fo, ok := pk.TypesInfo.Uses[id].(*types.Func); ok {
									name := fo.Name()
									if fo.Pkg() != nil && fo.Pkg() != pk.Types {
										name = fo.Pkg().Name() + "." + name
									}
									cs[name] = true
								}
							}
						case *ast.BasicLit:
							if n.Kind == token.STRING {
								ks[n.Value] = true
							}
						case *ast.RangeStmt, *ast.ForStmt:
							nLoops++
						case *ast.IfStmt:
							nIfs++
						case *ast.IndexExpr:
							nIdx++
						}
						return true
					})
					// a coarse shape of the body, to tell apart functions of one signature that call nothing
					cs[fmt.Sprintf("shape.loops=%d", nLoops)] = true
					cs[fmt.Sprintf("shape.ifs=%d", min(nIfs, 4))] = true
					cs[fmt.Sprintf("shape.index=%d", min(nIdx, 6))] = true
				}
				for c := range cs {
					rf.Callees = append(rf.Callees, c)
				}
				for k := range ks {
					rf.Consts = append(rf.Consts, k)
				}
				sort.Strings(rf.Callees)
				sort.Strings(rf.Consts)
				out.Funcs = append(out.Funcs, rf)
			case *ast.GenDecl:
				if d.Tok != token.TYPE {
					continue
				}
				for _, sp := range d.Specs {
					ts := sp.(*ast.TypeSpec)
					obj, _ := pk.TypesInfo.Defs[ts.Name].(*types.TypeName)
					if obj == nil {
						continue
					}
					rt := invType{Name: ts.Name.Name}
					switch u := obj.Type().Underlying().(type) {
					case *types.Struct:
						rt.Kind = "struct"
						for i := 0; i < u.NumFields(); i++ {
							rt.Fields = append(rt.Fields, invField2{u.Field(i).Name(), types.TypeString(u.Field(i).Type(), qual)})
						}
					default:
						rt.Kind = types.TypeString(u, qual)
					}
					out.Types = append(out.Types, rt)
				}
			}
		}
	}
	sort.Slice(out.Funcs, func(i, j int) bool {
		return out.Funcs[i].Recv+"."+out.Funcs[i].Name < out.Funcs[j].Recv+"."+out.Funcs[j].Name
	})
	sort.Slice(out.Types, func(i, j int) bool { return out.Types[i].Name < out.Types[j].Name })
	return out
}

// loadForAnchors type-checks the module (sources only) under cfg.
func loadForAnchors(abs string, cfg Config) ([]*packages.Package, error) {
	pc := &packages.Config{
		Mode:  packages.LoadAllSyntax | packages.NeedModule,
		Dir:   abs,
		Fset:  token.NewFileSet(),
		Env:   goEnv(cfg),
		Tests: cfg.Tests,
	}
	initial, err := packages.Load(pc, "./...")
	if err != nil {
		return nil, err
	}
	var out []*packages.Package
	for _, pk := range initial {
		if pk.Module == nil || !pk.Module.Main || strings.HasSuffix(pk.PkgPath, ".test") {
			continue
		}
		if len(pk.Errors) > 0 {
			return nil, fmt.Errorf("%v", pk.Errors[0])
		}
		out = append(out, pk)
	}
	return out, nil
}

// anchorsRefCmd prints the inventory of the tree at repo (run on the reference tree; output is committed).
func anchorsRefCmd(repo string) error {
	abs, _ := filepath.Abs(repo)
	pkgs, err := loadForAnchors(abs, Config{GOOS: "linux", GOARCH: "amd64"})
	if err != nil {
		return err
	}
	var inv refInventory
	for _, dir := range anchorDirs {
		for _, pk := range pkgs {
			if strings.HasSuffix(pk.PkgPath, "/"+dir) {
				inv.Pkgs = append(inv.Pkgs, describePkg(pk, dir))
			}
		}
	}
	b, _ := json.MarshalIndent(inv, "", " ")
	fmt.Println(string(b))
	return nil
}

// syntacticNames: the declared function/method, type and struct-field names of the non-test files in dir.
func syntacticNames(dir string) (map[string]bool, error) {
	names := map[string]bool{}
	ents, err := os.ReadDir(dir)
	if err != nil {
		return nil, err
	}
	fset := token.NewFileSet()
	for _, e := range ents {
		if e.IsDir() || !strings.HasSuffix(e.Name(), ".go") || strings.HasSuffix(e.Name(), "_test.go") {
			continue
		}
		f, err := parser.ParseFile(fset, filepath.Join(dir, e.Name()), nil, parser.SkipObjectResolution)
		if err != nil {
			return nil, err
		}
		for _, d := range f.Decls {
			switch d := d.(type) {
			case *ast.FuncDecl:
				recv := ""
				if d.Recv != nil && len(d.Recv.List) == 1 {
					t := d.Recv.List[0].Type
					if st, ok := t.(*ast.StarExpr); ok {
						t = st.X
					}
					if ix, ok := t.(*ast.IndexExpr); ok {
						t = ix.X
					}
					if id, ok := t.(*ast.Ident); ok {
						recv = id.Name
					}
				}
				names["func:"+recv+"."+d.Name.Name] = true
			case *ast.GenDecl:
				if d.Tok != token.TYPE {
					continue
				}
				for _, sp := range d.Specs {
					ts := sp.(*ast.TypeSpec)
					names["type:"+ts.Name.Name] = true
					if st, ok := ts.Type.(*ast.StructType); ok {
						for _, fl := range st.Fields.List {
							for _, n := range fl.Names {
								names["field:"+ts.Name.Name+"."+n.Name] = true
							}
						}
					}
				}
			}
		}
	}
	return names, nil
}

func refNames(rp invPkg) map[string]bool {
	names := map[string]bool{}
	for _, f := range rp.Funcs {
		names["func:"+f.Recv+"."+f.Name] = true
	}
	for _, t := range rp.Types {
		names["type:"+t.Name] = true
		if rp.Dir != "cmd" {
			for _, fl := range t.Fields {
				names["field:"+t.Name+"."+fl.Name] = true
			}
		}
	}
	return names
}

func jaccard(a, b []string) float64 {
	if len(a) == 0 && len(b) == 0 {
		return 1
	}
	sa := map[string]bool{}
	for _, x := range a {
		sa[x] = true
	}
	inter, union := 0, len(sa)
	for _, x := range b {
		if sa[x] {
			inter++
		} else {
			union++
		}
	}
	if union == 0 {
		return 1
	}
	return float64(inter) / float64(union)
}

type anchorRename struct {
	Kind     string // func | type | field
	Dir      string
	Owner    string // receiver / struct ("" for plain functions and types)
	Cur, Ref string
}

func (r anchorRename) String() string {
	o := ""
	if r.Owner != "" {
		o = r.Owner + "."
	}
	return fmt.Sprintf("%s %s/%s%s is analysed under its reference name %s", r.Kind, r.Dir, o, r.Cur, r.Ref)
}

// matchPkg decides the renames for one package: cur (the working tree) against ref.
func matchPkg(cur, ref invPkg) []anchorRename {
	var out []anchorRename
	dir := ref.Dir
	// ---- types
	typeMap := map[string]string{} // cur -> ref
	curTypes, refTypes := map[string]invType{}, map[string]invType{}
	for _, t := range cur.Types {
		curTypes[t.Name] = t
	}
	for _, t := range ref.Types {
		refTypes[t.Name] = t
	}
	shape := func(t invType, m map[string]string) string {
		s := t.Kind
		for _, f := range t.Fields {
			s += "|" + wordReplace(f.Type, m)
		}
		return wordReplace(s, m)
	}
	for round := 0; round < 2; round++ {
		for _, rt := range ref.Types {
			if _, ok := curTypes[rt.Name]; ok {
				continue
			}
			if hasVal(typeMap, rt.Name) {
				continue
			}
			var cands []string
			for _, ct := range cur.Types {
				if _, isRef := refTypes[ct.Name]; isRef {
					continue
				}
				if _, done := typeMap[ct.Name]; done {
					continue
				}
				if shape(ct, typeMap) == shape(rt, nil) {
					cands = append(cands, ct.Name)
				}
			}
			if len(cands) == 1 {
				typeMap[cands[0]] = rt.Name
				out = append(out, anchorRename{"type", dir, "", cands[0], rt.Name})
			}
		}
	}
	// ---- fields (library packages only)
	if dir != "cmd" {
		for _, rt := range ref.Types {
			if rt.Kind != "struct" {
				continue
			}
			var ct invType
			found := false
			for _, c := range cur.Types {
				n := c.Name
				if m, ok := typeMap[n]; ok {
					n = m
				}
				if n == rt.Name {
					ct, found = c, true
				}
			}
			if !found {
				continue
			}
			curF := map[string]invField2{}
			for _, f := range ct.Fields {
				curF[f.Name] = f
			}
			refF := map[string]bool{}
			for _, f := range rt.Fields {
				refF[f.Name] = true
			}
			used := map[string]bool{}
			for _, rfld := range rt.Fields {
				if _, ok := curF[rfld.Name]; ok {
					continue
				}
				var cands []string
				for _, cf := range ct.Fields {
					if refF[cf.Name] || used[cf.Name] {
						continue
					}
					if wordReplace(cf.Type, typeMap) == rfld.Type {
						cands = append(cands, cf.Name)
					}
				}
				if len(cands) > 1 && len(ct.Fields) == len(rt.Fields) {
					// same layout: the field in the same position
					for i, cf := range ct.Fields {
						if rt.Fields[i].Name == rfld.Name && !refF[cf.Name] && wordReplace(cf.Type, typeMap) == rfld.Type {
							cands = []string{cf.Name}
						}
					}
				}
				if len(cands) == 1 {
					used[cands[0]] = true
					out = append(out, anchorRename{"field", dir, ct.Name, cands[0], rfld.Name})
				}
			}
		}
	}
	// ---- functions and methods
	fieldMap := map[string]string{}
	for _, r := range out {
		if r.Kind == "field" {
			fieldMap[r.Cur] = r.Ref
		}
	}
	refFuncs := map[string]bool{}
	for _, f := range ref.Funcs {
		refFuncs[f.Recv+"."+f.Name] = true
	}
	curFuncs := map[string]bool{}
	mapRecv := func(r string) string {
		if m, ok := typeMap[r]; ok {
			return m
		}
		return r
	}
	for _, f := range cur.Funcs {
		curFuncs[mapRecv(f.Recv)+"."+f.Name] = true
	}
	funcMap := map[string]string{} // cur name -> ref name (names only; used for callee similarity)
	taken := map[string]bool{}
	for round := 0; round < 3; round++ {
		for _, rf := range ref.Funcs {
			key := rf.Recv + "." + rf.Name
			if curFuncs[key] || taken[key] {
				continue
			}
			type cand struct {
				f     invFunc
				score float64
			}
			var cands []cand
			for _, cf := range cur.Funcs {
				ck := mapRecv(cf.Recv) + "." + cf.Name
				if refFuncs[ck] || mapRecv(cf.Recv) != rf.Recv {
					continue
				}
				if _, done := funcMap[cf.Recv+"."+cf.Name]; done {
					continue
				}
				if wordReplace(cf.Sig, typeMap) != rf.Sig && !(cf.SigU != "" && rf.SigU != "" && wordReplace(cf.SigU, typeMap) == rf.SigU) {
					continue
				}
				var callees []string
				for _, c := range cf.Callees {
					if m, ok := funcMap["*."+c]; ok {
						c = m
					}
					callees = append(callees, c)
				}
				sc := 0.6*jaccard(callees, rf.Callees) + 0.4*jaccard(cf.Consts, rf.Consts)
				cands = append(cands, cand{cf, sc})
			}
			sort.Slice(cands, func(i, j int) bool { return cands[i].score > cands[j].score })
			pick := -1
			switch {
			case len(cands) == 1:
				pick = 0
			case len(cands) > 1 && cands[0].score >= 0.5 && cands[0].score-cands[1].score >= 0.25:
				pick = 0
			}
			if pick < 0 {
				continue
			}
			// the candidate must not be a better match for another missing reference function
			c := cands[pick].f
			funcMap[c.Recv+"."+c.Name] = rf.Name
			funcMap["*."+c.Name] = rf.Name
			taken[key] = true
			out = append(out, anchorRename{"func", dir, c.Recv, c.Name, rf.Name})
		}
	}
	return out
}

func hasVal(m map[string]string, v string) bool {
	for _, x := range m {
		if x == v {
			return true
		}
	}
	return false
}

// anchorOverlay returns the source overlay that renames matched declarations back to their reference
// names, and the list of renames applied. nil overlay: nothing to do (or nothing could be matched).
func anchorOverlay(abs string, cfg Config) (map[string][]byte, []anchorRename, error) {
	var inv refInventory
	if err := json.Unmarshal(anchorsRefJSON, &inv); err != nil || len(inv.Pkgs) == 0 {
		return nil, nil, nil
	}
	// cheap syntactic pre-check: is any reference name gone?
	missing := false
	for _, rp := range inv.Pkgs {
		have, err := syntacticNames(filepath.Join(abs, rp.Dir))
		if err != nil {
			return nil, nil, nil // the loader proper reports the problem
		}
		for n := range refNames(rp) {
			if !have[n] {
				missing = true
			}
		}
	}
	if !missing {
		return nil, nil, nil
	}
	pkgs, err := loadForAnchors(abs, cfg)
	if err != nil {
		return nil, nil, nil // the loader proper reports type errors
	}
	var renames []anchorRename
	overlay := map[string][]byte{}
	type edit struct {
		off, n int
		text   string
	}
	edits := map[string][]edit{}
	for _, rp := range inv.Pkgs {
		for _, pk := range pkgs {
			if !strings.HasSuffix(pk.PkgPath, "/"+rp.Dir) {
				continue
			}
			rs := matchPkg(describePkg(pk, rp.Dir), rp)
			if len(rs) == 0 {
				continue
			}
			// resolve each rename to its types.Object
			objs := map[types.Object]string{}
			scope := pk.Types.Scope()
			var applied []anchorRename
			for _, r := range rs {
				var obj types.Object
				switch r.Kind {
				case "type":
					obj = scope.Lookup(r.Cur)
				case "func":
					if r.Owner == "" {
						obj = scope.Lookup(r.Cur)
					} else if tn, ok := scope.Lookup(r.Owner).(*types.TypeName); ok {
						if nt, ok := tn.Type().(*types.Named); ok {
							for i := 0; i < nt.NumMethods(); i++ {
								if nt.Method(i).Name() == r.Cur {
									obj = nt.Method(i)
								}
							}
						}
					}
				case "field":
					if tn, ok := scope.Lookup(r.Owner).(*types.TypeName); ok {
						if st, ok := tn.Type().Underlying().(*types.Struct); ok {
							for i := 0; i < st.NumFields(); i++ {
								if st.Field(i).Name() == r.Cur && !st.Field(i).Embedded() {
									obj = st.Field(i)
								}
							}
						}
					}
				}
				if obj == nil {
					continue
				}
				// the reference name must be free at package level
				if r.Kind != "field" && r.Owner == "" && scope.Lookup(r.Ref) != nil {
					continue
				}
				objs[obj] = r.Ref
				applied = append(applied, r)
			}
			// an embedded use of a renamed type would rename an implicit field: give up on that type
			for obj := range objs {
				if tn, ok := obj.(*types.TypeName); ok {
					for _, o := range pk.TypesInfo.Defs {
						if v, ok := o.(*types.Var); ok && v.Embedded() && v.Name() == tn.Name() {
							delete(objs, obj)
						}
					}
				}
			}
			origin := func(o types.Object) types.Object {
				switch x := o.(type) {
				case *types.Func:
					return x.Origin()
				case *types.Var:
					return x.Origin()
				}
				return o
			}
			conflict := map[types.Object]bool{}
			visit := func(id *ast.Ident, o types.Object) {
				if o == nil {
					return
				}
				ref, ok := objs[origin(o)]
				if !ok {
					return
				}
				// a local declaration of the reference name in scope here would capture the renamed use
				if _, isField := o.(*types.Var); !(isField && o.(*types.Var).IsField()) {
					if _, isFunc := o.(*types.Func); !(isFunc && o.Type().(*types.Signature).Recv() != nil) {
						if inner := pk.Types.Scope().Innermost(id.Pos()); inner != nil {
							if _, found := inner.LookupParent(ref, id.Pos()); found != nil {
								conflict[origin(o)] = true
							}
						}
					}
				}
				pos := pk.Fset.Position(id.Pos())
				edits[pos.Filename] = append(edits[pos.Filename], edit{pos.Offset, len(id.Name), ref})
			}
			for id, o := range pk.TypesInfo.Defs {
				visit(id, o)
			}
			for id, o := range pk.TypesInfo.Uses {
				visit(id, o)
			}
			if len(conflict) > 0 {
				// drop everything for this package rather than apply a partial, possibly capturing rename
				for fn := range edits {
					if strings.HasPrefix(fn, filepath.Join(abs, rp.Dir)+string(filepath.Separator)) {
						delete(edits, fn)
					}
				}
				continue
			}
			renames = append(renames, applied...)
		}
	}
	for fn, es := range edits {
		src, err := os.ReadFile(fn)
		if err != nil {
			return nil, nil, nil
		}
		sort.Slice(es, func(i, j int) bool { return es[i].off > es[j].off })
		last := -1
		for _, e := range es {
			if e.off == last {
				continue // the same identifier reached through Defs and Uses / two package variants
			}
			last = e.off
			if e.off+e.n > len(src) {
				return nil, nil, nil
			}
			src = append(append(append([]byte{}, src[:e.off]...), e.text...), src[e.off+e.n:]...)
		}
		overlay[fn] = src
	}
	if len(overlay) == 0 {
		return nil, nil, nil
	}
	// de-duplicate the rename list (plain and [test] variants of one package)
	seen := map[string]bool{}
	var uniq []anchorRename
	for _, r := range renames {
		if !seen[r.String()] {
			seen[r.String()] = true
			uniq = append(uniq, r)
		}
	}
	return overlay, uniq, nil
}

// anonU: the tuple without names, with in-package named types whose underlying type is not a struct
// replaced by that underlying type (one level, also under pointers and slices).
func anonU(pkg *types.Package, t *types.Tuple) *types.Tuple {
	var strip func(x types.Type, d int) types.Type
	strip = func(x types.Type, d int) types.Type {
		if d > 4 {
			return x
		}
		switch tt := x.(type) {
		case *types.Named:
			if tt.Obj().Pkg() == pkg {
				if _, isStruct := tt.Underlying().(*types.Struct); !isStruct {
					if _, isIface := tt.Underlying().(*types.Interface); !isIface {
						return strip(tt.Underlying(), d+1)
					}
				}
			}
		case *types.Pointer:
			return types.NewPointer(strip(tt.Elem(), d+1))
		case *types.Slice:
			return types.NewSlice(strip(tt.Elem(), d+1))
		}
		return x
	}
	var vs []*types.Var
	for i := 0; i < t.Len(); i++ {
		vs = append(vs, types.NewVar(token.NoPos, nil, "", strip(t.At(i).Type(), 0)))
	}
	return types.NewTuple(vs...)
}
