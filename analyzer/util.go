package main

import "unicode"

// minFold returns the smallest rune of r's simple-folding orbit (the equivalence strings.EqualFold uses).
func minFold(r rune) rune {
	m := r
	for c := unicode.SimpleFold(r); c != r; c = unicode.SimpleFold(c) {
		if c < m {
			m = c
		}
	}
	return m
}
