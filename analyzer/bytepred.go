package main

import (
	"fmt"
	"go/constant"
	"go/token"
	"go/types"
	"strings"

	"golang.org/x/tools/go/ssa"
)

// evalBytePred evaluates a pure predicate func(byte) bool for every byte value by interpreting its SSA:
// only the parameter, constants, integer comparisons and arithmetic, boolean negation, conversions between
// integer types, phis, branches and returns may occur (a character-class test written out by hand). This is
// the exhaustive evaluation of a finite function given by the source, like the evaluation of table literals.
func evalBytePred(fn *ssa.Function) ([256]bool, error) {
	var out [256]bool
	if fn == nil || len(fn.Blocks) == 0 || len(fn.Params) != 1 || fn.Signature.Results().Len() != 1 {
		return out, fmt.Errorf("not a predicate over one byte")
	}
	for c := 0; c < 256; c++ {
		v, err := evalBytePredAt(fn, int64(c))
		if err != nil {
			return out, err
		}
		out[c] = v
	}
	return out, nil
}

func evalBytePredAt(fn *ssa.Function, c int64) (bool, error) {
	vals := map[ssa.Value]constant.Value{fn.Params[0]: constant.MakeInt64(c)}
	get := func(v ssa.Value) (constant.Value, error) {
		if k, ok := v.(*ssa.Const); ok {
			if k.Value == nil {
				return nil, fmt.Errorf("nil constant")
			}
			return k.Value, nil
		}
		if x, ok := vals[v]; ok {
			return x, nil
		}
		return nil, fmt.Errorf("value %s not available", v.Name())
	}
	addrVals := map[ssa.Value]ssa.Value{}
	blk := fn.Blocks[0]
	var prev *ssa.BasicBlock
	for steps := 0; steps < 10000; steps++ {
		var next *ssa.BasicBlock
		// phis first, evaluated simultaneously
		phiVals := map[ssa.Value]constant.Value{}
		for _, in := range blk.Instrs {
			phi, ok := in.(*ssa.Phi)
			if !ok {
				break
			}
			idx := -1
			for i, p := range blk.Preds {
				if p == prev {
					idx = i
				}
			}
			if idx < 0 {
				return false, fmt.Errorf("phi without predecessor")
			}
			x, err := get(phi.Edges[idx])
			if err != nil {
				return false, err
			}
			phiVals[phi] = x
		}
		for k, v := range phiVals {
			vals[k] = v
		}
		for _, in := range blk.Instrs {
			switch t := in.(type) {
			case *ssa.Phi, *ssa.DebugRef:
			case *ssa.BinOp:
				x, err := get(t.X)
				if err != nil {
					return false, err
				}
				y, err := get(t.Y)
				if err != nil {
					return false, err
				}
				switch t.Op {
				case token.EQL, token.NEQ, token.LSS, token.LEQ, token.GTR, token.GEQ:
					vals[t] = constant.MakeBool(constant.Compare(x, t.Op, y))
				case token.ADD, token.SUB, token.AND, token.OR, token.XOR:
					if x.Kind() == constant.Bool {
						return false, fmt.Errorf("boolean arithmetic")
					}
					r := constant.BinaryOp(x, t.Op, y)
					// wrap to the operand's width (byte arithmetic)
					if b, ok := t.Type().Underlying().(*types.Basic); ok && (b.Kind() == types.Uint8 || b.Kind() == types.Byte) {
						if iv, ok := constant.Int64Val(r); ok {
							r = constant.MakeInt64(iv & 0xff)
						}
					}
					vals[t] = r
				case token.MUL, token.AND_NOT:
					vals[t] = wrapUnsigned(constant.BinaryOp(x, t.Op, y), t.Type())
				case token.QUO, token.REM:
					if constant.Sign(y) == 0 {
						return false, fmt.Errorf("division by zero in a byte predicate")
					}
					op := t.Op
					if op == token.QUO {
						op = token.QUO_ASSIGN // integer division
					}
					vals[t] = wrapUnsigned(constant.BinaryOp(constant.ToInt(x), op, constant.ToInt(y)), t.Type())
				case token.SHL, token.SHR:
					n, exact := constant.Uint64Val(constant.ToInt(y))
					if !exact || n > 1024 {
						return false, fmt.Errorf("shift count in a byte predicate is not a small non-negative number")
					}
					vals[t] = wrapUnsigned(constant.Shift(constant.ToInt(x), t.Op, uint(n)), t.Type())
				default:
					return false, fmt.Errorf("operator %s in a byte predicate is not modelled", t.Op)
				}
			case *ssa.IndexAddr:
				// an element of an immutable package-level array of constants (a bitmap or class table)
				g := tableGlobalOf(t.X)
				if g == nil {
					return false, fmt.Errorf("indexing something other than an immutable package-level array of constants")
				}
				i, err := get(t.Index)
				if err != nil {
					return false, err
				}
				iv, exact := constant.Int64Val(constant.ToInt(i))
				elems := globalArrayInit(g)
				if !exact || iv < 0 || int(iv) >= len(elems) {
					return false, fmt.Errorf("index %s of %s is out of range for byte %d", i, g.Name(), c)
				}
				addrVals[t] = elems[iv]
			case *ssa.UnOp:
				if t.Op == token.MUL {
					e, ok := addrVals[t.X]
					if !ok {
						return false, fmt.Errorf("load in a byte predicate from something other than a constant table")
					}
					if e == nil {
						vals[t] = constant.MakeInt64(0)
						if b, ok := t.Type().Underlying().(*types.Basic); ok && b.Info()&types.IsBoolean != 0 {
							vals[t] = constant.MakeBool(false)
						}
						continue
					}
					k, ok := e.(*ssa.Const)
					if !ok || k.Value == nil {
						return false, fmt.Errorf("table element is not a constant")
					}
					vals[t] = k.Value
					continue
				}
				x, err := get(t.X)
				if err != nil {
					return false, err
				}
				if t.Op != token.NOT {
					return false, fmt.Errorf("operator %s in a byte predicate is not modelled", t.Op)
				}
				vals[t] = constant.MakeBool(!constant.BoolVal(x))
			case *ssa.Convert:
				x, err := get(t.X)
				if err != nil {
					return false, err
				}
				vals[t] = x
			case *ssa.ChangeType:
				x, err := get(t.X)
				if err != nil {
					return false, err
				}
				vals[t] = x
			case *ssa.If:
				x, err := get(t.Cond)
				if err != nil {
					return false, err
				}
				if constant.BoolVal(x) {
					next = blk.Succs[0]
				} else {
					next = blk.Succs[1]
				}
			case *ssa.Jump:
				next = blk.Succs[0]
			case *ssa.Return:
				x, err := get(t.Results[0])
				if err != nil {
					return false, err
				}
				return constant.BoolVal(x), nil
			default:
				return false, fmt.Errorf("%T in a byte predicate is not modelled", in)
			}
		}
		if next == nil {
			return false, fmt.Errorf("block without successor")
		}
		prev, blk = blk, next
	}
	return false, fmt.Errorf("byte predicate does not terminate within the step budget")
}

// byteClassPattern renders an ASCII byte class as a regexp character class repeated with rep ("+" or "*").
func byteClassPattern(cls [256]bool, rep string) (string, error) {
	var b strings.Builder
	b.WriteString("[")
	n := 0
	for c := 0; c < 256; c++ {
		if !cls[c] {
			continue
		}
		if c >= 0x80 {
			return "", fmt.Errorf("the byte class accepts non-ASCII byte 0x%02x", c)
		}
		fmt.Fprintf(&b, `\x%02x`, c)
		n++
	}
	if n == 0 {
		return "", fmt.Errorf("the byte class is empty")
	}
	b.WriteString("]" + rep)
	return b.String(), nil
}

// wrapUnsigned reduces an integer result to the width of its unsigned type.
func wrapUnsigned(v constant.Value, t types.Type) constant.Value {
	b, ok := t.Underlying().(*types.Basic)
	if !ok || b.Info()&types.IsUnsigned == 0 || v.Kind() != constant.Int {
		return v
	}
	bits := uint(64)
	switch b.Kind() {
	case types.Uint8:
		bits = 8
	case types.Uint16:
		bits = 16
	case types.Uint32:
		bits = 32
	}
	mask := constant.BinaryOp(constant.Shift(constant.MakeInt64(1), token.SHL, bits), token.SUB, constant.MakeInt64(1))
	return constant.BinaryOp(v, token.AND, mask)
}
