package main

import (
	"fmt"
	"sort"

	"golang.org/x/tools/go/ssa"
)

// RunEngine iterates roots and recursive functions to a global fixpoint of shapes, entry states and
// summaries, then performs one recording round.
func RunEngine(p *Prog, observers ...Observer) *Engine {
	eng := NewEngine(p)
	eng.observers = observers
	var recs []*ssa.Function
	for f := range eng.rec {
		recs = append(recs, f)
	}
	sort.Slice(recs, func(i, j int) bool { return recs[i].String() < recs[j].String() })
	runRecs := func() {
		// recursive functions are cheap: iterate them to a local fixpoint before the roots run again
		for i := 0; i < 40; i++ {
			outer := eng.changed
			eng.changed = false
			for _, f := range recs {
				eng.analyzeRecursive(f)
			}
			inner := eng.changed
			eng.changed = outer || inner
			if !inner {
				break
			}
		}
	}
	round := func() {
		for _, root := range p.Roots {
			env := newEnv()
			var args []AV
			for i, prm := range root.Params {
				args = append(args, eng.fromCF(env, defaultCF(prm.Type(), 0), prm.Type(), fmt.Sprintf("root:%s:%d", root.String(), i)))
			}
			eng.ctx = []string{"root:" + root.Name()}
			eng.runFunction(root, env, args)
			eng.ctx = nil
		}
		runRecs()
	}
	// every round records; the records of the first round that changes nothing are the result
	eng.final = true
	for eng.rounds = 1; eng.rounds <= 30; eng.rounds++ {
		eng.changed = false
		eng.derefs = map[ssa.Instruction]*DerefRec{}
		eng.visits = map[ssa.Instruction]int{}
		eng.fnVisits = map[*ssa.Function]int{}
		eng.retRecs = map[*ssa.Return]map[string]bool{}
		round()
		if !eng.changed {
			break
		}
	}
	if eng.changed {
		eng.note("global fixpoint not reached in 30 rounds")
	}
	return eng
}
