package main

import (
	"fmt"
	"go/token"
	"go/types"
	"sort"
	"strings"

	"golang.org/x/tools/go/ssa"
)

// cgSCC: strongly connected components of the in-module part of the resolved call graph (VTA: bound
// method values, closures and interface calls are followed), so that a helper that receives a
// production as a function value is part of the production's cycle.
type cgSCC struct {
	p     *Prog
	id    map[*ssa.Function]int
	rec   map[*ssa.Function]bool
	succs map[*ssa.Function][]*ssa.Function
}

func (p *Prog) inModuleLoose(f *ssa.Function) bool {
	if f == nil {
		return false
	}
	if p.InModule(f) {
		return true
	}
	if f.Parent() != nil {
		return p.inModuleLoose(f.Parent())
	}
	if f.Synthetic != "" && f.Object() != nil && f.Object().Pkg() != nil {
		for _, pk := range p.Pkgs {
			if pk.Types == f.Object().Pkg() {
				return true
			}
		}
	}
	return false
}

func buildCGSCC(p *Prog) *cgSCC {
	s := &cgSCC{p: p, id: map[*ssa.Function]int{}, rec: map[*ssa.Function]bool{}, succs: map[*ssa.Function][]*ssa.Function{}}
	if p.CG == nil {
		return s
	}
	var nodes []*ssa.Function
	for f, n := range p.CG.Nodes {
		if !p.inModuleLoose(f) {
			continue
		}
		nodes = append(nodes, f)
		seen := map[*ssa.Function]bool{}
		for _, e := range n.Out {
			c := e.Callee.Func
			if p.inModuleLoose(c) && !seen[c] {
				seen[c] = true
				s.succs[f] = append(s.succs[f], c)
			}
		}
		sort.Slice(s.succs[f], func(i, j int) bool { return s.succs[f][i].String() < s.succs[f][j].String() })
	}
	sort.Slice(nodes, func(i, j int) bool { return nodes[i].String() < nodes[j].String() })
	index := map[*ssa.Function]int{}
	low := map[*ssa.Function]int{}
	on := map[*ssa.Function]bool{}
	var st []*ssa.Function
	n, nid := 0, 0
	var strong func(f *ssa.Function)
	strong = func(f *ssa.Function) {
		index[f], low[f] = n, n
		n++
		st = append(st, f)
		on[f] = true
		for _, c := range s.succs[f] {
			if _, ok := index[c]; !ok {
				strong(c)
				if low[c] < low[f] {
					low[f] = low[c]
				}
			} else if on[c] && index[c] < low[f] {
				low[f] = index[c]
			}
		}
		if low[f] == index[f] {
			var comp []*ssa.Function
			for {
				g := st[len(st)-1]
				st = st[:len(st)-1]
				on[g] = false
				comp = append(comp, g)
				if g == f {
					break
				}
			}
			nid++
			self := false
			for _, c := range s.succs[f] {
				if c == f {
					self = true
				}
			}
			for _, g := range comp {
				s.id[g] = nid
				if len(comp) > 1 || self {
					s.rec[g] = true
				}
			}
		}
	}
	for _, f := range nodes {
		if _, ok := index[f]; !ok {
			strong(f)
		}
	}
	return s
}

// calleesAt: resolved in-module callees of one call instruction.
func (s *cgSCC) calleesAt(ci ssa.CallInstruction) []*ssa.Function {
	var out []*ssa.Function
	f := ci.Parent()
	if n := s.p.CG.Nodes[f]; n != nil {
		for _, e := range n.Out {
			if e.Site == ci && s.p.inModuleLoose(e.Callee.Func) {
				out = append(out, e.Callee.Func)
			}
		}
	}
	if c := ci.Common().StaticCallee(); c != nil && s.p.inModuleLoose(c) && len(out) == 0 {
		out = append(out, c)
	}
	return out
}

// instrReaches: b can execute after a on some path of their function.
func instrReaches(a, b ssa.Instruction) bool {
	ba, bb := a.Block(), b.Block()
	if ba == bb {
		ia, ib := -1, -1
		for i, in := range ba.Instrs {
			if in == a {
				ia = i
			}
			if in == b {
				ib = i
			}
		}
		if ia < ib {
			return true
		}
	}
	seen := map[*ssa.BasicBlock]bool{}
	var work []*ssa.BasicBlock
	work = append(work, ba.Succs...)
	for len(work) > 0 {
		x := work[len(work)-1]
		work = work[:len(work)-1]
		if seen[x] {
			continue
		}
		seen[x] = true
		if x == bb {
			return true
		}
		work = append(work, x.Succs...)
	}
	return false
}

// treeOverlap: two provenance strings of tree-typed arguments denote the same subtree or one an
// ancestor of the other (left(n) and right(n) are disjoint; n and left(n) overlap).
func treeOverlap(a, b string) bool {
	return a == b || strings.Contains(a, b) || strings.Contains(b, a)
}

func rulesC14b(p *Prog, r *Report) {
	r.Rule("C2b", "necessary", 3, "no re-traversal inside a recursive cycle: on one path, no function of a cycle (cycles of the resolved call graph, function values included) hands the same subtree — or a subtree and one of its ancestors — to two members of its own cycle; T(n) ≥ 2·T(n-1) otherwise")
	r.Rule("C5", "necessary", 1, "no backtracking over a recursive production: a cursor field of a parser state is never set back to a value saved before a call to a member of a recursive cycle (the tokens that call consumed would be parsed again, at every level of nesting)")
	scc := buildCGSCC(p)
	node := nodeType(p)
	qz := &quantizer{p: p, elemVar: map[ssa.Value]string{}}
	var recs []*ssa.Function
	for f := range scc.rec {
		if p.R[f] || p.inModuleLoose(f) && len(f.Blocks) > 0 && reachableLoose(p, f) {
			recs = append(recs, f)
		}
	}
	sort.Slice(recs, func(i, j int) bool { return recs[i].String() < recs[j].String() })
	var sccNames []string
	for _, f := range recs {
		sccNames = append(sccNames, fmt.Sprintf("%s#%d", p.shortKey(f), scc.id[f]))
	}
	r.Extra["recursive_cycles(resolved call graph)"] = sccNames

	// ---- C2b
	for _, f := range recs {
		type site struct {
			ci    ssa.CallInstruction
			trees []string
			to    string
		}
		var sites []site
		for _, b := range f.Blocks {
			for _, in := range b.Instrs {
				ci, ok := in.(ssa.CallInstruction)
				if !ok {
					continue
				}
				inCycle := ""
				for _, c := range scc.calleesAt(ci) {
					if scc.rec[c] && scc.id[c] == scc.id[f] {
						inCycle = c.Name()
					}
				}
				if inCycle == "" {
					continue
				}
				var trees []string
				for _, a := range ci.Common().Args {
					if node != nil && isPtrTo(a.Type(), node) {
						trees = append(trees, qz.prov(a, 0))
					}
				}
				sites = append(sites, site{ci, trees, inCycle})
			}
		}
		bad := ""
		for i := range sites {
			for j := range sites {
				if i == j || !instrReaches(sites[i].ci, sites[j].ci) {
					continue
				}
				for _, a := range sites[i].trees {
					for _, b := range sites[j].trees {
						if treeOverlap(a, b) {
							bad = fmt.Sprintf("%s: %s(%s) and then %s: %s(%s) — both calls stay inside the cycle of %s and cover the same subtree, so the work at least doubles with every level of nesting", p.pos(sites[i].ci.Pos()), sites[i].to, shortDesc(a), p.pos(sites[j].ci.Pos()), sites[j].to, shortDesc(b), f.Name())
						}
					}
				}
			}
		}
		if bad != "" {
			r.Bad("C2b", p.shortKey(f), p.pos(f.Pos()), bad)
		} else {
			r.OK("C2b", p.shortKey(f), p.pos(f.Pos()), "no subtree handed to two members of the cycle on one path", fmt.Sprintf("%d in-cycle call sites", len(sites)), true)
		}
	}

	ruleC6(p, r, scc)
	// ---- C5: cursor fields = int fields of the receiver struct of a function of a recursive cycle
	recvStruct := map[*types.Struct]string{}
	for _, f := range recs {
		if f.Signature.Recv() == nil {
			continue
		}
		if pt, ok := f.Signature.Recv().Type().Underlying().(*types.Pointer); ok {
			if st, ok := pt.Elem().Underlying().(*types.Struct); ok {
				recvStruct[st] = pt.Elem().String()
			}
		}
	}
	for _, pk := range p.Pkgs {
		for _, f := range p.AllModuleFuncs(pk) {
			if p.isTestPos(f.Pos()) {
				continue
			}
			for _, b := range f.Blocks {
				for _, in := range b.Instrs {
					st, ok := in.(*ssa.Store)
					if !ok {
						continue
					}
					fa, ok := st.Addr.(*ssa.FieldAddr)
					if !ok {
						continue
					}
					pt, ok := fa.X.Type().Underlying().(*types.Pointer)
					if !ok {
						continue
					}
					sty, ok := pt.Elem().Underlying().(*types.Struct)
					if !ok {
						continue
					}
					tname, isRecv := recvStruct[sty]
					if !isRecv {
						continue
					}
					fld := sty.Field(fa.Field)
					if bt, ok := fld.Type().Underlying().(*types.Basic); !ok || bt.Info()&types.IsInteger == 0 {
						continue
					}
					if _, isConst := st.Val.(*ssa.Const); isConst {
						continue // initialisation
					}
					key := fmt.Sprintf("%s|store %s.%s", p.shortKey(f), shortType(tname), fld.Name())
					// loads of the same field that the stored value depends on
					loads := cursorLoadsOf(st.Val, fa.Field, sty, map[ssa.Value]bool{})
					msg := ""
					for _, ld := range loads {
						for _, b2 := range f.Blocks {
							for _, in2 := range b2.Instrs {
								ci, ok := in2.(ssa.CallInstruction)
								if !ok {
									continue
								}
								for _, c := range scc.calleesAt(ci) {
									if scc.rec[c] && instrReaches(ld, ci) && instrReaches(ci, st) {
										msg = fmt.Sprintf("%s.%s is set back at %s to the value read at %s, after the call to %s at %s (a member of a recursive cycle) has run in between: whatever that call consumed is parsed again, and nested groups repeat this at every level", shortType(tname), fld.Name(), p.pos(st.Pos()), p.pos(ld.Pos()), c.Name(), p.pos(ci.Pos()))
									}
								}
							}
						}
					}
					// the stored value was captured from the enclosing function (the store sits in a closure, deferred
					// or called): continue at the closure's binding — the save is the store into the captured variable,
					// and the closure runs after whatever the enclosing function calls behind that save
					if msg == "" && f.Parent() != nil {
						par := f.Parent()
						for _, fv := range capturedVarsOf(st.Val, map[ssa.Value]bool{}) {
							idx := -1
							for i, x := range f.FreeVars {
								if x == fv {
									idx = i
								}
							}
							for _, pb := range par.Blocks {
								for _, pin := range pb.Instrs {
									mc, ok := pin.(*ssa.MakeClosure)
									if !ok || mc.Fn != ssa.Value(f) || idx < 0 || idx >= len(mc.Bindings) {
										continue
									}
									for _, pb2 := range par.Blocks {
										for _, pin2 := range pb2.Instrs {
											sv, ok := pin2.(*ssa.Store)
											if !ok || sv.Addr != mc.Bindings[idx] {
												continue
											}
											for _, ld := range cursorLoadsOf(sv.Val, fa.Field, sty, map[ssa.Value]bool{}) {
												for _, pb3 := range par.Blocks {
													for _, pin3 := range pb3.Instrs {
														ci, ok := pin3.(ssa.CallInstruction)
														if !ok {
															continue
														}
														for _, c := range scc.calleesAt(ci) {
															if scc.rec[c] && instrReaches(ld, ci) {
																msg = fmt.Sprintf("%s.%s is set back at %s, inside a closure of %s, to the value that function saved at %s; the call to %s at %s (a member of a recursive cycle) runs after that save: whatever it consumed is parsed again, and nested groups repeat this at every level", shortType(tname), fld.Name(), p.pos(st.Pos()), par.Name(), p.pos(ld.Pos()), c.Name(), p.pos(ci.Pos()))
															}
														}
													}
												}
											}
										}
									}
								}
							}
						}
					}
					if msg != "" {
						r.Bad("C5", key, p.pos(st.Pos()), msg)
					} else {
						r.OK("C5", key, p.pos(st.Pos()), "no saved cursor restored across a recursive call", fmt.Sprintf("%d loads feed the stored value", len(loads)), true)
					}
				}
			}
		}
	}
}

// ruleC6: allocation sizes inside recursive computations grow additively. A make() whose length or
// capacity is k·len(x) / k·cap(x) with k ≥ 2 (or x+x, or a shift) of a value the function received, in a
// function that is part of — or called from — a recursive cycle, multiplies the allocation at every
// level unless it is the guarded amortised-growth idiom (under a test that the slice is full).
func ruleC6(p *Prog, r *Report, scc *cgSCC) {
	r.Rule("C6", "necessary", 1, "no geometric growth of allocation sizes along a recursive chain: in functions of, or called from, a recursive cycle every make() length/capacity is free of terms k·len(x), k·cap(x) (k ≥ 2) over values the function was given")
	// functions in or statically reachable from recursive members
	reach := map[*ssa.Function]bool{}
	var walk func(f *ssa.Function)
	walk = func(f *ssa.Function) {
		if f == nil || reach[f] || !p.inModuleLoose(f) {
			return
		}
		reach[f] = true
		for _, c := range scc.succs[f] {
			walk(c)
		}
	}
	for f := range scc.rec {
		if p.R[f] {
			walk(f)
		}
	}
	var fns []*ssa.Function
	for f := range reach {
		if p.R[f] {
			fns = append(fns, f)
		}
	}
	sort.Slice(fns, func(i, j int) bool { return fns[i].String() < fns[j].String() })
	sizeAtom := func(v ssa.Value) (ssa.Value, bool) {
		c, ok := v.(*ssa.Call)
		if !ok {
			return nil, false
		}
		b, ok := c.Call.Value.(*ssa.Builtin)
		if !ok || (b.Name() != "len" && b.Name() != "cap") {
			return nil, false
		}
		return c.Call.Args[0], true
	}
	var hasAtom func(v ssa.Value, d int) bool
	hasAtom = func(v ssa.Value, d int) bool {
		if d > 6 {
			return false
		}
		if _, ok := sizeAtom(v); ok {
			return true
		}
		switch t := v.(type) {
		case *ssa.BinOp:
			return hasAtom(t.X, d+1) || hasAtom(t.Y, d+1)
		case *ssa.Phi:
			for _, e := range t.Edges {
				if hasAtom(e, d+1) {
					return true
				}
			}
		case *ssa.Call:
			if b, ok := t.Call.Value.(*ssa.Builtin); ok && (b.Name() == "max" || b.Name() == "min") {
				for _, a := range t.Call.Args {
					if hasAtom(a, d+1) {
						return true
					}
				}
			}
		}
		return false
	}
	var geometric func(v ssa.Value, d int) string
	geometric = func(v ssa.Value, d int) string {
		if d > 6 {
			return ""
		}
		switch t := v.(type) {
		case *ssa.BinOp:
			switch t.Op {
			case token.MUL:
				for _, pr := range [][2]ssa.Value{{t.X, t.Y}, {t.Y, t.X}} {
					if k, ok := pr[0].(*ssa.Const); ok && k.Value != nil && k.Int64() >= 2 && hasAtom(pr[1], 0) {
						return fmt.Sprintf("%d × a size of the input", k.Int64())
					}
				}
				// len(a)*len(b) is the size of a product the function is about to build: that recurrence is
				// rule C1's subject (and a recorded finding), not a growth of its own
			case token.SHL:
				if k, ok := t.Y.(*ssa.Const); ok && k.Value != nil && k.Int64() >= 1 && hasAtom(t.X, 0) {
					return "a size of the input shifted left"
				}
			case token.ADD:
				ax, okx := sizeAtom(t.X)
				ay, oky := sizeAtom(t.Y)
				if okx && oky && ax == ay {
					return "a size of the input added to itself"
				}
			}
			if g := geometric(t.X, d+1); g != "" {
				return g
			}
			return geometric(t.Y, d+1)
		case *ssa.Phi:
			// max written out: n := 2*cap(x); if n < need { n = need }
			for _, e := range t.Edges {
				if g := geometric(e, d+1); g != "" {
					return g
				}
			}
		case *ssa.Call:
			if b, ok := t.Call.Value.(*ssa.Builtin); ok && (b.Name() == "max" || b.Name() == "min") {
				for _, a := range t.Call.Args {
					if g := geometric(a, d+1); g != "" {
						return g
					}
				}
			}
		}
		return ""
	}
	n := 0
	for _, f := range fns {
		for _, b := range f.Blocks {
			for _, in := range b.Instrs {
				ms, ok := in.(*ssa.MakeSlice)
				if !ok {
					continue
				}
				n++
				key := fmt.Sprintf("%s|%s", p.shortKey(f), instrDesc(in))
				g := geometric(ms.Len, 0)
				if g == "" {
					g = geometric(ms.Cap, 0)
				}
				if g == "" {
					r.OK("C6", key, p.pos(ms.Pos()), "size is additive in the sizes of the inputs", "", true)
					continue
				}
				// the amortised-growth idiom: under a test comparing len and cap of a slice
				guarded := false
				for _, l := range pathLiterals(p, f, b) {
					ls := l.String()
					if strings.Contains(ls, "len(") && strings.Contains(ls, "cap(") {
						guarded = true
					}
				}
				if guarded {
					r.OK("C6", key, p.pos(ms.Pos()), "geometric size only under a 'slice is full' test (amortised growth)", g, true)
				} else {
					r.Bad("C6", key, p.pos(ms.Pos()), fmt.Sprintf("the slice is made with %s, unconditionally, in a function of (or called from) a recursive cycle: fed back through the recursion the allocation multiplies at every level of nesting", g))
				}
			}
		}
	}
	if n == 0 {
		r.OK("C6", "no make in recursive computations", "-", "nothing allocated by size", "", false)
	}
}

func shortType(s string) string {
	if i := strings.LastIndex(s, "/"); i >= 0 {
		return s[i+1:]
	}
	return s
}

func isPtrTo(t types.Type, named *types.Named) bool {
	pt, ok := t.Underlying().(*types.Pointer)
	return ok && types.Identical(pt.Elem(), named)
}

// reachableLoose: a synthetic wrapper or closure counts as reachable when its parent / target is.
func reachableLoose(p *Prog, f *ssa.Function) bool {
	if p.R[f] {
		return true
	}
	if f.Parent() != nil {
		return reachableLoose(p, f.Parent())
	}
	if f.Synthetic != "" {
		return true
	}
	return false
}

// cursorLoadsOf: the loads of field #field of struct sty that v is computed from (through
// arithmetic, phis and conversions).
// capturedVarsOf: the free variables (captured by reference) whose loaded value v is computed from.
func capturedVarsOf(v ssa.Value, seen map[ssa.Value]bool) []*ssa.FreeVar {
	if seen[v] {
		return nil
	}
	seen[v] = true
	switch t := v.(type) {
	case *ssa.UnOp:
		if t.Op == token.MUL {
			if fv, ok := t.X.(*ssa.FreeVar); ok {
				return []*ssa.FreeVar{fv}
			}
			return nil
		}
		return capturedVarsOf(t.X, seen)
	case *ssa.BinOp:
		return append(capturedVarsOf(t.X, seen), capturedVarsOf(t.Y, seen)...)
	case *ssa.Phi:
		var out []*ssa.FreeVar
		for _, e := range t.Edges {
			out = append(out, capturedVarsOf(e, seen)...)
		}
		return out
	case *ssa.Convert:
		return capturedVarsOf(t.X, seen)
	case *ssa.ChangeType:
		return capturedVarsOf(t.X, seen)
	}
	return nil
}

func cursorLoadsOf(v ssa.Value, field int, sty *types.Struct, seen map[ssa.Value]bool) []*ssa.UnOp {
	if seen[v] {
		return nil
	}
	seen[v] = true
	switch t := v.(type) {
	case *ssa.UnOp:
		if t.Op == token.MUL {
			if fa, ok := t.X.(*ssa.FieldAddr); ok && fa.Field == field {
				if pt, ok := fa.X.Type().Underlying().(*types.Pointer); ok && types.Identical(pt.Elem().Underlying(), sty) {
					return []*ssa.UnOp{t}
				}
			}
			return nil
		}
		return cursorLoadsOf(t.X, field, sty, seen)
	case *ssa.BinOp:
		return append(cursorLoadsOf(t.X, field, sty, seen), cursorLoadsOf(t.Y, field, sty, seen)...)
	case *ssa.Phi:
		var out []*ssa.UnOp
		for _, e := range t.Edges {
			out = append(out, cursorLoadsOf(e, field, sty, seen)...)
		}
		return out
	case *ssa.Convert:
		return cursorLoadsOf(t.X, field, sty, seen)
	case *ssa.ChangeType:
		return cursorLoadsOf(t.X, field, sty, seen)
	}
	return nil
}
