package main

import (
	"fmt"
	"go/token"
	"go/types"
	"regexp"
	"sort"
	"strings"

	"golang.org/x/tools/go/ssa"
)

// W1 — whitespace / position non-interference between scanner and parser.
func ruleW1(p *Prog, r *Report) {
	r.Rule("W1", "necessary", 3, "spacing cannot reach the parser: tokens carry only a role and a value (no position), parse uses its argument only for the emptiness test and as the scanner's input, and the scanner skips blanks before every token")
	tok := p.ExpPkg.Types.Scope().Lookup("token")
	if tok == nil {
		r.Unknown("W1", "anchor", "-", "unresolved anchor: type token")
		return
	}
	st, ok := tok.Type().Underlying().(*types.Struct)
	if !ok {
		r.Unknown("W1", "token", "-", "token is not a struct")
		return
	}
	var bad []string
	for i := 0; i < st.NumFields(); i++ {
		f := st.Field(i)
		if isStringType(f.Type()) {
			continue
		}
		if n, ok := f.Type().(*types.Named); ok && isIntType(n) {
			continue // an enumeration (role)
		}
		bad = append(bad, fmt.Sprintf("field %s %s", f.Name(), f.Type()))
	}
	if len(bad) > 0 {
		r.Bad("W1", "token|fields", p.pos(tok.Pos()), "tokens carry more than a role and a value: "+strings.Join(bad, ", ")+" (spacing or position can influence parsing)")
	} else {
		r.OK("W1", "token|fields", p.pos(tok.Pos()), "role + value only", "", false)
	}
	parse := p.Func(p.ExpPkg, "parse")
	if parse == nil {
		r.Unknown("W1", "anchor", "-", "unresolved anchor: parse")
		return
	}
	src := parse.Params[0]
	var uses []string
	for _, ref := range *src.Referrers() {
		switch t := ref.(type) {
		case *ssa.Call:
			if bi, ok := t.Call.Value.(*ssa.Builtin); ok && bi.Name() == "len" {
				continue
			}
			if c := t.Call.StaticCallee(); c != nil && c.Name() == "scan" && p.InModule(c) {
				continue
			}
			uses = append(uses, "passed to "+t.Call.Value.Name())
		case *ssa.BinOp:
			if t.Op == token.EQL || t.Op == token.NEQ {
				if s, ok := constString(t.Y); ok && s == "" {
					continue
				}
			}
			uses = append(uses, "compared at "+p.pos(t.Pos()))
		case *ssa.DebugRef:
		default:
			uses = append(uses, fmt.Sprintf("%T at %s", ref, p.pos(ref.Pos())))
		}
	}
	if len(uses) > 0 {
		r.Bad("W1", "parse|source uses", p.pos(parse.Pos()), "parse inspects its argument besides the emptiness test and scanning: "+strings.Join(uses, "; "))
	} else {
		r.OK("W1", "parse|source uses", p.pos(parse.Pos()), "len + scan only", "", false)
	}
	// the scan loop skips blanks at the top of every iteration, before reading a token
	scan := p.Func(p.ExpPkg, "scan")
	if scan == nil {
		r.Unknown("W1", "anchor", "-", "unresolved anchor: scan")
		return
	}
	// every call of the token reader is dominated by a call that skips blanks, and that call sits in every
	// loop the token reader's call sits in (it runs again before each token)
	okSkip := false
	{
		var skips, reads []*ssa.Call
		for _, b := range scan.Blocks {
			for _, in := range b.Instrs {
				if c, ok := in.(*ssa.Call); ok && c.Call.StaticCallee() != nil {
					switch c.Call.StaticCallee().Name() {
					case "skipWhitespace":
						skips = append(skips, c)
					case "parseToken":
						reads = append(reads, c)
					}
				}
			}
		}
		inLoop := false
		all := len(reads) > 0
		for _, rd := range reads {
			found := false
			for _, sk := range skips {
				before := sk.Block() == rd.Block() && blockOrder(sk) < blockOrder(rd) || sk.Block() != rd.Block() && sk.Block().Dominates(rd.Block())
				if !before {
					continue
				}
				sameLoops := true
				for _, h := range scan.Blocks {
					if isLoopHeader(h) && naturalLoop(h)[rd.Block()] {
						inLoop = true
						if !naturalLoop(h)[sk.Block()] {
							sameLoops = false
						}
					}
				}
				if sameLoops {
					found = true
				}
			}
			if !found {
				all = false
			}
		}
		okSkip = all && inLoop
	}
	if okSkip {
		r.OK("W1", "scan|skips blanks first", p.pos(scan.Pos()), "first call of every iteration", "", true)
	} else {
		r.Bad("W1", "scan|skips blanks first", p.pos(scan.Pos()), "the scanner does not skip blanks at the start of every iteration before reading a token")
	}
}

// rulesAllowedSet (S1, S3): the nodes the matcher sees are exactly the nodes of the allowed entries —
// each entry becomes a node independently, and the slice is only permuted or compacted exactly.
func rulesAllowedSet(p *Prog, r *Report) {
	r.Rule("S1", "sufficient", 1, "each allowed entry becomes a node independently of the others: the node stored at position i is parse(list[i]) and nothing else is carried around the loop")
	r.Rule("S3", "sufficient", 1, "between construction and use the allowed-node slice is only permuted or compacted in place (sort.Slice, copying an element of the slice over another element of the same slice), and the compaction skips an element only when its canonical text equals its neighbour's")
	rulePrinterVerbatim(p, r, "S5")
	qz := &quantizer{p: p, elemVar: map[ssa.Value]string{}, stop: map[string]bool{"parse": true}}
	s2n := p.Func(p.ExpPkg, "stringsToNodes")
	sat := p.Func(p.ExpPkg, "Satisfies")
	if s2n == nil || sat == nil {
		r.Unknown("S1", "anchor", "-", "unresolved anchor: stringsToNodes / Satisfies")
		return
	}
	r.Funcs[p.shortKey(s2n)] = true
	{
		var why []string
		stores := 0
		// the same written as an accumulation: nodes = append(nodes, parse(list[i])) on every iteration that
		// does not leave the function with an error, starting from an empty slice
		var accPhi *ssa.Phi
		varargs := map[ssa.Value]bool{}
		for _, al := range findAppendLoops(s2n) {
			if al.Coll != ssa.Value(s2n.Params[0]) || !al.Unconditional || len(al.OtherState) > 0 {
				continue
			}
			elems, _ := appendedElems(al.App)
			if len(elems) != 1 {
				continue
			}
			empty := true
			for _, e := range al.Acc.Edges {
				switch x := e.(type) {
				case *ssa.Const:
					if !x.IsNil() {
						empty = false
					}
				case *ssa.MakeSlice:
					if k, ok := x.Len.(*ssa.Const); !ok || k.Value == nil || k.Int64() != 0 {
						empty = false
					}
				case *ssa.Call:
					if x != al.App {
						empty = false
					}
				default:
					empty = false
				}
			}
			if !empty {
				continue
			}
			accPhi = al.Acc
			stores++
			if pv := qz.prov(elems[0], 0); pv != "spdxexp.parse(elem(param:"+s2n.Params[0].Name()+"))#0" {
				why = append(why, "the appended node is not parse(list[i]): "+pv)
			}
			if sl, ok := al.App.Call.Args[1].(*ssa.Slice); ok {
				varargs[sl.X] = true
			}
		}
		for _, b := range s2n.Blocks {
			for _, in := range b.Instrs {
				if phi, ok := in.(*ssa.Phi); ok && isLoopHeader(b) && phi.Comment != "rangeindex" && phi != accPhi {
					why = append(why, "loop carries state in "+phi.Comment)
				}
				st, ok := in.(*ssa.Store)
				if !ok {
					continue
				}
				ia, ok := st.Addr.(*ssa.IndexAddr)
				if !ok || varargs[ia.X] {
					continue
				}
				stores++
				if isRangeIndexOf(ia.Index, s2n.Params[0]) != nil {
					why = append(why, "the node is not stored at the position of its own entry")
				}
				pv := qz.prov(st.Val, 0)
				if pv != "spdxexp.parse(elem(param:"+s2n.Params[0].Name()+"))#0" {
					why = append(why, "the stored node is not parse(list[i]): "+pv)
				}
			}
		}
		if stores == 0 {
			why = append(why, "no element store found")
		}
		if len(why) > 0 {
			r.Bad("S1", "stringsToNodes", p.pos(s2n.Pos()), strings.Join(why, "; "))
		} else {
			r.OK("S1", "stringsToNodes", p.pos(s2n.Pos()), "nodes[i] = parse(list[i])", "", true)
		}
	}
	// S3: every function the allowed-node slice flows through, from its construction to its last use
	fl := allowedFlow(p, s2n)
	if len(fl.start) == 0 {
		r.Unknown("S3", "Satisfies|allowed nodes", p.pos(sat.Pos()), "kind=undecided: no call of stringsToNodes whose result is used was found")
		return
	}
	var bad []string
	var writers []string
	for _, f := range fl.fnList() {
		if !fl.writes[f] {
			continue
		}
		writers = append(writers, f.Name())
		if msg := onlyPermutes(p, f, map[*ssa.Function]bool{}); msg != "" {
			bad = append(bad, f.Name()+": "+msg)
		}
	}
	bad = append(bad, fl.escapes...)
	if len(bad) > 0 {
		r.Bad("S3", "Satisfies|allowed nodes", p.pos(sat.Pos()), strings.Join(bad, "; "))
	} else {
		r.OK("S3", "Satisfies|allowed nodes", p.pos(sat.Pos()), "only permuted/compacted or read", fmt.Sprintf("flows through %d functions, written by %v", len(fl.fns), writers), true)
	}
}

func rulesC07(p *Prog, r *Report) {
	r.Rule("S2", "sufficient", 3, "the allowed nodes enter the verdict only as the domain of one existential search in positive position (so the verdict depends on the set of nodes and is monotone in it); the list is otherwise only tested for emptiness")
	r.Rule("S4", "sufficient", 1, "the caller's list is only read (taint of the allowedList parameter reaches no write)")

	s2n := p.Func(p.ExpPkg, "stringsToNodes")
	sat := p.Func(p.ExpPkg, "Satisfies")
	isc := p.Func(p.ExpPkg, "isCompatible")
	if s2n == nil || sat == nil {
		r.Unknown("S2", "anchor", "-", "unresolved anchor: stringsToNodes / Satisfies")
		return
	}
	if isc == nil {
		isc = sat // only used to position the report: the readers of the allowed nodes are found by following the slice
	}
	rulesAllowedSet(p, r)
	// the premise of S2 — the loops read as quantifiers — needs the pair matchers to be pure and the verdict
	// to have the ∃∀∃ shape: a matcher that writes shared state makes the verdict depend on which entries
	// were visited before (order, duplicates), an entry added to the list can then revoke it
	ruleX4(p, r, "X4")
	// S2: formula polarity
	f, _, err := satisfiesFormula(p)
	if err != nil || f.has("unknown") {
		msg := "verdict not summarisable"
		if f != nil {
			msg += ": " + f.String()
		}
		r.Unknown("S2", "Satisfies|polarity", p.pos(sat.Pos()), "kind=undecided: "+msg)
	} else {
		var occ []string
		polarityOf(f, func(c string) bool { return strings.Contains(c, "allowedList") }, true, &occ)
		if len(occ) == 1 && occ[0] == "+∃" {
			r.OK("S2", "Satisfies|polarity", p.pos(sat.Pos()), "one positive existential over the allowed nodes", f.String(), true)
		} else {
			r.Bad("S2", "Satisfies|polarity", p.pos(sat.Pos()), fmt.Sprintf("the allowed nodes occur in the verdict as %v, not as a single positive existential: the verdict can depend on order, multiplicity or shrink when entries are added; formula: %s", occ, f))
		}
		// atoms must not mention the allowed list other than through the bound element
		mention := false
		var walk func(q *qf)
		walk = func(q *qf) {
			if q.Op == "atom" && strings.Contains(q.Atom, "allowedList") {
				mention = true
			}
			for _, a := range q.Args {
				walk(a)
			}
		}
		walk(f)
		if mention {
			r.Bad("S2", "Satisfies|atoms", p.pos(sat.Pos()), "a test in the verdict looks at the allowed list as a whole (length, position): "+f.String())
		} else {
			r.OK("S2", "Satisfies|atoms", p.pos(sat.Pos()), "no test on the list as a whole", "", true)
		}
	}
	// S2: how the functions that only read the allowed nodes look at them
	{
		fl := allowedFlow(p, s2n)
		var bad []string
		nr := 0
		for _, f := range fl.fnList() {
			if fl.writes[f] {
				continue // a permuting function: S3's business
			}
			nr++
			bad = append(bad, fl.readProblems[f]...)
		}
		if nr == 0 {
			bad = append(bad, "no function reads the allowed nodes")
		}
		if len(bad) > 0 {
			r.Bad("S2", "isCompatible|uses of allowed", p.pos(isc.Pos()), strings.Join(bad, "; "))
		} else {
			r.OK("S2", "isCompatible|uses of allowed", p.pos(isc.Pos()), "ranged only", fmt.Sprintf("%d reading functions", nr), true)
		}
	}
	// S4
	taint := p.TaintArgs()
	key := "spdxexp.Satisfies:" + sat.Params[1].Name()
	var msgs []string
	for _, s := range taint.Sinks {
		if s.Source == key {
			msgs = append(msgs, fmt.Sprintf("%s: %s", p.pos(s.Pos), s.What))
		}
	}
	if len(msgs) > 0 {
		r.Bad("S4", key, p.pos(sat.Pos()), strings.Join(msgs, "; "))
	} else {
		r.OK("S4", key, p.pos(sat.Pos()), "taint reaches no write", "", true)
	}
	ruleW1(p, r)
	// the clause "re-spelling a listed id in another letter case never changes the answer" is the
	// case-canonicalisation chain of C09 applied to allowed entries (each entry goes through parse).
	rulesC09(p, r)
}

// allowedFlow follows the slice built by stringsToNodes through the program: arguments into callees,
// returns back to callers, re-slicing, phis, captured variables of closures. It records the functions
// the slice reaches, which of them write its elements, how the others read it, and every use that lets
// it escape the analysis.
type sliceFlow struct {
	p            *Prog
	start        []ssa.Value
	vals         map[ssa.Value]bool
	fns          map[*ssa.Function]bool
	writes       map[*ssa.Function]bool
	readProblems map[*ssa.Function][]string
	escapes      []string
}

func (fl *sliceFlow) fnList() []*ssa.Function {
	var out []*ssa.Function
	for f := range fl.fns {
		out = append(out, f)
	}
	sort.Slice(out, func(i, j int) bool { return out[i].String() < out[j].String() })
	return out
}

var flowCache = map[*Prog]*sliceFlow{}

func allowedFlow(p *Prog, s2n *ssa.Function) *sliceFlow {
	if fl, ok := flowCache[p]; ok {
		return fl
	}
	fl := &sliceFlow{p: p, vals: map[ssa.Value]bool{}, fns: map[*ssa.Function]bool{}, writes: map[*ssa.Function]bool{}, readProblems: map[*ssa.Function][]string{}}
	flowCache[p] = fl
	var work []ssa.Value
	trackedField := map[string]bool{}
	comparators := map[*ssa.Function]bool{}
	add := func(v ssa.Value) {
		if v != nil && !fl.vals[v] {
			fl.vals[v] = true
			work = append(work, v)
		}
	}
	for _, f := range p.RList {
		for _, b := range f.Blocks {
			for _, in := range b.Instrs {
				if ex, ok := in.(*ssa.Extract); ok && ex.Index == 0 {
					if c, ok := ex.Tuple.(*ssa.Call); ok && c.Call.StaticCallee() == s2n {
						fl.start = append(fl.start, ex)
						add(ex)
					}
				}
			}
		}
	}
	resultsOf := func(f *ssa.Function, idx int) []ssa.Value {
		var out []ssa.Value
		n := p.CG.Nodes[f]
		if n == nil {
			return nil
		}
		for _, e := range n.In {
			if e.Site == nil || !p.R[e.Caller.Func] {
				continue
			}
			v, ok := e.Site.(ssa.Value)
			if !ok {
				continue
			}
			if f.Signature.Results().Len() == 1 {
				out = append(out, v)
				continue
			}
			for _, rr := range *v.Referrers() {
				if ex, ok := rr.(*ssa.Extract); ok && ex.Index == idx {
					out = append(out, ex)
				}
			}
		}
		return out
	}
	for len(work) > 0 {
		v := work[len(work)-1]
		work = work[:len(work)-1]
		var fn *ssa.Function
		switch t := v.(type) {
		case *ssa.Parameter:
			fn = t.Parent()
		case *ssa.FreeVar:
			fn = t.Parent()
		case ssa.Instruction:
			fn = t.Parent()
		}
		if fn != nil {
			fl.fns[fn] = true
		}
		if v.Referrers() == nil {
			continue
		}
		for _, ref := range *v.Referrers() {
			switch t := ref.(type) {
			case *ssa.DebugRef:
			case *ssa.Phi:
				add(t)
			case *ssa.Slice:
				add(t)
				if t.Low != nil || t.High != nil {
					// harmless where the function compacts the slice (a writer), a loss of entries in a reader
					fl.readProblems[t.Parent()] = append(fl.readProblems[t.Parent()], "allowed re-sliced at "+p.pos(t.Pos())+": entries are cut off before they are looked at")
				}
			case *ssa.Return:
				for i, res := range t.Results {
					if res == v {
						for _, rv := range resultsOf(t.Parent(), i) {
							add(rv)
						}
					}
				}
			case *ssa.BinOp: // comparison with nil
			case *ssa.IndexAddr:
				if t.X != v {
					break
				}
				written := false
				for _, rr := range *t.Referrers() {
					if st, ok := rr.(*ssa.Store); ok && st.Addr == ssa.Value(t) {
						written = true
					}
				}
				if written {
					fl.writes[t.Parent()] = true
				} else if isRangeIndexOf(t.Index, v) != nil {
					fl.readProblems[t.Parent()] = append(fl.readProblems[t.Parent()], "allowed indexed by position at "+p.pos(t.Pos()))
				}
			case *ssa.MakeClosure:
				for i, bnd := range t.Bindings {
					if bnd == v {
						add(t.Fn.(*ssa.Function).FreeVars[i])
					}
				}
			case *ssa.Store:
				// spilled to a local variable (captured by reference): follow the loads
				if al, ok := t.Addr.(*ssa.Alloc); ok && t.Val == v {
					for _, rr := range *al.Referrers() {
						if ld, ok := rr.(*ssa.UnOp); ok && ld.Op == token.MUL {
							add(ld)
						}
						if mc, ok := rr.(*ssa.MakeClosure); ok {
							for i, bnd := range mc.Bindings {
								if bnd == ssa.Value(al) {
									fv := mc.Fn.(*ssa.Function).FreeVars[i]
									for _, r3 := range *fv.Referrers() {
										if ld, ok := r3.(*ssa.UnOp); ok && ld.Op == token.MUL {
											add(ld)
										}
									}
								}
							}
						}
					}
					break
				}
				// wrapped into a field of an in-module struct (type allowList struct{ licenses []*node }): every
				// read of that field, anywhere, is then a use of the allowed nodes (checked below: nothing
				// else is ever stored into the field)
				if fa, ok := t.Addr.(*ssa.FieldAddr); ok && t.Val == v {
					if st, okS := fa.X.Type().Underlying().(*types.Pointer).Elem().Underlying().(*types.Struct); okS {
						if n, _ := namedStruct(fa.X.Type().Underlying().(*types.Pointer).Elem()); n != nil && n.Obj().Pkg() != nil && p.ExpPkg.Types == n.Obj().Pkg() {
							key := n.String() + "." + st.Field(fa.Field).Name()
							if !trackedField[key] {
								trackedField[key] = true
								for _, g := range p.RList {
									for _, gb := range g.Blocks {
										for _, gin := range gb.Instrs {
											switch x := gin.(type) {
											case *ssa.UnOp:
												if fa2, ok := x.X.(*ssa.FieldAddr); ok && x.Op == token.MUL {
													if n2, st2 := namedStruct(fa2.X.Type().Underlying().(*types.Pointer).Elem()); n2 != nil && n2.String()+"."+st2.Field(fa2.Field).Name() == key {
														add(x)
													}
												}
											case *ssa.Field:
												if n2, st2 := namedStruct(x.X.Type()); n2 != nil && n2.String()+"."+st2.Field(x.Field).Name() == key {
													add(x)
												}
											}
										}
									}
								}
							}
							break
						}
					}
				}
				fl.escapes = append(fl.escapes, fmt.Sprintf("%s: the allowed nodes are stored into %s", p.pos(t.Pos()), describe(t.Addr)))
			case *ssa.Call:
				if bi, ok := t.Call.Value.(*ssa.Builtin); ok {
					switch bi.Name() {
					case "len":
						if !fl.writes[t.Parent()] {
							for _, rr := range *t.Referrers() {
								if bo, ok := rr.(*ssa.BinOp); !ok || bo.Op != token.LSS {
									if _, isDbg := rr.(*ssa.DebugRef); !isDbg {
										fl.readProblems[t.Parent()] = append(fl.readProblems[t.Parent()], "len(allowed) used at "+p.pos(rr.Pos()))
									}
								}
							}
						}
					case "cap":
					default:
						fl.escapes = append(fl.escapes, fmt.Sprintf("%s: %s applied to the allowed nodes", p.pos(t.Pos()), bi.Name()))
					}
					break
				}
				callee := t.Call.StaticCallee()
				if callee == nil {
					fl.escapes = append(fl.escapes, fmt.Sprintf("%s: the allowed nodes are passed to a dynamic call", p.pos(t.Pos())))
					break
				}
				if p.InModule(callee) {
					for i, a := range t.Call.Args {
						if a == v && i < len(callee.Params) {
							add(callee.Params[i])
						}
					}
					break
				}
				base := callee.Name()
				if o := callee.Origin(); o != nil {
					base = o.Name()
				}
				switch {
				case base == "ContainsFunc" || base == "IndexFunc" || base == "Contains":
					// a stateless search over the whole slice
				case callee.String() == "sort.Slice" || callee.String() == "sort.SliceStable":
					fl.writes[t.Parent()] = true
					// its less function — a closure, or a (bound) method — reads by position on behalf of the sort
					if len(t.Call.Args) == 2 {
						if mc, ok := t.Call.Args[1].(*ssa.MakeClosure); ok {
							cf := mc.Fn.(*ssa.Function)
							comparators[cf] = true
							comparators[unwrapThunk(p, cf)] = true
						}
					}
				default:
					if si := classifyStd(callee); si.Class == stdMutatesArg {
						fl.writes[t.Parent()] = true // onlyPermutes names it
					} else {
						fl.escapes = append(fl.escapes, fmt.Sprintf("%s: the allowed nodes are passed to %s", p.pos(t.Pos()), callee))
					}
				}
			case *ssa.MakeInterface:
				// sort.Slice(x any, …): follow to the call
				add(t)
			case *ssa.ChangeType:
				// the same slice under a named slice type (type byText []*node)
				add(t)
			case *ssa.Convert:
				add(t)
			default:
				fl.escapes = append(fl.escapes, fmt.Sprintf("%s: the allowed nodes are used by %T", p.pos(ref.Pos()), ref))
			}
		}
	}
	// a field that carries the allowed nodes must carry nothing else: every store into it stores them (or nil)
	if len(trackedField) > 0 {
		for _, g := range p.RList {
			for _, gb := range g.Blocks {
				for _, gin := range gb.Instrs {
					st, ok := gin.(*ssa.Store)
					if !ok {
						continue
					}
					fa, ok := st.Addr.(*ssa.FieldAddr)
					if !ok {
						continue
					}
					n2, st2 := namedStruct(fa.X.Type().Underlying().(*types.Pointer).Elem())
					if n2 == nil || !trackedField[n2.String()+"."+st2.Field(fa.Field).Name()] {
						continue
					}
					if c, isC := st.Val.(*ssa.Const); isC && c.IsNil() {
						continue
					}
					if !fl.vals[st.Val] {
						fl.escapes = append(fl.escapes, fmt.Sprintf("%s: the field that carries the allowed nodes is also assigned %s", p.pos(st.Pos()), describe(st.Val)))
					}
				}
			}
		}
	}
	// len() uses were classified before all writers were known: drop read problems of writers
	for f := range fl.writes {
		delete(fl.readProblems, f)
	}
	// the comparator closure of a sorting function reads by position on behalf of the sort
	for f := range fl.fns {
		if (f.Parent() != nil && fl.writes[f.Parent()]) || comparators[f] {
			delete(fl.readProblems, f)
			fl.writes[f] = true
		}
	}
	return fl
}

// onlyPermutes: fn (and its in-module callees) writes elements of node slices only through sort.Slice
// or by copying one element of a slice over another element of the same slice.
func onlyPermutes(p *Prog, fn *ssa.Function, seen map[*ssa.Function]bool) string {
	if seen[fn] {
		return ""
	}
	seen[fn] = true
	node := nodeType(p)
	for _, b := range fn.Blocks {
		for _, in := range b.Instrs {
			switch t := in.(type) {
			case *ssa.Store:
				ia, ok := t.Addr.(*ssa.IndexAddr)
				if !ok || !containsNodes(ia.X.Type(), node) {
					continue
				}
				// value must be an element of the same slice
				ld, ok := t.Val.(*ssa.UnOp)
				if !ok || ld.Op != token.MUL {
					return fmt.Sprintf("%s: an element is overwritten with a value that is not an element of the same slice", p.pos(t.Pos()))
				}
				src, ok := ld.X.(*ssa.IndexAddr)
				if !ok {
					return fmt.Sprintf("%s: an element is overwritten with a value that is not an element of the same slice", p.pos(t.Pos()))
				}
				// the source may be read through a re-slice of the same slice (for _, x := range s[1:])
				var srcLow ssa.Value
				if src.X != ia.X {
					sl, isSl := src.X.(*ssa.Slice)
					if !isSl || !sameSlotValue(sl.X, ia.X) {
						return fmt.Sprintf("%s: an element is overwritten with a value that is not an element of the same slice", p.pos(t.Pos()))
					}
					srcLow = sl.Low
				}
				// compaction moves elements towards the front only: destination index ≤ source index
				bp := newBoundsProver(p, sharedEngineLite(p))
				fb := bp.forFn(fn)
				fb.inferPhiInvariants()
				di, ok1 := fb.linOf(ia.Index, t, 0)
				si, ok2 := fb.linOf(src.Index, t, 0)
				if ok2 && srcLow != nil {
					lo, ok3 := fb.linOf(srcLow, t, 0)
					si, ok2 = si.add(lo), ok3
				}
				if !ok1 || !ok2 {
					return fmt.Sprintf("%s: element copy with non-linear indices", p.pos(t.Pos()))
				}
				if ok, _ := fb.prove(t, []constraint{geq(si, di, "destination ≤ source")}); !ok {
					return fmt.Sprintf("%s: an element is copied over an element at a later or unrelated position (%s ← %s): a node can disappear from the allowed set", p.pos(t.Pos()), describeIdx(ia.Index), describeIdx(src.Index))
				}
				// the copy is what keeps an element; the element that is NOT copied is dropped. Dropping is
				// harmless only when the dropped node has the same canonical text as a kept one, so the copy
				// must happen at least whenever the canonical texts of the two neighbours differ: among the
				// branch conditions that guard the copy there is none other than "canonical texts differ"
				// (or "the two elements are not the same node").
				if msg := compactionGuardExact(p, fn, t); msg != "" {
					return fmt.Sprintf("%s: %s", p.pos(t.Pos()), msg)
				}
			case *ssa.Call:
				if bi, ok := t.Call.Value.(*ssa.Builtin); ok {
					if bi.Name() == "append" && containsNodes(t.Type(), node) {
						return fmt.Sprintf("%s: appends to the node slice", p.pos(t.Pos()))
					}
					continue
				}
				callee := t.Call.StaticCallee()
				if callee == nil {
					continue
				}
				if p.InModule(callee) {
					takes := false
					for _, a := range t.Call.Args {
						if containsNodes(a.Type(), node) {
							takes = true
						}
					}
					if takes {
						if m := onlyPermutes(p, callee, seen); m != "" {
							return m
						}
					}
					continue
				}
				si := classifyStd(callee)
				if si.Class == stdMutatesArg && callee.String() != "sort.Slice" && callee.String() != "sort.SliceStable" {
					return fmt.Sprintf("%s: %s rewrites the slice", p.pos(t.Pos()), callee)
				}
			}
		}
	}
	return ""
}

var canonDiffRe = regexp.MustCompile(`^\(\*\(\*spdxexp\.node\)\.reconstructedLicenseString\((elem\([^()]*\))\) (!=|==) \*\(\*spdxexp\.node\)\.reconstructedLicenseString\((elem\([^()]*\))\)\)$`)
var canonTextRe = regexp.MustCompile(`^\*\(\*spdxexp\.node\)\.reconstructedLicenseString\(elem\([^()]*\)\)$`)

var elemOnlyRe = regexp.MustCompile(`^elem\([^()]*\)$`)

// an element of a re-slice of X is an element of X
var reSliceElemRe = regexp.MustCompile(`elem\(([^()\[\]]*)\[[^\]()]*\]\)`)
var elemDiffRe = regexp.MustCompile(`^\((elem\([^()]*\)) (!=|==) (elem\([^()]*\))\)$`)

// compactionGuardExact: every branch condition that dominates the element copy st inside its loop is
// the literal "the canonical texts of two elements of the slice differ" (or pointer inequality of two
// elements). Any other conjunct makes the dedup criterion coarser than textual identity: two allowed
// nodes that the matcher tells apart could be merged and one of them lost.
func compactionGuardExact(p *Prog, fn *ssa.Function, st *ssa.Store) string {
	qz := &quantizer{p: p, elemVar: map[ssa.Value]string{}, inlineAll: true}
	b := st.Block()
	// a loop-carried string that holds, on every incoming edge, the canonical text of an element of the
	// slice (lastText := text(s[0]); for … { …; lastText = text(curr) }) denotes such a text itself
	for _, blk := range fn.Blocks {
		for _, in := range blk.Instrs {
			phi, ok := in.(*ssa.Phi)
			if !ok {
				break
			}
			if !isStringType(phi.Type()) {
				// a loop-carried element (last := s[0]; for _, curr := range s[1:] { …; last = curr }) is an
				// element of the slice
				if kindOf(phi.Type()) == KPtr {
					common := ""
					for i, e := range phi.Edges {
						pv := reSliceElemRe.ReplaceAllString(qz.prov(e, 0), "elem($1)")
						if !elemOnlyRe.MatchString(pv) || (i > 0 && pv != common) {
							common = ""
							break
						}
						common = pv
					}
					if common != "" {
						qz.elemVar[phi] = common
					}
				}
				continue
			}
			common := ""
			for i, e := range phi.Edges {
				pv := reSliceElemRe.ReplaceAllString(qz.prov(e, 0), "elem($1)")
				if !canonTextRe.MatchString(pv) || (i > 0 && pv != common) {
					common = ""
					break
				}
				common = pv
			}
			if common != "" {
				qz.elemVar[phi] = common
			}
		}
	}
	// the loop header that contains the store: nearest dominator that is a loop header
	var lits []*qf
	found := false
	for cur := b; cur != nil; cur = cur.Idom() {
		d := cur.Idom()
		if d == nil {
			break
		}
		if iff, ok := d.Instrs[len(d.Instrs)-1].(*ssa.If); ok && len(d.Succs) == 2 {
			tdom := d.Succs[0].Dominates(b) && len(d.Succs[0].Preds) == 1
			fdom := d.Succs[1].Dominates(b) && len(d.Succs[1].Preds) == 1
			if tdom != fdom {
				if isLoopHeader(d) {
					found = true
					break // the loop's own continuation test
				}
				f := qz.boolOf(iff.Cond, map[*ssa.Phi]*qf{})
				if fdom {
					f = qNot(f)
				}
				lits = append(lits, f)
			}
		}
	}
	if !found {
		return "an element copy outside a loop is not a compaction"
	}
	if len(lits) == 0 {
		return "" // unconditional copy: nothing is dropped by a guard
	}
	var flat []*qf
	var fl func(q *qf)
	fl = func(q *qf) {
		if q.Op == "and" {
			for _, a := range q.Args {
				fl(a)
			}
			return
		}
		flat = append(flat, q)
	}
	for _, l := range lits {
		fl(l)
	}
	for _, l := range flat {
		neg := false
		a := l
		if a.Op == "not" {
			neg = true
			a = a.Args[0]
		}
		if a.Op != "atom" {
			return "the element copy of the compaction is guarded by " + l.String() + ", which is not the test that the canonical texts of two neighbouring elements differ: nodes the matcher tells apart can be merged and one of them lost"
		}
		atom := reSliceElemRe.ReplaceAllString(a.Atom, "elem($1)")
		m := canonDiffRe.FindStringSubmatch(atom)
		if m == nil {
			m = elemDiffRe.FindStringSubmatch(atom)
		}
		if m == nil || m[1] != m[3] || (m[2] == "!=") == neg {
			return "the element copy of the compaction is guarded by " + l.String() + ", which is not the test that the canonical texts of two neighbouring elements differ: nodes the matcher tells apart can be merged and one of them lost"
		}
	}
	return ""
}

func init() {
	register("C07", &propDef{
		Level:   "other",
		Explain: "A sound sufficient condition for order-, duplicate-independence and monotonicity in the allowed list: S1 each entry becomes a node independently (nodes[i] = parse(list[i])), S3 the node slice is only permuted or compacted before use, S2 the verdict (derived as a quantified formula from the loops and early exits of Satisfies/isCompatible) uses the allowed nodes only as the domain of one positive existential, S4 the caller's list is only read, W1 spacing cannot reach the parser (tokens carry no position). Together with purity of the pair matcher (C13) the verdict depends only on the set of nodes and is monotone in it. The in-place compaction may drop an element only when its canonical text equals that of a kept neighbour (S3: the copy is guarded by nothing but 'canonical texts differ'). The letter-case clause is decided by the canonicalisation chain K0–K3 (same rules as C09), run here because every allowed entry goes through parse. Residual, not decided: that equal canonical text implies equal node fields (trusted: reconstructedLicenseString renders all fields the matcher reads).",
		Run:     rulesC07,
		Trusted: []string{"go/ssa lowering", "sort.Slice permutes its argument"},
	})
}

// sharedEngineLite: an engine without a run (only effects/mod-sets are needed by the bounds prover here).
var liteEngines = map[*Prog]*Engine{}

func sharedEngineLite(p *Prog) *Engine {
	if e, ok := engineCache[p]; ok {
		return e
	}
	if e, ok := liteEngines[p]; ok {
		return e
	}
	e := NewEngine(p)
	e.fnVisits = map[*ssa.Function]int{}
	e.visits = map[ssa.Instruction]int{}
	liteEngines[p] = e
	return e
}
