package main

import (
	"fmt"
	"go/types"
	"sort"
	"strings"

	"golang.org/x/tools/go/ssa"
)

// rulePrinterVerbatim — the canonical text of a term is the concatenation of the node's fields and the
// grammar's keywords, and nothing is cut out of it afterwards.  The text is the term's identity wherever terms
// are collected (de-duplication of the extracted list, sort/compaction key of the allowed list) and is what
// ExtractLicenses hands back, so an edit of the assembled text — a suffix or prefix trimmed, a fragment
// replaced, the case mapped, a sub-string taken — makes two different terms print alike (one of them is then
// dropped as a duplicate) or prints a spelling that is not the term's.  Decided on the printer and the module
// functions that render its parts: none of them passes text through a string-rewriting function of package
// strings / bytes (anything returning a string or []string other than Join), nor takes a sub-string.  Trimming
// white space only is allowed: no field of a node contains white space (G10), so only separators the printer
// wrote itself can be removed.  Not decided: what the printed text is (E3/E4 decide its parts).
func rulePrinterVerbatim(p *Prog, r *Report, rule string) {
	r.Rule(rule, "necessary", 1, "the canonical text of a term is used as assembled: the printer and the helpers that render its parts do not trim, replace, case-map or slice the text (white-space trimming excepted)")
	pr := p.Func(p.ExpPkg, "(*node).reconstructedLicenseString")
	if pr == nil {
		r.Unknown(rule, "anchor", "-", "unresolved anchor: (*node).reconstructedLicenseString")
		return
	}
	r.Funcs[p.shortKey(pr)] = true
	fns := []*ssa.Function{pr}
	seen := map[*ssa.Function]bool{pr: true}
	for i := 0; i < len(fns) && i < 64; i++ {
		for _, b := range fns[i].Blocks {
			for _, in := range b.Instrs {
				c, ok := in.(*ssa.Call)
				if !ok {
					continue
				}
				callee := c.Call.StaticCallee()
				if callee == nil || !p.InModule(callee) || len(callee.Blocks) == 0 || seen[callee] {
					continue
				}
				res := callee.Signature.Results()
				rendersText := takesTextBuilder(callee)
				for j := 0; j < res.Len(); j++ {
					t := res.At(j).Type()
					if pt, ok := t.Underlying().(*types.Pointer); ok {
						t = pt.Elem()
					}
					if isStringType(t) {
						rendersText = true
					}
				}
				if rendersText {
					seen[callee] = true
					fns = append(fns, callee)
				}
			}
		}
	}
	whiteOnly := func(v ssa.Value) bool {
		s, ok := constString(v)
		return ok && strings.TrimSpace(s) == ""
	}
	var bad, names []string
	for _, f := range fns {
		names = append(names, f.Name())
		for _, b := range f.Blocks {
			for _, in := range b.Instrs {
				switch t := in.(type) {
				case *ssa.Slice:
					if isStringType(t.X.Type()) {
						if _, isConst := t.X.(*ssa.Const); !isConst {
							bad = append(bad, fmt.Sprintf("%s: %s takes a sub-string of the text", p.pos(t.Pos()), f.Name()))
						}
					}
				case *ssa.Call:
					callee := t.Call.StaticCallee()
					if callee == nil || callee.Pkg == nil || callee.Signature.Recv() != nil {
						continue
					}
					if pp := callee.Pkg.Pkg.Path(); pp != "strings" && pp != "bytes" {
						continue
					}
					res := callee.Signature.Results()
					if res.Len() == 0 {
						continue
					}
					rt := res.At(0).Type()
					if sl, ok := rt.Underlying().(*types.Slice); ok {
						rt = sl.Elem()
					}
					if !isStringType(rt) && !isByteSliceType(res.At(0).Type()) {
						continue
					}
					switch callee.Name() {
					case "Join", "Clone":
						continue
					case "TrimSpace":
						continue
					case "Trim", "TrimLeft", "TrimRight", "TrimSuffix", "TrimPrefix":
						if len(t.Call.Args) == 2 && whiteOnly(t.Call.Args[1]) {
							continue
						}
					case "Repeat":
						if len(t.Call.Args) == 2 && whiteOnly(t.Call.Args[0]) {
							continue
						}
					}
					allConst := len(t.Call.Args) > 0
					for _, a := range t.Call.Args {
						if _, ok := a.(*ssa.Const); !ok {
							allConst = false
						}
					}
					if allConst {
						continue
					}
					bad = append(bad, fmt.Sprintf("%s: %s passes text through %s.%s", p.pos(t.Pos()), f.Name(), callee.Pkg.Pkg.Name(), callee.Name()))
				}
			}
		}
	}
	sort.Strings(names)
	if len(bad) > 0 {
		r.Bad(rule, "printer|verbatim", p.pos(pr.Pos()), strings.Join(bad, "; ")+": distinct terms can print alike, or a term prints a spelling that is not its own")
	} else {
		r.OK(rule, "printer|verbatim", p.pos(pr.Pos()), "no rewriting of the assembled text", strings.Join(names, ","), true)
	}
}

func isByteSliceType(t types.Type) bool {
	sl, ok := t.Underlying().(*types.Slice)
	if !ok {
		return false
	}
	b, ok := sl.Elem().Underlying().(*types.Basic)
	return ok && b.Kind() == types.Uint8
}
