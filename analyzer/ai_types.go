package main

// Engine-1: abstract interpretation of the library's SSA over finite property domains
// (nil-ness, small constant sets, booleans, struct "shapes"), with trace partitioning inside a
// function, context-sensitive inlining of non-recursive in-module calls, and context-free
// summaries (shapes, entry states, outcome sets) at recursion boundaries and for heap-stored data.
// It never represents an input value: strings, lengths and list contents are "unknown".

import (
	"fmt"
	"go/constant"
	"go/types"
	"sort"
	"strings"

	"golang.org/x/tools/go/ssa"
)

type kind uint8

const (
	KBot kind = iota
	KTop
	KBool
	KNum // integer-like / string with an optional finite constant set or linear form sym+off
	KPtr
	KIface
	KSlice
	KMap
	KFunc
	KTuple
	KStruct
)

type tri uint8

const (
	triU tri = iota
	triT
	triF
)

func (t tri) String() string { return [...]string{"U", "T", "F"}[t] }

func triNot(t tri) tri {
	switch t {
	case triT:
		return triF
	case triF:
		return triT
	}
	return triU
}

type nilness uint8

const (
	nilBot nilness = iota
	isNil
	nonNil
	maybeNil
)

func (n nilness) String() string { return [...]string{"⊥", "nil", "non-nil", "maybe-nil"}[n] }

func joinNil(a, b nilness) nilness {
	if a == nilBot {
		return b
	}
	if b == nilBot {
		return a
	}
	if a == b {
		return a
	}
	return maybeNil
}

type SymID int
type ObjID int

type cellKey struct {
	Obj  ObjID
	Path string
}

// AV is an abstract value inside one environment.
type AV struct {
	K    kind
	B    tri
	Set  []string // KNum: sorted canonical constants (constant.ExactString); nil = unknown
	Base SymID    // KNum linear form Base+Off (Base==0: none)
	Off  int64
	Sym  SymID           // reference kinds: identity carrying nil-ness / shape facts (0 = none: Nil field is authoritative)
	Nil  nilness         // reference kinds without Sym
	Obj  ObjID           // KPtr: target object (0 = not materialised); KSlice/KMap: element cell object
	Path string          // KPtr: path inside Obj; KSlice/KMap: element cell path
	Tup  []AV            // KTuple
	Flds map[string]AV   // KStruct snapshot: path -> value
	Fn   *ssa.Function   // KFunc
	Fns  []*ssa.Function // KFunc: one of these (an element of a table of functions); Fn == nil
	Bind []AV
	Src  *cellKey // where a scalar was loaded from (for refinement), nil if none
	Expr string   // canonical pure expression over versioned strong cells this value was computed from ("" = none)
	In   *AV      // KIface: wrapped dynamic value (may be nil)
}

func top() AV         { return AV{K: KTop} }
func boolAV(t tri) AV { return AV{K: KBool, B: t} }
func numTop() AV      { return AV{K: KNum} }
func constAV(c constant.Value) AV {
	if c == nil {
		return AV{K: KTop}
	}
	if c.Kind() == constant.Bool {
		if constant.BoolVal(c) {
			return boolAV(triT)
		}
		return boolAV(triF)
	}
	return AV{K: KNum, Set: []string{c.ExactString()}}
}

func (a AV) single() (string, bool) {
	if a.K == KNum && len(a.Set) == 1 {
		return a.Set[0], true
	}
	return "", false
}

func (a AV) isRef() bool {
	switch a.K {
	case KPtr, KIface, KSlice, KMap, KFunc:
		return true
	}
	return false
}

// ---------------------------------------------------------------------------------------------
// CF — context-free abstract value: what survives across recursion boundaries and in shapes.

type CF struct {
	K      kind
	B      tri
	Set    []string
	Nil    nilness
	Shapes []int // KPtr to struct: indices into shape table of the pointee type; nil = any
	Elem   *CF   // slice / map element, pointer-to-non-struct pointee
	Tup    []CF
	Flds   map[string]CF // KStruct
}

func (c CF) String() string {
	switch c.K {
	case KBot:
		return "⊥"
	case KTop:
		return "⊤"
	case KBool:
		return "bool:" + c.B.String()
	case KNum:
		if c.Set == nil {
			return "num"
		}
		return "{" + strings.Join(c.Set, ",") + "}"
	case KPtr:
		s := "ptr:" + c.Nil.String()
		if c.Shapes != nil {
			s += fmt.Sprintf("%v", c.Shapes)
		}
		if c.Elem != nil {
			s += "→" + c.Elem.String()
		}
		return s
	case KIface:
		return "iface:" + c.Nil.String()
	case KSlice:
		s := "slice:" + c.Nil.String()
		if c.Elem != nil {
			s += "[" + c.Elem.String() + "]"
		}
		return s
	case KMap:
		return "map:" + c.Nil.String()
	case KFunc:
		return "func:" + c.Nil.String()
	case KTuple:
		var p []string
		for _, e := range c.Tup {
			p = append(p, e.String())
		}
		return "(" + strings.Join(p, ", ") + ")"
	case KStruct:
		var ks []string
		for k := range c.Flds {
			ks = append(ks, k)
		}
		sort.Strings(ks)
		var p []string
		for _, k := range ks {
			p = append(p, k+"="+c.Flds[k].String())
		}
		return "struct{" + strings.Join(p, " ") + "}"
	}
	return "?"
}

func joinSets(a, b []string) []string {
	if a == nil || b == nil {
		return nil
	}
	m := map[string]bool{}
	for _, x := range a {
		m[x] = true
	}
	for _, x := range b {
		m[x] = true
	}
	if len(m) > 6 {
		return nil
	}
	out := make([]string, 0, len(m))
	for x := range m {
		out = append(out, x)
	}
	sort.Strings(out)
	return out
}

func joinTri(a, b tri) tri {
	if a == b {
		return a
	}
	return triU
}

func joinInts(a, b []int) []int {
	if a == nil || b == nil {
		return nil
	}
	m := map[int]bool{}
	for _, x := range a {
		m[x] = true
	}
	for _, x := range b {
		m[x] = true
	}
	out := make([]int, 0, len(m))
	for x := range m {
		out = append(out, x)
	}
	sort.Ints(out)
	return out
}

func joinCF(a, b CF) CF {
	if a.K == KBot {
		return b
	}
	if b.K == KBot {
		return a
	}
	if a.K != b.K {
		return CF{K: KTop}
	}
	out := CF{K: a.K}
	switch a.K {
	case KBool:
		out.B = joinTri(a.B, b.B)
	case KNum:
		out.Set = joinSets(a.Set, b.Set)
	case KPtr, KIface, KSlice, KMap, KFunc:
		out.Nil = joinNil(a.Nil, b.Nil)
		out.Shapes = joinInts(a.Shapes, b.Shapes)
		// a nil pointer constrains nothing about shapes/elements
		if a.Nil == isNil {
			out.Shapes = b.Shapes
		} else if b.Nil == isNil {
			out.Shapes = a.Shapes
		}
		switch {
		case a.Elem != nil && b.Elem != nil:
			e := joinCF(*a.Elem, *b.Elem)
			out.Elem = &e
		case a.Elem != nil && (b.Nil == isNil || b.Elem == nil && b.K == KSlice && b.Nil == isNil):
			out.Elem = a.Elem
		case b.Elem != nil && a.Nil == isNil:
			out.Elem = b.Elem
		case a.Elem != nil && b.Elem == nil:
			// unknown element on one side: unknown
			out.Elem = nil
		}
	case KTuple:
		if len(a.Tup) != len(b.Tup) {
			return CF{K: KTop}
		}
		for i := range a.Tup {
			out.Tup = append(out.Tup, joinCF(a.Tup[i], b.Tup[i]))
		}
	case KStruct:
		out.Flds = map[string]CF{}
		for k, v := range a.Flds {
			if w, ok := b.Flds[k]; ok {
				out.Flds[k] = joinCF(v, w)
			}
		}
	}
	return out
}

func cfEqual(a, b CF) bool { return a.String() == b.String() }

// Shape is one published tuple of field values of a struct type.
type Shape struct {
	Type   *types.Named
	Fields map[string]CF // path (".f") -> value, scalars and references only
	key    string
}

func shapeKey(f map[string]CF) string {
	var ks []string
	for k := range f {
		ks = append(ks, k)
	}
	sort.Strings(ks)
	var b strings.Builder
	for _, k := range ks {
		b.WriteString(k)
		b.WriteByte('=')
		b.WriteString(f[k].String())
		b.WriteByte(';')
	}
	return b.String()
}
