package main

import (
	"fmt"
	"go/token"
	"regexp"
	"sort"
	"strconv"
	"strings"
)

// ---------------------------------------------------------------------------------------------
// id shape: prefix-version[-variant][-only|-or-later]

type idShape struct {
	ID      string
	Base    string // id without -only / -or-later
	Suffix  string // "", "-only", "-or-later"
	Prefix  string
	Version string
	Nums    []int
	Letter  string
	Variant string
	OK      bool
}

var idRe = regexp.MustCompile(`^(.*?)-(\d+(?:\.\d+)*)([a-z]?)(?:-(.*))?$`)

func shapeOf(id string) idShape {
	s := idShape{ID: id, Base: id}
	for _, suf := range []string{"-only", "-or-later"} {
		if strings.HasSuffix(s.Base, suf) {
			s.Base = strings.TrimSuffix(s.Base, suf)
			s.Suffix = suf
			break
		}
	}
	m := idRe.FindStringSubmatch(s.Base)
	if m == nil || m[1] == "" {
		return s
	}
	s.Prefix, s.Version, s.Letter, s.Variant = m[1], m[2]+m[3], m[3], m[4]
	for _, c := range strings.Split(m[2], ".") {
		n, err := strconv.Atoi(c)
		if err != nil {
			return s
		}
		s.Nums = append(s.Nums, n)
	}
	s.OK = true
	return s
}

func (s idShape) sig() string { return s.Prefix + "|" + s.Variant }

// cmpVersion: natural order — numeric components lexicographically (a proper prefix is smaller),
// then the letter suffix.
func cmpVersion(a, b idShape) int {
	for i := 0; i < len(a.Nums) && i < len(b.Nums); i++ {
		if a.Nums[i] != b.Nums[i] {
			if a.Nums[i] < b.Nums[i] {
				return -1
			}
			return 1
		}
	}
	if len(a.Nums) != len(b.Nums) {
		if len(a.Nums) < len(b.Nums) {
			return -1
		}
		return 1
	}
	return strings.Compare(a.Letter, b.Letter)
}

// ---------------------------------------------------------------------------------------------

type rangePos struct{ fam, grp, idx int }

func (t *Tables) listed() map[string]string {
	m := map[string]string{}
	for _, s := range t.Active {
		m[s] = "active"
	}
	for _, s := range t.Deprecated {
		if _, ok := m[s]; !ok {
			m[s] = "deprecated"
		}
	}
	return m
}

func (t *Tables) positions() map[string][]rangePos {
	m := map[string][]rangePos{}
	for i, f := range t.Ranges {
		for j, g := range f {
			for k, id := range g {
				m[id] = append(m[id], rangePos{i, j, k})
			}
		}
	}
	return m
}

// rulesRangeTable: T1–T4 over LicenseRanges() against GetLicenses() ∪ GetDeprecated().
func rulesRangeTable(p *Prog, r *Report, t *Tables) {
	r.Rule("T1", "necessary", 100, "every range-table entry is an id on the active or deprecated list, in list spelling (getLicenseRange compares with ==, lookups return list spelling)")
	r.Rule("T2", "necessary", 100, "every range-table entry sits at exactly one (family, version group) position (getLicenseRange returns the first match, a second position is unreachable)")
	r.Rule("T3", "necessary", 30, "family shape: one common prefix per family, one version per group (its -only twin allowed), groups strictly ascending in the natural order of version numbers")
	r.Rule("T4", "necessary", 30, "family completeness: every listed id whose (prefix, variant) signature is covered by some family is in the table in such a family, -only twins in the group of their base")

	listed := t.listed()
	pos := t.positions()
	fold := map[string]string{}
	for id := range listed {
		fold[strings.ToLower(id)] = id
	}

	nEntries := 0
	for i, f := range t.Ranges {
		for j, g := range f {
			for k, id := range g {
				nEntries++
				where := p.pos(t.RangePos[i][j][k])
				key := id
				if _, ok := listed[id]; ok {
					r.OK("T1", key, where, "listed", listed[id], false)
				} else if c, ok := fold[strings.ToLower(id)]; ok {
					r.Bad("T1", key, where, fmt.Sprintf("range entry %q differs in letter case from the listed id %q; the table is compared with ==", id, c))
				} else {
					r.Bad("T1", key, where, fmt.Sprintf("range entry %q at (%d,%d,%d) is on neither the active nor the deprecated list", id, i, j, k))
				}
			}
		}
	}
	// T2: one obligation per distinct id
	var ids []string
	for id := range pos {
		ids = append(ids, id)
	}
	sort.Strings(ids)
	for _, id := range ids {
		ps := pos[id]
		where := p.pos(t.RangePos[ps[0].fam][ps[0].grp][ps[0].idx])
		// two positions in the same group are a harmless repeat only if identical group; still flagged
		if len(ps) == 1 {
			r.OK("T2", id, where, "unique", "", false)
		} else {
			var d []string
			for _, q := range ps {
				d = append(d, fmt.Sprintf("(%d,%d,%d)", q.fam, q.grp, q.idx))
			}
			r.Bad("T2", id, where, fmt.Sprintf("%q appears at %d positions %s; lookups return the first, so the later family/group is unreachable through this id", id, len(ps), strings.Join(d, " ")))
		}
	}

	// T3 per family
	covered := map[string][]int{} // signature -> families
	for i, f := range t.Ranges {
		famKey := fmt.Sprintf("family[%s]", firstID(f))
		where := "-"
		if len(f) > 0 && len(f[0]) > 0 {
			where = p.pos(t.RangePos[i][0][0])
		}
		var problems []string
		prefix := ""
		var prev *idShape
		for j, g := range f {
			var ver *idShape
			for _, id := range g {
				s := shapeOf(id)
				if !s.OK {
					problems = append(problems, fmt.Sprintf("entry %q does not have the shape prefix-version[-variant]", id))
					continue
				}
				if prefix == "" {
					prefix = s.Prefix
				} else if s.Prefix != prefix {
					problems = append(problems, fmt.Sprintf("entry %q has prefix %q, family prefix is %q", id, s.Prefix, prefix))
				}
				if !contains(covered[s.sig()], i) {
					covered[s.sig()] = append(covered[s.sig()], i)
				}
				if s.Suffix == "-or-later" {
					continue // unreachable through simplifyLicense; position irrelevant
				}
				if ver == nil {
					c := s
					ver = &c
				} else if cmpVersion(*ver, s) != 0 {
					problems = append(problems, fmt.Sprintf("group %d holds two versions: %q and %q", j, ver.ID, id))
				}
			}
			if ver == nil {
				if len(g) == 0 {
					problems = append(problems, fmt.Sprintf("group %d is empty", j))
				}
				continue
			}
			if prev != nil && cmpVersion(*prev, *ver) >= 0 {
				problems = append(problems, fmt.Sprintf("group %d (%s) is not later than group before it (%s)", j, ver.ID, prev.ID))
			}
			prev = ver
		}
		if len(f) == 0 {
			problems = append(problems, "empty family")
		}
		if len(problems) == 0 {
			r.OK("T3", famKey, where, "shape+order", fmt.Sprintf("%d groups ascending, prefix %q", len(f), prefix), true)
		} else {
			r.Bad("T3", famKey, where, strings.Join(problems, "; "))
		}
	}

	// T4 completeness, one obligation per covered listed id
	var all []string
	for id := range listed {
		all = append(all, id)
	}
	sort.Strings(all)
	uncovered := map[string][]string{}
	for _, id := range all {
		s := shapeOf(id)
		if !s.OK {
			continue
		}
		fams, cov := covered[s.sig()]
		if !cov {
			if s.Suffix == "" {
				uncovered[s.sig()] = append(uncovered[s.sig()], id)
			}
			continue
		}
		probe := id
		if s.Suffix == "-or-later" {
			// reached through simplifyLicense: the base must be locatable
			probe = s.Base
			if _, ok := listed[probe]; !ok {
				r.Note("T4: %q is listed but its base %q is not; '+' arithmetic for it is undefined (outside the property)", id, probe)
				continue
			}
		}
		ps := pos[probe]
		if len(ps) == 0 {
			r.Bad("T4", id, "-", fmt.Sprintf("listed id %q has signature (%s, %q) covered by family %v but %q is not in the range table: it matches no other version of its family", id, s.Prefix, s.Variant, famNames(t, fams), probe))
			continue
		}
		okFam := false
		for _, q := range ps {
			if contains(fams, q.fam) {
				okFam = true
			}
		}
		if !okFam {
			r.Bad("T4", id, "-", fmt.Sprintf("listed id %q is in the table but not in a family covering its signature", id))
			continue
		}
		if s.Suffix == "-only" {
			if bp, ok := pos[s.Base]; ok {
				if bp[0].fam != ps[0].fam || bp[0].grp != ps[0].grp {
					r.Bad("T4", id, "-", fmt.Sprintf("%q is not in the version group of its base %q", id, s.Base))
					continue
				}
			}
		}
		r.OK("T4", id, "-", "present", fmt.Sprintf("family %d group %d", ps[0].fam, ps[0].grp), false)
	}
	var unc []string
	for sig, ids := range uncovered {
		if len(ids) > 1 {
			unc = append(unc, fmt.Sprintf("%s:%v", sig, ids))
		}
	}
	sort.Strings(unc)
	r.Extra["range_table"] = map[string]any{"families": len(t.Ranges), "entries": nEntries, "distinct_ids": len(pos),
		"listed_ids": len(listed), "versioned_families_not_covered_by_table(info)": unc}
}

func firstID(f [][]string) string {
	for _, g := range f {
		for _, id := range g {
			return id
		}
	}
	return "?"
}

func famNames(t *Tables, fams []int) []string {
	var out []string
	for _, i := range fams {
		out = append(out, firstID(t.Ranges[i])+"…")
	}
	return out
}

func contains(xs []int, x int) bool {
	for _, y := range xs {
		if x == y {
			return true
		}
	}
	return false
}

// ---------------------------------------------------------------------------------------------
// K0 / L4: fold-uniqueness, disjointness, keyword prefixes

type listedID struct {
	ID   string
	List string
	Pos  token.Pos
}

func (t *Tables) allIDs() []listedID {
	var out []listedID
	for i, s := range t.Active {
		out = append(out, listedID{s, "active", t.ActivePos[i]})
	}
	for i, s := range t.Deprecated {
		out = append(out, listedID{s, "deprecated", t.DepPos[i]})
	}
	for i, s := range t.Exceptions {
		out = append(out, listedID{s, "exception", t.ExcPos[i]})
	}
	return out
}

// ruleFoldUnique: rule id is K0a or L4 depending on the property; same computation.
func ruleFoldUnique(p *Prog, r *Report, t *Tables, rule string) {
	r.Rule(rule, "necessary", 500, "no two ids of active ∪ deprecated ∪ exceptions are equal under the case folding strings.EqualFold implements (first-match lookup would shadow one of them); the three lists are pairwise disjoint and free of repeats")
	seen := map[string]listedID{}
	for _, e := range t.allIDs() {
		k := foldKey(e.ID)
		if o, dup := seen[k]; dup {
			what := "equal up to letter case"
			if o.ID == e.ID {
				what = "identical"
			}
			r.Bad(rule, e.List+":"+e.ID, p.pos(e.Pos), fmt.Sprintf("%s id %q and %s id %q are %s", e.List, e.ID, o.List, o.ID, what))
			continue
		}
		seen[k] = e
		r.OK(rule, e.List+":"+e.ID, p.pos(e.Pos), "fold-unique", "", false)
	}
}

// foldKey: a canonical representative of the strings.EqualFold class, computed with the same
// simple-folding orbit the stdlib uses.
func foldKey(s string) string {
	var b strings.Builder
	for _, c := range s {
		b.WriteRune(minFold(c))
	}
	return b.String()
}

// ruleKeywordPrefix: K0b — no listed id has a case variant that begins with a scanner keyword.
func ruleKeywordPrefix(p *Prog, r *Report, t *Tables, keywords []string, rule string) {
	r.Rule(rule, "necessary", 500, "no listed id has a case variant that starts with a keyword the scanner tries (case-sensitively) before ids; otherwise re-casing the id changes tokenisation")
	for _, e := range t.allIDs() {
		bad := ""
		for _, k := range keywords {
			if len(e.ID) >= len(k) && strings.EqualFold(e.ID[:len(k)], k) {
				bad = k
				break
			}
		}
		if bad != "" {
			r.Bad(rule, e.List+":"+e.ID, p.pos(e.Pos), fmt.Sprintf("%s id %q: the case variant %q begins with scanner keyword %q, which is matched before ids", e.List, e.ID, bad+e.ID[len(bad):], bad))
		} else {
			r.OK(rule, e.List+":"+e.ID, p.pos(e.Pos), "no keyword prefix", "", false)
		}
	}
}

// ruleIDClassCaseClosed: every listed id, re-cased in any way, is still read whole by the id reader: the
// id pattern admits each of its bytes in both letter cases (checked on the all-upper and all-lower
// variants, which together contain every byte any re-casing can produce; the pattern is a byte class run).
func ruleIDClassCaseClosed(p *Prog, r *Report, t *Tables, idPattern string, rule string) {
	r.Rule(rule, "necessary", 500, "the id reader admits every listed id in every letter case (its pattern accepts the all-upper and all-lower variants whole); otherwise re-casing a listed id changes validity")
	if idPattern == "" {
		r.Unknown(rule, "id-pattern", "-", "unresolved anchor: the id reader's pattern / byte class")
		return
	}
	re, err := regexp.Compile(`^(?:` + idPattern + `)$`)
	if err != nil {
		r.Unknown(rule, "id-pattern", "-", fmt.Sprintf("id pattern %q does not compile: %v", idPattern, err))
		return
	}
	for _, e := range t.allIDs() {
		bad := ""
		// a trailing '+' is not part of the id the scanner reads: it is the operator that follows it
		id := strings.TrimSuffix(e.ID, "+")
		for _, v := range []string{strings.ToUpper(id), strings.ToLower(id), id} {
			if !re.MatchString(v) {
				bad = v
				break
			}
		}
		if bad != "" {
			r.Bad(rule, e.List+":"+e.ID, p.pos(e.Pos), fmt.Sprintf("%s id %q: the variant %q is not read whole by the id reader (pattern %s)", e.List, e.ID, bad, idPattern))
		} else {
			r.OK(rule, e.List+":"+e.ID, p.pos(e.Pos), "admitted in both cases", "", false)
		}
	}
}
