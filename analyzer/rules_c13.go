package main

import (
	"fmt"
	"go/constant"
	"go/token"
	"go/types"
	"regexp"
	"strings"

	"golang.org/x/tools/go/packages"
	"golang.org/x/tools/go/ssa"
)

func init() {
	register("C13", &propDef{
		Level:   "proof",
		Explain: "Sound effect analysis over every function reachable from the exported API (call graph: static callees + VTA, closures included), for all inputs, call orders and schedules: P1 no package-level mutable state (every global access classified), P2 caller-owned argument memory is only read (taint from reference-typed API parameters through slicing, phis, in-module calls, stores; sinks = stores/append/copy/mutating stdlib), P3 no output and only classified-pure stdlib callees, P4 no source of nondeterminism (map iteration, select, channels, goroutines, clock, randomness, pointer formatting), P5 no write reaches shared memory (follows from P1-P3, one obligation per store), P6 exported results are fresh or immutable on every path. obligations == discharged is required.",
		Run:     rulesC13,
		Trusted: []string{"go/ssa lowering and call-graph soundness in the absence of reflect/unsafe/cgo (their absence is itself checked)", "the stdlib classification table in effects.go (pure / mutates-arg / forbidden; unknown callees are undecided)", "stdlib types used (regexp.Regexp, errors.errorString) are immutable or documented concurrency-safe", "the Go memory model"},
	})
}

func libPkgs(p *Prog) []*packages.Package { return []*packages.Package{p.ExpPkg, p.LicPkg} }

func rulesC13(p *Prog, r *Report) {
	r.Rule("P0", "sufficient", 2, "the library packages do not import reflect, unsafe, C or runtime-introspection packages (call-graph soundness)")
	r.Rule("P1", "sufficient", 20, "no package-level mutable state: per reachable function, no store to a package-level variable outside package initialisation, and every read of one is of a variable that is never written after initialisation and through which nothing is written")
	r.Rule("P2", "sufficient", 2, "arguments are only read: no store, append, copy or mutating stdlib call reaches memory owned by the caller")
	r.Rule("P3", "sufficient", 20, "no output, no unclassified callee: every out-of-module callee of a reachable function is in the pure / mutates-own-argument table; print/println are absent; dynamic calls resolve to analysed functions")
	r.Rule("P4", "sufficient", 20, "determinism: no map iteration, select, channel operation, goroutine, or pointer-valued format verb in a reachable function")
	r.Rule("P5", "sufficient", 20, "every store in a reachable function goes to memory allocated during the call (address not derived from a global or from caller-owned memory)")
	fmtWrappers := formatWrappers(p)
	r.Rule("P6", "sufficient", 4, "every exported function's reference-typed result is freshly allocated or immutable on every path")

	// P0 imports
	for _, pk := range libPkgs(p) {
		bad := []string{}
		for path := range pk.Imports {
			switch path {
			case "reflect", "unsafe", "C", "runtime", "runtime/debug", "plugin":
				bad = append(bad, path)
			}
		}
		if len(bad) > 0 {
			r.Bad("P0", "imports:"+pk.Name, "-", fmt.Sprintf("package %s imports %v", pk.PkgPath, bad))
		} else {
			r.OK("P0", "imports:"+pk.Name, "-", "none of reflect/unsafe/C/runtime", "", false)
		}
	}

	// analysed set: R plus package initialisers (for P1 classification of writes)
	onceWritten := map[*ssa.Global]bool{}
	globalsWrittenOutsideInit := map[*ssa.Global][]ssa.Instruction{}
	globalsElemWritten := map[*ssa.Global][]ssa.Instruction{}
	var allFuncs []*ssa.Function
	for _, pk := range libPkgs(p) {
		allFuncs = append(allFuncs, p.AllModuleFuncsOfSSAPkg(p.SSAPkg[pk.PkgPath])...)
	}
	isInit := func(f *ssa.Function) bool {
		for f.Parent() != nil {
			f = f.Parent()
		}
		return f.Name() == "init" || strings.HasPrefix(f.Name(), "init#")
	}
	inLib := func(g *ssa.Global) bool {
		return g.Pkg == p.SSAPkg[p.ExpPkg.PkgPath] || g.Pkg == p.SSAPkg[p.LicPkg.PkgPath]
	}
	// module-wide scan of writes to library globals (any function, reachable or not: a write anywhere
	// makes the variable mutable state)
	for _, f := range allFuncs {
		for _, b := range f.Blocks {
			for _, in := range b.Instrs {
				for _, op := range in.Operands(nil) {
					g, ok := (*op).(*ssa.Global)
					if !ok || !inLib(g) || strings.HasPrefix(g.Name(), "init$") {
						continue
					}
					if st, ok := in.(*ssa.Store); ok && st.Addr == g {
						if !isInit(f) && !inOnceClosure(f) {
							globalsWrittenOutsideInit[g] = append(globalsWrittenOutsideInit[g], in)
						} else if inOnceClosure(f) {
							onceWritten[g] = true
						}
						continue
					}
					// a package-level sync.Once used as the receiver of Do is the publication guard itself
					if isOnceType(g.Type().Underlying().(*types.Pointer).Elem()) {
						continue
					}
					if ld, ok := in.(*ssa.UnOp); ok && ld.Op == token.MUL {
						// writes through the loaded reference
						for _, w := range writesThrough(ld, 0) {
							globalsElemWritten[g] = append(globalsElemWritten[g], w)
						}
						continue
					}
					// address of the global taken (FieldAddr/IndexAddr on it, passed to call, …)
					if isInit(f) {
						continue
					}
					switch in := in.(type) {
					case *ssa.FieldAddr, *ssa.IndexAddr:
						for _, w := range writesThrough(in.(ssa.Value), 0) {
							globalsWrittenOutsideInit[g] = append(globalsWrittenOutsideInit[g], w)
						}
					default:
						globalsWrittenOutsideInit[g] = append(globalsWrittenOutsideInit[g], in)
					}
				}
			}
		}
	}

	taint := p.TaintArgs()
	sinksByFn := map[*ssa.Function][]taintSink{}
	for _, s := range taint.Sinks {
		sinksByFn[s.Fn] = append(sinksByFn[s.Fn], s)
	}
	r.Extra["tainted_roots"] = taint.Roots
	r.Extra["tainted_values_visited"] = taint.Visited

	nGlobals := 0
	for _, pk := range libPkgs(p) {
		for _, m := range p.SSAPkg[pk.PkgPath].Members {
			if g, ok := m.(*ssa.Global); ok && !strings.HasPrefix(g.Name(), "init$") {
				nGlobals++
			}
		}
	}
	r.Extra["package_level_variables"] = nGlobals

	for _, f := range p.RList {
		key := p.shortKey(f)
		r.Funcs[key] = true
		pos := p.pos(f.Pos())

		// ---- P1
		var p1 []string
		for _, b := range f.Blocks {
			for _, in := range b.Instrs {
				for _, op := range in.Operands(nil) {
					g, ok := (*op).(*ssa.Global)
					if !ok || strings.HasPrefix(g.Name(), "init$") {
						continue
					}
					if !p.InModule2(g) {
						// out-of-module global (e.g. os.Stdout, unicode tables)
						if !stdGlobalImmutable(g) {
							p1 = append(p1, fmt.Sprintf("%s: uses package-level variable %s.%s of another package", p.pos(in.Pos()), g.Pkg.Pkg.Path(), g.Name()))
						}
						continue
					}
					if st, ok := in.(*ssa.Store); ok && st.Addr == g {
						if inOnceClosure(f) {
							continue // published exactly once under sync.Once; readers are checked for a dominating Do
						}
						p1 = append(p1, fmt.Sprintf("%s: writes package-level variable %s (state that survives the call: history dependence and a data race under concurrent calls)", p.pos(in.Pos()), g.Name()))
						continue
					}
					if isOnceType(g.Type().Underlying().(*types.Pointer).Elem()) {
						continue
					}
					if onceWritten[g] && !inOnceClosure(f) {
						if !dominatedByOnceDo(f, in) {
							p1 = append(p1, fmt.Sprintf("%s: reads %s, which is published by a sync.Once, without a dominating Do call", p.pos(in.Pos()), g.Name()))
						}
						// published once, then immutable: fall through to the shared-reference checks
					}
					if w := globalsWrittenOutsideInit[g]; len(w) > 0 {
						p1 = append(p1, fmt.Sprintf("%s: reads package-level variable %s, which is written outside initialisation at %s", p.pos(in.Pos()), g.Name(), p.pos(w[0].Pos())))
						continue
					}
					if w := globalsElemWritten[g]; len(w) > 0 && refType(g.Type().Underlying().(*types.Pointer).Elem()) {
						p1 = append(p1, fmt.Sprintf("%s: reads package-level variable %s, whose referent is written at %s", p.pos(in.Pos()), g.Name(), p.pos(w[0].Pos())))
						continue
					}
					// read of an init-only global: its referent must not be handed to a mutator or unknown callee
					if ld, ok := in.(*ssa.UnOp); ok && ld.Op == token.MUL {
						if msg := sharedRefMisuse(p, ld, 0); msg != "" {
							p1 = append(p1, fmt.Sprintf("%s: %s %s", p.pos(in.Pos()), g.Name(), msg))
						}
					}
				}
			}
		}
		if len(p1) > 0 {
			r.Bad("P1", key, pos, strings.Join(p1, "; "))
		} else {
			r.OK("P1", key, pos, "no global access or init-only immutable", "", false)
		}

		// ---- P2 (per function with sinks; plus one obligation per tainted root below)
		// ---- P3 / P4 / P5
		var p3, p3u, p4, p5 []string
		for _, b := range f.Blocks {
			for _, in := range b.Instrs {
				switch in := in.(type) {
				case *ssa.Go:
					p4 = append(p4, fmt.Sprintf("%s: go statement", p.pos(in.Pos())))
				case *ssa.Select:
					p4 = append(p4, fmt.Sprintf("%s: select", p.pos(in.Pos())))
				case *ssa.Send:
					p4 = append(p4, fmt.Sprintf("%s: channel send", p.pos(in.Pos())))
				case *ssa.MakeChan:
					p4 = append(p4, fmt.Sprintf("%s: channel creation", p.pos(in.Pos())))
				case *ssa.UnOp:
					if in.Op == token.ARROW {
						p4 = append(p4, fmt.Sprintf("%s: channel receive", p.pos(in.Pos())))
					}
				case *ssa.Range:
					if _, ok := in.X.Type().Underlying().(*types.Map); ok {
						p4 = append(p4, fmt.Sprintf("%s: iteration over a map (order differs from call to call)", p.pos(in.Pos())))
					}
				case *ssa.Store:
					if _, isG := in.Addr.(*ssa.Global); isG && inOnceClosure(f) {
						break // single publication under sync.Once (readers are checked by P1)
					}
					if msg := storeTarget(p, in, taint); msg != "" {
						p5 = append(p5, fmt.Sprintf("%s: %s", p.pos(in.Pos()), msg))
					}
				case *ssa.Panic:
					// panics are C03's business
				}
				ci, ok := in.(ssa.CallInstruction)
				if !ok {
					continue
				}
				com := ci.Common()
				if bi, ok := com.Value.(*ssa.Builtin); ok {
					if bi.Name() == "print" || bi.Name() == "println" {
						p3 = append(p3, fmt.Sprintf("%s: builtin %s writes to standard error", p.pos(in.Pos()), bi.Name()))
					}
					continue
				}
				if _, ok := in.(*ssa.Defer); ok {
					// deferred calls are ordinary calls for effect purposes
				}
				callee := com.StaticCallee()
				if callee == nil {
					// dynamic: resolve through the call graph
					targets := p.dynamicTargets(f, ci)
					if len(targets) == 0 {
						p3u = append(p3u, fmt.Sprintf("%s: dynamic call with no resolved target", p.pos(in.Pos())))
					}
					for _, t := range targets {
						if p.InModule(t) {
							continue
						}
						if si := classifyStd(t); si.Class != stdPure {
							p3u = append(p3u, fmt.Sprintf("%s: dynamic call may reach %s", p.pos(in.Pos()), t))
						}
					}
					continue
				}
				if p.InModule(callee) {
					// a printf-style wrapper: the format must be a constant here, and is judged here
					if w := fmtWrappers[callee]; w != nil && w.argsIdx < len(com.Args) {
						if msg := formatVerbsAt(com.Args[w.fmtIdx], com, w.argsIdx); msg != "" {
							p4 = append(p4, fmt.Sprintf("%s: %s", p.pos(in.Pos()), msg))
						}
					}
					continue
				}
				si := classifyStd(callee)
				switch si.Class {
				case stdPure, stdMutatesArg:
					if si.Nondet {
						p4 = append(p4, fmt.Sprintf("%s: %s is not a function of its arguments", p.pos(in.Pos()), callee))
					}
					if w := fmtWrappers[f]; w != nil && len(com.Args) > 0 && com.Args[0] == ssa.Value(f.Params[w.fmtIdx]) && (callee.String() == "fmt.Sprintf" || callee.String() == "fmt.Errorf") {
						// the wrapper forwarding its own format: judged at the wrapper's call sites
					} else if msg := formatVerbs(callee, com); msg != "" {
						p4 = append(p4, fmt.Sprintf("%s: %s", p.pos(in.Pos()), msg))
					}
				case stdForbidden:
					p3 = append(p3, fmt.Sprintf("%s: call to %s (output, I/O, clock, randomness, environment or process state)", p.pos(in.Pos()), callee))
				default:
					p3u = append(p3u, fmt.Sprintf("%s: call to %s, which is not in the classification table", p.pos(in.Pos()), callee))
				}
			}
		}
		switch {
		case len(p3) > 0:
			r.Bad("P3", key, pos, strings.Join(p3, "; "))
		case len(p3u) > 0:
			r.Unknown("P3", key, pos, "kind=undecided: "+strings.Join(p3u, "; "))
		default:
			r.OK("P3", key, pos, "all callees in-module or classified pure", "", false)
		}
		if len(p4) > 0 {
			r.Bad("P4", key, pos, strings.Join(p4, "; "))
		} else {
			r.OK("P4", key, pos, "no nondeterministic construct", "", false)
		}
		if len(p5) > 0 {
			r.Bad("P5", key, pos, strings.Join(p5, "; "))
		} else {
			r.OK("P5", key, pos, "stores go to call-local memory", "", false)
		}
	}

	// P2: one obligation per tainted API parameter
	for _, root := range taint.Roots {
		var msgs []string
		undec := true
		for _, s := range taint.Sinks {
			if s.Source == root {
				msgs = append(msgs, fmt.Sprintf("%s (%s): %s", p.pos(s.Pos), p.shortKey(s.Fn), s.What))
				if !s.Undec {
					undec = false
				}
			}
		}
		if len(msgs) == 0 {
			r.OK("P2", root, "-", "taint reaches no sink", fmt.Sprintf("%d values derived from API reference parameters followed", taint.Visited), true)
		} else if undec {
			r.Unknown("P2", root, "-", "kind=undecided: "+strings.Join(msgs, "; "))
		} else {
			r.Bad("P2", root, "-", strings.Join(msgs, "; "))
		}
	}

	// P6
	fr := &freshness{p: p, memo: map[ssa.Value]string{}, taint: taint}
	for _, root := range p.Roots {
		res := root.Signature.Results()
		for i := 0; i < res.Len(); i++ {
			if !refType(res.At(i).Type()) {
				continue
			}
			key := fmt.Sprintf("%s#result%d", p.shortKey(root), i)
			var msgs []string
			n := 0
			for _, b := range root.Blocks {
				for _, in := range b.Instrs {
					if ret, ok := in.(*ssa.Return); ok {
						n++
						if why := fr.notFresh(ret.Results[i], map[ssa.Value]bool{}); why != "" {
							msgs = append(msgs, fmt.Sprintf("%s: %s", p.pos(ret.Pos()), why))
						}
					}
				}
			}
			if len(msgs) > 0 {
				r.Bad("P6", key, p.pos(root.Pos()), strings.Join(msgs, "; "))
			} else {
				r.OK("P6", key, p.pos(root.Pos()), "fresh on every return", fmt.Sprintf("%d returns", n), true)
			}
		}
	}
}

// InModule2 reports whether a global belongs to the main module.
func (p *Prog) InModule2(g *ssa.Global) bool {
	if g.Pkg == nil {
		return false
	}
	path := g.Pkg.Pkg.Path()
	return path == p.ModPath || strings.HasPrefix(path, p.ModPath+"/")
}

func stdGlobalImmutable(g *ssa.Global) bool {
	// the library uses none today; unicode range tables are the typical harmless case
	return g.Pkg != nil && (g.Pkg.Pkg.Path() == "unicode" || g.Pkg.Pkg.Path() == "unicode/utf8")
}

// writesThrough returns the instructions that write memory reachable by address arithmetic from v.
func writesThrough(v ssa.Value, d int) []ssa.Instruction {
	if d > 8 || v.Referrers() == nil {
		return nil
	}
	var out []ssa.Instruction
	for _, in := range *v.Referrers() {
		switch in := in.(type) {
		case *ssa.Store:
			if in.Addr == v {
				out = append(out, in)
			}
		case *ssa.MapUpdate:
			if in.Map == v {
				out = append(out, in)
			}
		case *ssa.IndexAddr, *ssa.FieldAddr, *ssa.Slice, *ssa.Phi:
			out = append(out, writesThrough(in.(ssa.Value), d+1)...)
		case *ssa.UnOp:
			if in.Op == token.MUL && refType(in.Type()) {
				out = append(out, writesThrough(in, d+1)...)
			}
		case ssa.CallInstruction:
			com := in.Common()
			if b, ok := com.Value.(*ssa.Builtin); ok {
				if (b.Name() == "append" || b.Name() == "copy" || b.Name() == "clear" || b.Name() == "delete") && com.Args[0] == v {
					out = append(out, in)
				}
			} else if c := com.StaticCallee(); c != nil {
				si := classifyStd(c)
				if si.Class == stdMutatesArg && si.MutArg < len(com.Args) && com.Args[si.MutArg] == v {
					out = append(out, in)
				}
			}
		}
	}
	return out
}

// sharedRefMisuse: a reference loaded from an init-only global must only be read: passed to pure
// callees, indexed, ranged; not returned from the API, not handed to mutators or unknown code.
func sharedRefMisuse(p *Prog, v ssa.Value, d int) string {
	if d > 8 || !refType(v.Type()) || v.Referrers() == nil {
		return ""
	}
	for _, in := range *v.Referrers() {
		switch in := in.(type) {
		case *ssa.Return:
			for _, root := range p.Roots {
				if in.Parent() == root {
					return "is handed out by an exported function (callers could modify shared storage)"
				}
			}
		case *ssa.IndexAddr, *ssa.FieldAddr, *ssa.Slice, *ssa.Phi:
			if m := sharedRefMisuse(p, in.(ssa.Value), d+1); m != "" {
				return m
			}
		case *ssa.UnOp:
			if in.Op == token.MUL {
				if m := sharedRefMisuse(p, in, d+1); m != "" {
					return m
				}
			}
		case ssa.CallInstruction:
			com := in.Common()
			if _, ok := com.Value.(*ssa.Builtin); ok {
				continue
			}
			c := com.StaticCallee()
			if c == nil {
				return "is passed to a dynamic call"
			}
			if p.InModule(c) {
				continue // parameters of in-module functions: writes through them are found by writesThrough at module level only for direct use; accepted for init-only immutable types
			}
			if si := classifyStd(c); si.Class != stdPure {
				return fmt.Sprintf("is passed to %s", c)
			}
		}
	}
	return ""
}

// storeTarget classifies the address of a store: "" when it is call-local.
func storeTarget(p *Prog, st *ssa.Store, taint *taintResult) string {
	seen := map[ssa.Value]bool{}
	var base func(v ssa.Value) string
	base = func(v ssa.Value) string {
		if seen[v] {
			return ""
		}
		seen[v] = true
		switch v := v.(type) {
		case *ssa.Global:
			if strings.HasPrefix(v.Name(), "init$") {
				return ""
			}
			return "store to package-level variable " + v.Name()
		case *ssa.FieldAddr:
			return base(v.X)
		case *ssa.IndexAddr:
			return base(v.X)
		case *ssa.Slice:
			return base(v.X)
		case *ssa.Phi:
			for _, e := range v.Edges {
				if m := base(e); m != "" {
					return m
				}
			}
		case *ssa.UnOp:
			if v.Op == token.MUL {
				// pointer loaded from memory: shared only if that memory is a global
				if g, ok := v.X.(*ssa.Global); ok {
					return "store through a reference held in package-level variable " + g.Name()
				}
			}
		}
		return ""
	}
	return base(st.Addr)
}

func (p *Prog) dynamicTargets(f *ssa.Function, ci ssa.CallInstruction) []*ssa.Function {
	var out []*ssa.Function
	if n := p.CG.Nodes[f]; n != nil {
		for _, e := range n.Out {
			if e.Site == ci {
				t := e.Callee.Func
				// a thunk / bound-method wrapper stands for the in-module method it forwards to
				if t != nil && t.Synthetic != "" && !p.InModule(t) && p.inModuleLoose(t) {
					var inner *ssa.Function
					n := 0
					for _, b := range t.Blocks {
						for _, in := range b.Instrs {
							if wci, ok := in.(ssa.CallInstruction); ok {
								if c := wci.Common().StaticCallee(); c != nil {
									inner = c
									n++
								}
							}
						}
					}
					if n == 1 && inner != nil && p.InModule(inner) {
						t = inner
					}
				}
				out = append(out, t)
			}
		}
	}
	return out
}

var verbRe = regexp.MustCompile(`%[-+# 0-9.*\[\]]*([a-zA-Z%])`)

// formatVerbs flags %p and any verb applied to a pointer/map/chan/func operand in a constant format.
func formatVerbs(callee *ssa.Function, com *ssa.CallCommon) string {
	name := callee.String()
	if name != "fmt.Sprintf" && name != "fmt.Errorf" {
		if name == "fmt.Sprint" || name == "fmt.Sprintln" {
			return variadicPointerArg(com, 0)
		}
		return ""
	}
	return formatVerbsAt(com.Args[0], com, 1)
}

// formatVerbsAt: the format operand must be a constant without %p, and no pointer may be printed through
// the variadic operand at index argsIdx.
func formatVerbsAt(format ssa.Value, com *ssa.CallCommon, argsIdx int) string {
	c, ok := format.(*ssa.Const)
	if !ok || c.Value == nil || c.Value.Kind() != constant.String {
		return "format string is not a constant"
	}
	for _, m := range verbRe.FindAllStringSubmatch(constant.StringVal(c.Value), -1) {
		if m[1] == "p" {
			return "format verb %p prints an address"
		}
	}
	return variadicPointerArg(com, argsIdx)
}

func variadicPointerArg(com *ssa.CallCommon, idx int) string {
	if idx >= len(com.Args) {
		return ""
	}
	sl, ok := com.Args[idx].(*ssa.Slice)
	if !ok {
		return ""
	}
	al, ok := sl.X.(*ssa.Alloc)
	if !ok {
		return ""
	}
	for _, r := range *al.Referrers() {
		ia, ok := r.(*ssa.IndexAddr)
		if !ok {
			continue
		}
		for _, rr := range *ia.Referrers() {
			st, ok := rr.(*ssa.Store)
			if !ok {
				continue
			}
			if mi, ok := st.Val.(*ssa.MakeInterface); ok {
				switch mi.X.Type().Underlying().(type) {
				case *types.Pointer, *types.Map, *types.Chan, *types.Signature:
					if !implementsErrorOrStringer(mi.X.Type()) {
						return fmt.Sprintf("a %s operand is formatted (prints an address)", mi.X.Type())
					}
				}
			}
		}
	}
	return ""
}

func implementsErrorOrStringer(t types.Type) bool {
	ms := types.NewMethodSet(t)
	for i := 0; i < ms.Len(); i++ {
		n := ms.At(i).Obj().Name()
		if n == "Error" || n == "String" {
			return true
		}
	}
	return false
}

// ---------------------------------------------------------------------------------------------

type freshness struct {
	p     *Prog
	memo  map[ssa.Value]string
	taint *taintResult
}

// notFresh returns "" when v is freshly allocated during the call (or immutable), else the reason.
func (fr *freshness) notFresh(v ssa.Value, seen map[ssa.Value]bool) string {
	if seen[v] {
		return ""
	}
	seen[v] = true
	if !refType(v.Type()) {
		return ""
	}
	p := fr.p
	switch v := v.(type) {
	case *ssa.Const:
		return ""
	case *ssa.Alloc, *ssa.MakeSlice, *ssa.MakeMap:
		return ""
	case *ssa.Slice:
		return fr.notFresh(v.X, seen)
	case *ssa.Phi:
		for _, e := range v.Edges {
			if m := fr.notFresh(e, seen); m != "" {
				return m
			}
		}
		return ""
	case *ssa.MakeInterface:
		return fr.notFresh(v.X, seen)
	case *ssa.ChangeType:
		return fr.notFresh(v.X, seen)
	case *ssa.Convert:
		return fr.notFresh(v.X, seen)
	case *ssa.Extract:
		c, ok := v.Tuple.(*ssa.Call)
		if !ok {
			return fmt.Sprintf("result of %T", v.Tuple)
		}
		return fr.callFresh(c, v.Index, seen)
	case *ssa.Call:
		return fr.callFresh(v, 0, seen)
	case *ssa.Parameter:
		if fr.taint.Params[v] {
			return fmt.Sprintf("aliases the caller's argument %s", v.Name())
		}
		// internal function: every in-module call site must pass a fresh value
		fn := v.Parent()
		idx := -1
		for i, prm := range fn.Params {
			if prm == v {
				idx = i
			}
		}
		n := 0
		for _, g := range p.RList {
			for _, b := range g.Blocks {
				for _, in := range b.Instrs {
					if ci, ok := in.(ssa.CallInstruction); ok && ci.Common().StaticCallee() == fn && idx < len(ci.Common().Args) {
						n++
						if m := fr.notFresh(ci.Common().Args[idx], seen); m != "" {
							return m
						}
					}
				}
			}
		}
		if n == 0 {
			return fmt.Sprintf("parameter %s of %s with no visible call site", v.Name(), p.shortKey(fn))
		}
		return ""
	case *ssa.UnOp:
		if v.Op == token.MUL {
			if g, ok := v.X.(*ssa.Global); ok {
				return fmt.Sprintf("is the shared package-level variable %s", g.Name())
			}
			// field / element of an object: fresh iff error interface (immutable) …
			if isErrorType(v.Type()) {
				return ""
			}
			// …or loaded from a call-local object whose stored values are fresh
			return fr.loadFresh(v, seen)
		}
	case *ssa.Global:
		return fmt.Sprintf("address of package-level variable %s", v.Name())
	}
	if isErrorType(v.Type()) {
		return ""
	}
	return fmt.Sprintf("origin %T not recognised as fresh", v)
}

func isErrorType(t types.Type) bool {
	n, ok := t.(*types.Named)
	return ok && n.Obj().Pkg() == nil && n.Obj().Name() == "error"
}

func (fr *freshness) loadFresh(ld *ssa.UnOp, seen map[ssa.Value]bool) string {
	// *(&local) where every store to the local stores a fresh value
	if al, ok := ld.X.(*ssa.Alloc); ok {
		for _, r := range *al.Referrers() {
			if st, ok := r.(*ssa.Store); ok && st.Addr == al {
				if m := fr.notFresh(st.Val, seen); m != "" {
					return m
				}
			}
		}
		return ""
	}
	// a field of an object that is itself fresh, when every store to that field anywhere in the module stores
	// a fresh value (or the field's own content appended to): a collector object built during the call
	if fa, ok := ld.X.(*ssa.FieldAddr); ok {
		fk := fieldOf(fa)
		if m := fr.notFresh(fa.X, seen); m != "" {
			return "field " + fk.Field + " of an object that " + m
		}
		n := 0
		for _, pk := range libPkgs(fr.p) {
			for _, g := range fr.p.AllModuleFuncs(pk) {
				for _, b := range g.Blocks {
					for _, in := range b.Instrs {
						st, ok := in.(*ssa.Store)
						if !ok {
							continue
						}
						sfa, ok := st.Addr.(*ssa.FieldAddr)
						if !ok || fieldOf(sfa) != fk {
							continue
						}
						n++
						val := st.Val
						// self-append: append(*(&x.f), …)
						if c, ok := val.(*ssa.Call); ok {
							if bi, ok := c.Call.Value.(*ssa.Builtin); ok && bi.Name() == "append" {
								if l2, ok := c.Call.Args[0].(*ssa.UnOp); ok && l2.Op == token.MUL {
									if fa2, ok := l2.X.(*ssa.FieldAddr); ok && fieldOf(fa2) == fk {
										continue
									}
								}
							}
						}
						if m := fr.notFresh(val, seen); m != "" {
							return "field " + fk.Field + " is assigned a value that " + m
						}
					}
				}
			}
		}
		if n > 0 {
			return ""
		}
	}
	return "loaded from memory whose origin is not tracked"
}

func (fr *freshness) callFresh(c *ssa.Call, idx int, seen map[ssa.Value]bool) string {
	p := fr.p
	if b, ok := c.Call.Value.(*ssa.Builtin); ok {
		if b.Name() == "append" {
			return fr.notFresh(c.Call.Args[0], seen)
		}
		return ""
	}
	callee := c.Call.StaticCallee()
	if callee == nil {
		return "result of a dynamic call"
	}
	if !p.InModule(callee) {
		si := classifyStd(callee)
		if si.Fresh || (si.Class == stdPure && !refType(c.Type())) {
			return ""
		}
		if si.Class == stdPure && isErrorType(callee.Signature.Results().At(idx).Type()) {
			return ""
		}
		return fmt.Sprintf("result of %s is not known to be fresh", callee)
	}
	for _, b := range callee.Blocks {
		for _, in := range b.Instrs {
			if ret, ok := in.(*ssa.Return); ok {
				if m := fr.notFresh(ret.Results[idx], seen); m != "" {
					return m
				}
			}
		}
	}
	return ""
}

func isOnceType(t types.Type) bool {
	n, ok := t.(*types.Named)
	return ok && n.Obj().Pkg() != nil && n.Obj().Pkg().Path() == "sync" && n.Obj().Name() == "Once"
}

// inOnceClosure: f is a closure passed directly to (*sync.Once).Do.
func inOnceClosure(f *ssa.Function) bool {
	par := f.Parent()
	if par == nil {
		return false
	}
	for _, b := range par.Blocks {
		for _, in := range b.Instrs {
			c, ok := in.(*ssa.Call)
			if !ok || c.Call.StaticCallee() == nil || c.Call.StaticCallee().String() != "(*sync.Once).Do" {
				continue
			}
			switch a := c.Call.Args[1].(type) {
			case *ssa.MakeClosure:
				if a.Fn == f {
					return true
				}
			case *ssa.Function:
				if a == f {
					return true
				}
			}
		}
	}
	return false
}

// dominatedByOnceDo: some (*sync.Once).Do call on a package-level Once dominates instruction in.
func dominatedByOnceDo(f *ssa.Function, in ssa.Instruction) bool {
	for _, b := range f.Blocks {
		for i, x := range b.Instrs {
			c, ok := x.(*ssa.Call)
			if !ok || c.Call.StaticCallee() == nil || c.Call.StaticCallee().String() != "(*sync.Once).Do" {
				continue
			}
			if _, isG := c.Call.Args[0].(*ssa.Global); !isG {
				continue
			}
			if b == in.Block() {
				for j, y := range b.Instrs {
					if y == in && i < j {
						return true
					}
				}
			} else if b.Dominates(in.Block()) {
				return true
			}
		}
	}
	return false
}
