package main

import (
	"go/token"
	"go/types"

	"golang.org/x/tools/go/ssa"
)

// tokenLit is one place where a scanner token is built: a struct literal, or a call of a constructor
// helper whose body is nothing but such a literal filled from its parameters.
type tokenLit struct {
	At          ssa.Instruction
	Role, Value ssa.Value // as seen in the enclosing function (call arguments for a constructor); nil if unset
	Ptr         ssa.Value // the literal's address / the constructor's result
}

func isTokenStruct(p *Prog, t types.Type) bool {
	if pt, ok := t.Underlying().(*types.Pointer); ok {
		t = pt.Elem()
	}
	nm, ok := t.(*types.Named)
	return ok && nm.Obj().Name() == "token" && nm.Obj().Pkg() == p.ExpPkg.Types
}

// allocFields: the values stored into the role and value fields of a token literal.
func allocFields(p *Prog, al *ssa.Alloc) (role, value ssa.Value, at ssa.Instruction, ok bool) {
	if !isTokenStruct(p, al.Type()) {
		return nil, nil, nil, false
	}
	for _, r := range *al.Referrers() {
		fa, isFA := r.(*ssa.FieldAddr)
		if !isFA {
			continue
		}
		for _, rr := range *fa.Referrers() {
			st, isSt := rr.(*ssa.Store)
			if !isSt || st.Addr != ssa.Value(fa) {
				continue
			}
			switch fieldOf(fa).Field {
			case "role":
				if role != nil {
					return nil, nil, nil, false // written twice: not a plain literal
				}
				role = st.Val
			case "value":
				if value != nil {
					return nil, nil, nil, false
				}
				value = st.Val
				at = st
			}
		}
	}
	if at == nil {
		at = al
	}
	return role, value, at, true
}

// tokenCtor: h is a constructor helper — it builds exactly one token literal, each of whose fields is a
// parameter or a constant, and returns it. roleIdx/valueIdx are parameter indices (-1: a constant or unset).
type tokenCtorInfo struct {
	roleIdx, valueIdx int
	roleConst         *ssa.Const
}

var tokenCtorMemo = map[*ssa.Function]*tokenCtorInfo{}

func tokenCtor(p *Prog, h *ssa.Function) *tokenCtorInfo {
	if h == nil || !p.InModule(h) || len(h.Blocks) != 1 {
		return nil
	}
	if ti, ok := tokenCtorMemo[h]; ok {
		return ti
	}
	tokenCtorMemo[h] = nil
	var al *ssa.Alloc
	for _, in := range h.Blocks[0].Instrs {
		switch t := in.(type) {
		case *ssa.Alloc:
			if al != nil || !isTokenStruct(p, t.Type()) {
				return nil
			}
			al = t
		case *ssa.FieldAddr, *ssa.Store, *ssa.Return, *ssa.DebugRef, *ssa.UnOp:
		default:
			return nil
		}
	}
	if al == nil {
		return nil
	}
	ret, ok := h.Blocks[0].Instrs[len(h.Blocks[0].Instrs)-1].(*ssa.Return)
	if !ok || len(ret.Results) != 1 {
		return nil
	}
	switch rv := ret.Results[0].(type) {
	case *ssa.Alloc:
		if rv != al {
			return nil
		}
	case *ssa.UnOp:
		if rv.Op != token.MUL || rv.X != ssa.Value(al) {
			return nil
		}
	default:
		return nil
	}
	role, value, _, ok := allocFields(p, al)
	if !ok {
		return nil
	}
	ti := &tokenCtorInfo{roleIdx: -1, valueIdx: -1}
	idxOf := func(v ssa.Value) int {
		for i, prm := range h.Params {
			if v == ssa.Value(prm) {
				return i
			}
		}
		return -1
	}
	if role != nil {
		if c, ok := role.(*ssa.Const); ok {
			ti.roleConst = c
		} else if ti.roleIdx = idxOf(role); ti.roleIdx < 0 {
			return nil
		}
	}
	if value != nil {
		if ti.valueIdx = idxOf(value); ti.valueIdx < 0 {
			return nil
		}
	}
	tokenCtorMemo[h] = ti
	return ti
}

// tokenLitsIn lists the token literals and constructor calls of fn.
func tokenLitsIn(p *Prog, fn *ssa.Function) []tokenLit {
	var out []tokenLit
	for _, b := range fn.Blocks {
		for _, in := range b.Instrs {
			switch t := in.(type) {
			case *ssa.Alloc:
				if role, value, at, ok := allocFields(p, t); ok && (role != nil || value != nil) {
					out = append(out, tokenLit{At: at, Role: role, Value: value, Ptr: t})
				}
			case *ssa.Call:
				ti := tokenCtor(p, t.Call.StaticCallee())
				if ti == nil {
					continue
				}
				tl := tokenLit{At: t, Ptr: t}
				if ti.roleConst != nil {
					tl.Role = ti.roleConst
				} else if ti.roleIdx >= 0 && ti.roleIdx < len(t.Call.Args) {
					tl.Role = t.Call.Args[ti.roleIdx]
				}
				if ti.valueIdx >= 0 && ti.valueIdx < len(t.Call.Args) {
					tl.Value = t.Call.Args[ti.valueIdx]
				}
				out = append(out, tl)
			}
		}
	}
	return out
}

// roleUse is one place where non-predicate code tests a token's role against a constant: a direct
// comparison tok.role ==/!= c, or a call of a predicate helper (a bool function over a token that does the
// comparison itself or forwards to one that does), with the role constant resolved at the call.
type roleUse struct {
	fn   *ssa.Function
	in   ssa.Instruction
	role string // the constant's exact string
}

type roleSumEntry struct {
	role  string // constant role, or
	param int    // index of the parameter compared with the role (when role == "")
	in    ssa.Instruction
}

// isTokenPredicate: a bool-valued function one of whose parameters is a *token / token.
func isTokenPredicate(p *Prog, f *ssa.Function) bool {
	res := f.Signature.Results()
	if res.Len() != 1 {
		return false
	}
	if b, ok := res.At(0).Type().Underlying().(*types.Basic); !ok || b.Kind() != types.Bool {
		return false
	}
	for _, prm := range f.Params {
		if isTokenStruct(p, prm.Type()) {
			return true
		}
	}
	return false
}

func roleUses(p *Prog) []roleUse {
	sums := map[*ssa.Function][]roleSumEntry{}
	has := func(f *ssa.Function, e roleSumEntry) bool {
		for _, x := range sums[f] {
			if x.role == e.role && x.param == e.param && x.in == e.in {
				return true
			}
		}
		return false
	}
	paramIdx := func(f *ssa.Function, v ssa.Value) int {
		for i, prm := range f.Params {
			if v == ssa.Value(prm) {
				return i
			}
		}
		return -1
	}
	for changed, round := true, 0; changed && round < 8; round++ {
		changed = false
		for _, f := range p.RList {
			add := func(e roleSumEntry) {
				if !has(f, e) {
					sums[f] = append(sums[f], e)
					changed = true
				}
			}
			for _, b := range f.Blocks {
				for _, in := range b.Instrs {
					switch t := in.(type) {
					case *ssa.BinOp:
						if t.Op != token.EQL && t.Op != token.NEQ {
							continue
						}
						for _, pair := range [][2]ssa.Value{{t.X, t.Y}, {t.Y, t.X}} {
							ld, ok := pair[0].(*ssa.UnOp)
							if !ok || ld.Op != token.MUL {
								continue
							}
							fa, ok := ld.X.(*ssa.FieldAddr)
							if !ok || !isTokenStruct(p, fa.X.Type()) || fieldOf(fa).Field != "role" {
								continue
							}
							if c, ok := pair[1].(*ssa.Const); ok && c.Value != nil {
								add(roleSumEntry{role: c.Value.ExactString(), param: -1, in: in})
							} else if i := paramIdx(f, pair[1]); i >= 0 {
								add(roleSumEntry{param: i, in: in})
							}
						}
					case *ssa.Call:
						g := t.Call.StaticCallee()
						if g == nil {
							continue
						}
						pred := isTokenPredicate(p, g)
						for _, e := range sums[g] {
							switch {
							case e.role != "":
								// a constant test inside a predicate is the caller's test; inside any other
								// function it is that function's own
								if pred {
									add(roleSumEntry{role: e.role, param: -1, in: in})
								}
							case e.param < len(t.Call.Args):
								if c, ok := t.Call.Args[e.param].(*ssa.Const); ok && c.Value != nil {
									add(roleSumEntry{role: c.Value.ExactString(), param: -1, in: in})
								} else if i := paramIdx(f, t.Call.Args[e.param]); i >= 0 {
									add(roleSumEntry{param: i, in: in})
								}
							}
						}
					}
				}
			}
		}
	}
	var out []roleUse
	for _, f := range p.RList {
		if isTokenPredicate(p, f) {
			continue // lifted to its call sites
		}
		for _, e := range sums[f] {
			if e.role != "" {
				out = append(out, roleUse{f, e.in, e.role})
			}
		}
	}
	return out
}
