package main

import (
	"fmt"
	"go/token"
	"sort"
	"strings"

	"golang.org/x/tools/go/ssa"
)

func init() {
	register("C04", &propDef{
		Level:   "other",
		Explain: "Error discipline over every return and every call of the single validity oracle: V1 scan/parseTokens are called only from parse and every entry point reaches them only through parse, V2 every return that may carry a non-nil error carries the zero value next to it (decided by the abstract interpreter: result tuples seen at each return in all contexts), V3 no error of parse is dropped (its non-nil edge leads to a return of that same error or to recording the current element as invalid), V4 the origins of every error an entry point can return are exactly the specified ones, V5 ValidateLicenses is an in-order filter by 'parse fails', V6 an allowed entry reaches the node list only if it is not a compound expression. Not decided: that parse's verdict is the SPDX grammar (C05); determinism is C13.",
		Run:     rulesC04,
		Trusted: []string{"go/ssa lowering", "errors.New returns a non-nil error"},
	})
}

// errOriginStop: the functions the specified origin sets name; every other in-module callee is a helper
// whose own error results are expanded.
var errOriginStop = map[string]bool{"parse": true}

// errOrigins: where can a returned error value come from? Expands in-module callees.
func errOrigins(p *Prog, qz *quantizer, fb *fnBounds, v ssa.Value, at *ssa.Return, seen map[ssa.Value]bool, depth int) []string {
	if seen[v] || depth > 6 {
		return nil
	}
	seen[v] = true
	switch t := v.(type) {
	case *ssa.Const:
		return nil
	case *ssa.Phi:
		var out []string
		for _, e := range t.Edges {
			out = append(out, errOrigins(p, qz, fb, e, at, seen, depth+1)...)
		}
		return out
	case *ssa.Extract:
		if c, ok := t.Tuple.(*ssa.Call); ok {
			if callee := c.Call.StaticCallee(); callee != nil && p.InModule(callee) && !errOriginStop[callee.Name()] && depth < 4 {
				// a helper the specification does not name: its error results are the origins
				var out []string
				descs := make([]string, len(callee.Params))
				for i := range callee.Params {
					if i < len(c.Call.Args) {
						descs[i] = qz.prov(c.Call.Args[i], 0)
					}
				}
				for i, prm := range callee.Params {
					if i < len(c.Call.Args) {
						qz.elemVar[prm] = descs[i]
					}
				}
				cfb := fb.bp.forFn(callee)
				for _, b := range callee.Blocks {
					if ret, ok := b.Instrs[len(b.Instrs)-1].(*ssa.Return); ok && t.Index < len(ret.Results) {
						out = append(out, errOrigins(p, qz, cfb, ret.Results[t.Index], ret, seen, depth+1)...)
					}
				}
				for _, prm := range callee.Params {
					delete(qz.elemVar, prm)
				}
				return out
			}
		}
		return []string{qz.prov(t, 0)}
	case *ssa.Call:
		callee := t.Call.StaticCallee()
		isCtor := false
		if callee != nil && p.InModule(callee) && len(callee.Blocks) == 1 && !errOriginStop[callee.Name()] {
			// an error constructor: a straight-line helper that returns a freshly made error
			if ret, ok := callee.Blocks[0].Instrs[len(callee.Blocks[0].Instrs)-1].(*ssa.Return); ok && len(ret.Results) == 1 {
				if mk, ok := ret.Results[0].(*ssa.Call); ok {
					if mc := mk.Call.StaticCallee(); mc != nil && (mc.String() == "errors.New" || mc.String() == "fmt.Errorf") {
						isCtor = true
					}
				}
			}
		}
		if callee != nil && (callee.String() == "errors.New" || callee.String() == "fmt.Errorf" || isCtor) {
			// guard: the branch conditions under which this return is reached
			var gs []string
			for cf := range fb.facts[at.Block().Index] {
				g := qz.prov(cf.c, 0)
				if !cf.pol {
					g = "!" + g
				}
				gs = append(gs, g)
			}
			sort.Strings(gs)
			return []string{"errors.New under " + strings.Join(gs, " && ")}
		}
		return []string{qz.prov(t, 0)}
	case *ssa.UnOp:
		return []string{qz.prov(t, 0)}
	}
	return []string{qz.prov(v, 0)}
}

func rulesC04(p *Prog, r *Report) {
	r.Rule("V1", "necessary", 3, "single oracle: the scanner and the token parser are entered only from parse; every exported function of spdxexp that validates reaches them only through parse")
	r.Rule("V2", "necessary", 10, "error ⇒ zero result: at every return of a (T, error) function reachable from the API, whenever the error may be non-nil the accompanying result is the zero value, in every analysed context")
	r.Rule("V3", "necessary", 3, "no parse error is dropped: the error result of every call to parse is tested, and its non-nil edge leads only to a return of that same error or to recording the current element as invalid")
	r.Rule("V4", "necessary", 2, "error provenance is exactly the specified set per entry point")
	r.Rule("V5", "necessary", 1, "ValidateLicenses returns, in order, exactly the elements whose parse fails, and true iff none fails")
	r.Rule("V6", "necessary", 1, "an allowed entry is stored into the node list only after it was tested not to be a compound expression")

	eng := sharedEngine(p)
	parse := p.Func(p.ExpPkg, "parse")
	scan := p.Func(p.ExpPkg, "scan")
	ptoks := p.Func(p.ExpPkg, "(*tokenStream).parseTokens")
	if parse == nil || scan == nil || ptoks == nil {
		r.Unknown("V1", "anchor", "-", "unresolved anchor: parse / scan / (*tokenStream).parseTokens")
		return
	}
	// V1
	callersOf := func(target *ssa.Function) []string {
		var out []string
		for _, f := range p.AllModuleFuncs(p.ExpPkg) {
			if p.isTestPos(f.Pos()) {
				continue
			}
			for _, b := range f.Blocks {
				for _, in := range b.Instrs {
					if ci, ok := in.(ssa.CallInstruction); ok && ci.Common().StaticCallee() == target {
						out = append(out, p.shortKey(f))
					}
				}
			}
		}
		sort.Strings(out)
		return out
	}
	for _, t := range []*ssa.Function{scan, ptoks} {
		cs := callersOf(t)
		okV := len(cs) > 0
		for _, c := range cs {
			if c != p.shortKey(parse) {
				okV = false
			}
		}
		if okV {
			r.OK("V1", "callers of "+p.shortKey(t), p.pos(t.Pos()), "only parse", "", false)
		} else {
			r.Bad("V1", "callers of "+p.shortKey(t), p.pos(t.Pos()), fmt.Sprintf("%s is called from %v; a second path to the scanner/parser is a second notion of validity", p.shortKey(t), cs))
		}
	}
	for _, root := range p.Roots {
		if root.Pkg != p.SSAPkg[p.ExpPkg.PkgPath] {
			continue
		}
		// reaches parse?
		reach := map[*ssa.Function]bool{}
		var walk func(f *ssa.Function)
		walk = func(f *ssa.Function) {
			if reach[f] || !p.InModule(f) {
				return
			}
			reach[f] = true
			for _, b := range f.Blocks {
				for _, in := range b.Instrs {
					if ci, ok := in.(ssa.CallInstruction); ok {
						if c := ci.Common().StaticCallee(); c != nil {
							walk(c)
						}
					}
				}
			}
		}
		walk(root)
		hasString := false
		for _, prm := range root.Params {
			if isStringType(prm.Type()) || kindOf(prm.Type()) == KSlice {
				hasString = true
			}
		}
		if !hasString {
			continue
		}
		if reach[parse] {
			r.OK("V1", "entry "+p.shortKey(root), p.pos(root.Pos()), "validates through parse", "", false)
		} else {
			r.Bad("V1", "entry "+p.shortKey(root), p.pos(root.Pos()), "exported function takes license text but never reaches parse: it cannot agree with the other entry points on validity")
		}
	}

	// V2
	for _, f := range p.RList {
		res := f.Signature.Results()
		ei := -1
		for i := 0; i < res.Len(); i++ {
			if isErrorType(res.At(i).Type()) {
				ei = i
			}
		}
		if ei < 0 || res.Len() < 2 {
			continue
		}
		r.Funcs[p.shortKey(f)] = true
		for _, b := range f.Blocks {
			ret, ok := b.Instrs[len(b.Instrs)-1].(*ssa.Return)
			if !ok {
				continue
			}
			key := fmt.Sprintf("%s|return %s", p.shortKey(f), retDesc(ret))
			recs := eng.retRecs[ret]
			if len(recs) == 0 {
				if eng.fnVisits[f] > 0 {
					r.OK("V2", key, p.pos(ret.Pos()), "unreachable", "", true)
				} else {
					r.Unknown("V2", key, p.pos(ret.Pos()), "kind=undecided: function never analysed")
				}
				continue
			}
			var bad []string
			var all []string
			for tup := range recs {
				all = append(all, tup)
				parts := strings.Split(tup, " | ")
				if parts[ei] == "nil" {
					continue
				}
				for i, part := range parts {
					if i == ei {
						continue
					}
					if !(part == "nil" || part == "bool:F" || part == `const:""` || part == "const:0" || part == "zero-struct") {
						bad = append(bad, fmt.Sprintf("(%s)", tup))
					}
				}
			}
			sort.Strings(all)
			if len(bad) > 0 {
				sort.Strings(bad)
				r.Bad("V2", key, p.pos(ret.Pos()), fmt.Sprintf("a possibly non-nil error is returned together with a non-zero result: result tuples %s", strings.Join(bad, ", ")))
			} else {
				r.OK("V2", key, p.pos(ret.Pos()), "zero result whenever the error may be non-nil", strings.Join(all, "; "), true)
			}
		}
	}

	// V3
	qz := &quantizer{p: p, elemVar: map[ssa.Value]string{}}
	for _, f := range p.RList {
		for _, b := range f.Blocks {
			for _, in := range b.Instrs {
				c, ok := in.(*ssa.Call)
				if !ok || c.Call.StaticCallee() != parse {
					continue
				}
				key := fmt.Sprintf("%s|parse(%s)", p.shortKey(f), qz.prov(c.Call.Args[0], 0))
				pos := p.pos(c.Pos())
				var errv *ssa.Extract
				for _, ref := range *c.Referrers() {
					if ex, ok := ref.(*ssa.Extract); ok && ex.Index == 1 {
						errv = ex
					}
				}
				if errv == nil || len(*errv.Referrers()) == 0 {
					r.Bad("V3", key, pos, "the error result of parse is discarded")
					continue
				}
				var probs []string
				tested := false
				for _, ref := range *errv.Referrers() {
					switch t := ref.(type) {
					case *ssa.BinOp:
						cst, isC := t.Y.(*ssa.Const)
						if !isC || !cst.IsNil() || (t.Op != token.NEQ && t.Op != token.EQL) {
							probs = append(probs, "the error is compared with something other than nil")
							continue
						}
						for _, rr := range *t.Referrers() {
							if ret, isRet := rr.(*ssa.Return); isRet && len(ret.Results) == 1 && isBoolType(ret.Results[0].Type()) {
								// a validity predicate: the oracle's verdict is handed back as a boolean; the
								// callers' use of it is judged where they record invalid elements (V5)
								tested = true
								continue
							}
							ifi, ok := rr.(*ssa.If)
							if !ok {
								continue
							}
							tested = true
							eb := ifi.Block().Succs[0]
							if t.Op == token.EQL {
								eb = ifi.Block().Succs[1]
							}
							if msg := errEdgeOK(p, f, eb, errv, c); msg != "" {
								probs = append(probs, msg)
							}
						}
					case *ssa.Return, *ssa.Phi, *ssa.DebugRef:
					default:
						probs = append(probs, fmt.Sprintf("the error is used by %T", ref))
					}
				}
				if !tested {
					// returned directly (return parse(...)) is fine when the function returns both results
					direct := false
					for _, ref := range *errv.Referrers() {
						if _, ok := ref.(*ssa.Return); ok {
							direct = true
						}
					}
					if !direct {
						probs = append(probs, "the error is never tested against nil")
					}
				}
				if len(probs) > 0 {
					r.Bad("V3", key, pos, strings.Join(probs, "; "))
				} else {
					r.OK("V3", key, pos, "tested; non-nil edge returns it or records the element", "", true)
				}
			}
		}
	}

	// V4
	bp := newBoundsProver(p, eng)
	expect := map[string][]string{
		"ExtractLicenses": {"spdxexp.parse(param:expression)#1"},
		// helpers are expanded down to parse: where a check sits (in Satisfies or in a helper that builds the
		// allowed set) and which of two errors wins on doubly invalid input is not part of the property
		"Satisfies": {"spdxexp.parse(param:testExpression)#1",
			"errors.New under (len(param:allowedList) == 0)",
			"spdxexp.parse(elem(param:allowedList))#1",
			"errors.New under (*spdxexp.node).isExpression(spdxexp.parse(elem(param:allowedList))#0)"},
	}
	for _, name := range []string{"ExtractLicenses", "Satisfies"} {
		f := p.Func(p.ExpPkg, name)
		if f == nil {
			r.Unknown("V4", name, "-", "unresolved anchor")
			continue
		}
		fb := bp.forFn(f)
		got := map[string]bool{}
		res := f.Signature.Results()
		for _, b := range f.Blocks {
			ret, ok := b.Instrs[len(b.Instrs)-1].(*ssa.Return)
			if !ok {
				continue
			}
			for i := 0; i < res.Len(); i++ {
				if !isErrorType(res.At(i).Type()) {
					continue
				}
				for _, o := range errOrigins(p, qz, fb, ret.Results[i], ret, map[ssa.Value]bool{}, 0) {
					got[normaliseGuard(o)] = true
				}
			}
		}
		// a guard that only says "an earlier check did not fire" (the negation of the whole guard of another
		// origin) expresses precedence among errors, not validity: dropped
		for changed := true; changed; {
			changed = false
			for g := range got {
				if !strings.HasPrefix(g, "errors.New under ") {
					continue
				}
				parts := strings.Split(strings.TrimPrefix(g, "errors.New under "), " && ")
				var keep []string
				for _, part := range parts {
					if strings.HasPrefix(part, "!") && got["errors.New under "+strings.TrimPrefix(part, "!")] && len(parts) > 1 {
						continue
					}
					keep = append(keep, part)
				}
				if len(keep) != len(parts) {
					delete(got, g)
					got["errors.New under "+strings.Join(keep, " && ")] = true
					changed = true
					break
				}
			}
		}
		var gl []string
		for g := range got {
			gl = append(gl, g)
		}
		sort.Strings(gl)
		want := map[string]bool{}
		for _, w := range expect[name] {
			want[w] = true
		}
		var extra, missing []string
		for g := range got {
			if !want[g] {
				extra = append(extra, g)
			}
		}
		for w := range want {
			if !got[w] {
				missing = append(missing, w)
			}
		}
		sort.Strings(extra)
		sort.Strings(missing)
		if len(extra)+len(missing) > 0 {
			r.Bad("V4", name, p.pos(f.Pos()), fmt.Sprintf("error origins differ from the specified set: unexpected %v (an error on input the property calls valid), missing %v (no error on input the property calls invalid)", extra, missing))
		} else {
			r.OK("V4", name, p.pos(f.Pos()), "origins as specified", strings.Join(gl, "; "), true)
		}
	}

	// V5
	if vl := p.Func(p.ExpPkg, "ValidateLicenses"); vl == nil {
		r.Unknown("V5", "anchor", "-", "unresolved anchor: ValidateLicenses")
	} else {
		fb := bp.forFn(vl)
		loops := findAppendLoops(vl)
		okV := false
		why := "no accumulate-by-append loop over the argument"
		for _, al := range loops {
			if al.Coll != ssa.Value(vl.Params[0]) {
				why = "the loop does not range over the argument"
				continue
			}
			elems, _ := appendedElems(al.App)
			if len(elems) != 1 || !isElemOf(elems[0], al.Coll) {
				why = "something other than the current element is recorded as invalid"
				continue
			}
			gs := guardsOf(fb, al)
			if len(gs) != 1 {
				why = fmt.Sprintf("the element is recorded under %d conditions, expected exactly 'parse fails'", len(gs))
				continue
			}
			g := qz.prov(gs[0].c, 0)
			wantG := "(spdxexp.parse(elem(param:" + vl.Params[0].Name() + "))#1 != nil)"
			// the same through a validity predicate (isValid(x): _, err := parse(x); return err == nil): the
			// guard's formula with helpers inlined, parse itself opaque
			okPred := false
			{
				iq := &quantizer{p: p, elemVar: map[ssa.Value]string{}, inlineAll: true, stop: map[string]bool{}, opaque: map[*ssa.Function]bool{parse: true}}
				f := normQF(iq.boolOf(gs[0].c, map[*ssa.Phi]*qf{}))
				if !gs[0].pol {
					f = qNot(f)
				}
				wantAtom := canonAtom("(spdxexp.parse(elem(param:" + vl.Params[0].Name() + "))#1 == nil)")
				if f.Op == "not" && len(f.Args) == 1 && f.Args[0].Op == "atom" && f.Args[0].Atom == wantAtom {
					okPred = true
				}
			}
			if (g != wantG || !gs[0].pol) && !okPred {
				why = "the element is recorded under " + g + ", not under 'parse(element) fails'"
				continue
			}
			// results: (valid, invalid list): valid false iff an append happened
			var retOK = true
			for _, b := range vl.Blocks {
				ret, ok := b.Instrs[len(b.Instrs)-1].(*ssa.Return)
				if !ok {
					continue
				}
				if ret.Results[1] != ssa.Value(al.Acc) {
					retOK = false
					why = "the returned list is not the accumulated invalid list"
				}
				if !validFlagOK(ret.Results[0], al) {
					retOK = false
					why = "the boolean is not 'no element was recorded'"
				}
			}
			if len(al.OtherState) > 1 {
				retOK = false
				why = "loop carries extra state " + strings.Join(al.OtherState, ",")
			}
			okV = retOK
		}
		if okV {
			r.OK("V5", "ValidateLicenses", p.pos(vl.Pos()), "in-order filter by parse failure", "", true)
		} else {
			r.Bad("V5", "ValidateLicenses", p.pos(vl.Pos()), why)
		}
	}

	// V6
	if s2n := p.Func(p.ExpPkg, "stringsToNodes"); s2n == nil {
		r.Unknown("V6", "anchor", "-", "unresolved anchor: stringsToNodes")
	} else {
		fb := bp.forFn(s2n)
		n := 0
		var bad []string
		for _, b := range s2n.Blocks {
			for _, in := range b.Instrs {
				st, ok := in.(*ssa.Store)
				if !ok {
					continue
				}
				if _, ok := st.Addr.(*ssa.IndexAddr); !ok {
					continue
				}
				n++
				guarded := testedNotExpression(bp, fb, b, st.Val, 0)
				if !guarded {
					bad = append(bad, fmt.Sprintf("%s: a node is stored into the allowed list without having been tested not to be an expression", p.pos(st.Pos())))
				}
			}
		}
		if n == 0 {
			r.Unknown("V6", "stringsToNodes", p.pos(s2n.Pos()), "kind=undecided: no store into the node list found")
		} else if len(bad) > 0 {
			r.Bad("V6", "stringsToNodes", p.pos(s2n.Pos()), strings.Join(bad, "; "))
		} else {
			r.OK("V6", "stringsToNodes", p.pos(s2n.Pos()), "stores guarded by !isExpression", fmt.Sprintf("%d stores", n), true)
		}
	}

	// V7
	r.Rule("V7", "necessary", 2, "no success without the oracle: in Satisfies and ExtractLicenses every return that may carry a nil error is reached only after parse accepted the expression argument (a shortcut that answers before, or instead of, parsing gives this entry point a notion of validity of its own)")
	for _, name := range []string{"Satisfies", "ExtractLicenses"} {
		f := p.Func(p.ExpPkg, name)
		if f == nil {
			r.Unknown("V7", name, "-", "unresolved anchor: "+name)
			continue
		}
		if msg := successNeedsParse(p, bp, f, 0, parse, 0); msg != "" {
			r.Bad("V7", name, p.pos(f.Pos()), msg)
		} else {
			r.OK("V7", name, p.pos(f.Pos()), "every possibly-successful return is behind parse(expression) == nil error", "", true)
		}
	}
}

// successNeedsParse: every return of f whose error result may be nil is dominated by the success edge of a
// call parse(param #pi) (directly, or through a helper that itself has this property for the argument),
// or returns that call's own error. "" when it holds, else what fails.
func successNeedsParse(p *Prog, bp *boundsProver, f *ssa.Function, pi int, parse *ssa.Function, depth int) string {
	if depth > 3 || pi >= len(f.Params) {
		return "the expression is handed through too many helpers to follow"
	}
	res := f.Signature.Results()
	ei := -1
	for i := 0; i < res.Len(); i++ {
		if isErrorType(res.At(i).Type()) {
			ei = i
		}
	}
	if ei < 0 {
		return f.Name() + " returns no error"
	}
	prm := ssa.Value(f.Params[pi])
	// the oracle calls on the parameter in f: parse itself, or helpers with the property
	oracle := map[*ssa.Call]int{} // call -> index of its error result
	for _, b := range f.Blocks {
		for _, in := range b.Instrs {
			c, ok := in.(*ssa.Call)
			if !ok || c.Call.StaticCallee() == nil {
				continue
			}
			callee := c.Call.StaticCallee()
			for ai, a := range c.Call.Args {
				if a != prm {
					continue
				}
				cres := callee.Signature.Results()
				cei := -1
				for i := 0; i < cres.Len(); i++ {
					if isErrorType(cres.At(i).Type()) {
						cei = i
					}
				}
				if cei < 0 {
					continue
				}
				if callee == parse || p.InModule(callee) && len(callee.Blocks) > 0 && successNeedsParse(p, bp, callee, ai, parse, depth+1) == "" {
					oracle[c] = cei
				}
			}
		}
	}
	isOracleErr := func(v ssa.Value) bool {
		ex, ok := v.(*ssa.Extract)
		if !ok {
			// a single-result oracle (error only)
			if c, isCall := v.(*ssa.Call); isCall {
				_, ok := oracle[c]
				return ok
			}
			return false
		}
		c, ok := ex.Tuple.(*ssa.Call)
		if !ok {
			return false
		}
		idx, ok := oracle[c]
		return ok && idx == ex.Index
	}
	fb := bp.forFn(f)
	for _, b := range f.Blocks {
		ret, ok := b.Instrs[len(b.Instrs)-1].(*ssa.Return)
		if !ok || ei >= len(ret.Results) {
			continue
		}
		ev := ret.Results[ei]
		if isOracleErr(ev) {
			continue // returns the oracle's own verdict
		}
		behind := false
		nonNil := false
		for cf := range fb.facts[b.Index] {
			bo, ok := cf.c.(*ssa.BinOp)
			if !ok || (bo.Op != token.EQL && bo.Op != token.NEQ) {
				continue
			}
			var other ssa.Value
			if k, isK := bo.Y.(*ssa.Const); isK && k.IsNil() {
				other = bo.X
			} else if k, isK := bo.X.(*ssa.Const); isK && k.IsNil() {
				other = bo.Y
			}
			if other == nil {
				continue
			}
			isNilHere := (bo.Op == token.EQL) == cf.pol
			if isOracleErr(other) && isNilHere {
				behind = true
			}
			if other == ev && !isNilHere {
				nonNil = true // this return carries an error that was tested non-nil
			}
		}
		if behind || nonNil {
			continue
		}
		if c, isCall := ev.(*ssa.Call); isCall && c.Call.StaticCallee() != nil {
			if n := c.Call.StaticCallee().String(); n == "errors.New" || n == "fmt.Errorf" {
				continue // a freshly made error is never nil
			}
		}
		return fmt.Sprintf("%s: %s can return a nil error (%s) without parse having accepted %s", p.pos(ret.Pos()), f.Name(), describe(ev), f.Params[pi].Name())
	}
	return ""
}

// testedNotExpression: at block b the value v is known not to be a compound expression: either
// !isExpression(v) is among the branch facts, or v is the result of a helper all of whose non-constant
// returns of that result are themselves so tested.
func testedNotExpression(bp *boundsProver, fb *fnBounds, b *ssa.BasicBlock, v ssa.Value, depth int) bool {
	for cf := range fb.facts[b.Index] {
		if c, ok := cf.c.(*ssa.Call); ok && !cf.pol && c.Call.StaticCallee() != nil && c.Call.StaticCallee().Name() == "isExpression" && len(c.Call.Args) == 1 && c.Call.Args[0] == v {
			return true
		}
	}
	if depth > 3 {
		return false
	}
	var call *ssa.Call
	idx := 0
	switch t := v.(type) {
	case *ssa.Extract:
		call, _ = t.Tuple.(*ssa.Call)
		idx = t.Index
	case *ssa.Call:
		call = t
	}
	if call == nil {
		return false
	}
	callee := call.Call.StaticCallee()
	if callee == nil || !bp.p.InModule(callee) || callee.Name() == "parse" {
		return false
	}
	cfb := bp.forFn(callee)
	n := 0
	for _, cb := range callee.Blocks {
		ret, ok := cb.Instrs[len(cb.Instrs)-1].(*ssa.Return)
		if !ok || idx >= len(ret.Results) {
			continue
		}
		if _, isConst := ret.Results[idx].(*ssa.Const); isConst {
			continue
		}
		n++
		if !testedNotExpression(bp, cfb, cb, ret.Results[idx], depth+1) {
			return false
		}
	}
	return n > 0
}

func retDesc(ret *ssa.Return) string {
	var ps []string
	for _, r := range ret.Results {
		ps = append(ps, describeIdx(r))
	}
	return strings.Join(ps, ", ")
}

// normaliseGuard keeps only the innermost guard of an errors.New origin (the condition closest to it).
func normaliseGuard(o string) string {
	if !strings.HasPrefix(o, "errors.New under ") {
		return o
	}
	gs := strings.Split(strings.TrimPrefix(o, "errors.New under "), " && ")
	// drop conditions that only say earlier errors were nil or loop bounds
	var keep []string
	for _, g := range gs {
		if strings.HasPrefix(g, "!(") && strings.HasSuffix(g, "#1 != nil)") {
			continue
		}
		if strings.Contains(g, "phi:rangeindex") || strings.HasPrefix(g, "(phi:") {
			continue
		}
		if strings.Contains(g, " < len(") {
			continue
		}
		keep = append(keep, g)
	}
	for i, g := range keep {
		for _, v := range []string{" < 1)", " <= 0)"} {
			if strings.HasPrefix(g, "(len(") && strings.HasSuffix(g, v) {
				keep[i] = strings.TrimSuffix(g, v) + " == 0)"
			}
		}
	}
	return "errors.New under " + strings.Join(keep, " && ")
}

// errEdgeOK: on the edge where err != nil, control must return err itself or record the current element.
func errEdgeOK(p *Prog, f *ssa.Function, eb *ssa.BasicBlock, errv ssa.Value, call *ssa.Call) string {
	hasErrResult := false
	res := f.Signature.Results()
	for i := 0; i < res.Len(); i++ {
		if isErrorType(res.At(i).Type()) {
			hasErrResult = true
		}
	}
	// follow unconditional jumps to the block that ends the edge
	for hops := 0; hops < 4; hops++ {
		if j, ok := eb.Instrs[len(eb.Instrs)-1].(*ssa.Jump); ok && len(eb.Instrs) == 1 {
			_ = j
			eb = eb.Succs[0]
		} else {
			break
		}
	}
	if !hasErrResult {
		// a predicate-style function cannot hand the error back: it must return on this edge
		if _, ok := eb.Instrs[len(eb.Instrs)-1].(*ssa.Return); ok {
			return ""
		}
	}
	last := eb.Instrs[len(eb.Instrs)-1]
	if ret, ok := last.(*ssa.Return); ok {
		for _, res := range ret.Results {
			if res == errv {
				return ""
			}
		}
		return fmt.Sprintf("%s: when parse fails the function returns without handing back that error", p.pos(ret.Pos()))
	}
	// recording idiom: an append of the value that was parsed, in this block
	for _, in := range eb.Instrs {
		if c, ok := in.(*ssa.Call); ok {
			if bi, ok := c.Call.Value.(*ssa.Builtin); ok && bi.Name() == "append" {
				elems, _ := appendedElems(c)
				for _, e := range elems {
					if e == call.Call.Args[0] {
						return ""
					}
				}
			}
		}
	}
	return fmt.Sprintf("%s: when parse fails the error is neither returned nor is the element recorded as invalid", p.pos(eb.Instrs[0].Pos()))
}

// validFlagOK: v is true initially and false exactly on paths through the append.
func validFlagOK(v ssa.Value, al appendLoop) bool {
	// form 1: phi at the loop header with edges true (entry), false (from append block), itself (continue)
	if phi, ok := v.(*ssa.Phi); ok && phi.Block() == al.Hdr {
		for i, e := range phi.Edges {
			pred := al.Hdr.Preds[i]
			switch t := e.(type) {
			case *ssa.Const:
				val := t.Value != nil && t.Value.String() == "true"
				fromAppend := pred == al.App.Block() || al.App.Block().Dominates(pred)
				if al.Hdr.Dominates(pred) {
					// back edge
					if fromAppend == val {
						return false
					}
				} else if !val {
					return false
				}
			case *ssa.Phi:
				if t != phi {
					// merged inside the body: accept phi of (phi, false-from-append)
					for j, ee := range t.Edges {
						pp := t.Block().Preds[j]
						fromAppend := pp == al.App.Block() || al.App.Block().Dominates(pp)
						if c, ok := ee.(*ssa.Const); ok {
							if (c.Value != nil && c.Value.String() == "true") || !fromAppend {
								return false
							}
						} else if ee != ssa.Value(phi) || fromAppend {
							return false
						}
					}
				}
			default:
				return false
			}
		}
		return true
	}
	// form 2: len(invalid) == 0
	if bo, ok := v.(*ssa.BinOp); ok && bo.Op == token.EQL {
		if c, ok := bo.X.(*ssa.Call); ok {
			if bi, ok := c.Call.Value.(*ssa.Builtin); ok && bi.Name() == "len" && c.Call.Args[0] == ssa.Value(al.Acc) {
				if k, ok := bo.Y.(*ssa.Const); ok && k.Int64() == 0 {
					return true
				}
			}
		}
	}
	return false
}
