package main

func init() {
	register("C01", &propDef{
		Level:   "other",
		Explain: "Structural necessary conditions of 'Satisfies computes the Boolean truth of the expression', decided on the resolved program: X1 every kind of node contributes on every path of every dispatcher of the expansion (abstract interpretation per published node shape, productive-use marks joined over paths), X2 no positional selection or re-slicing of alternative lists, X3 ownership of every append to a node slice (fresh / accumulator / in place / transfer), X5 expansion neither constructs nor mutates nodes (write-once fields), X4 the quantifier structure ∃ alternative ∀ term ∃ allowed entry of the verdict, P1 precedence layering of the parser, S1/S3 the allowed nodes the search ranges over are exactly the nodes of the entries (built independently, only permuted, compacted only on equal canonical text). Not decided: that appendTerms/mergeTerms produce exactly the cross product, and the matcher itself (C02).",
		Run: func(p *Prog, r *Report) {
			eng := sharedEngine(p)
			rulesExpansion(p, r, eng)
			ruleX4(p, r, "X4")
			ruleP1(p, r, eng)
			rulesAllowedSet(p, r)
		},
		Trusted: []string{"go/ssa lowering", "the abstract interpreter's shape tables are derived from the node construction sites of the current tree"},
	})
}
