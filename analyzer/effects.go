package main

import (
	"fmt"
	"go/token"
	"go/types"
	"sort"
	"strings"

	"golang.org/x/tools/go/ssa"
)

// A6 — effects: stdlib classification, mod-sets, taint of caller-owned memory.

type stdClass int

const (
	stdUnknown    stdClass = iota
	stdPure                // no side effects, reads its arguments only, deterministic, never writes shared state
	stdMutatesArg          // pure except that it writes through argument MutArg (sort.Slice, …)
	stdForbidden           // I/O, clock, randomness, environment, goroutines, process state
)

type stdInfo struct {
	Class    stdClass
	MutArg   int
	Fresh    bool // reference-typed results are freshly allocated (or immutable)
	NoPanic  bool // never panics for any argument values of the static types (nil receivers excluded)
	Nondet   bool // result order/values not a function of the arguments
	CallsArg int  // index of a func-typed argument it calls (-1 none)
}

// purePackages: every exported function is pure in the sense above (may still panic; see NoPanic table).
var purePackages = map[string]bool{
	"strings": true, "unicode": true, "unicode/utf8": true, "unicode/utf16": true, "strconv": true,
	"errors": true, "bytes": true, "math": true, "math/bits": true, "regexp": true, "regexp/syntax": true,
	"path": true, "cmp": true, "html": true, "net/url": true, "encoding/hex": true, "encoding/base64": true,
	"hash/fnv": true, "hash/crc32": true, "text/scanner": false,
}

var forbiddenPackages = map[string]bool{
	"os": true, "io": true, "io/ioutil": true, "io/fs": true, "log": true, "log/slog": true, "time": true, "math/rand": true, "math/rand/v2": true,
	"crypto/rand": true, "runtime": true, "runtime/debug": true, "syscall": true, "net": true, "net/http": true, "os/exec": true,
	"os/signal": true, "bufio": true, "sync": false, "sync/atomic": false, "reflect": true, "unsafe": true, "plugin": true, "testing": true,
	"context": true, "flag": true, "encoding/json": false,
}

// classifyStd classifies an out-of-module callee by its qualified name.
func classifyStd(fn *ssa.Function) stdInfo {
	name := fn.String()
	pkg := ""
	if fn.Pkg != nil {
		pkg = fn.Pkg.Pkg.Path()
	} else if o := fn.Object(); o != nil && o.Pkg() != nil {
		pkg = o.Pkg().Path()
	}
	si := stdInfo{CallsArg: -1, MutArg: -1}
	switch name {
	case "sort.Slice", "sort.SliceStable":
		return stdInfo{Class: stdMutatesArg, MutArg: 0, CallsArg: 1, NoPanic: true} // given a slice argument (checked at the call site)
	case "sort.Strings", "sort.Ints", "sort.Float64s", "sort.Sort", "sort.Stable":
		return stdInfo{Class: stdMutatesArg, MutArg: 0, CallsArg: -1}
	case "sort.SearchStrings", "sort.SearchInts", "sort.SliceIsSorted", "sort.StringsAreSorted", "sort.Search":
		return stdInfo{Class: stdPure, MutArg: -1, CallsArg: -1}
	case "fmt.Sprintf", "fmt.Sprint", "fmt.Sprintln", "fmt.Errorf":
		return stdInfo{Class: stdPure, MutArg: -1, Fresh: true, NoPanic: true, CallsArg: -1}
	case "errors.New":
		return stdInfo{Class: stdPure, MutArg: -1, Fresh: true, NoPanic: true, CallsArg: -1}
	}
	switch name {
	case "(*strings.Builder).WriteString", "(*strings.Builder).WriteByte", "(*strings.Builder).WriteRune", "(*strings.Builder).Grow", "(*strings.Builder).Reset",
		"(*bytes.Buffer).WriteString", "(*bytes.Buffer).WriteByte", "(*bytes.Buffer).WriteRune", "(*bytes.Buffer).Write":
		// write to the builder they are called on (argument 0)
		return stdInfo{Class: stdMutatesArg, MutArg: 0, CallsArg: -1, NoPanic: true}
	case "(*strings.Builder).String", "(*strings.Builder).Len", "(*bytes.Buffer).String", "(*bytes.Buffer).Len", "(*bytes.Buffer).Bytes":
		return stdInfo{Class: stdPure, MutArg: -1, CallsArg: -1, NoPanic: true}
	}
	if name == "(*sync.Once).Do" {
		return stdInfo{Class: stdPure, MutArg: -1, CallsArg: 1, NoPanic: true} // runs the callback at most once; thread-safe by contract
	}
	if pkg == "slices" {
		fnName := fn.Name()
		if o := fn.Origin(); o != nil {
			fnName = o.Name()
		}
		switch {
		case strings.HasPrefix(fnName, "Sort"), fnName == "Reverse":
			return stdInfo{Class: stdMutatesArg, MutArg: 0, CallsArg: -1}
		case fnName == "Grow":
			// reserves capacity, leaves the elements alone; panics only for a negative count, which engine-2 is
			// given as a bounds obligation at the call
			return stdInfo{Class: stdPure, MutArg: -1, CallsArg: -1, NoPanic: true}
		case fnName == "Compact", fnName == "CompactFunc", fnName == "Delete", fnName == "DeleteFunc", fnName == "Insert", fnName == "Replace", fnName == "Clip":
			return stdInfo{Class: stdMutatesArg, MutArg: 0, CallsArg: -1}
		case fnName == "Contains", fnName == "ContainsFunc", fnName == "Index", fnName == "IndexFunc", fnName == "Equal", fnName == "EqualFunc",
			fnName == "BinarySearch", fnName == "BinarySearchFunc", fnName == "IsSorted", fnName == "IsSortedFunc", fnName == "Compare", fnName == "CompareFunc":
			return stdInfo{Class: stdPure, MutArg: -1, CallsArg: -1, NoPanic: true}
		case fnName == "Max", fnName == "Min":
			return stdInfo{Class: stdPure, MutArg: -1, CallsArg: -1}
		case fnName == "Clone", fnName == "Concat":
			return stdInfo{Class: stdPure, MutArg: -1, Fresh: true, CallsArg: -1}
		}
		return si
	}
	if forbiddenPackages[pkg] {
		si.Class = stdForbidden
		return si
	}
	if pkg == "fmt" {
		// Print*, Fprint*, Scan* …
		si.Class = stdForbidden
		return si
	}
	if purePackages[pkg] {
		si.Class = stdPure
		switch name {
		case "strings.EqualFold", "strings.HasPrefix", "strings.HasSuffix", "strings.ToLower", "strings.ToUpper", "strings.TrimPrefix", "strings.TrimSuffix",
			"strings.TrimSpace", "strings.Contains", "strings.Index", "strings.Compare", "strings.Fields", "strings.Split", "strings.Join", "strings.Trim",
			"strings.ContainsAny", "strings.ContainsRune", "strings.IndexByte", "strings.LastIndex", "strings.Title", "strings.Replace", "strings.ReplaceAll",
			"strings.TrimLeft", "strings.TrimRight", "strings.Cut", "strings.CutPrefix", "strings.CutSuffix", "strings.Count",
			"regexp.Compile", "(*regexp.Regexp).FindStringIndex", "(*regexp.Regexp).MatchString", "(*regexp.Regexp).FindString", "regexp.MatchString", "regexp.QuoteMeta",
			"unicode.IsSpace", "unicode.IsLetter", "unicode.IsDigit", "unicode.ToLower", "unicode.ToUpper", "unicode.IsUpper", "unicode.IsLower",
			"strconv.Itoa", "strconv.Atoi", "strconv.Quote", "errors.Is", "errors.Unwrap":
			si.NoPanic = true
		}
		if pkg == "cmp" {
			si.NoPanic = true // Compare, Less, Or on ordered values
		}
		switch name {
		case "strings.Fields", "strings.Split", "strings.SplitN", "regexp.Compile", "(*regexp.Regexp).FindStringIndex", "(*regexp.Regexp).FindStringSubmatch", "(*regexp.Regexp).FindAllString":
			si.Fresh = true
		}
		return si
	}
	return si
}

// refType reports whether values of type t can alias mutable memory (slice, map, pointer, chan, func,
// interface, or aggregates of those). Strings are immutable.
func refType(t types.Type) bool {
	return refTypeRec(t, 0)
}

func refTypeRec(t types.Type, d int) bool {
	if d > 6 {
		return true
	}
	switch u := t.Underlying().(type) {
	case *types.Basic:
		return u.Kind() == types.UnsafePointer
	case *types.Slice, *types.Map, *types.Pointer, *types.Chan, *types.Signature, *types.Interface:
		return true
	case *types.Array:
		return refTypeRec(u.Elem(), d+1)
	case *types.Struct:
		for i := 0; i < u.NumFields(); i++ {
			if refTypeRec(u.Field(i).Type(), d+1) {
				return true
			}
		}
		return false
	case *types.Tuple:
		for i := 0; i < u.Len(); i++ {
			if refTypeRec(u.At(i).Type(), d+1) {
				return true
			}
		}
		return false
	}
	return true
}

// ---------------------------------------------------------------------------------------------
// field mod-sets

type fieldKey struct {
	Struct string // named struct type (qualified)
	Field  string
}

func (k fieldKey) String() string { return k.Struct + "." + k.Field }

func fieldOf(fa *ssa.FieldAddr) fieldKey {
	pt := fa.X.Type().Underlying().(*types.Pointer)
	st := pt.Elem().Underlying().(*types.Struct)
	name := pt.Elem().String()
	return fieldKey{Struct: name, Field: st.Field(fa.Field).Name()}
}

type Effects struct {
	p *Prog
	// direct field writes per function; transitive closure over static in-module callees + closures
	direct map[*ssa.Function]map[fieldKey]bool
	trans  map[*ssa.Function]map[fieldKey]bool
	// element writes (IndexAddr stores) by element type string
	directElem map[*ssa.Function]map[string]bool
	transElem  map[*ssa.Function]map[string]bool
}

func (p *Prog) Effects() *Effects {
	e := &Effects{p: p, direct: map[*ssa.Function]map[fieldKey]bool{}, trans: map[*ssa.Function]map[fieldKey]bool{},
		directElem: map[*ssa.Function]map[string]bool{}, transElem: map[*ssa.Function]map[string]bool{}}
	callees := map[*ssa.Function][]*ssa.Function{}
	var all []*ssa.Function
	for _, pk := range p.Pkgs {
		all = append(all, p.AllModuleFuncs(pk)...)
	}
	for _, f := range all {
		d := map[fieldKey]bool{}
		de := map[string]bool{}
		for _, b := range f.Blocks {
			for _, in := range b.Instrs {
				switch in := in.(type) {
				case *ssa.Store:
					switch a := in.Addr.(type) {
					case *ssa.FieldAddr:
						d[fieldOf(a)] = true
					case *ssa.IndexAddr:
						de[a.Type().Underlying().(*types.Pointer).Elem().String()] = true
					}
				case ssa.CallInstruction:
					if c := in.Common().StaticCallee(); c != nil && p.InModule(c) {
						callees[f] = append(callees[f], c)
					}
					for _, a := range in.Common().Args {
						if mc, ok := a.(*ssa.MakeClosure); ok {
							callees[f] = append(callees[f], mc.Fn.(*ssa.Function))
						}
					}
					if c := in.Common().StaticCallee(); c != nil {
						si := classifyStd(c)
						if !p.InModule(c) && si.Class == stdMutatesArg && si.MutArg < len(in.Common().Args) {
							if s, ok := in.Common().Args[si.MutArg].Type().Underlying().(*types.Slice); ok {
								de[s.Elem().String()] = true
							}
						}
					}
				}
			}
		}
		e.direct[f] = d
		e.directElem[f] = de
	}
	// transitive closure
	for _, f := range all {
		t := map[fieldKey]bool{}
		te := map[string]bool{}
		seen := map[*ssa.Function]bool{}
		var walk func(g *ssa.Function)
		walk = func(g *ssa.Function) {
			if seen[g] {
				return
			}
			seen[g] = true
			for k := range e.direct[g] {
				t[k] = true
			}
			for k := range e.directElem[g] {
				te[k] = true
			}
			for _, c := range callees[g] {
				walk(c)
			}
		}
		walk(f)
		e.trans[f] = t
		e.transElem[f] = te
	}
	return e
}

// MayWriteField: can a call to fn write field k of some object?
func (e *Effects) MayWriteField(fn *ssa.Function, k fieldKey) bool {
	if t, ok := e.trans[fn]; ok {
		return t[k]
	}
	return true
}

// ---------------------------------------------------------------------------------------------
// taint of caller-owned memory

type taintSink struct {
	Pos    token.Pos
	Fn     *ssa.Function
	What   string
	Undec  bool
	Source string
}

type taintResult struct {
	Roots   []string
	Sinks   []taintSink
	Visited int
	Params  map[*ssa.Parameter]bool
}

// TaintArgs propagates "memory owned by the caller" from the reference-typed parameters of the API
// roots and reports every instruction that may write it or let it escape.
func (p *Prog) TaintArgs() *taintResult {
	res := &taintResult{Params: map[*ssa.Parameter]bool{}}
	tainted := map[ssa.Value]string{}
	var work []ssa.Value
	add := func(v ssa.Value, src string) {
		if v == nil {
			return
		}
		if _, ok := tainted[v]; ok {
			return
		}
		tainted[v] = src
		work = append(work, v)
	}
	for _, r := range p.Roots {
		for _, prm := range r.Params {
			if refType(prm.Type()) {
				src := p.shortKey(r) + ":" + prm.Name()
				res.Roots = append(res.Roots, src)
				res.Params[prm] = true
				add(prm, src)
			}
		}
	}
	sort.Strings(res.Roots)
	sink := func(in ssa.Instruction, what string, undec bool, src string) {
		res.Sinks = append(res.Sinks, taintSink{Pos: in.Pos(), Fn: in.Parent(), What: what, Undec: undec, Source: src})
	}
	// functions returning tainted values: propagate to their call sites
	retTainted := map[*ssa.Function]string{}
	callSitesOf := func(fn *ssa.Function) []ssa.CallInstruction {
		var out []ssa.CallInstruction
		for _, g := range p.RList {
			for _, b := range g.Blocks {
				for _, in := range b.Instrs {
					if ci, ok := in.(ssa.CallInstruction); ok && ci.Common().StaticCallee() == fn {
						out = append(out, ci)
					}
				}
			}
		}
		return out
	}
	for len(work) > 0 {
		v := work[len(work)-1]
		work = work[:len(work)-1]
		src := tainted[v]
		res.Visited++
		refs := v.Referrers()
		if refs == nil {
			continue
		}
		for _, in := range *refs {
			switch in := in.(type) {
			case *ssa.Slice, *ssa.IndexAddr, *ssa.FieldAddr, *ssa.Phi, *ssa.ChangeType, *ssa.Convert, *ssa.MakeInterface, *ssa.SliceToArrayPointer, *ssa.Field, *ssa.Index:
				val := in.(ssa.Value)
				if _, isAddr := in.(*ssa.IndexAddr); isAddr || refType(val.Type()) {
					add(val, src)
				}
			case *ssa.UnOp:
				if in.Op == token.MUL && refType(in.Type()) {
					add(in, src)
				}
			case *ssa.Extract:
				if refType(in.Type()) {
					add(in, src)
				}
			case *ssa.Store:
				if in.Addr == v {
					sink(in, "store through memory owned by the caller", false, src)
				} else if in.Val == v {
					// storing a caller-owned reference somewhere: fine into a non-escaping local, else it escapes
					if al, ok := in.Addr.(*ssa.Alloc); ok && !al.Heap {
						for _, r2 := range *al.Referrers() {
							if ld, ok := r2.(*ssa.UnOp); ok && ld.Op == token.MUL {
								add(ld, src)
							}
						}
					} else {
						sink(in, "reference to caller-owned memory stored into the heap (may be written or retained later)", true, src)
					}
				}
			case *ssa.MapUpdate:
				if in.Map == v {
					sink(in, "map owned by the caller updated", false, src)
				} else {
					sink(in, "caller-owned reference stored into a map", true, src)
				}
			case *ssa.Return:
				fn := in.Parent()
				if _, done := retTainted[fn]; !done {
					retTainted[fn] = src
					isRoot := false
					for _, r := range p.Roots {
						if r == fn {
							isRoot = true
						}
					}
					if isRoot {
						sink(in, "API result aliases memory owned by the caller", false, src)
					}
					for _, cs := range callSitesOf(fn) {
						if val, ok := cs.(ssa.Value); ok {
							add(val, src)
						}
					}
				}
			case *ssa.MakeClosure:
				fn := in.Fn.(*ssa.Function)
				for i, b := range in.Bindings {
					if b == v && i < len(fn.FreeVars) {
						add(fn.FreeVars[i], src)
					}
				}
			case *ssa.Send:
				sink(in, "caller-owned reference sent on a channel", true, src)
			case ssa.CallInstruction:
				com := in.Common()
				if b, ok := com.Value.(*ssa.Builtin); ok {
					switch b.Name() {
					case "len", "cap", "min", "max":
					case "append":
						if com.Args[0] == v {
							sink(in, "append to a slice owned by the caller (writes its spare capacity)", false, src)
						}
						// as second argument: elements are copied out; result not tainted unless elements are references
						if len(com.Args) > 1 && com.Args[1] == v {
							if s, ok := v.Type().Underlying().(*types.Slice); ok && refType(s.Elem()) {
								if val, ok := in.(ssa.Value); ok {
									add(val, src)
								}
							}
						}
					case "copy":
						if com.Args[0] == v {
							sink(in, "copy into memory owned by the caller", false, src)
						}
					case "clear":
						sink(in, "clear of memory owned by the caller", false, src)
					case "delete":
						sink(in, "delete from a map owned by the caller", false, src)
					case "print", "println":
					default:
						sink(in, "builtin "+b.Name()+" on caller-owned memory", true, src)
					}
					continue
				}
				callee := com.StaticCallee()
				if callee == nil {
					sink(in, "caller-owned memory passed to a dynamic call", true, src)
					continue
				}
				argIdx := -1
				for i, a := range com.Args {
					if a == v {
						argIdx = i
					}
				}
				if argIdx < 0 {
					continue
				}
				if p.InModule(callee) {
					if argIdx < len(callee.Params) {
						add(callee.Params[argIdx], src)
					}
					continue
				}
				si := classifyStd(callee)
				switch si.Class {
				case stdPure:
					if val, ok := in.(ssa.Value); ok && refType(val.Type()) && !si.Fresh {
						add(val, src)
					}
				case stdMutatesArg:
					if si.MutArg == argIdx {
						sink(in, fmt.Sprintf("%s modifies its argument, which is memory owned by the caller", callee), false, src)
					}
				default:
					sink(in, fmt.Sprintf("caller-owned memory passed to %s, whose effects are not classified", callee), true, src)
				}
			}
		}
	}
	return res
}
