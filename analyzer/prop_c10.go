package main

import (
	"fmt"
	"sort"
	"strings"
)

func init() {
	register("C10", &propDef{
		Level:   "other",
		Explain: "Narrow: equivalence under Boolean rewriting is a relation over pairs of runtime trees; decided are the structural clauses whose failure produced the known asymmetries: X1 (a node kind handled under AND but not under OR), X2 (an alternative list truncated on one path only), X3 (alternatives sharing a backing array for one tree shape only), X4 (the verdict is one fixed quantified formula of the expansion, for every shape), P1 (redundant parentheses leave no trace; AND binds tighter than OR by construction), W1 (spacing cannot reach the parser) and sibling agreement: every dispatcher of the expansion hands each kind of node to the same callee family. Not decided: commutativity, associativity, idempotence, absorption and distribution as algebraic laws of appendTerms/mergeTerms/deepSort.",
		Run: func(p *Prog, r *Report) {
			eng := sharedEngine(p)
			rulesExpansion(p, r, eng)
			ruleX4(p, r, "X4")
			ruleP1(p, r, eng)
			ruleW1(p, r)
			r.Rule("SIB", "necessary", 3, "sibling agreement: all dispatchers of the expansion treat each kind of node alike — leaves are kept as they are, an OR node goes to the OR expansion, an AND node to the AND expansion")
			disp, _ := r.Extra["dispatch_by_case"].(map[string]map[string]string)
			var cases []string
			for c := range disp {
				cases = append(cases, c)
			}
			sort.Strings(cases)
			for _, c := range cases {
				byFn := disp[c]
				sets := map[string][]string{}
				for fn, callees := range byFn {
					sets[callees] = append(sets[callees], fn)
				}
				if len(sets) <= 1 {
					var d string
					for k := range sets {
						d = k
					}
					r.OK("SIB", c, "-", "same callee family", fmt.Sprintf("%d dispatchers → %s", len(byFn), d), true)
				} else {
					var parts []string
					for k, fns := range sets {
						sort.Strings(fns)
						parts = append(parts, fmt.Sprintf("%v → {%s}", fns, k))
					}
					sort.Strings(parts)
					r.Bad("SIB", c, "-", "dispatchers disagree on how a node with "+c+" is expanded: "+strings.Join(parts, " vs "))
				}
			}
		},
		Trusted: []string{"go/ssa lowering"},
	})
}
