package main

import (
	"fmt"
	"go/token"
	"go/types"
	"regexp"
	"strings"

	"golang.org/x/tools/go/ssa"
)

func init() {
	register("C15", &propDef{
		Level:   "other",
		Explain: "Decided: where reported offsets come from and whether the text they index can differ from the caller's string. O1 every offset-bearing message (constant format containing 'offset %d') prints the scanner's position in the caller's string: the cursor plus the compensation field, with no other arithmetic; O2 buffer stability: the scan buffer is either never rewritten, or every rewrite adds exactly len(old) - len(new) to the compensation field in the same block; O3 the lexeme cited by a message is the text read from the position that is restored before the message is built; O4 the position lies in the string: 0 <= cursor <= len(buffer) and compensation >= 0 are inductive (Houdini-checked linear invariants). O5 text identity: the buffer is initialised with the caller's own string, handed down unchanged on every call chain from the API; O6 error origin: every error an API function returns was constructed in this call (nil or errors.New/fmt.Errorf), never read back from package-level state or a container. Not decided: nothing arithmetic beyond these linear facts is needed once O2 holds.",
		Run:     rulesC15,
		Trusted: []string{"go/ssa lowering", "fmt.Sprintf prints its operands in order"},
	})
}

var offsetFmt = regexp.MustCompile(`offset %d`)

func rulesC15(p *Prog, r *Report) {
	r.Rule("O1", "necessary", 3, "offset provenance: each reported offset is cursor + compensation of the scanning stream, nothing else")
	r.Rule("O2", "necessary", 1, "buffer stability: the scan buffer is never rewritten, or every rewrite books exactly the number of removed bytes into the compensation field")
	r.Rule("O3", "necessary", 1, "lexeme/offset pairing: the cited lexeme was read from the position the cursor is restored to before the message is built")
	r.Rule("O4", "necessary", 2, "the reported position lies inside the caller's string: the cursor invariant and non-negative compensation are inductive")
	eng := sharedEngine(p)
	es := p.ExpPkg.Types.Scope().Lookup("expressionStream")
	if es == nil {
		r.Unknown("O1", "anchor", "-", "unresolved anchor: type expressionStream")
		return
	}
	esT := es.Type().(*types.Named)
	bp := newBoundsProver(p, eng)
	bp.houdiniGlobal(p.RList)

	// which field is the buffer, which the cursor: from the surviving invariant f <= len(g)
	var cursor, buffer string
	for _, c := range bp.invCandidates(esT) {
		if c.G != "" && c.GIsStr && bp.cand[c.key()] && cursorOf(p, c) {
			cursor, buffer = c.F, c.G
		}
	}
	if cursor == "" {
		r.Bad("O4", "cursor invariant", "-", "no inductive invariant 'cursor <= len(buffer)' holds for expressionStream: offsets can point outside the string")
		return
	}
	r.OK("O4", "cursor invariant", "-", fmt.Sprintf("0 <= %s <= len(%s) inductive", cursor, buffer), "", true)

	// O2: mutation stores to the buffer
	var comp string // compensation field
	nRewrites := 0
	okO2 := true
	for _, f := range p.RList {
		fb := bp.forFn(f)
		for _, b := range f.Blocks {
			for _, in := range b.Instrs {
				st, ok := in.(*ssa.Store)
				if !ok {
					continue
				}
				fa, ok := st.Addr.(*ssa.FieldAddr)
				if !ok || fieldOf(fa).Struct != esT.String() || fieldOf(fa).Field != buffer || baseIsLocalAlloc(fa.X, 0) {
					continue
				}
				nRewrites++
				key := fmt.Sprintf("%s|rewrite of %s", p.shortKey(f), buffer)
				// a store in the same block to an int field c with  new_c = old_c + len(old buffer) - len(new buffer)
				found := false
				for _, in2 := range b.Instrs {
					st2, ok := in2.(*ssa.Store)
					if !ok || !isIntType(st2.Val.Type()) {
						continue
					}
					fa2, ok := st2.Addr.(*ssa.FieldAddr)
					if !ok || fa2.X != fa.X || fieldOf(fa2).Field == cursor {
						continue
					}
					nv, ok1 := fb.linOf(st2.Val, st2, 0)
					if !ok1 {
						continue
					}
					cls := "fld:" + fieldOf(fa2).String()
					old := linVar(fmt.Sprintf("mem(%s.%s@%s)", fb.vid(fa.X, st2), fieldOf(fa2).Field, fb.versionAt(cls, st2)))
					clsB := "fld:" + esT.String() + "." + buffer
					oldLen := linVar("len:" + fmt.Sprintf("mem(%s.%s@%s)", fb.vid(fa.X, st), buffer, fb.versionAt(clsB, st)))
					want := old.add(oldLen).sub(fb.lenOf(st.Val, st, 0))
					facts := fb.factsBefore(st2)
					g1, g2 := geq(nv, want, "booked ≥ removed"), geq(want, nv, "booked ≤ removed")
					if entails(addLenNonNeg(facts, g1), g1) && entails(addLenNonNeg(facts, g2), g2) {
						found = true
						comp = fieldOf(fa2).Field
					}
				}
				if found {
					r.OK("O2", key, p.pos(st.Pos()), fmt.Sprintf("%s += len(old) - len(new) in the same block", comp), "", true)
				} else {
					okO2 = false
					r.Bad("O2", key, p.pos(st.Pos()), "the scan buffer is rewritten without booking the number of removed bytes: every later offset is relative to the rewritten buffer, not to the caller's string")
				}
			}
		}
	}
	if nRewrites == 0 {
		r.OK("O2", "buffer write-once", "-", "the scan buffer is never rewritten", "", true)
	}
	if comp != "" {
		c := invField{T: esT, F: comp}
		if bp.cand[c.key()] {
			r.OK("O4", "compensation >= 0", "-", "inductive", "", true)
		} else {
			why := ""
			for _, l := range bp.log {
				if strings.Contains(l, c.key()) {
					why = shortVars(l)
				}
			}
			r.Bad("O4", "compensation >= 0", "-", "the compensation can become negative: "+why)
		}
	}

	// O1
	n := 0
	sites, _ := messageSites(p, p.RList)
	{
		for _, site := range sites {
			{
				c, f := site.Call, site.Fn
				fb := bp.forFn(f)
				format := site.Format
				if !offsetFmt.MatchString(format) {
					continue
				}
				n++
				key := fmt.Sprintf("%s|%q", p.shortKey(f), format)
				ops := site.Ops
				// which operand feeds the %d after "offset"
				idx := verbIndex(format, "offset %d")
				if idx < 0 || idx >= len(ops) {
					r.Unknown("O1", key, p.pos(c.Pos()), "kind=undecided: operands of the message not recognised")
					continue
				}
				val := ops[idx]
				// expected: cursor@now (+ comp@now)
				want := linVar(fmt.Sprintf("mem(%s.%s@%s)", fb.vid(f.Params[0], c), cursor, fb.versionAt("fld:"+esT.String()+"."+cursor, c)))
				if comp != "" {
					want = want.add(linVar(fmt.Sprintf("mem(%s.%s@%s)", fb.vid(f.Params[0], c), comp, fb.versionAt("fld:"+esT.String()+"."+comp, c))))
				}
				got, okG := offsetLin(bp, fb, val, c)
				if !okG {
					r.Unknown("O1", key, p.pos(c.Pos()), "kind=undecided: the reported offset is not a linear expression of the stream's fields")
					continue
				}
				d := got.sub(want)
				if d.isConst() && d.k.Sign() == 0 && okO2 {
					r.OK("O1", key, p.pos(c.Pos()), "offset = cursor + compensation at the time the message is built", got.String(), true)
				} else if d.isConst() && d.k.Sign() == 0 {
					r.Bad("O1", key, p.pos(c.Pos()), "the offset is the raw cursor while the buffer may have been rewritten (see O2)")
				} else {
					r.Bad("O1", key, p.pos(c.Pos()), fmt.Sprintf("the reported offset is %s, not the scanner's position in the caller's string (%s)", shortVars(got.String()), shortVars(want.String())))
				}
				// O3: a cited lexeme
				if li := verbIndex(format, "'%s'"); li >= 0 && li < len(ops) {
					checkLexeme(p, r, bp, fb, f, c, ops[li], cursor, esT)
				}
			}
		}
	}
	// messages completed by an offset appender (problem + " at offset " + Itoa(position)): the position is
	// judged where it is rendered, the lexeme where the caller builds its part of the text
	for _, app := range offsetAppenders(p) {
		f := app.Fn
		if !p.R[f] || len(f.Params) == 0 {
			continue
		}
		if pt, ok := f.Params[0].Type().Underlying().(*types.Pointer); !ok || !types.Identical(pt.Elem(), esT) {
			continue
		}
		n++
		fb := bp.forFn(f)
		key := fmt.Sprintf("%s|%q", p.shortKey(f), "… at offset <n>")
		want := linVar(fmt.Sprintf("mem(%s.%s@%s)", fb.vid(f.Params[0], app.At), cursor, fb.versionAt("fld:"+esT.String()+"."+cursor, app.At)))
		if comp != "" {
			want = want.add(linVar(fmt.Sprintf("mem(%s.%s@%s)", fb.vid(f.Params[0], app.At), comp, fb.versionAt("fld:"+esT.String()+"."+comp, app.At))))
		}
		got, okG := offsetLin(bp, fb, app.Off, app.At)
		switch {
		case !okG:
			r.Unknown("O1", key, p.pos(app.At.Pos()), "kind=undecided: the reported offset is not a linear expression of the stream's fields")
		case got.sub(want).isConst() && got.sub(want).k.Sign() == 0 && okO2:
			r.OK("O1", key, p.pos(app.At.Pos()), "offset = cursor + compensation at the time the message is completed", got.String(), true)
		case got.sub(want).isConst() && got.sub(want).k.Sign() == 0:
			r.Bad("O1", key, p.pos(app.At.Pos()), "the offset is the raw cursor while the buffer may have been rewritten (see O2)")
		default:
			r.Bad("O1", key, p.pos(app.At.Pos()), fmt.Sprintf("the reported offset is %s, not the scanner's position in the caller's string (%s)", shortVars(got.String()), shortVars(want.String())))
		}
		// every call site completes a message: they count as messages, and a quoted lexeme is checked there
		if app.Prefix < 0 {
			continue
		}
		for _, g := range p.RList {
			gfb := bp.forFn(g)
			for _, b := range g.Blocks {
				for _, in := range b.Instrs {
					c, ok := in.(*ssa.Call)
					if !ok || c.Call.StaticCallee() != f || app.Prefix >= len(c.Call.Args) {
						continue
					}
					n++
					r.OK("O1", fmt.Sprintf("%s|message via %s", p.shortKey(g), f.Name()), p.pos(c.Pos()), "position appended by "+f.Name()+" from the same stream", "", false)
					if c.Call.Args[0] != ssa.Value(g.Params[0]) {
						r.Bad("O1", fmt.Sprintf("%s|message via %s|stream", p.shortKey(g), f.Name()), p.pos(c.Pos()), "the position is taken from a different stream than the one being scanned")
					}
					if lex := lexemeOperand(c.Call.Args[app.Prefix]); lex != nil {
						checkLexeme(p, r, bp, gfb, g, c, lex, cursor, esT)
					}
				}
			}
		}
	}
	if n == 0 {
		r.Unknown("O1", "messages", "-", "kind=undecided: no offset-bearing message found")
	}
	rulesC15b(p, r, esT, buffer)
}

// sprintfOperands: the values boxed into the variadic slice of a Sprintf call, in order.
func sprintfOperands(c *ssa.Call) []ssa.Value {
	if len(c.Call.Args) < 2 {
		return nil
	}
	sl, ok := c.Call.Args[1].(*ssa.Slice)
	if !ok {
		return nil
	}
	al, ok := sl.X.(*ssa.Alloc)
	if !ok {
		return nil
	}
	n := int(al.Type().Underlying().(*types.Pointer).Elem().Underlying().(*types.Array).Len())
	out := make([]ssa.Value, n)
	for _, r := range *al.Referrers() {
		ia, ok := r.(*ssa.IndexAddr)
		if !ok {
			continue
		}
		k, ok := ia.Index.(*ssa.Const)
		if !ok {
			continue
		}
		for _, rr := range *ia.Referrers() {
			if st, ok := rr.(*ssa.Store); ok && st.Addr == ssa.Value(ia) {
				v := st.Val
				if mi, ok := v.(*ssa.MakeInterface); ok {
					v = mi.X
				}
				out[int(k.Int64())] = v
			}
		}
	}
	return out
}

// verbIndex: index of the operand consumed by the verb inside the given fragment of the format.
func verbIndex(format, fragment string) int {
	pos := strings.Index(format, fragment)
	if pos < 0 {
		return -1
	}
	upto := format[:pos+strings.Index(fragment, "%")]
	n := 0
	for i := 0; i+1 < len(upto); i++ {
		if upto[i] == '%' {
			if upto[i+1] == '%' {
				i++
				continue
			}
			n++
		}
	}
	return n
}

// offsetLin: linear form of an offset operand; calls to single-block int methods of the stream are
// expanded through their summaries.
func offsetLin(bp *boundsProver, fb *fnBounds, v ssa.Value, at ssa.Instruction) (lin, bool) {
	if c, ok := v.(*ssa.Call); ok && c.Call.StaticCallee() != nil && bp.p.InModule(c.Call.StaticCallee()) {
		callee := c.Call.StaticCallee()
		if len(callee.Blocks) == 1 {
			if ret, ok := callee.Blocks[0].Instrs[len(callee.Blocks[0].Instrs)-1].(*ssa.Return); ok && len(ret.Results) == 1 {
				cfb := bp.forFn(callee)
				if l, ok := cfb.linOf(ret.Results[0], ret, 0); ok {
					return fb.renameCallee(l, callee, c, false)
				}
			}
		}
		return lin{}, false
	}
	return fb.linOf(v, at, 0)
}

// checkLexeme: the lexeme cited next to the offset was read starting at the reported position.
func checkLexeme(p *Prog, r *Report, bp *boundsProver, fb *fnBounds, f *ssa.Function, msg *ssa.Call, lex ssa.Value, cursor string, esT *types.Named) {
	key := fmt.Sprintf("%s|lexeme", p.shortKey(f))
	// lexeme = result of a call R(recv) (the reader); the cursor at message time equals the cursor
	// before R was called
	rc, ok := lex.(*ssa.Call)
	if !ok || rc.Call.StaticCallee() == nil || !p.InModule(rc.Call.StaticCallee()) {
		r.Bad("O3", key, p.pos(msg.Pos()), "the cited lexeme is not the result of a read from the stream")
		return
	}
	cls := "fld:" + esT.String() + "." + cursor
	before := linVar(fmt.Sprintf("mem(%s.%s@%s)", fb.vid(f.Params[0], rc), cursor, fb.versionAt(cls, rc)))
	now := linVar(fmt.Sprintf("mem(%s.%s@%s)", fb.vid(f.Params[0], msg), cursor, fb.versionAt(cls, msg)))
	facts := fb.factsBefore(msg)
	g1, g2 := geq(now, before, "restored"), geq(before, now, "restored")
	// the buffer must not have been rewritten between the read and the message
	clsB := "fld:" + esT.String()
	_ = clsB
	if entails(addLenNonNeg(facts, g1), g1) && entails(addLenNonNeg(facts, g2), g2) {
		r.OK("O3", key, p.pos(msg.Pos()), "cursor at message time = cursor before the lexeme was read", "", true)
	} else {
		r.Bad("O3", key, p.pos(msg.Pos()), "the cursor reported with the lexeme is not the position the lexeme was read from (it is not restored before the message is built)")
	}
	_ = token.ADD
}
