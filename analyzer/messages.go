package main

import (
	"go/constant"
	"go/token"
	"go/types"
	"strings"

	"golang.org/x/tools/go/ssa"
)

// A message site is a place where a formatted message is built with a constant format: a direct call
// of fmt.Sprintf / fmt.Errorf, or a call of an in-module wrapper that hands its own format parameter and
// its own variadic parameter on to one of them (func (s *T) failf(format string, args ...any)).
type msgSite struct {
	Call   *ssa.Call
	Fn     *ssa.Function // function containing the call
	Format string
	Ops    []ssa.Value   // operands, interface conversions stripped
	Via    *ssa.Function // wrapper, or nil
}

type fmtWrapper struct {
	fn      *ssa.Function
	fmtIdx  int // index of the format parameter in fn.Params
	argsIdx int // index of the variadic parameter
}

// formatWrappers: in-module functions of the form f(..., format string, args ...any) that call
// Sprintf/Errorf(format, args...) with exactly these two parameters.
func formatWrappers(p *Prog) map[*ssa.Function]*fmtWrapper {
	out := map[*ssa.Function]*fmtWrapper{}
	for _, pk := range p.Pkgs {
		for _, f := range p.AllModuleFuncs(pk) {
			if !f.Signature.Variadic() || len(f.Params) < 2 {
				continue
			}
			for _, b := range f.Blocks {
				for _, in := range b.Instrs {
					c, ok := in.(*ssa.Call)
					if !ok || c.Call.StaticCallee() == nil {
						continue
					}
					n := c.Call.StaticCallee().String()
					if n != "fmt.Sprintf" && n != "fmt.Errorf" || len(c.Call.Args) != 2 {
						continue
					}
					fi, ai := -1, -1
					for i, prm := range f.Params {
						if c.Call.Args[0] == ssa.Value(prm) {
							fi = i
						}
						if c.Call.Args[1] == ssa.Value(prm) {
							ai = i
						}
					}
					if fi >= 0 && ai == len(f.Params)-1 {
						out[f] = &fmtWrapper{f, fi, ai}
					}
				}
			}
		}
	}
	return out
}

func constStringOf(v ssa.Value) (string, bool) {
	c, ok := v.(*ssa.Const)
	if !ok || c.Value == nil || c.Value.Kind() != constant.String {
		return "", false
	}
	return constant.StringVal(c.Value), true
}

// variadicOperands: the values packed into the variadic slice argument v (a slice of a local array
// filled by constant-index stores), or nil for a nil/empty slice.
func variadicOperands(v ssa.Value) []ssa.Value {
	sl, ok := v.(*ssa.Slice)
	if !ok {
		return nil
	}
	al, ok := sl.X.(*ssa.Alloc)
	if !ok {
		return nil
	}
	arr, ok := al.Type().Underlying().(*types.Pointer).Elem().Underlying().(*types.Array)
	if !ok {
		return nil
	}
	out := make([]ssa.Value, int(arr.Len()))
	for _, r := range *al.Referrers() {
		ia, ok := r.(*ssa.IndexAddr)
		if !ok {
			continue
		}
		k, ok := ia.Index.(*ssa.Const)
		if !ok {
			continue
		}
		for _, rr := range *ia.Referrers() {
			if st, ok := rr.(*ssa.Store); ok && st.Addr == ssa.Value(ia) {
				x := st.Val
				if mi, ok := x.(*ssa.MakeInterface); ok {
					x = mi.X
				}
				out[int(k.Int64())] = x
			}
		}
	}
	return out
}

// messageSites lists every message site in the given functions; nonConst receives the format-taking
// calls whose format is neither a constant nor a wrapper's own format parameter.
func messageSites(p *Prog, fns []*ssa.Function) (sites []msgSite, nonConst []*ssa.Call) {
	wr := formatWrappers(p)
	for _, f := range fns {
		for _, b := range f.Blocks {
			for _, in := range b.Instrs {
				c, ok := in.(*ssa.Call)
				if !ok || c.Call.StaticCallee() == nil {
					continue
				}
				callee := c.Call.StaticCallee()
				switch n := callee.String(); {
				case n == "fmt.Sprintf" || n == "fmt.Errorf":
					if s, ok := constStringOf(c.Call.Args[0]); ok {
						sites = append(sites, msgSite{c, f, s, variadicOperands(c.Call.Args[1]), nil})
					} else if w := wr[f]; w != nil && c.Call.Args[0] == ssa.Value(f.Params[w.fmtIdx]) {
						// the wrapper's own forwarding call: judged at the wrapper's call sites
					} else {
						nonConst = append(nonConst, c)
					}
				default:
					if w := wr[callee]; w != nil && w.argsIdx < len(c.Call.Args) {
						if s, ok := constStringOf(c.Call.Args[w.fmtIdx]); ok {
							sites = append(sites, msgSite{c, f, s, variadicOperands(c.Call.Args[w.argsIdx]), callee})
						} else {
							nonConst = append(nonConst, c)
						}
					}
				}
			}
		}
	}
	return
}

// An offset appender is an in-module function that completes a message with a position:
//
//	func (s *T) errorAt(problem string) error { return errors.New(problem + " at offset " + strconv.Itoa(s.offset())) }
//
// i.e. a string concatenation in which a constant that ends in "offset " is directly followed by the
// decimal rendering of an integer. Prefix is the parameter that carries the caller's part of the text.
type offsetAppender struct {
	Fn     *ssa.Function
	Prefix int       // index of the string parameter the text starts with, -1 if none
	Off    ssa.Value // the integer that is rendered
	At     *ssa.Call // the rendering call (strconv.Itoa / fmt.Sprint)
}

func offsetAppenders(p *Prog) []*offsetAppender {
	var out []*offsetAppender
	for _, pk := range p.Pkgs {
		for _, f := range p.AllModuleFuncs(pk) {
			if p.isTestPos(f.Pos()) {
				continue
			}
			for _, b := range f.Blocks {
				for _, in := range b.Instrs {
					bo, ok := in.(*ssa.BinOp)
					if !ok || bo.Op != token.ADD || !isStringType(bo.Type()) {
						continue
					}
					// bo = (… + CONST) + render(V)
					rc, ok := bo.Y.(*ssa.Call)
					if !ok || rc.Call.StaticCallee() == nil || len(rc.Call.Args) != 1 {
						continue
					}
					switch rc.Call.StaticCallee().String() {
					case "strconv.Itoa":
					default:
						continue
					}
					left, ok := bo.X.(*ssa.BinOp)
					var k string
					if ok && left.Op == token.ADD {
						k, _ = constStringOf(left.Y)
					} else {
						k, _ = constStringOf(bo.X)
					}
					if !strings.HasSuffix(k, "offset ") {
						continue
					}
					app := &offsetAppender{Fn: f, Prefix: -1, Off: rc.Call.Args[0], At: rc}
					if left != nil {
						// the leftmost leaf of the concatenation
						leaf := left.X
						for {
							l2, ok := leaf.(*ssa.BinOp)
							if !ok || l2.Op != token.ADD {
								break
							}
							leaf = l2.X
						}
						for i, prm := range f.Params {
							if leaf == ssa.Value(prm) {
								app.Prefix = i
							}
						}
					}
					out = append(out, app)
				}
			}
		}
	}
	return out
}

// lexemeOperand: the value quoted by '…' in a message prefix built at a call site: the %s operand of a
// constant Sprintf format containing '%s', or X in "…'" + X + "'…".
func lexemeOperand(v ssa.Value) ssa.Value {
	switch t := v.(type) {
	case *ssa.Call:
		if c := t.Call.StaticCallee(); c != nil && (c.String() == "fmt.Sprintf") && len(t.Call.Args) == 2 {
			if f, ok := constStringOf(t.Call.Args[0]); ok {
				ops := variadicOperands(t.Call.Args[1])
				if i := verbIndex(f, "'%s'"); i >= 0 && i < len(ops) {
					return ops[i]
				}
			}
		}
	case *ssa.BinOp:
		if t.Op != token.ADD {
			return nil
		}
		// (A + X) + B with A ending in ' and B starting with '
		if l, ok := t.X.(*ssa.BinOp); ok && l.Op == token.ADD {
			a, okA := constStringOf(l.X)
			b, okB := constStringOf(t.Y)
			if okA && okB && strings.HasSuffix(a, "'") && strings.HasPrefix(b, "'") {
				return l.Y
			}
		}
	}
	return nil
}
