package main

func init() {
	register("C11", &propDef{
		Level: "other",
		Explain: "",
		Run: func(p *Prog, r *Report) {
			t, err := p.LoadTables()
			r.Rule("A1", "exact", 4, "the four data tables are compile-time constants the checker can evaluate from the SSA of their getter functions")
			if err != nil {
				r.Unknown("A1", "tables", "-", err.Error())
				return
			}
			r.OK("A1", "GetLicenses", "-", "evaluated", "", true)
			r.OK("A1", "GetDeprecated", "-", "evaluated", "", true)
			r.OK("A1", "GetExceptions", "-", "evaluated", "", true)
			r.OK("A1", "LicenseRanges", "-", "evaluated", "", true)
			rulesRangeTable(p, r, t)
		},
	})
}
