package main

func init() {
	register("C11", &propDef{
		Level:   "other",
		Explain: "Table clause decided exhaustively and exactly on the constant tables extracted (A1) from the compiled getters on every run: T1 every range entry is a listed id in list spelling, T2 at exactly one position, T3 family shape and strictly ascending natural version order, T4 completeness for every covered (prefix, variant) signature. Code clause by structural rules T5-T8 (positions are the loop indices, first match returns, family gate dominates every version comparison, direction of the + cell, tables rebuilt per call). Nothing is executed.",
		Run: func(p *Prog, r *Report) {
			t, err := p.LoadTables()
			r.Rule("A1", "exact", 4, "the four data tables are compile-time constants the checker can evaluate from the SSA of their getter functions")
			if err != nil {
				r.Unknown("A1", "tables", "-", err.Error())
				return
			}
			r.OK("A1", "GetLicenses", "-", "evaluated", "", true)
			r.OK("A1", "GetDeprecated", "-", "evaluated", "", true)
			r.OK("A1", "GetExceptions", "-", "evaluated", "", true)
			r.OK("A1", "LicenseRanges", "-", "evaluated", "", true)
			rulesRangeTable(p, r, t)
		},
	})
}
