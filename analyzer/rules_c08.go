package main

import (
	"fmt"
	"go/token"
	"go/types"
	"os"
	"regexp"
	"sort"
	"strconv"
	"strings"

	"golang.org/x/tools/go/ssa"
)

// S-PLAN: the scanner's id-normalisation decision list, extracted from the code on every run.

type planList struct {
	Table string // getter name: GetLicenses / GetExceptions / GetDeprecated
	Role  string // role constant stored into the token on success (ExactString)
}

type planAttempt struct {
	Pos        token.Pos
	Lookup     string     // name of the lookup function
	Lists      []planList // tables tried by it, in order
	Transform  string     // "id" | "strip" | "append"
	Suffix     string     // stripped or appended constant
	NeedSuffix string     // guard: HasSuffix(id, c)
	NeedNext   string     // guard: next byte(s) of the buffer equal this constant
	NotAfter   string     // guard: the text after those next bytes does not start with this constant
	Consume    int        // on success: bytes of the buffer consumed after the id
	EmitPlus   bool       // on success: the id's suffix is rewritten to "+" in the buffer
}

func (a planAttempt) String() string {
	var l []string
	for _, x := range a.Lists {
		l = append(l, x.Table)
	}
	s := fmt.Sprintf("⟨%s: %s", strings.Join(l, "|"), a.Transform)
	if a.Suffix != "" {
		s += fmt.Sprintf(" %q", a.Suffix)
	}
	if a.NeedSuffix != "" {
		s += fmt.Sprintf(", if id ends in %q", a.NeedSuffix)
	}
	if a.NeedNext != "" {
		s += fmt.Sprintf(", if next is %q", a.NeedNext)
	}
	if a.NotAfter != "" {
		s += fmt.Sprintf(", unless %q follows it", a.NotAfter)
	}
	if a.Consume > 0 {
		s += fmt.Sprintf(", consume %d", a.Consume)
	}
	if a.EmitPlus {
		s += ", rewrite suffix to '+'"
	}
	return s + "⟩"
}

type scanPlan struct {
	Fn       *ssa.Function
	Attempts []planAttempt
	// parser side: what makes hasPlus true
	PlusSuffix                 string // token value suffix that implies hasPlus
	LicenseRole, ExceptionRole string
	Simplify                   string // suffix stripped before the family lookup
}

// lookupLists: for a function f(string) *token built as a sequence of wrapper calls, the (table, role) pairs.
func lookupLists(p *Prog, li *lookupInfo, f *ssa.Function) ([]planList, error) {
	var out []planList
	type item struct {
		order int
		pl    planList
	}
	var items []item
	n := 0
	for _, b := range f.Blocks {
		for _, in := range b.Instrs {
			n++
			c, ok := in.(*ssa.Call)
			if !ok || c.Call.StaticCallee() == nil {
				continue
			}
			tbl, isW := li.Wrappers[c.Call.StaticCallee()]
			if !isW {
				// a token builder that is handed the wrapper and the role: h(inList, role, id)
				if pl, ok := tokenBuilderCall(p, li, c, f); ok {
					items = append(items, item{n, pl})
				}
				continue
			}
			if len(c.Call.Args) != 1 || c.Call.Args[0] != ssa.Value(f.Params[0]) {
				return nil, fmt.Errorf("%s: lookup of something other than the function's argument", p.pos(c.Pos()))
			}
			// the token literal built under this call's success
			role := ""
			for _, tl := range tokenLitsIn(p, f) {
				if ex, ok := tl.Value.(*ssa.Extract); ok && ex.Tuple == ssa.Value(c) {
					if k, ok := tl.Role.(*ssa.Const); ok && k.Value != nil {
						role = k.Value.ExactString()
					}
				}
			}
			if role == "" {
				return nil, fmt.Errorf("%s: no token built from this lookup", p.pos(c.Pos()))
			}
			items = append(items, item{n, planList{tbl, role}})
		}
	}
	sort.Slice(items, func(i, j int) bool { return items[i].order < items[j].order })
	for _, it := range items {
		out = append(out, it.pl)
	}
	if len(out) == 0 {
		return nil, fmt.Errorf("%s consults no table", f.Name())
	}
	return out, nil
}

// tokenBuilderCall: c calls a helper h(…) that (a) calls one of its function parameters with one of its
// string parameters, (b) returns a token whose value is the second result of that call and whose role is
// one of its parameters (or a constant), nil otherwise. With the wrapper and the role passed at c this is
// one (table, role) entry of the lookup list of f.
func tokenBuilderCall(p *Prog, li *lookupInfo, c *ssa.Call, f *ssa.Function) (planList, bool) {
	h := c.Call.StaticCallee()
	if h == nil || !p.InModule(h) || len(h.Blocks) == 0 {
		return planList{}, false
	}
	var dyn *ssa.Call
	fnIdx, strIdx := -1, -1
	for _, b := range h.Blocks {
		for _, in := range b.Instrs {
			d, ok := in.(*ssa.Call)
			if !ok || d.Call.StaticCallee() != nil || len(d.Call.Args) != 1 {
				continue
			}
			for i, prm := range h.Params {
				if d.Call.Value == ssa.Value(prm) {
					fnIdx = i
				}
				if d.Call.Args[0] == ssa.Value(prm) {
					strIdx = i
				}
			}
			if fnIdx >= 0 && strIdx >= 0 {
				dyn = d
			}
		}
	}
	if dyn == nil || fnIdx >= len(c.Call.Args) || strIdx >= len(c.Call.Args) {
		return planList{}, false
	}
	// the token literal: value = result #1 of the dynamic call, role = parameter or constant
	role := ""
	for _, tl := range tokenLitsIn(p, h) {
		ex, ok := tl.Value.(*ssa.Extract)
		if !ok || ex.Tuple != ssa.Value(dyn) {
			continue
		}
		if k, ok := tl.Role.(*ssa.Const); ok && k.Value != nil {
			role = k.Value.ExactString()
		}
		for i, prm := range h.Params {
			if tl.Role == ssa.Value(prm) && i < len(c.Call.Args) {
				if k, ok := c.Call.Args[i].(*ssa.Const); ok && k.Value != nil {
					role = k.Value.ExactString()
				}
			}
		}
	}
	w, ok := c.Call.Args[fnIdx].(*ssa.Function)
	if !ok || role == "" || c.Call.Args[strIdx] != ssa.Value(f.Params[0]) {
		return planList{}, false
	}
	tbl, isW := li.Wrappers[w]
	if !isW || tbl == "?" {
		return planList{}, false
	}
	return planList{tbl, role}, true
}

func extractPlan(p *Prog) (*scanPlan, error) {
	li, err := findLookup(p)
	if err != nil {
		return nil, err
	}
	norm := p.Func(p.ExpPkg, "(*expressionStream).normalizeLicense")
	if norm == nil {
		return nil, fmt.Errorf("unresolved anchor: (*expressionStream).normalizeLicense")
	}
	plan := &scanPlan{Fn: norm}
	var attemptsOf func(norm *ssa.Function, id *ssa.Parameter, depth int) ([]planAttempt, error)
	attemptsOf = func(norm *ssa.Function, id *ssa.Parameter, depth int) ([]planAttempt, error) {
		var out []planAttempt
		// the stream the function works on (its receiver), if it has one
		var recv ssa.Value
		recvName := ""
		for _, prm := range norm.Params {
			if pt, ok := prm.Type().Underlying().(*types.Pointer); ok {
				if n, _ := namedStruct(pt.Elem()); n != nil && n.Obj().Name() == "expressionStream" {
					recv, recvName = prm, "param:"+prm.Name()
				}
			}
		}
		idName := "param:" + id.Name()
		fb := newBoundsProver(p, sharedEngineLite(p)).forFn(norm)
		// a lookup / an attempt helper returns the token as *token or as (token, bool)
		tokenResult := func(f *ssa.Function) bool {
			res := f.Signature.Results()
			switch res.Len() {
			case 1:
				return kindOf(res.At(0).Type()) == KPtr && isTokenStruct(p, res.At(0).Type())
			case 2:
				return isTokenStruct(p, res.At(0).Type()) && isBoolType(res.At(1).Type())
			}
			return false
		}
		strArg := func(c *ssa.Call) int {
			idx := -1
			for i, prm := range c.Call.StaticCallee().Params {
				if isStringType(prm.Type()) {
					if idx >= 0 {
						return -1
					}
					idx = i
				}
			}
			return idx
		}
		type site struct {
			c      *ssa.Call
			order  int
			helper bool
		}
		var sites []site
		// order: reverse post-order position of the block, then instruction index
		rpo := map[*ssa.BasicBlock]int{}
		{
			seen := map[*ssa.BasicBlock]bool{}
			var post []*ssa.BasicBlock
			var dfs func(b *ssa.BasicBlock)
			dfs = func(b *ssa.BasicBlock) {
				if seen[b] {
					return
				}
				seen[b] = true
				for i := len(b.Succs) - 1; i >= 0; i-- {
					dfs(b.Succs[i])
				}
				post = append(post, b)
			}
			dfs(norm.Blocks[0])
			for i, b := range post {
				rpo[b] = len(post) - i
			}
		}
		for _, b := range norm.Blocks {
			for i, in := range b.Instrs {
				c, ok := in.(*ssa.Call)
				if !ok || c.Call.StaticCallee() == nil || !p.InModule(c.Call.StaticCallee()) {
					continue
				}
				callee := c.Call.StaticCallee()
				if !tokenResult(callee) || strArg(c) < 0 || len(callee.Blocks) == 0 {
					continue
				}
				if len(callee.Params) == 1 {
					if _, err := lookupLists(p, li, callee); err == nil {
						sites = append(sites, site{c, rpo[b]*1000 + i, false})
						continue
					} else if os.Getenv("SPDXVERIF_TRACE_PLAN") != "" {
						fmt.Println("PLAN lookupLists", callee.Name(), err)
					}
				}
				// an attempt written as a helper of its own (guard, lookup, effects inside)
				sites = append(sites, site{c, rpo[b]*1000 + i, true})
			}
		}
		sort.Slice(sites, func(i, j int) bool { return sites[i].order < sites[j].order })
		if len(sites) == 0 {
			return nil, fmt.Errorf("%s: no lookup attempt of the form token := lookup(id…) was recognised in %s (the normalisation is organised in a way the decision-list extraction does not follow)", p.pos(norm.Pos()), norm.Name())
		}
		for _, s := range sites {
			c := s.c
			at := planAttempt{Pos: c.Pos(), Lookup: c.Call.StaticCallee().Name()}
			classifyInto := func(at *planAttempt, blk *ssa.BasicBlock) error {
				// the attempts' own lookups and helpers stay opaque: whether an earlier attempt found something
				// is what the order of the decision list expresses, not a guard
				opq := map[*ssa.Function]bool{}
				foundAtoms := map[string]bool{}
				pq := &quantizer{p: p, elemVar: map[ssa.Value]string{}, inlineAll: true, stop: map[string]bool{}, opaque: opq}
				for _, sx := range sites {
					if sx.c.Call.StaticCallee().Signature.Results().Len() == 2 {
						opq[sx.c.Call.StaticCallee()] = true
					}
				}
				for _, sx := range sites {
					if sx.c.Call.StaticCallee().Signature.Results().Len() == 2 {
						for _, ref := range *sx.c.Referrers() {
							if ex, ok := ref.(*ssa.Extract); ok && ex.Index == 1 {
								foundAtoms[pq.prov(ex, 0)] = true
							}
						}
					}
				}
				for _, l := range pathLiteralsWith(pq, norm, blk) {
					a := l
					if a.Op == "not" && len(a.Args) == 1 {
						a = a.Args[0]
					}
					if a.Op == "atom" && foundAtoms[a.Atom] {
						continue
					}
					kind, val := classifyPlanLiteral(l, recvName, idName)
					switch kind {
					case "ignore":
					case "needSuffix":
						at.NeedSuffix = val
					case "needNext":
						at.NeedNext = val
					case "notAfter":
						at.NotAfter = val
					default:
						return fmt.Errorf("%s: the attempt depends on a condition the plan does not model: %s", p.pos(c.Pos()), l.String())
					}
				}
				return nil
			}
			classify := func(blk *ssa.BasicBlock) error { return classifyInto(&at, blk) }
			// the token this call finds is handed on as it is: returned directly, or component-wise
			returnedAsIs := func() (bool, []*ssa.BasicBlock) {
				var blks []*ssa.BasicBlock
				for _, rb := range norm.Blocks {
					ret, ok := rb.Instrs[len(rb.Instrs)-1].(*ssa.Return)
					if !ok || len(ret.Results) == 0 {
						continue
					}
					r0 := ret.Results[0]
					if ex, isEx := r0.(*ssa.Extract); isEx && ex.Index == 0 {
						r0 = ex.Tuple
					}
					if r0 == ssa.Value(c) {
						blks = append(blks, rb)
					}
				}
				return len(blks) > 0, blks
			}
			if s.helper {
				h := c.Call.StaticCallee()
				if depth >= 3 {
					return nil, fmt.Errorf("%s: attempt helpers nested too deep", p.pos(c.Pos()))
				}
				if c.Call.Args[strArg(c)] != ssa.Value(id) {
					return nil, fmt.Errorf("%s: the attempt helper %s is not handed the id itself", p.pos(c.Pos()), h.Name())
				}
				sub, err := attemptsOf(h, h.Params[strArg(c)], depth+1)
				if err != nil {
					return nil, err
				}
				okRet, retBlks := returnedAsIs()
				if !okRet {
					return nil, fmt.Errorf("%s: the token found by %s is not returned as it is", p.pos(c.Pos()), h.Name())
				}
				// effects in this function after the helper's success are not modelled: there must be none
				for _, eb := range nonNilEdgeBlocks(c) {
					for _, b := range norm.Blocks {
						if !(b == eb || eb.Dominates(b)) {
							continue
						}
						for _, in := range b.Instrs {
							switch x := in.(type) {
							case *ssa.Store:
								if _, isFA := x.Addr.(*ssa.FieldAddr); isFA {
									return nil, fmt.Errorf("%s: the stream is modified after %s succeeded", p.pos(x.Pos()), h.Name())
								}
							case *ssa.Call:
								if x != c && x.Call.StaticCallee() != nil && p.InModule(x.Call.StaticCallee()) {
									return nil, fmt.Errorf("%s: %s is called after %s succeeded", p.pos(x.Pos()), x.Call.StaticCallee().Name(), h.Name())
								}
							}
						}
					}
				}
				for i := range sub {
					// the guards on the way to the helper call (and to the return of its token) apply to each of its attempts
					if err := classifyInto(&sub[i], c.Block()); err != nil {
						return nil, err
					}
					for _, rb := range retBlks {
						if err := classifyInto(&sub[i], rb); err != nil {
							return nil, err
						}
					}
				}
				out = append(out, sub...)
				continue
			}
			lists, err := lookupLists(p, li, c.Call.StaticCallee())
			if err != nil {
				return nil, fmt.Errorf("%s: %v", p.pos(c.Pos()), err)
			}
			at.Lists = lists
			// transform
			arg := c.Call.Args[0]
			switch t := arg.(type) {
			case *ssa.Parameter:
				if t != id {
					return nil, fmt.Errorf("%s: lookup argument is not derived from the id", p.pos(c.Pos()))
				}
				at.Transform = "id"
			case *ssa.Slice:
				if t.X != ssa.Value(id) || t.High == nil {
					return nil, fmt.Errorf("%s: unrecognised argument transform", p.pos(c.Pos()))
				}
				hi, ok := fb.linOf(t.High, t, 0)
				if !ok {
					return nil, fmt.Errorf("%s: unrecognised strip length", p.pos(c.Pos()))
				}
				d := fb.lenOf(id, t, 0).sub(hi)
				if !d.isConst() || !d.k.IsInt() {
					return nil, fmt.Errorf("%s: strip length is not a constant", p.pos(c.Pos()))
				}
				k := int(d.k.Num().Int64())
				at.Transform = "strip"
				// the suffix is the guard's constant of that length
				for cf := range fb.facts[c.Block().Index] {
					if call, ok := cf.c.(*ssa.Call); ok && cf.pol && call.Call.StaticCallee() != nil && call.Call.StaticCallee().String() == "strings.HasSuffix" && call.Call.Args[0] == ssa.Value(id) {
						if sfx, ok := constString(call.Call.Args[1]); ok && len(sfx) == k {
							at.Suffix = sfx
						}
					}
				}
				if at.Suffix == "" {
					return nil, fmt.Errorf("%s: %d bytes are stripped without a HasSuffix test of that length", p.pos(c.Pos()), k)
				}
			case *ssa.BinOp:
				sfx, ok := constString(t.Y)
				base := t.X
				if sl, isSl := base.(*ssa.Slice); isSl && sl.X == ssa.Value(id) {
					// id[0:len(id)]
					hi, okHi := fb.linOf(sl.High, sl, 0)
					if sl.High == nil || (okHi && hi.sub(fb.lenOf(id, sl, 0)).isConst() && hi.sub(fb.lenOf(id, sl, 0)).k.Sign() == 0) {
						base = id
					}
				}
				if t.Op != token.ADD || !ok || base != ssa.Value(id) {
					return nil, fmt.Errorf("%s: unrecognised argument transform", p.pos(c.Pos()))
				}
				at.Transform, at.Suffix = "append", sfx
			case *ssa.Extract:
				// before, found := strings.CutSuffix(id, "c") — used under found
				cut, isCall := t.Tuple.(*ssa.Call)
				if !isCall || t.Index != 0 || cut.Call.StaticCallee() == nil || cut.Call.StaticCallee().String() != "strings.CutSuffix" || cut.Call.Args[0] != ssa.Value(id) {
					return nil, fmt.Errorf("%s: unrecognised argument transform", p.pos(c.Pos()))
				}
				sfx, ok := constString(cut.Call.Args[1])
				if !ok {
					return nil, fmt.Errorf("%s: CutSuffix with a non-constant suffix", p.pos(c.Pos()))
				}
				found := false
				for cf := range fb.facts[c.Block().Index] {
					if ex, ok := cf.c.(*ssa.Extract); ok && cf.pol && ex.Tuple == ssa.Value(cut) && ex.Index == 1 {
						found = true
					}
				}
				if !found {
					return nil, fmt.Errorf("%s: the result of CutSuffix is used without testing that the suffix was there", p.pos(c.Pos()))
				}
				at.Transform, at.Suffix, at.NeedSuffix = "strip", sfx, sfx
			default:
				return nil, fmt.Errorf("%s: unrecognised argument transform %T", p.pos(c.Pos()), arg)
			}
			// guards: the literals of the path condition of this attempt (conditions of the dominating
			// branches, boolean helpers inlined), each of which must be one the plan models
			if err := classify(c.Block()); err != nil {
				return nil, err
			}
			for _, eb := range nonNilEdgeBlocks(c) {
				if err := classify(eb); err != nil {
					return nil, err
				}
			}
			if at.Transform == "strip" && at.NeedSuffix != at.Suffix && len(at.NeedSuffix) > 0 && at.Suffix != "" {
				// the strip length was matched to a HasSuffix fact of that length above; keep both
			}
			// the block that returns this attempt's token
			returned, retBlks := returnedAsIs()
			for _, rb := range retBlks {
				if err := classify(rb); err != nil {
					return nil, err
				}
			}
			if !returned {
				return nil, fmt.Errorf("%s: the token found by this attempt is not returned as it is", p.pos(c.Pos()))
			}
			// success effects: blocks dominated by the non-nil edge of this call's result
			for _, eb := range nonNilEdgeBlocks(c) {
				for _, b := range norm.Blocks {
					if !(b == eb || eb.Dominates(b)) {
						continue
					}
					for _, in := range b.Instrs {
						// a helper method of the stream called on success: its writes are this attempt's effects
						if hc, ok := in.(*ssa.Call); ok && hc != c {
							if h := hc.Call.StaticCallee(); h != nil && p.InModule(h) && len(hc.Call.Args) > 0 && recv != nil && hc.Call.Args[0] == recv && len(h.Params) > 0 {
								hfb := newBoundsProver(p, sharedEngineLite(p)).forFn(h)
								for _, hb := range h.Blocks {
									for _, hin := range hb.Instrs {
										hst, ok := hin.(*ssa.Store)
										if !ok {
											continue
										}
										hfa, ok := hst.Addr.(*ssa.FieldAddr)
										if !ok || hfa.X != ssa.Value(h.Params[0]) {
											continue
										}
										switch {
										case isStringType(hst.Val.Type()):
											at.EmitPlus = rewritesSuffixToPlus(hst.Val)
											if !at.EmitPlus {
												return nil, fmt.Errorf("%s: buffer rewrite of an unrecognised form", p.pos(hst.Pos()))
											}
										case isIntType(hst.Val.Type()):
											nv, ok1 := hfb.linOf(hst.Val, hst, 0)
											cls := "fld:" + fieldOf(hfa).String()
											old := linVar(fmt.Sprintf("mem(%s.%s@%s)", hfb.vid(hfa.X, hst), fieldOf(hfa).Field, hfb.versionAt(cls, hst)))
											if ok1 {
												d := nv.sub(old)
												if d.isConst() && d.k.IsInt() && d.k.Sign() > 0 {
													at.Consume = int(d.k.Num().Int64())
												}
											}
										}
									}
								}
							}
						}
						st, ok := in.(*ssa.Store)
						if !ok {
							continue
						}
						fa, ok := st.Addr.(*ssa.FieldAddr)
						if !ok || recv == nil || fa.X != recv {
							continue
						}
						switch {
						case isStringType(st.Val.Type()):
							at.EmitPlus = rewritesSuffixToPlus(st.Val)
							if !at.EmitPlus {
								return nil, fmt.Errorf("%s: buffer rewrite of an unrecognised form", p.pos(st.Pos()))
							}
						case isIntType(st.Val.Type()):
							nv, ok1 := fb.linOf(st.Val, st, 0)
							cls := "fld:" + fieldOf(fa).String()
							old := linVar(fmt.Sprintf("mem(%s.%s@%s)", fb.vid(fa.X, st), fieldOf(fa).Field, fb.versionAt(cls, st)))
							if ok1 {
								d := nv.sub(old)
								if d.isConst() && d.k.IsInt() && d.k.Sign() > 0 {
									at.Consume = int(d.k.Num().Int64())
								}
							}
						}
					}
				}
			}
			out = append(out, at)
		}
		return out, nil
	}
	attempts, err := attemptsOf(norm, norm.Params[1], 0)
	if err != nil {
		return nil, err
	}
	plan.Attempts = attempts
	// parser side
	if pl := p.Func(p.ExpPkg, "(*tokenStream).parseLicense"); pl != nil {
		for _, sfx := range plusSuffixes(p, pl) {
			plan.PlusSuffix = sfx
		}
	}
	sf := p.Func(p.ExpPkg, "simplifyLicense")
	if sf == nil {
		sf = p.Func(p.ExpPkg, "getLicenseRange") // the strip written in place in the family lookup
	}
	if sf != nil {
		for _, b := range sf.Blocks {
			for _, in := range b.Instrs {
				if call, ok := in.(*ssa.Call); ok && call.Call.StaticCallee() != nil {
					switch call.Call.StaticCallee().String() {
					case "strings.HasSuffix", "strings.TrimSuffix", "strings.CutSuffix":
						if s, ok := constString(call.Call.Args[1]); ok {
							plan.Simplify = s
						}
					}
				}
			}
		}
	}
	sc := p.ExpPkg.Types.Scope()
	if c, ok := sc.Lookup("licenseToken").(*types.Const); ok {
		plan.LicenseRole = c.Val().ExactString()
	}
	if c, ok := sc.Lookup("exceptionToken").(*types.Const); ok {
		plan.ExceptionRole = c.Val().ExactString()
	}
	return plan, nil
}

// pathLiterals: the conjunction of branch conditions under which block b of fn is reached, as literals
// over provenance atoms (boolean helpers inlined, conjunctions flattened). A condition that does not
// flatten into literals (the negative side of a conjunction) is returned as one opaque literal.
func pathLiterals(p *Prog, fn *ssa.Function, b *ssa.BasicBlock) []*qf {
	// boolean helpers are inlined, value helpers (rest(), peekByte()) are seen through
	return pathLiteralsWith(&quantizer{p: p, elemVar: map[ssa.Value]string{}, inlineAll: true, stop: map[string]bool{}}, fn, b)
}

// pathLiteralsWith: as pathLiterals, with the caller's quantizer (its provenance options apply).
func pathLiteralsWith(qz *quantizer, fn *ssa.Function, b *ssa.BasicBlock) []*qf {
	p := qz.p
	_ = p
	var out []*qf
	var flat func(q *qf)
	flat = func(q *qf) {
		if q.Op == "and" {
			for _, a := range q.Args {
				flat(a)
			}
			return
		}
		if q.Op == "true" {
			return
		}
		out = append(out, q)
	}
	for cur := b; cur != nil; cur = cur.Idom() {
		d := cur.Idom()
		if d == nil {
			break
		}
		iff, ok := d.Instrs[len(d.Instrs)-1].(*ssa.If)
		if !ok || len(d.Succs) != 2 {
			continue
		}
		tdom := (d.Succs[0] == b || d.Succs[0].Dominates(b)) && len(d.Succs[0].Preds) == 1
		fdom := (d.Succs[1] == b || d.Succs[1].Dominates(b)) && len(d.Succs[1].Preds) == 1
		if tdom == fdom {
			continue
		}
		f := normQF(qz.boolOf(iff.Cond, map[*ssa.Phi]*qf{}))
		if fdom {
			f = qNot(f)
		}
		flat(f)
	}
	return out
}

var (
	litHasMoreRe  = regexp.MustCompile(`^\((.+)\.index < len\((.+)\.expression\)\)$`)
	litNextStrRe  = regexp.MustCompile(`^\(("(?:[^"\\]|\\.)*") == (.+)\.expression\[(.+)\.index:\((.+)\.index \+ 1\)\]\)$`)
	litNextByteRe = regexp.MustCompile(`^\((\d+) == (.+)\.expression\[(.+)\.index\]\)$`)
	// the same on the unread rest: rest := expression[index:]; rest[0] == '+'
	litNextByteRe2 = regexp.MustCompile(`^\((\d+) == (.+)\.expression\[(.+)\.index:\]\[0\]\)$`)
	litAfterRe2    = regexp.MustCompile(`^strings\.HasPrefix\((.+)\.expression\[(.+)\.index:\]\[1:\], ("(?:[^"\\]|\\.)*")\)$`)
	litAfterRe     = regexp.MustCompile(`^strings\.HasPrefix\((.+)\.expression\[\((.+)\.index \+ 1\):\], ("(?:[^"\\]|\\.)*")\)$`)
	litSuffixRe    = regexp.MustCompile(`^strings\.HasSuffix\((.+), ("(?:[^"\\]|\\.)*")\)$`)
	litCutRe       = regexp.MustCompile(`^strings\.CutSuffix\((.+), ("(?:[^"\\]|\\.)*")\)#1$`)
	litNilRe       = regexp.MustCompile(`^\(nil == spdxexp\.[A-Za-z]+\(.*\)\)$`)
)

// classifyPlanLiteral: what a literal of an attempt's path condition means for the lookup plan.
func classifyPlanLiteral(l *qf, recv, id string) (string, string) {
	neg := false
	a := l
	if a.Op == "not" {
		neg, a = true, a.Args[0]
	}
	if a.Op != "atom" {
		return "", ""
	}
	s := a.Atom
	unq := func(q string) string {
		if u, err := strconv.Unquote(q); err == nil {
			return u
		}
		return q
	}
	if m := litHasMoreRe.FindStringSubmatch(s); m != nil && m[1] == recv && m[2] == recv && !neg {
		return "ignore", ""
	}
	if strings.HasSuffix(s, ".hasMore("+recv+")") && !neg {
		return "ignore", ""
	}
	if m := litNextStrRe.FindStringSubmatch(s); m != nil && m[2] == recv && m[3] == recv && m[4] == recv && !neg {
		return "needNext", unq(m[1])
	}
	if m := litNextByteRe.FindStringSubmatch(s); m != nil && m[2] == recv && m[3] == recv && !neg {
		if n, err := strconv.Atoi(m[1]); err == nil && n > 0 && n < 128 {
			return "needNext", string(rune(n))
		}
	}
	if m := litNextByteRe2.FindStringSubmatch(s); m != nil && m[2] == recv && m[3] == recv && !neg {
		if n, err := strconv.Atoi(m[1]); err == nil && n > 0 && n < 128 {
			return "needNext", string(rune(n))
		}
	}
	if m := litAfterRe.FindStringSubmatch(s); m != nil && m[1] == recv && m[2] == recv && neg {
		return "notAfter", unq(m[3])
	}
	if m := litAfterRe2.FindStringSubmatch(s); m != nil && m[1] == recv && m[2] == recv && neg {
		return "notAfter", unq(m[3])
	}
	if m := litSuffixRe.FindStringSubmatch(s); m != nil && m[1] == id && !neg {
		return "needSuffix", unq(m[2])
	}
	if m := litCutRe.FindStringSubmatch(s); m != nil && m[1] == id && !neg {
		return "needSuffix", unq(m[2])
	}
	if litNilRe.MatchString(s) {
		return "ignore", "" // this attempt's lookup succeeded / an earlier attempt's lookup failed (the plan is sequential)
	}
	return "", ""
}

// plusSuffixes: the constants c such that a license token whose value ends in c gets hasPlus = true in the
// node parseLicense builds — either a store of true under the branch fact HasSuffix(value, c), or a
// store of a boolean whose formula has HasSuffix(value, c) as a disjunct.
func plusSuffixes(p *Prog, pl *ssa.Function) []string {
	var out []string
	fb := newBoundsProver(p, sharedEngineLite(p)).forFn(pl)
	qz := &quantizer{p: p, elemVar: map[ssa.Value]string{}}
	sfxRe := regexp.MustCompile(`^strings\.HasSuffix\(.*, ("(?:[^"\\]|\\.)*")\)$`)
	factSuffixes := func(b *ssa.BasicBlock) {
		for cf := range fb.facts[b.Index] {
			if call, ok := cf.c.(*ssa.Call); ok && cf.pol && call.Call.StaticCallee() != nil && call.Call.StaticCallee().String() == "strings.HasSuffix" {
				if s, ok := constString(call.Call.Args[1]); ok {
					out = append(out, s)
				}
			}
		}
	}
	seen := map[ssa.Value]bool{}
	// from: v is what ends up in hasPlus; b is the block in which v takes that value
	var from func(v ssa.Value, b *ssa.BasicBlock)
	from = func(v ssa.Value, b *ssa.BasicBlock) {
		switch t := v.(type) {
		case *ssa.Const:
			if t.Value != nil && t.Value.String() == "true" {
				factSuffixes(b)
			}
			return
		case *ssa.Phi:
			// a local flag assigned under branches: each incoming value holds on its own edge
			if seen[t] {
				return
			}
			seen[t] = true
			for i, e := range t.Edges {
				from(e, t.Block().Preds[i])
			}
			return
		}
		f := qz.boolOf(v, map[*ssa.Phi]*qf{})
		var disj []*qf
		if f.Op == "or" {
			var fl func(q *qf)
			fl = func(q *qf) {
				if q.Op == "or" {
					for _, a := range q.Args {
						fl(a)
					}
					return
				}
				disj = append(disj, q)
			}
			fl(f)
		} else {
			disj = []*qf{f}
		}
		for _, d := range disj {
			if d.Op == "atom" {
				if m := sfxRe.FindStringSubmatch(d.Atom); m != nil {
					if s, err := strconv.Unquote(m[1]); err == nil {
						out = append(out, s)
					}
				}
			}
		}
	}
	for _, b := range pl.Blocks {
		for _, in := range b.Instrs {
			switch t := in.(type) {
			case *ssa.Store:
				if fa, ok := t.Addr.(*ssa.FieldAddr); ok && fieldOf(fa).Field == "hasPlus" {
					from(t.Val, b)
				}
			case *ssa.Call:
				// a node constructor: the argument that its body stores into hasPlus
				callee := t.Call.StaticCallee()
				if callee == nil || !p.InModule(callee) {
					continue
				}
				for _, cb := range callee.Blocks {
					for _, cin := range cb.Instrs {
						st, ok := cin.(*ssa.Store)
						if !ok {
							continue
						}
						fa, ok := st.Addr.(*ssa.FieldAddr)
						if !ok || fieldOf(fa).Field != "hasPlus" {
							continue
						}
						for i, prm := range callee.Params {
							if st.Val == ssa.Value(prm) && i < len(t.Call.Args) {
								from(t.Call.Args[i], b)
							}
						}
					}
				}
			}
		}
	}
	return out
}

// notAfterGuard recognises strings.HasPrefix(buffer[cursor+1:], "c") — used negatively: "the byte
// after the next one does not start another c".
func notAfterGuard(fb *fnBounds, norm *ssa.Function, c ssa.Value) (string, bool) {
	call, ok := c.(*ssa.Call)
	if !ok || call.Call.StaticCallee() == nil || call.Call.StaticCallee().String() != "strings.HasPrefix" {
		return "", false
	}
	k, ok := constString(call.Call.Args[1])
	if !ok {
		return "", false
	}
	sl, ok := call.Call.Args[0].(*ssa.Slice)
	if !ok || sl.Low == nil || sl.High != nil {
		return "", false
	}
	// the sliced string is a field of the stream, the low bound is cursor + 1
	ld, ok := sl.X.(*ssa.UnOp)
	if !ok {
		return "", false
	}
	fa, ok := ld.X.(*ssa.FieldAddr)
	if !ok || fa.X != ssa.Value(norm.Params[0]) {
		return "", false
	}
	bo, ok := sl.Low.(*ssa.BinOp)
	if !ok || bo.Op != token.ADD {
		return "", false
	}
	one, ok := bo.Y.(*ssa.Const)
	if !ok || one.Value == nil || one.Value.ExactString() != "1" {
		return "", false
	}
	il, ok := bo.X.(*ssa.UnOp)
	if !ok {
		return "", false
	}
	if ifa, ok := il.X.(*ssa.FieldAddr); !ok || ifa.X != ssa.Value(norm.Params[0]) {
		return "", false
	}
	return k, true
}

// rewritesSuffixToPlus: the new buffer is old[0:…] + "+" [+ tail] on every path.
func rewritesSuffixToPlus(v ssa.Value) bool {
	switch t := v.(type) {
	case *ssa.Phi:
		for _, e := range t.Edges {
			if !rewritesSuffixToPlus(e) {
				return false
			}
		}
		return len(t.Edges) > 0
	case *ssa.BinOp:
		if t.Op != token.ADD {
			return false
		}
		// (prefix + "+") or ((prefix + "+") + tail)
		if s, ok := constString(t.Y); ok && s == "+" {
			_, isSl := t.X.(*ssa.Slice)
			return isSl
		}
		return rewritesSuffixToPlus(t.X)
	}
	return false
}

// ---------------------------------------------------------------------------------------------
// evaluation of the plan over the tables (a finite evaluation of constants)

type planResult struct {
	OK      bool
	Role    string
	License string
	HasPlus bool
	Via     string
	Rest    string // what is left of `next` for the operator reader
}

func inTable(tbl []string, s string) (string, bool) {
	for _, x := range tbl {
		if strings.EqualFold(x, s) {
			return x, true
		}
	}
	return "", false
}

// evalPlan: the token the scanner produces for id text `id` immediately followed by `next` ("" or "+"),
// and the node flags the parser derives.
func (pl *scanPlan) eval(t *Tables, id, next string) planResult {
	tables := map[string][]string{"GetLicenses": t.Active, "GetExceptions": t.Exceptions, "GetDeprecated": t.Deprecated}
	for _, a := range pl.Attempts {
		if a.NeedSuffix != "" && !strings.HasSuffix(id, a.NeedSuffix) {
			continue
		}
		if a.NeedNext != "" && !strings.HasPrefix(next, a.NeedNext) {
			continue
		}
		if a.NotAfter != "" && strings.HasPrefix(next, a.NeedNext) && strings.HasPrefix(next[len(a.NeedNext):], a.NotAfter) {
			continue
		}
		arg := id
		switch a.Transform {
		case "strip":
			arg = strings.TrimSuffix(id, a.Suffix)
		case "append":
			arg = id + a.Suffix
		}
		for _, l := range a.Lists {
			if canon, ok := inTable(tables[l.Table], arg); ok {
				rest := next
				if a.Consume > 0 && len(rest) >= a.Consume {
					rest = rest[a.Consume:]
				}
				if a.EmitPlus {
					rest = "+" + strings.TrimPrefix(rest, "+")
				}
				r := planResult{OK: true, Role: l.Role, License: canon, Via: a.String(), Rest: rest}
				r.HasPlus = (pl.PlusSuffix != "" && strings.HasSuffix(canon, pl.PlusSuffix)) || strings.HasPrefix(rest, "+")
				return r
			}
		}
	}
	return planResult{}
}

func init() {
	register("C08", &propDef{
		Level:   "other",
		Explain: "The scanner's normalisation is a short decision list over list membership. It is not re-implemented: the lookup plan (ordered attempts: tables tried, argument transform, guard, effect on the buffer) is extracted from the SSA of normalizeLicense and its lookup helpers on every run, together with the parser's two sources of the plus flag, and interpreted over the extracted tables — a finite evaluation of constants. Q1 for every active id X the spellings X, X-only, X+, X-or-later all yield a license token, Q2 for every listed id the spellings of each pair denote interchangeable nodes (equal plus flag and equal id or same family and version group in the range table), Q3 the id simplification used for the family lookup strips exactly the suffix the plan rewrites. X4: the verdict of Satisfies is ∃ alternative ∀ term ∃ allowed entry . matcher(term, entry) — terms are consulted only through the pair matcher, never through their position in the (spelling-sorted) lists — so node-level interchangeability lifts to the verdict; expansion sees only nodes (C01 X5).",
		Run:     rulesC08,
		Trusted: []string{"go/ssa lowering", "the matcher factors through (exact id, table position, plus flag, exception): C02"},
	})
}

func rulesC08(p *Prog, r *Report) {
	r.Rule("A1", "exact", 4, "tables are compile-time constants")
	r.Rule("SPLAN", "exact", 5, "the id-normalisation plan is extractable: every lookup in normalizeLicense has a recognised argument transform (id, strip a tested suffix, append a constant), guard and success effect")
	r.Rule("Q1", "necessary", 500, "for every active id X the spellings X, X-only, X+ and X-or-later are all valid license terms")
	r.Rule("Q2", "necessary", 500, "for every listed id X, X and X-only (resp. X+ and X-or-later) denote interchangeable nodes whenever both are valid")
	r.Rule("Q3", "necessary", 1, "the family lookup strips exactly the suffix the scanner treats as '+'")
	// the verdict consults terms only through the pair matcher (no position in a spelling-sorted list,
	// no state carried between terms): otherwise node-level interchangeability would not lift to Satisfies
	ruleX4(p, r, "X4")
	// every allowed entry is a term like any other: it becomes a node only through parse (S1), so the
	// decision list evaluated below is what decides its spelling, too — a shortcut that builds nodes for
	// "plain" entries by hand gives one spelling of a pair a meaning of its own
	rulesAllowedSet(p, r)
	// Q2 evaluates 'same family and version group' on the table itself: that is what the matcher sees only if
	// the range lookup records the table's positions and the matcher compares them under the family gate
	// (T5-T8, the code clauses of C11)
	rulesRangeCode(p, r)
	t, err := p.LoadTables()
	if err != nil {
		r.Unknown("A1", "tables", "-", err.Error())
		return
	}
	for _, n := range []string{"GetLicenses", "GetDeprecated", "GetExceptions", "LicenseRanges"} {
		r.OK("A1", n, "-", "evaluated", "", true)
	}
	plan, err := extractPlan(p)
	if err != nil {
		r.Unknown("SPLAN", "normalizeLicense", "-", "kind=undecided: "+err.Error())
		return
	}
	r.Funcs[p.shortKey(plan.Fn)] = true
	var descr []string
	for i, a := range plan.Attempts {
		descr = append(descr, a.String())
		r.OK("SPLAN", fmt.Sprintf("attempt %d %s %s", i+1, a.Transform, a.Suffix), p.pos(a.Pos), "recognised", a.String(), true)
	}
	r.Extra["lookup_plan"] = descr
	r.Extra["plus_sources"] = map[string]string{"token suffix": plan.PlusSuffix, "operator": "+"}
	if plan.PlusSuffix == "" {
		r.Bad("SPLAN", "plus suffix", "-", "no token suffix sets the plus flag in parseLicense")
	}
	pos := t.positions()
	locate := func(license string) (rangePos, bool) {
		s := license
		if plan.Simplify != "" {
			s = strings.TrimSuffix(s, plan.Simplify)
		}
		ps, ok := pos[s]
		if !ok {
			return rangePos{}, false
		}
		return ps[0], true
	}
	same := func(a, b planResult) (bool, string) {
		if a.HasPlus != b.HasPlus {
			return false, fmt.Sprintf("plus flag %v vs %v", a.HasPlus, b.HasPlus)
		}
		if a.License == b.License {
			return true, ""
		}
		pa, oka := locate(a.License)
		pb, okb := locate(b.License)
		if !oka || !okb {
			return false, fmt.Sprintf("ids %q and %q differ and are not both in the range table", a.License, b.License)
		}
		if pa.fam != pb.fam || pa.grp != pb.grp {
			return false, fmt.Sprintf("%q is at (%d,%d) and %q at (%d,%d)", a.License, pa.fam, pa.grp, b.License, pb.fam, pb.grp)
		}
		return true, ""
	}
	// Q1
	for i, x := range t.Active {
		var bad []string
		for _, sp := range [][2]string{{x, ""}, {x + "-only", ""}, {x, "+"}, {x + "-or-later", ""}} {
			res := plan.eval(t, sp[0], sp[1])
			if !res.OK || res.Role != plan.LicenseRole {
				bad = append(bad, sp[0]+sp[1])
			}
		}
		if len(bad) > 0 {
			r.Bad("Q1", x, p.pos(t.ActivePos[i]), fmt.Sprintf("spellings %v of active id %q are not accepted as license terms", bad, x))
		} else {
			r.OK("Q1", x, p.pos(t.ActivePos[i]), "all four spellings valid", "", false)
		}
	}
	// Q2
	check := func(x string, where token.Pos) {
		var probs []string
		a, b := plan.eval(t, x, ""), plan.eval(t, x+"-only", "")
		if a.OK && b.OK && a.Role == plan.LicenseRole && b.Role == plan.LicenseRole {
			if ok, why := same(a, b); !ok {
				probs = append(probs, fmt.Sprintf("%q and %q denote different terms: %s", x, x+"-only", why))
			}
		}
		c, d := plan.eval(t, x, "+"), plan.eval(t, x+"-or-later", "")
		if c.OK && d.OK && c.Role == plan.LicenseRole && d.Role == plan.LicenseRole {
			if ok, why := same(c, d); !ok {
				probs = append(probs, fmt.Sprintf("%q and %q denote different terms: %s", x+"+", x+"-or-later", why))
			}
		}
		if len(probs) > 0 {
			r.Bad("Q2", x, p.pos(where), strings.Join(probs, "; "))
		} else {
			r.OK("Q2", x, p.pos(where), "pairs interchangeable", "", true)
		}
	}
	for i, x := range t.Active {
		check(x, t.ActivePos[i])
	}
	for i, x := range t.Deprecated {
		check(x, t.DepPos[i])
	}
	// Q3
	rewrite := ""
	for _, a := range plan.Attempts {
		if a.EmitPlus {
			rewrite = a.Suffix
		}
	}
	if plan.Simplify != "" && plan.Simplify == rewrite && plan.Simplify == plan.PlusSuffix {
		r.OK("Q3", "simplifyLicense", "-", fmt.Sprintf("strips %q = rewritten suffix = plus suffix", plan.Simplify), "", true)
	} else {
		r.Bad("Q3", "simplifyLicense", "-", fmt.Sprintf("the family lookup strips %q, the scanner rewrites %q to '+', the parser treats %q as '+': they must be one constant", plan.Simplify, rewrite, plan.PlusSuffix))
	}
}
