package main

import (
	"fmt"
	"sort"
	"strings"

	"golang.org/x/tools/go/ssa"
)

func init() {
	old := props["C12"].Run
	props["C12"].Run = func(p *Prog, r *Report) {
		old(p, r)
		rulesC12Roles(p, r)
	}
}

// L5b: the extracted scanner plan maps every active/deprecated id to a license token and every
// exception id to an exception token. L6: who consumes which role.
func rulesC12Roles(p *Prog, r *Report) {
	r.Rule("L5b", "necessary", 500, "under the scanner's extracted lookup plan every active or deprecated id becomes a license token carrying exactly that id, and every exception id an exception token")
	r.Rule("L6", "necessary", 2, "an exception token is accepted only right after a successful WITH and nowhere else; a license token is tested for by the parser")
	t, err := p.LoadTables()
	if err != nil {
		r.Unknown("L5b", "tables", "-", err.Error())
		return
	}
	plan, err := extractPlan(p)
	if err != nil {
		r.Unknown("L5b", "plan", "-", "kind=undecided: "+err.Error())
		return
	}
	for _, e := range t.allIDs() {
		id := e.ID
		next := ""
		if strings.HasSuffix(id, "+") {
			// ids listed with a trailing '+' are read as id followed by the operator
			id, next = strings.TrimSuffix(id, "+"), "+"
		}
		res := plan.eval(t, id, next)
		wantRole := plan.LicenseRole
		if e.List == "exception" {
			wantRole = plan.ExceptionRole
		}
		key := e.List + ":" + e.ID
		switch {
		case !res.OK:
			r.Bad("L5b", key, p.pos(e.Pos), fmt.Sprintf("%s id %q is not recognised by the scanner's lookup plan", e.List, e.ID))
		case res.Role != wantRole:
			r.Bad("L5b", key, p.pos(e.Pos), fmt.Sprintf("%s id %q is tokenised with the wrong role (via %s)", e.List, e.ID, res.Via))
		case next == "" && res.License != id:
			r.Bad("L5b", key, p.pos(e.Pos), fmt.Sprintf("%s id %q is turned into %q by the scanner (via %s)", e.List, e.ID, res.License, res.Via))
		default:
			r.OK("L5b", key, p.pos(e.Pos), "tokenised in its role", "", false)
		}
	}
	// L6
	parseOp := p.Func(p.ExpPkg, "(*tokenStream).parseOperator")
	tokT := p.ExpPkg.Types.Scope().Lookup("token")
	if parseOp == nil || tokT == nil {
		r.Unknown("L6", "anchor", "-", "unresolved anchor")
		return
	}
	pi := &parserInfo{p: p, consumes: map[*ssa.Call]bool{}, parseOp: parseOp}
	type use struct {
		fn  *ssa.Function
		in  ssa.Instruction
		pol string
	}
	uses := map[string][]use{}
	for _, u := range roleUses(p) {
		uses[u.role] = append(uses[u.role], use{u.fn, u.in, ""})
	}
	// exception role
	{
		var probs []string
		us := uses[plan.ExceptionRole]
		if len(us) == 0 {
			probs = append(probs, "no parser function ever tests for an exception token")
		}
		for _, u := range us {
			// dominated by a successful parseOperator("WITH")
			okW := false
			for _, b := range u.fn.Blocks {
				for _, x := range b.Instrs {
					c, ok := x.(*ssa.Call)
					if !ok {
						continue
					}
					if s, ok := pi.opConst(c); ok && s == "WITH" {
						for _, eb := range nonNilEdgeBlocks(c) {
							if eb == u.in.Block() || eb.Dominates(u.in.Block()) {
								okW = true
							}
						}
					}
				}
			}
			if !okW {
				probs = append(probs, fmt.Sprintf("%s (%s): an exception token is tested for without a preceding successful WITH", p.pos(u.in.Pos()), u.fn.Name()))
			}
		}
		if len(probs) > 0 {
			r.Bad("L6", "exception token", "-", strings.Join(probs, "; "))
		} else {
			r.OK("L6", "exception token", p.pos(us[0].in.Pos()), "only after WITH", fmt.Sprintf("%d sites", len(us)), true)
		}
	}
	{
		us := uses[plan.LicenseRole]
		fns := map[string]bool{}
		for _, u := range us {
			fns[u.fn.Name()] = true
		}
		var l []string
		for f := range fns {
			l = append(l, f)
		}
		sort.Strings(l)
		if len(fns) >= 1 {
			// a dispatcher that peeks at the role before handing over to the license parser tests for it too
			r.OK("L6", "license token", p.pos(us[0].in.Pos()), "tested for by the parser", strings.Join(l, ", "), true)
		} else {
			r.Bad("L6", "license token", "-", "no parser function ever tests for a license token: listed license ids cannot be accepted as terms")
		}
	}
}
