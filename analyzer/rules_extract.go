package main

import (
	"fmt"
	"go/constant"
	"go/token"
	"go/types"
	"sort"
	"strconv"
	"strings"

	"golang.org/x/tools/go/ssa"
)

// appendLoop describes `for _, e := range coll { [if g] acc = append(acc, x) }`.
type appendLoop struct {
	Fn            *ssa.Function
	Hdr           *ssa.BasicBlock
	Coll          ssa.Value
	Acc           *ssa.Phi
	App           *ssa.Call
	Unconditional bool
	Guards        []condFact // conditions under which the append runs (beyond the loop condition)
	OtherState    []string   // other loop-carried values
}

func findAppendLoops(fn *ssa.Function) []appendLoop {
	var out []appendLoop
	for _, h := range fn.Blocks {
		if !isLoopHeader(h) {
			continue
		}
		ifi, ok := h.Instrs[len(h.Instrs)-1].(*ssa.If)
		if !ok {
			continue
		}
		cmp, ok := ifi.Cond.(*ssa.BinOp)
		if !ok {
			continue
		}
		ln, ok := cmp.Y.(*ssa.Call)
		if !ok || len(ln.Call.Args) == 0 {
			continue
		}
		coll := ln.Call.Args[0]
		if isRangeIndexOf(cmp.X, coll) != nil {
			continue
		}
		var others []string
		var accs []*ssa.Phi
		for _, in := range h.Instrs {
			phi, ok := in.(*ssa.Phi)
			if !ok {
				break
			}
			if phi.Comment == "rangeindex" || ssa.Value(phi) == cmp.X {
				continue // the induction variable (for i := 0; i < len(xs); i++ has it as a named phi)
			}
			isAcc := false
			for _, e := range phi.Edges {
				if c, ok := e.(*ssa.Call); ok {
					if bi, ok := c.Call.Value.(*ssa.Builtin); ok && bi.Name() == "append" && c.Call.Args[0] == phi {
						isAcc = true
					}
				}
			}
			if isAcc {
				accs = append(accs, phi)
			} else {
				others = append(others, phi.Comment)
			}
		}
		for _, acc := range accs {
			al := appendLoop{Fn: fn, Hdr: h, Coll: coll, Acc: acc, OtherState: others}
			n := 0
			for _, e := range acc.Edges {
				if c, ok := e.(*ssa.Call); ok {
					if bi, ok := c.Call.Value.(*ssa.Builtin); ok && bi.Name() == "append" && c.Call.Args[0] == acc {
						al.App = c
						n++
					}
				}
			}
			if n != 1 {
				continue
			}
			// unconditional: the append's block dominates every back edge source
			al.Unconditional = true
			for _, p := range h.Preds {
				if h.Dominates(p) && !(al.App.Block() == p || al.App.Block().Dominates(p)) {
					al.Unconditional = false
				}
			}
			out = append(out, al)
		}
	}
	return out
}

// guardsOf: branch conditions that hold at the append but not at the loop body entry.
func guardsOf(fb *fnBounds, al appendLoop) []condFact {
	body := al.Hdr.Succs[0]
	base := fb.facts[body.Index]
	var out []condFact
	for cf := range fb.facts[al.App.Block().Index] {
		if !base[cf] {
			out = append(out, cf)
		}
	}
	sort.Slice(out, func(i, j int) bool { return out[i].c.Name() < out[j].c.Name() })
	return out
}

// appendedElems returns the values appended by an append call whose second argument is a varargs
// literal, or (nil, spread) when a whole slice is spread.
func appendedElems(c *ssa.Call) (elems []ssa.Value, spread ssa.Value) {
	arg := c.Call.Args[1]
	if sl, ok := arg.(*ssa.Slice); ok {
		if al, ok := sl.X.(*ssa.Alloc); ok {
			for _, r := range *al.Referrers() {
				if ia, ok := r.(*ssa.IndexAddr); ok {
					for _, rr := range *ia.Referrers() {
						if st, ok := rr.(*ssa.Store); ok && st.Addr == ia {
							elems = append(elems, st.Val)
						}
					}
				}
			}
			return elems, nil
		}
	}
	return nil, arg
}

func isElemOf(v ssa.Value, coll ssa.Value) bool {
	ld, ok := v.(*ssa.UnOp)
	if !ok || ld.Op != token.MUL {
		return false
	}
	ia, ok := ld.X.(*ssa.IndexAddr)
	return ok && ia.X == coll && isRangeIndexOf(ia.Index, coll) == nil
}

func rulesExtract(p *Prog, r *Report, eng *Engine) {
	r.Rule("E1", "necessary", 3, "pipeline is element-wise and total: ExtractLicenses flattens the whole expansion of the parsed expression and turns every flattened node into exactly one string, unconditionally, in a full forward range")
	r.Rule("E2", "necessary", 1, "de-duplication keeps exactly the first occurrences: the result receives only range elements of the argument, guarded only by a membership test on a map that is written only with elements just appended")
	r.Rule("E3", "necessary", 2, "canonical text is built only from the node's canonical fields and the grammar's own keywords, each optional part under its own flag")
	r.Rule("E4", "necessary", 3, "printer/scanner agreement: every string constant the printer emits is (after trimming spaces) a keyword or prefix the scanner recognises")

	qz := &quantizer{p: p, elemVar: map[ssa.Value]string{}}
	ext := p.Func(p.ExpPkg, "ExtractLicenses")
	if ext == nil {
		r.Unknown("E1", "anchor", "-", "unresolved anchor: ExtractLicenses")
		return
	}
	r.Funcs[p.shortKey(ext)] = true
	// the stage that flattens and renders may be a helper that is handed the whole expansion and returns the
	// strings (texts := licenseStrings(node.expand(true))): it is judged in the helper, with its parameter
	// standing for the expansion
	host := ext
	var hostCall *ssa.Call
	for _, b := range ext.Blocks {
		for _, in := range b.Instrs {
			c, ok := in.(*ssa.Call)
			if !ok || c.Call.StaticCallee() == nil || !p.InModule(c.Call.StaticCallee()) || len(c.Call.StaticCallee().Blocks) == 0 || !isStringSlice(c.Type()) {
				continue
			}
			h := c.Call.StaticCallee()
			for i, a := range c.Call.Args {
				if i < len(h.Params) && isNodeSlice(a.Type(), nodeType(p), 2) {
					pv := qz.prov(a, 0)
					if expandCollRe.MatchString(strings.Replace(pv, "param:expression", "param:testExpression", 1)) {
						host, hostCall = h, c
						qz.elemVar[h.Params[i]] = pv
					}
				}
			}
		}
	}
	// E1a: what is flattened
	var flatCall *ssa.Call
	for _, b := range host.Blocks {
		for _, in := range b.Instrs {
			if c, ok := in.(*ssa.Call); ok {
				if callee := c.Call.StaticCallee(); callee != nil && p.InModule(callee) {
					if o := callee.Origin(); o != nil && o.Name() == "flatten" || callee.Name() == "flatten" {
						flatCall = c
					}
					// under any name: the in-module call that turns the expansion ([][]*node) into a flat []*node
					if flatCall == nil && len(c.Call.Args) == 1 && isNodeSlice(c.Type(), nodeType(p), 1) && isNodeSlice(c.Call.Args[0].Type(), nodeType(p), 2) {
						flatCall = c
					}
				}
			}
		}
	}
	nestedOK := false
	collectorResult := false
	var condAppendAcc ssa.Value // when set: the accumulator the host returns (checked against what ExtractLicenses returns)
	if flatCall == nil {
		// the flattening written in place: for _, alt := range expansion { for _, n := range alt { out = append(out, text(n)) } }
		for _, al := range findAppendLoops(host) {
			ld, ok := al.Coll.(*ssa.UnOp)
			if !ok || ld.Op != token.MUL {
				continue
			}
			ia, ok := ld.X.(*ssa.IndexAddr)
			if !ok || isRangeIndexOf(ia.Index, ia.X) != nil {
				continue
			}
			pv := qz.prov(ia.X, 0)
			if !expandCollRe.MatchString(strings.Replace(pv, "param:expression", "param:testExpression", 1)) {
				continue
			}
			elems, _ := appendedElems(al.App)
			outer := rangeHeaderOf(ia.Index)
			if outer == nil || !al.Unconditional || len(elems) != 1 || len(al.OtherState) > 0 {
				continue
			}
			ev := qz.prov(elems[0], 0)
			if !(strings.Contains(ev, "reconstructedLicenseString(elem(") || strings.Contains(ev, ").reconstructedLicenseString(")) {
				continue
			}
			// the inner loop runs on every iteration of the outer one
			uncond := true
			for _, pr := range outer.Preds {
				if outer.Dominates(pr) && !(al.Hdr == pr || al.Hdr.Dominates(pr)) {
					uncond = false
				}
			}
			if !uncond {
				continue
			}
			nestedOK = true
			r.OK("E1", "ExtractLicenses|flatten-arg", p.pos(al.App.Pos()), "nested full ranges over the whole expansion of the parsed argument", pv, true)
			r.OK("E1", "flatten|concatenates all", p.pos(al.App.Pos()), "every term of every alternative is visited unconditionally", "", true)
			r.OK("E1", "ExtractLicenses|one string per node", p.pos(ext.Pos()), "full range, unconditional", "in place", true)
		}
		if !nestedOK {
			// the same with an ordered-set collector object: two nested full ranges over the expansion whose body
			// hands the text of the current node to c.add(text), c being a collector freshly constructed here
			// whose items field is what ExtractLicenses returns
			if why, at, ok := collectorPipeline(p, qz, host); ok {
				nestedOK = true
				collectorResult = true
				r.OK("E1", "ExtractLicenses|flatten-arg", p.pos(at), "nested full ranges over the whole expansion of the parsed argument", "collector", true)
				r.OK("E1", "flatten|concatenates all", p.pos(at), "every term of every alternative is visited unconditionally", "", true)
				r.OK("E1", "ExtractLicenses|one string per node", p.pos(ext.Pos()), "full range, unconditional", "collector.add", true)
			} else if why != "" {
				r.Bad("E1", "ExtractLicenses|flatten", p.pos(ext.Pos()), "the texts are handed to a collector, but "+why)
			} else if why2, at2, acc2, ok2 := condAppendPipeline(p, qz, host, hostCall); ok2 {
				// the accumulator threaded through a helper that appends an item unless it has been seen
				nestedOK = true
				collectorResult = true
				condAppendAcc = acc2
				r.OK("E1", "ExtractLicenses|flatten-arg", p.pos(at2), "nested full ranges over the whole expansion of the parsed argument", "append-if-unseen helper", true)
				r.OK("E1", "flatten|concatenates all", p.pos(at2), "every term of every alternative is visited unconditionally", "", true)
				r.OK("E1", "ExtractLicenses|one string per node", p.pos(ext.Pos()), "full range, unconditional", "append-if-unseen helper", true)
			} else if why2 != "" {
				r.Bad("E1", "ExtractLicenses|flatten", p.pos(ext.Pos()), "the texts go through an append-if-unseen helper, but "+why2)
			} else {
				r.Unknown("E1", "ExtractLicenses|flatten", p.pos(ext.Pos()), "kind=undecided: no call that flattens the expansion was found")
			}
		}
	} else {
		pv := qz.prov(flatCall.Call.Args[0], 0)
		if expandCollRe.MatchString(strings.Replace(pv, "param:expression", "param:testExpression", 1)) {
			r.OK("E1", "ExtractLicenses|flatten-arg", p.pos(flatCall.Pos()), "whole expansion of the parsed argument", pv, true)
		} else {
			r.Bad("E1", "ExtractLicenses|flatten-arg", p.pos(flatCall.Pos()), "the flattened value is not the whole expansion of the parsed expression: "+pv)
		}
		// E1b: flatten itself
		ff := flatCall.Call.StaticCallee()
		loops := findAppendLoops(ff)
		ok := false
		why := "no accumulate-by-append loop found"
		for _, al := range loops {
			_, spread := appendedElems(al.App)
			isParam := false
			for _, prm := range ff.Params {
				if al.Coll == prm {
					isParam = true
				}
			}
			switch {
			case !isParam:
				why = "the loop does not range over the parameter"
			case !al.Unconditional:
				why = "inner lists are appended conditionally"
			case spread == nil || !isElemOf(spread, al.Coll):
				why = "what is appended is not the whole current inner list"
			case len(al.OtherState) > 0:
				why = "loop carries extra state " + strings.Join(al.OtherState, ",")
			default:
				// result returned is the accumulator
				ret := false
				for _, ref := range *al.Acc.Referrers() {
					if _, isRet := ref.(*ssa.Return); isRet {
						ret = true
					}
				}
				if ret {
					ok = true
				} else {
					why = "the accumulator is not what is returned"
				}
			}
		}
		if ok {
			r.OK("E1", "flatten|concatenates all", p.pos(ff.Pos()), "full range, unconditional spread append", "", true)
		} else {
			r.Bad("E1", "flatten|concatenates all", p.pos(ff.Pos()), "flatten does not concatenate every inner list: "+why)
		}
	}
	var dedupFn *ssa.Function
	fusedDedup := false
	// E1c: one string per flattened node — in ExtractLicenses itself, or in a helper that is handed the
	// flattened nodes and returns the strings
	{
		mapFn, mapColl := host, ssa.Value(nil)
		if flatCall != nil {
			mapColl = flatCall
		}
		var fusedFn *ssa.Function
		var fusedAcc ssa.Value
		viaHelper := ""
		if flatCall != nil {
			for _, ref := range *flatCall.Referrers() {
				c, isCall := ref.(*ssa.Call)
				if !isCall {
					continue
				}
				h := c.Call.StaticCallee()
				if h == nil || !p.InModule(h) || len(h.Blocks) == 0 {
					continue
				}
				for i, a := range c.Call.Args {
					if a == ssa.Value(flatCall) && i < len(h.Params) && (len(findAppendLoops(h)) > 0 || len(findIndexFillLoops(h)) > 0) {
						mapFn, mapColl, viaHelper = h, h.Params[i], h.Name()
					}
				}
			}
		}
		loops := findAppendLoops(mapFn)
		ok := nestedOK
		why := "no accumulate-by-append loop over the flattened nodes found"
		if nestedOK {
			loops = nil
		}
		for _, al := range loops {
			if mapColl != nil && al.Coll != mapColl {
				why = "the string loop does not range over the flattened nodes"
				continue
			}
			elems, _ := appendedElems(al.App)
			if !al.Unconditional && len(elems) == 1 && len(al.OtherState) == 0 {
				// one loop that renders and de-duplicates at once: the only guard of the append is "this text
				// has not been appended yet", judged on a fresh map written only with texts just appended
				if fwhy := fusedFirstOccurrences(newBoundsProver(p, eng).forFn(mapFn), al, elems[0]); fwhy == "" {
					pv := qz.prov(elems[0], 0)
					returned := viaHelper == ""
					for _, ref := range *al.Acc.Referrers() {
						if _, isRet := ref.(*ssa.Return); isRet {
							returned = true
						}
					}
					switch {
					case !(strings.Contains(pv, "reconstructedLicenseString(elem(") || strings.Contains(pv, ").reconstructedLicenseString(")):
						why = "the appended string is not the canonical text of the current node: " + pv
					case !returned:
						why = viaHelper + " does not return the list it builds"
					default:
						ok = true
						fusedFn, fusedAcc = mapFn, al.Acc
					}
					continue
				} else {
					why = "a string is appended only conditionally (" + fwhy + ")"
					continue
				}
			}
			switch {
			case !al.Unconditional:
				why = "a string is appended only conditionally"
			case len(elems) != 1:
				why = "not exactly one string per node"
			case len(al.OtherState) > 0:
				why = "loop carries extra state"
			default:
				// the string is *elem.<printer>()
				pv := qz.prov(elems[0], 0)
				if strings.Contains(pv, "reconstructedLicenseString(elem(") || strings.Contains(pv, ").reconstructedLicenseString(") {
					ok = true
				} else {
					why = "the appended string is not the canonical text of the current node: " + pv
				}
				if ok && viaHelper != "" {
					// the helper must return its accumulator
					ret := false
					for _, ref := range *al.Acc.Referrers() {
						if _, isRet := ref.(*ssa.Return); isRet {
							ret = true
						}
					}
					if !ret {
						ok = false
						why = viaHelper + " does not return the list it builds"
					}
				}
			}
		}
		if !ok {
			// the same as an index fill: out := make([]string, len(nodes)); for i := range nodes { out[i] = text(nodes[i]) }
			for _, fl := range findIndexFillLoops(mapFn) {
				if mapColl != nil && fl.Coll != mapColl {
					why = "the string loop does not range over the flattened nodes"
					continue
				}
				pv := qz.prov(fl.Val, 0)
				if !(strings.Contains(pv, "reconstructedLicenseString(elem(") || strings.Contains(pv, ").reconstructedLicenseString(")) {
					why = "the stored string is not the canonical text of the current node: " + pv
					continue
				}
				if !isElemTextOf(fl.Val, fl.Coll, fl.Index) {
					why = "the stored string is not taken from the node at the same position"
					continue
				}
				if viaHelper != "" && !fl.Returned {
					why = viaHelper + " does not return the list it builds"
					continue
				}
				ok = true
			}
		}
		if nestedOK {
			// already recorded
		} else if ok {
			r.OK("E1", "ExtractLicenses|one string per node", p.pos(ext.Pos()), "full range, unconditional", viaHelper, true)
		} else {
			r.Bad("E1", "ExtractLicenses|one string per node", p.pos(ext.Pos()), why)
		}
		// the returned list is the de-duplicated accumulator
		for _, b := range ext.Blocks {
			if ret, ok := b.Instrs[len(b.Instrs)-1].(*ssa.Return); ok {
				if c, isC := ret.Results[0].(*ssa.Const); isC && c.IsNil() {
					continue
				}
				pv := qz.prov(ret.Results[0], 0)
				if collectorResult && condAppendAcc != nil {
					// the host returns its accumulator (checked by condAppendPipeline); ExtractLicenses must return
					// the host's result (or that accumulator itself when it is its own host)
					if (host == ext && ret.Results[0] == condAppendAcc) || (hostCall != nil && ret.Results[0] == ssa.Value(hostCall)) {
						fusedDedup = true
						r.OK("E1", "ExtractLicenses|result", p.pos(ret.Pos()), "the list built by the rendering and de-duplicating loops", "", false)
					} else {
						r.Bad("E1", "ExtractLicenses|result", p.pos(ret.Pos()), "the result is not the de-duplicated list of all strings: "+pv)
					}
					continue
				}
				if collectorResult {
					// collectorPipeline has checked that what is returned is the collector's items
					fusedDedup = true
					r.OK("E1", "ExtractLicenses|result", p.pos(ret.Pos()), "the items of the ordered-set collector", "", false)
					continue
				}
				if fusedFn != nil {
					dc, isCall := ret.Results[0].(*ssa.Call)
					if (fusedFn == ext && ret.Results[0] == fusedAcc) || (isCall && dc.Call.StaticCallee() == fusedFn) {
						fusedDedup = true
						r.OK("E1", "ExtractLicenses|result", p.pos(ret.Pos()), "the list built by the rendering and de-duplicating loop", "", false)
					} else {
						r.Bad("E1", "ExtractLicenses|result", p.pos(ret.Pos()), "the result is not the de-duplicated list of all strings: "+pv)
					}
					continue
				}
				if dc, isCall := ret.Results[0].(*ssa.Call); isCall && dc.Call.StaticCallee() != nil && p.InModule(dc.Call.StaticCallee()) && len(dc.Call.Args) == 1 && isStringSlice(dc.Type()) && isStringSlice(dc.Call.Args[0].Type()) && (hostCall == nil || dc.Call.Args[0] == ssa.Value(hostCall)) {
					// the de-duplication is whatever in-module ([]string) []string function the result goes through; E2 judges it
					dedupFn = dc.Call.StaticCallee()
					r.OK("E1", "ExtractLicenses|result", p.pos(ret.Pos()), "de-duplicated accumulator", "", false)
				} else {
					r.Bad("E1", "ExtractLicenses|result", p.pos(ret.Pos()), "the result is not the de-duplicated list of all strings: "+pv)
				}
			}
		}
	}

	// E2
	if fusedDedup {
		r.OK("E2", "removeDuplicateStrings", p.pos(ext.Pos()), "first occurrences, in order (de-duplication fused into the rendering loop)", "", true)
	} else if dd := dedupFn; dd == nil {
		r.Unknown("E2", "anchor", "-", "unresolved anchor: the de-duplication applied to the result of ExtractLicenses")
	} else {
		r.Funcs[p.shortKey(dd)] = true
		fb := newBoundsProver(p, eng).forFn(dd)
		loops := findAppendLoops(dd)
		ok := false
		why := "no accumulate-by-append loop found"
		for _, al := range loops {
			elems, _ := appendedElems(al.App)
			if al.Coll != ssa.Value(dd.Params[0]) {
				why = "the loop does not range over the argument"
				continue
			}
			if len(elems) != 1 || !isElemOf(elems[0], al.Coll) {
				why = "something other than the current element is appended"
				continue
			}
			gs := guardsOf(fb, al)
			if len(gs) != 1 {
				why = fmt.Sprintf("the append is guarded by %d conditions, expected exactly the membership test", len(gs))
				continue
			}
			// guard: comma-ok of a map lookup with the current element as key, negative polarity
			g := gs[0]
			cond := g.c
			pol := g.pol
			if u, isNot := cond.(*ssa.UnOp); isNot && u.Op == token.NOT {
				cond, pol = u.X, !pol
			}
			// the same test wrapped in a helper that reports "newly added": seen.add(item)
			if hc, isCall := cond.(*ssa.Call); isCall && pol {
				if mi, ki, isTI := testAndInsertHelper(p, hc.Call.StaticCallee()); isTI && mi < len(hc.Call.Args) && ki < len(hc.Call.Args) {
					setArg := hc.Call.Args[mi]
					if ct, isCT := setArg.(*ssa.ChangeType); isCT {
						setArg = ct.X
					}
					mm, isMake := setArg.(*ssa.MakeMap)
					switch {
					case !isElemOf(hc.Call.Args[ki], al.Coll):
						why = "the membership test does not use the current element as key"
					case !isMake:
						why = "the seen-set is not a fresh map"
					default:
						// the set is handed to nothing but this helper
						only := true
						for _, ref := range *mm.Referrers() {
							switch x := ref.(type) {
							case *ssa.ChangeType:
								for _, r2 := range *x.Referrers() {
									if r2 != ssa.Instruction(hc) {
										if _, isDbg := r2.(*ssa.DebugRef); !isDbg {
											only = false
										}
									}
								}
							case *ssa.DebugRef:
							default:
								if ref != ssa.Instruction(hc) {
									only = false
								}
							}
						}
						if only {
							ok = true
						} else {
							why = "the seen-set is used by something other than the test-and-insert helper"
						}
					}
					continue
				}
			}
			ex, isEx := cond.(*ssa.Extract)
			if !isEx || ex.Index != 1 || pol {
				why = "the guard is not 'element not yet seen'"
				continue
			}
			lk, isLk := ex.Tuple.(*ssa.Lookup)
			if !isLk || !isElemOf(lk.Index, al.Coll) {
				why = "the membership test does not use the current element as key"
				continue
			}
			// map writes: only with the current element, in the append's block
			mOK := true
			for _, ref := range *lk.X.Referrers() {
				if mu, isMU := ref.(*ssa.MapUpdate); isMU {
					if !isElemOf(mu.Key, al.Coll) || mu.Block() != al.App.Block() {
						mOK = false
					}
				}
			}
			if !mOK {
				why = "the seen-set is written with something other than the element just appended"
				continue
			}
			if _, isMake := lk.X.(*ssa.MakeMap); !isMake {
				why = "the seen-set is not a fresh map"
				continue
			}
			ok = true
		}
		if ok {
			r.OK("E2", "removeDuplicateStrings", p.pos(dd.Pos()), "first occurrences, in order", "", true)
		} else {
			r.Bad("E2", "removeDuplicateStrings", p.pos(dd.Pos()), why)
		}
	}

	// E3 / E4
	pr := p.Func(p.ExpPkg, "(*node).reconstructedLicenseString")
	if pr == nil {
		r.Unknown("E3", "anchor", "-", "unresolved anchor: (*node).reconstructedLicenseString")
		return
	}
	r.Funcs[p.shortKey(pr)] = true
	kw, kerr := scannerKeywords(p)
	if kerr != nil {
		r.Unknown("E4", "scanner-keywords", "-", kerr.Error())
		return
	}
	kws := map[string]bool{}
	for _, k := range kw.All() {
		kws[k] = true
	}
	consts := map[string]token.Pos{}
	fieldsUsed := map[string]bool{}
	var bad []string
	// the text parts: operands of string concatenations and what is written to a strings.Builder / bytes.Buffer
	type textPart struct {
		op  ssa.Value
		pos token.Pos
	}
	helpers := map[*ssa.Function]bool{}
	// the node being printed: the printer's receiver, or a helper's parameter bound to it
	isPrinterNode := func(v ssa.Value) bool {
		return v == ssa.Value(pr.Params[0]) || qz.prov(v, 0) == "param:"+pr.Params[0].Name()
	}
	var collect func(cur *ssa.Function, depth int)
	collect = func(cur *ssa.Function, depth int) {
		var parts []textPart
		for _, b := range cur.Blocks {
			for _, in := range b.Instrs {
				switch t := in.(type) {
				case *ssa.BinOp:
					if t.Op == token.ADD && isStringType(t.Type()) {
						parts = append(parts, textPart{t.X, t.Pos()}, textPart{t.Y, t.Pos()})
					}
				case *ssa.Call:
					callee := t.Call.StaticCallee()
					if callee != nil && p.InModule(callee) && len(callee.Blocks) > 0 && (isStringType(t.Type()) || takesTextBuilder(callee)) && depth < 3 && !helpers[callee] &&
						!(isNodeMethod(callee, nodeType(p)) && len(t.Call.Args) == 1 && isPrinterNode(t.Call.Args[0]) && !buildsText(callee)) {
						// a helper that renders a part of the text (n.lic.reconstructedString()): its parts are the
						// printer's parts, with its parameters bound to what the printer passes
						helpers[callee] = true
						descs := make([]string, len(callee.Params))
						for i := range callee.Params {
							if i < len(t.Call.Args) {
								descs[i] = qz.prov(t.Call.Args[i], 0)
							}
						}
						for i, prm := range callee.Params {
							if i < len(t.Call.Args) {
								qz.elemVar[prm] = descs[i]
							}
						}
						collect(callee, depth+1)
						for _, prm := range callee.Params {
							delete(qz.elemVar, prm)
						}
						continue
					}
					if callee == nil || len(t.Call.Args) != 2 {
						continue
					}
					switch callee.String() {
					case "(*strings.Builder).WriteString", "(*bytes.Buffer).WriteString":
						parts = append(parts, textPart{t.Call.Args[1], t.Pos()})
					case "(*strings.Builder).WriteByte", "(*bytes.Buffer).WriteByte", "(*strings.Builder).WriteRune", "(*bytes.Buffer).WriteRune":
						if c, ok := t.Call.Args[1].(*ssa.Const); ok && c.Value != nil && c.Value.Kind() == constant.Int {
							consts[string(rune(c.Int64()))] = t.Pos()
						} else {
							bad = append(bad, fmt.Sprintf("%s: a non-constant character is written into the canonical text", p.pos(t.Pos())))
						}
					}
				}
			}
		}
		{
			{
				for _, tp := range parts {
					op := tp.op
					bo := tp
					if s, ok := constString(op); ok {
						consts[s] = tp.pos
						continue
					}
					// a separator handed to a rendering helper as a constant argument
					if prm, isPrm := op.(*ssa.Parameter); isPrm {
						if d, ok := qz.elemVar[prm]; ok && strings.HasPrefix(d, "\"") {
							if s, err := strconv.Unquote(d); err == nil {
								consts[s] = tp.pos
								continue
							}
						}
					}
					if _, isBin := op.(*ssa.BinOp); isBin {
						continue
					}
					if _, isPhi := op.(*ssa.Phi); isPhi {
						continue
					}
					pv := qz.prov(op, 0)
					// *accessor(n) : accessor is a node method returning *string
					okSrc := false
					if ld, isLd := op.(*ssa.UnOp); isLd && ld.Op == token.MUL {
						if c, isCall := ld.X.(*ssa.Call); isCall && c.Call.StaticCallee() != nil && isNodeMethod(c.Call.StaticCallee(), nodeType(p)) && len(c.Call.Args) == 1 && isPrinterNode(c.Call.Args[0]) {
							okSrc = true
							fieldsUsed[c.Call.StaticCallee().Name()] = true
						}
						if al, isAl := ld.X.(*ssa.Alloc); isAl {
							_ = al
							okSrc = true // the local string being built
						}
					}
					// accessor(n) returning the string by value
					if c, isCall := op.(*ssa.Call); isCall && c.Call.StaticCallee() != nil && isNodeMethod(c.Call.StaticCallee(), nodeType(p)) && len(c.Call.Args) == 1 && isPrinterNode(c.Call.Args[0]) && isStringType(c.Type()) {
						okSrc = true
						fieldsUsed[c.Call.StaticCallee().Name()] = true
					}
					// a direct read of a field of the node's partials (n.lic.license, n.ref.licenseRef …)
					if ld, isLd := op.(*ssa.UnOp); isLd && ld.Op == token.MUL {
						if fa, isFA := ld.X.(*ssa.FieldAddr); isFA && strings.HasPrefix(pv, "param:"+pr.Params[0].Name()+".") {
							okSrc = true
							fieldsUsed[fieldOf(fa).Field] = true
						}
					}
					// the result of a rendering helper (its own parts are judged where it is defined)
					if c, isCall := op.(*ssa.Call); isCall && c.Call.StaticCallee() != nil && helpers[c.Call.StaticCallee()] {
						okSrc = true
					}
					if !okSrc {
						bad = append(bad, fmt.Sprintf("%s: text part %s is not a canonical field of the node", p.pos(bo.pos), pv))
					}
				}
			}
		}
	}
	collect(pr, 0)
	rulePrinterVerbatim(p, r, "E5")
	// accessor results that are loaded at all (plain assignments `license := *n.license()` included)
	for _, b := range pr.Blocks {
		for _, in := range b.Instrs {
			c, ok := in.(*ssa.Call)
			if !ok || c.Call.StaticCallee() == nil || !isNodeMethod(c.Call.StaticCallee(), nodeType(p)) || len(c.Call.Args) != 1 || c.Call.Args[0] != pr.Params[0] {
				continue
			}
			if isStringType(c.Type()) {
				// value-returning accessor: any use other than a debug reference counts as read
				for _, ref := range *c.Referrers() {
					if _, isDbg := ref.(*ssa.DebugRef); !isDbg {
						fieldsUsed[c.Call.StaticCallee().Name()] = true
					}
				}
				continue
			}
			if pt, ok := c.Type().Underlying().(*types.Pointer); !ok || !isStringType(pt.Elem()) {
				continue
			}
			for _, ref := range *c.Referrers() {
				if ld, ok := ref.(*ssa.UnOp); ok && ld.Op == token.MUL {
					fieldsUsed[c.Call.StaticCallee().Name()] = true
				}
			}
		}
	}
	if len(bad) > 0 {
		r.Bad("E3", "printer|sources", p.pos(pr.Pos()), strings.Join(bad, "; "))
	} else {
		var fs []string
		for f := range fieldsUsed {
			fs = append(fs, f)
		}
		sort.Strings(fs)
		r.OK("E3", "printer|sources", p.pos(pr.Pos()), "only node accessors and constants", strings.Join(fs, ","), true)
	}
	// every accessor the node offers for text must be used by the printer (no field forgotten)
	want := []string{"license", "exception", "licenseRef", "documentRef"}
	var missing []string
	for _, w := range want {
		if p.Func(p.ExpPkg, "(*node)."+w) != nil && !fieldsUsed[w] {
			missing = append(missing, w)
		}
	}
	if len(missing) > 0 {
		r.Bad("E3", "printer|completeness", p.pos(pr.Pos()), fmt.Sprintf("the canonical text omits %v", missing))
	} else {
		r.OK("E3", "printer|completeness", p.pos(pr.Pos()), "all text fields printed", "", true)
	}
	var cs []string
	for c := range consts {
		cs = append(cs, c)
	}
	sort.Strings(cs)
	for _, c := range cs {
		t := strings.TrimSpace(c)
		if kws[t] {
			r.OK("E4", fmt.Sprintf("printer constant %q", c), p.pos(consts[c]), "scanner keyword", "", false)
		} else {
			r.Bad("E4", fmt.Sprintf("printer constant %q", c), p.pos(consts[c]), fmt.Sprintf("the printer emits %q, which is not a keyword or prefix the scanner recognises %v: the printed term does not re-parse to the same term", c, kw.All()))
		}
	}
	_ = types.Typ
}

func isStringSlice(t types.Type) bool {
	sl, ok := t.Underlying().(*types.Slice)
	return ok && isStringType(sl.Elem())
}

// fillLoop: out := make([]T, len(coll)); for i := range coll { out[i] = f(coll[i]) } — every slot is written
// exactly once, unconditionally, in a full forward range over coll.
type fillLoop struct {
	Make     *ssa.MakeSlice
	Coll     ssa.Value
	Index    ssa.Value
	Val      ssa.Value
	Returned bool
}

func findIndexFillLoops(fn *ssa.Function) []fillLoop {
	var out []fillLoop
	for _, b := range fn.Blocks {
		for _, in := range b.Instrs {
			ms, ok := in.(*ssa.MakeSlice)
			if !ok {
				continue
			}
			ln, ok := ms.Len.(*ssa.Call)
			if !ok {
				continue
			}
			if bi, ok := ln.Call.Value.(*ssa.Builtin); !ok || bi.Name() != "len" {
				continue
			}
			coll := ln.Call.Args[0]
			fl := fillLoop{Make: ms, Coll: coll}
			good := true
			var st *ssa.Store
			for _, ref := range *ms.Referrers() {
				switch t := ref.(type) {
				case *ssa.IndexAddr:
					if isRangeIndexOf(t.Index, coll) != nil {
						good = false
						break
					}
					for _, rr := range *t.Referrers() {
						s2, isSt := rr.(*ssa.Store)
						if !isSt || s2.Addr != ssa.Value(t) || st != nil {
							good = false
							break
						}
						st = s2
						fl.Index, fl.Val = t.Index, s2.Val
					}
				case *ssa.Return:
					fl.Returned = true
				case *ssa.DebugRef:
				case *ssa.Call:
					// handed on (to the de-duplication) after the loop
				default:
					good = false
				}
			}
			if !good || st == nil {
				continue
			}
			// the store is unconditional in its loop: its block dominates every back edge of the range header
			hdr := rangeHeaderOf(fl.Index)
			if hdr == nil {
				continue
			}
			uncond := true
			for _, pr := range hdr.Preds {
				if hdr.Dominates(pr) && !(st.Block() == pr || st.Block().Dominates(pr)) {
					uncond = false
				}
			}
			if uncond {
				out = append(out, fl)
			}
		}
	}
	return out
}

// rangeHeaderOf: the loop header of a range induction variable (phi+1 of the range form, or the phi of the
// classic form).
func rangeHeaderOf(idx ssa.Value) *ssa.BasicBlock {
	switch t := idx.(type) {
	case *ssa.Phi:
		return t.Block()
	case *ssa.BinOp:
		if phi, ok := t.X.(*ssa.Phi); ok {
			return phi.Block()
		}
	}
	return nil
}

// isElemTextOf: v is computed from coll[idx] (the element at the same position), through loads and calls
// that take it as their only argument.
func isElemTextOf(v ssa.Value, coll, idx ssa.Value) bool {
	for d := 0; d < 6; d++ {
		switch t := v.(type) {
		case *ssa.UnOp:
			if ia, ok := t.X.(*ssa.IndexAddr); ok && t.Op == token.MUL {
				return ia.X == coll && ia.Index == idx
			}
			v = t.X
		case *ssa.Call:
			if len(t.Call.Args) != 1 {
				return false
			}
			v = t.Call.Args[0]
		default:
			return false
		}
	}
	return false
}

// isNodeSlice: t is a slice nested `depth` deep over *node ([]*node: 1, [][]*node: 2), named or not.
func isNodeSlice(t types.Type, node *types.Named, depth int) bool {
	for i := 0; i < depth; i++ {
		sl, ok := t.Underlying().(*types.Slice)
		if !ok {
			return false
		}
		t = sl.Elem()
	}
	return node != nil && isNodePtr(t, node)
}

// fusedFirstOccurrences: the append of text `elem` in loop al is guarded by exactly one condition, the
// negative comma-ok of a lookup of that same text in a fresh map, and the map is written only with that text
// in the append's block. Returns "" when so, else what is different.
func fusedFirstOccurrences(fb *fnBounds, al appendLoop, elem ssa.Value) string {
	gs := guardsOf(fb, al)
	if len(gs) != 1 {
		return fmt.Sprintf("the append is guarded by %d conditions, expected exactly the membership test", len(gs))
	}
	cond, pol := gs[0].c, gs[0].pol
	if u, isNot := cond.(*ssa.UnOp); isNot && u.Op == token.NOT {
		cond, pol = u.X, !pol
	}
	ex, isEx := cond.(*ssa.Extract)
	if !isEx || ex.Index != 1 || pol {
		return "the guard is not 'text not yet seen'"
	}
	lk, isLk := ex.Tuple.(*ssa.Lookup)
	if !isLk || lk.Index != elem {
		return "the membership test does not use the appended text as key"
	}
	if _, isMake := lk.X.(*ssa.MakeMap); !isMake {
		return "the seen-set is not a fresh map"
	}
	for _, ref := range *lk.X.Referrers() {
		if mu, isMU := ref.(*ssa.MapUpdate); isMU {
			if mu.Key != elem || mu.Block() != al.App.Block() {
				return "the seen-set is written with something other than the text just appended"
			}
		}
	}
	return ""
}

// takesTextBuilder: fn is handed a *strings.Builder / *bytes.Buffer to write its part of a text into.
func takesTextBuilder(fn *ssa.Function) bool {
	for _, prm := range fn.Params {
		switch prm.Type().String() {
		case "*strings.Builder", "*bytes.Buffer":
			return true
		}
	}
	return false
}

// buildsText: fn concatenates strings or writes into a text builder (a rendering helper, as opposed to an
// accessor that hands out a field).
func buildsText(fn *ssa.Function) bool {
	for _, b := range fn.Blocks {
		for _, in := range b.Instrs {
			switch t := in.(type) {
			case *ssa.BinOp:
				if t.Op == token.ADD && isStringType(t.Type()) {
					return true
				}
			case *ssa.Call:
				if c := t.Call.StaticCallee(); c != nil {
					switch c.String() {
					case "(*strings.Builder).WriteString", "(*bytes.Buffer).WriteString", "(*strings.Builder).WriteByte", "(*bytes.Buffer).WriteByte", "(*strings.Builder).WriteRune", "(*bytes.Buffer).WriteRune":
						return true
					}
				}
			}
		}
	}
	return false
}

// testAndInsertHelper: h(set map[K]V, key K) bool (receiver or plain parameters) that returns false without
// writing when key is in set, and otherwise inserts exactly key and returns true. Returns the parameter
// indices of the set and the key.
func testAndInsertHelper(p *Prog, h *ssa.Function) (int, int, bool) {
	if h == nil || !p.InModule(h) || len(h.Params) != 2 || len(h.Blocks) == 0 || h.Signature.Results().Len() != 1 || !isBoolType(h.Signature.Results().At(0).Type()) {
		return 0, 0, false
	}
	mi, ki := -1, -1
	for i, prm := range h.Params {
		if _, ok := prm.Type().Underlying().(*types.Map); ok {
			mi = i
		} else {
			ki = i
		}
	}
	if mi < 0 || ki < 0 {
		return 0, 0, false
	}
	var lk *ssa.Lookup
	nUpd := 0
	for _, b := range h.Blocks {
		for _, in := range b.Instrs {
			switch t := in.(type) {
			case *ssa.Lookup:
				if t.X != ssa.Value(h.Params[mi]) || t.Index != ssa.Value(h.Params[ki]) || !t.CommaOk || lk != nil {
					return 0, 0, false
				}
				lk = t
			case *ssa.MapUpdate:
				if t.Map != ssa.Value(h.Params[mi]) || t.Key != ssa.Value(h.Params[ki]) {
					return 0, 0, false
				}
				nUpd++
			case *ssa.Store, ssa.CallInstruction:
				return 0, 0, false
			}
		}
	}
	if lk == nil || nUpd != 1 {
		return 0, 0, false
	}
	// the found edge returns false without the update; the other edge updates and returns true
	for _, b := range h.Blocks {
		ifi, ok := b.Instrs[len(b.Instrs)-1].(*ssa.If)
		if !ok {
			continue
		}
		ex, ok := ifi.Cond.(*ssa.Extract)
		if !ok || ex.Tuple != ssa.Value(lk) || ex.Index != 1 {
			return 0, 0, false
		}
		retConst := func(blk *ssa.BasicBlock) (bool, bool, bool) { // value, hasUpdate, ok
			upd := false
			for _, in := range blk.Instrs {
				if _, isU := in.(*ssa.MapUpdate); isU {
					upd = true
				}
			}
			ret, ok := blk.Instrs[len(blk.Instrs)-1].(*ssa.Return)
			if !ok || len(ret.Results) != 1 {
				return false, upd, false
			}
			c, ok := ret.Results[0].(*ssa.Const)
			if !ok || c.Value == nil {
				return false, upd, false
			}
			return c.Value.String() == "true", upd, true
		}
		fv, fu, ok1 := retConst(b.Succs[0])
		nv, nu, ok2 := retConst(b.Succs[1])
		if ok1 && ok2 && !fv && !fu && nv && nu {
			return mi, ki, true
		}
		return 0, 0, false
	}
	return 0, 0, false
}

// collectorPipeline recognises, in fn, the pipeline written with an ordered-set collector:
//
//	c := newCollector()                       // fresh object: empty map, empty list
//	for _, alt := range expansion { for _, n := range alt { c.add(text(n)) } }
//	return c.items, nil
//
// where add is a method that looks its argument up in the map field, returns when it is present, and
// otherwise inserts it and appends it to the list field — and nothing else touches the collector. ok is true
// when all of it holds; otherwise why says what differs ("" when there is no collector at all).
func collectorPipeline(p *Prog, qz *quantizer, fn *ssa.Function) (why string, at token.Pos, ok bool) {
	for _, b := range fn.Blocks {
		for _, in := range b.Instrs {
			c, isCall := in.(*ssa.Call)
			if !isCall || c.Call.StaticCallee() == nil || len(c.Call.Args) != 2 {
				continue
			}
			mapF, listF, isAdd := collectorAdd(p, c.Call.StaticCallee())
			if !isAdd {
				continue
			}
			at = c.Pos()
			// the collector: result of a constructor that returns a fresh object with an empty map and list
			ctorCall, isCtor := c.Call.Args[0].(*ssa.Call)
			if !isCtor || ctorCall.Call.StaticCallee() == nil || !freshCollector(p, ctorCall.Call.StaticCallee(), mapF, listF) {
				return "the collector is not freshly constructed with an empty set and list", at, false
			}
			// the text handed over
			pv := qz.prov(c.Call.Args[1], 0)
			if !(strings.Contains(pv, "reconstructedLicenseString(elem(") || strings.Contains(pv, ").reconstructedLicenseString(")) {
				return "what is added is not the canonical text of the current node: " + pv, at, false
			}
			// inner and outer full ranges, both unconditional
			inner, innerColl := innermostRangeLoop(fn, c.Block())
			if inner == nil {
				return "the add call is not inside a range loop", at, false
			}
			for _, pr := range inner.Preds {
				if inner.Dominates(pr) && !(c.Block() == pr || c.Block().Dominates(pr)) {
					return "a text is added only conditionally", at, false
				}
			}
			ld, isLd := innerColl.(*ssa.UnOp)
			if !isLd || ld.Op != token.MUL {
				return "the inner loop does not range over an alternative of the expansion", at, false
			}
			ia, isIA := ld.X.(*ssa.IndexAddr)
			if !isIA || isRangeIndexOf(ia.Index, ia.X) != nil {
				return "the inner loop does not range over an alternative of the expansion", at, false
			}
			xv := qz.prov(ia.X, 0)
			if !expandCollRe.MatchString(strings.Replace(xv, "param:expression", "param:testExpression", 1)) {
				return "the outer loop does not range over the whole expansion of the parsed expression: " + xv, at, false
			}
			outer := rangeHeaderOf(ia.Index)
			if outer == nil {
				return "no outer range loop", at, false
			}
			for _, pr := range outer.Preds {
				if outer.Dominates(pr) && !(inner == pr || inner.Dominates(pr)) {
					return "an alternative is skipped", at, false
				}
			}
			// uses of the collector: this add call and one load of the list field that is returned
			returned := false
			for _, ref := range *ctorCall.Referrers() {
				switch x := ref.(type) {
				case *ssa.Call:
					if x != c {
						return "the collector is used by another call", at, false
					}
				case *ssa.FieldAddr:
					if x.Field != listF {
						return "a field of the collector other than its list is accessed", at, false
					}
					for _, rr := range *x.Referrers() {
						l2, isL := rr.(*ssa.UnOp)
						if !isL || l2.Op != token.MUL {
							return "the collector's list is written outside add", at, false
						}
						for _, r3 := range *l2.Referrers() {
							if _, isRet := r3.(*ssa.Return); isRet {
								returned = true
							} else if _, isDbg := r3.(*ssa.DebugRef); !isDbg {
								return "the collector's list is used before it is returned", at, false
							}
						}
					}
				case *ssa.DebugRef:
				default:
					return fmt.Sprintf("the collector is used by %T", ref), at, false
				}
			}
			if !returned {
				return "the collector's list is not what is returned", at, false
			}
			return "", at, true
		}
	}
	return "", token.NoPos, false
}

// collectorAdd: h is a method (*T).add(x string) whose body is: look x up in map field m of the receiver;
// if present return; otherwise m[x] = …; list field l = append(l, x). Returns the field indices of m and l.
func collectorAdd(p *Prog, h *ssa.Function) (int, int, bool) {
	if h == nil || !p.InModule(h) || len(h.Params) != 2 || h.Signature.Results().Len() != 0 || !isStringType(h.Params[1].Type()) {
		return 0, 0, false
	}
	recv, item := ssa.Value(h.Params[0]), ssa.Value(h.Params[1])
	fieldOfRecv := func(v ssa.Value) (int, bool) {
		ld, ok := v.(*ssa.UnOp)
		if !ok || ld.Op != token.MUL {
			return 0, false
		}
		fa, ok := ld.X.(*ssa.FieldAddr)
		if !ok || fa.X != recv {
			return 0, false
		}
		return fa.Field, true
	}
	mapF, listF := -1, -1
	var lk *ssa.Lookup
	var upd *ssa.MapUpdate
	var app *ssa.Call
	for _, b := range h.Blocks {
		for _, in := range b.Instrs {
			switch t := in.(type) {
			case *ssa.Lookup:
				f, ok := fieldOfRecv(t.X)
				if !ok || t.Index != item || !t.CommaOk || lk != nil {
					return 0, 0, false
				}
				lk, mapF = t, f
			case *ssa.MapUpdate:
				f, ok := fieldOfRecv(t.Map)
				if !ok || t.Key != item || upd != nil {
					return 0, 0, false
				}
				if mapF >= 0 && f != mapF {
					return 0, 0, false
				}
				upd = t
			case *ssa.Store:
				fa, ok := t.Addr.(*ssa.FieldAddr)
				if !ok {
					// the varargs cell of the append
					continue
				}
				if fa.X != recv || listF >= 0 {
					return 0, 0, false
				}
				c, ok := t.Val.(*ssa.Call)
				if !ok {
					return 0, 0, false
				}
				if bi, ok := c.Call.Value.(*ssa.Builtin); !ok || bi.Name() != "append" {
					return 0, 0, false
				}
				f0, ok := fieldOfRecv(c.Call.Args[0])
				if !ok || f0 != fa.Field {
					return 0, 0, false
				}
				elems, _ := appendedElems(c)
				if len(elems) != 1 || elems[0] != item {
					return 0, 0, false
				}
				app, listF = c, fa.Field
			case ssa.CallInstruction:
				if bi, ok := t.Common().Value.(*ssa.Builtin); !ok || bi.Name() != "append" {
					return 0, 0, false
				}
			}
		}
	}
	if lk == nil || upd == nil || app == nil || mapF < 0 || listF < 0 {
		return 0, 0, false
	}
	// the update and the append run exactly on the not-found edge
	for _, b := range h.Blocks {
		ifi, ok := b.Instrs[len(b.Instrs)-1].(*ssa.If)
		if !ok {
			continue
		}
		ex, ok := ifi.Cond.(*ssa.Extract)
		if !ok || ex.Tuple != ssa.Value(lk) || ex.Index != 1 {
			return 0, 0, false
		}
		notFound := b.Succs[1]
		if !(notFound == upd.Block() || notFound.Dominates(upd.Block())) || !(notFound == app.Block() || notFound.Dominates(app.Block())) {
			return 0, 0, false
		}
		if b.Succs[0] == upd.Block() || b.Succs[0].Dominates(upd.Block()) {
			return 0, 0, false
		}
		return mapF, listF, true
	}
	return 0, 0, false
}

// freshCollector: ctor has one return, of a freshly allocated struct whose map field is a new map and whose
// list field is empty (an empty literal, or left nil).
func freshCollector(p *Prog, ctor *ssa.Function, mapF, listF int) bool {
	if !p.InModule(ctor) || len(ctor.Blocks) != 1 {
		return false
	}
	ret, ok := ctor.Blocks[0].Instrs[len(ctor.Blocks[0].Instrs)-1].(*ssa.Return)
	if !ok || len(ret.Results) != 1 {
		return false
	}
	al, ok := ret.Results[0].(*ssa.Alloc)
	if !ok {
		return false
	}
	mapOK := false
	for _, r := range *al.Referrers() {
		fa, ok := r.(*ssa.FieldAddr)
		if !ok {
			if _, isRet := r.(*ssa.Return); isRet {
				continue
			}
			if _, isDbg := r.(*ssa.DebugRef); isDbg {
				continue
			}
			return false
		}
		for _, rr := range *fa.Referrers() {
			st, ok := rr.(*ssa.Store)
			if !ok || st.Addr != ssa.Value(fa) {
				return false
			}
			switch fa.Field {
			case mapF:
				if _, isMake := st.Val.(*ssa.MakeMap); !isMake {
					return false
				}
				mapOK = true
			case listF:
				// []T{} — a slice of a zero-length array — or nil
				switch v := st.Val.(type) {
				case *ssa.Const:
					if !v.IsNil() {
						return false
					}
				case *ssa.Slice:
					a, ok := v.X.(*ssa.Alloc)
					if !ok {
						return false
					}
					if at, ok := a.Type().Underlying().(*types.Pointer).Elem().Underlying().(*types.Array); !ok || at.Len() != 0 {
						return false
					}
				case *ssa.MakeSlice:
					if k, ok := v.Len.(*ssa.Const); !ok || k.Value == nil || k.Int64() != 0 {
						return false
					}
				default:
					return false
				}
			default:
				return false
			}
		}
	}
	return mapOK
}

// innermostRangeLoop: the innermost full-range loop (for … range coll) whose body contains block b.
func innermostRangeLoop(fn *ssa.Function, b *ssa.BasicBlock) (*ssa.BasicBlock, ssa.Value) {
	var best *ssa.BasicBlock
	var bestColl ssa.Value
	for _, h := range fn.Blocks {
		if !isLoopHeader(h) || !naturalLoop(h)[b] {
			continue
		}
		ifi, ok := h.Instrs[len(h.Instrs)-1].(*ssa.If)
		if !ok {
			continue
		}
		cmp, ok := ifi.Cond.(*ssa.BinOp)
		if !ok {
			continue
		}
		ln, ok := cmp.Y.(*ssa.Call)
		if !ok || len(ln.Call.Args) == 0 {
			continue
		}
		coll := ln.Call.Args[0]
		if isRangeIndexOf(cmp.X, coll) != nil {
			continue
		}
		if best == nil || best.Dominates(h) {
			best, bestColl = h, coll
		}
	}
	return best, bestColl
}

// condAppendHelper: h(list []K, seen map[K]…, item K) []K (parameters in any order) returns list unchanged when
// item is in seen, and otherwise records item in seen and returns append(list, item). Returns the parameter
// indices of list, seen and item.
func condAppendHelper(p *Prog, h *ssa.Function) (int, int, int, bool) {
	if h == nil || !p.inModuleLoose(h) || len(h.Params) != 3 || len(h.Blocks) == 0 || h.Signature.Results().Len() != 1 {
		return 0, 0, 0, false
	}
	li, mi, ii := -1, -1, -1
	for i, prm := range h.Params {
		switch prm.Type().Underlying().(type) {
		case *types.Slice:
			li = i
		case *types.Map:
			mi = i
		default:
			ii = i
		}
	}
	if li < 0 || mi < 0 || ii < 0 {
		return 0, 0, 0, false
	}
	list, seen, item := ssa.Value(h.Params[li]), ssa.Value(h.Params[mi]), ssa.Value(h.Params[ii])
	var lk *ssa.Lookup
	var upd *ssa.MapUpdate
	var app *ssa.Call
	for _, b := range h.Blocks {
		for _, in := range b.Instrs {
			switch t := in.(type) {
			case *ssa.Lookup:
				if t.X != seen || t.Index != item || !t.CommaOk || lk != nil {
					return 0, 0, 0, false
				}
				lk = t
			case *ssa.MapUpdate:
				if t.Map != seen || t.Key != item || upd != nil {
					return 0, 0, 0, false
				}
				upd = t
			case *ssa.Store:
				// only the varargs cell of the append
				if _, ok := t.Addr.(*ssa.IndexAddr); !ok || t.Val != item {
					return 0, 0, 0, false
				}
			case ssa.CallInstruction:
				c, isCall := t.(*ssa.Call)
				bi, isB := t.Common().Value.(*ssa.Builtin)
				if !isCall || !isB || bi.Name() != "append" || app != nil || c.Call.Args[0] != list {
					return 0, 0, 0, false
				}
				elems, _ := appendedElems(c)
				if len(elems) != 1 || elems[0] != item {
					return 0, 0, 0, false
				}
				app = c
			}
		}
	}
	if lk == nil || upd == nil || app == nil {
		return 0, 0, 0, false
	}
	for _, b := range h.Blocks {
		ifi, ok := b.Instrs[len(b.Instrs)-1].(*ssa.If)
		if !ok {
			continue
		}
		ex, ok := ifi.Cond.(*ssa.Extract)
		if !ok || ex.Tuple != ssa.Value(lk) || ex.Index != 1 {
			return 0, 0, 0, false
		}
		found, notFound := b.Succs[0], b.Succs[1]
		fr, ok1 := found.Instrs[len(found.Instrs)-1].(*ssa.Return)
		if !ok1 || len(fr.Results) != 1 || fr.Results[0] != list {
			return 0, 0, 0, false
		}
		for _, in := range found.Instrs {
			if _, isU := in.(*ssa.MapUpdate); isU {
				return 0, 0, 0, false
			}
		}
		if !(notFound == upd.Block() || notFound.Dominates(upd.Block())) || !(notFound == app.Block() || notFound.Dominates(app.Block())) {
			return 0, 0, 0, false
		}
		nr, ok2 := app.Block().Instrs[len(app.Block().Instrs)-1].(*ssa.Return)
		if !ok2 || len(nr.Results) != 1 || nr.Results[0] != ssa.Value(app) {
			return 0, 0, 0, false
		}
		return li, mi, ii, true
	}
	return 0, 0, 0, false
}

// condAppendPipeline recognises, in host, two nested unconditional full ranges over the whole expansion whose
// body is acc = appendIfUnseen(acc, seen, text(node)) with a fresh seen-set used by nothing else, acc starting
// empty and being what host returns. hostCall (may be nil) is the call that hands host the expansion and, for
// a rendering function passed as a parameter, the function.
func condAppendPipeline(p *Prog, qz *quantizer, host *ssa.Function, hostCall *ssa.Call) (why string, at token.Pos, acc ssa.Value, ok bool) {
	for _, b := range host.Blocks {
		for _, in := range b.Instrs {
			c, isCall := in.(*ssa.Call)
			if !isCall || c.Call.StaticCallee() == nil {
				continue
			}
			li, mi, ii, isH := condAppendHelper(p, c.Call.StaticCallee())
			if !isH || len(c.Call.Args) != 3 {
				continue
			}
			at = c.Pos()
			inner, isPhi := c.Call.Args[li].(*ssa.Phi)
			if !isPhi {
				return "the list handed to the helper is not the loop's accumulator", at, nil, false
			}
			mm, isMake := c.Call.Args[mi].(*ssa.MakeMap)
			if !isMake {
				return "the seen-set is not a fresh map", at, nil, false
			}
			for _, ref := range *mm.Referrers() {
				if ref != ssa.Instruction(c) {
					if _, isDbg := ref.(*ssa.DebugRef); !isDbg {
						return "the seen-set is used by something other than the helper", at, nil, false
					}
				}
			}
			// the text
			pv := qz.prov(c.Call.Args[ii], 0)
			if tc, isTC := c.Call.Args[ii].(*ssa.Call); isTC && tc.Call.StaticCallee() == nil && hostCall != nil {
				// rendered by a function the host was handed: what that function returns for the current element
				if prm, isPrm := tc.Call.Value.(*ssa.Parameter); isPrm && len(tc.Call.Args) == 1 {
					for i, hp := range host.Params {
						if hp != prm || i >= len(hostCall.Call.Args) {
							continue
						}
						fv := hostCall.Call.Args[i]
						if ct, isCT := fv.(*ssa.ChangeType); isCT {
							fv = ct.X
						}
						if rf, isFn := fv.(*ssa.Function); isFn && len(rf.Blocks) == 1 && len(rf.Params) == 1 {
							if ret, isRet := rf.Blocks[0].Instrs[len(rf.Blocks[0].Instrs)-1].(*ssa.Return); isRet && len(ret.Results) == 1 {
								qz.elemVar[rf.Params[0]] = qz.prov(tc.Call.Args[0], 0)
								pv = qz.prov(ret.Results[0], 0)
								delete(qz.elemVar, rf.Params[0])
							}
						}
					}
				}
			}
			if !(strings.Contains(pv, "reconstructedLicenseString(elem(") || strings.Contains(pv, ").reconstructedLicenseString(")) {
				return "what is added is not the canonical text of the current node: " + pv, at, nil, false
			}
			ih, innerColl := innermostRangeLoop(host, c.Block())
			if ih == nil || inner.Block() != ih {
				return "the helper call is not in the range loop that carries its accumulator", at, nil, false
			}
			for _, pr := range ih.Preds {
				if ih.Dominates(pr) && !(c.Block() == pr || c.Block().Dominates(pr)) {
					return "a text is offered only conditionally", at, nil, false
				}
			}
			ld, isLd := innerColl.(*ssa.UnOp)
			if !isLd || ld.Op != token.MUL {
				return "the inner loop does not range over an alternative of the expansion", at, nil, false
			}
			ia, isIA := ld.X.(*ssa.IndexAddr)
			if !isIA || isRangeIndexOf(ia.Index, ia.X) != nil {
				return "the inner loop does not range over an alternative of the expansion", at, nil, false
			}
			xv := qz.prov(ia.X, 0)
			if !expandCollRe.MatchString(strings.Replace(xv, "param:expression", "param:testExpression", 1)) {
				return "the outer loop does not range over the whole expansion of the parsed expression: " + xv, at, nil, false
			}
			oh := rangeHeaderOf(ia.Index)
			if oh == nil {
				return "no outer range loop", at, nil, false
			}
			for _, pr := range oh.Preds {
				if oh.Dominates(pr) && !(ih == pr || ih.Dominates(pr)) {
					return "an alternative is skipped", at, nil, false
				}
			}
			// accumulator chain: outer phi (empty start, inner phi) ← inner phi (outer phi, helper result)
			var outer *ssa.Phi
			for _, e := range inner.Edges {
				switch x := e.(type) {
				case *ssa.Call:
					if x != c {
						return "the accumulator is updated by something other than the helper", at, nil, false
					}
				case *ssa.Phi:
					if x.Block() != oh || outer != nil {
						return "the accumulator does not come from the outer loop", at, nil, false
					}
					outer = x
				default:
					return "the accumulator has an unexpected incoming value", at, nil, false
				}
			}
			if outer == nil {
				return "the accumulator is not carried by the outer loop", at, nil, false
			}
			for _, e := range outer.Edges {
				switch x := e.(type) {
				case *ssa.Phi:
					if x != inner {
						return "the outer accumulator merges with another list", at, nil, false
					}
				case *ssa.Const:
					if !x.IsNil() {
						return "the accumulator does not start empty", at, nil, false
					}
				case *ssa.Slice:
					a, isA := x.X.(*ssa.Alloc)
					if !isA {
						return "the accumulator does not start empty", at, nil, false
					}
					if arr, isArr := a.Type().Underlying().(*types.Pointer).Elem().Underlying().(*types.Array); !isArr || arr.Len() != 0 {
						return "the accumulator does not start empty", at, nil, false
					}
				case *ssa.MakeSlice:
					if k, isK := x.Len.(*ssa.Const); !isK || k.Value == nil || k.Int64() != 0 {
						return "the accumulator does not start empty", at, nil, false
					}
				default:
					return "the accumulator does not start empty", at, nil, false
				}
			}
			// the host returns the accumulator
			for _, rb := range host.Blocks {
				if ret, isRet := rb.Instrs[len(rb.Instrs)-1].(*ssa.Return); isRet && host != nil && hostCall != nil {
					if len(ret.Results) != 1 || ret.Results[0] != ssa.Value(outer) {
						return "the helper's caller does not return the accumulator", at, nil, false
					}
				}
			}
			return "", at, outer, true
		}
	}
	return "", token.NoPos, nil, false
}
