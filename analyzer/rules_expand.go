package main

import (
	"fmt"
	"go/token"
	"go/types"
	"sort"
	"strings"

	"golang.org/x/tools/go/ssa"
)

// The expansion cluster: in-module functions reachable from (*node).expand.
func expansionCluster(p *Prog) ([]*ssa.Function, *ssa.Function) {
	root := p.Func(p.ExpPkg, "(*node).expand")
	if root == nil {
		return nil, nil
	}
	seen := map[*ssa.Function]bool{}
	var out []*ssa.Function
	var walk func(f *ssa.Function)
	walk = func(f *ssa.Function) {
		if seen[f] || !p.InModule(f) {
			return
		}
		seen[f] = true
		out = append(out, f)
		for _, b := range f.Blocks {
			for _, in := range b.Instrs {
				if ci, ok := in.(ssa.CallInstruction); ok {
					if c := ci.Common().StaticCallee(); c != nil {
						walk(c)
					}
					for _, a := range ci.Common().Args {
						if mc, ok := a.(*ssa.MakeClosure); ok {
							walk(mc.Fn.(*ssa.Function))
						}
					}
				}
			}
		}
	}
	walk(root)
	sort.Slice(out, func(i, j int) bool { return out[i].String() < out[j].String() })
	return out, root
}

// noNodeLeaves: neither f nor anything it calls in the module returns, stores or appends a value whose
// type contains nodes.
func noNodeLeaves(p *Prog, f *ssa.Function, node *types.Named, seen map[*ssa.Function]bool) bool {
	if seen[f] {
		return true
	}
	seen[f] = true
	res := f.Signature.Results()
	for i := 0; i < res.Len(); i++ {
		if containsNodes(res.At(i).Type(), node) {
			return false
		}
	}
	for _, b := range f.Blocks {
		for _, in := range b.Instrs {
			switch t := in.(type) {
			case *ssa.Store:
				if containsNodes(t.Val.Type(), node) {
					if al, ok := t.Addr.(*ssa.Alloc); ok && !al.Heap {
						continue
					}
					return false
				}
			case *ssa.MapUpdate:
				if containsNodes(t.Value.Type(), node) || containsNodes(t.Key.Type(), node) {
					return false
				}
			case *ssa.Send, *ssa.Go, *ssa.Defer:
				return false
			case ssa.CallInstruction:
				com := t.Common()
				if bi, ok := com.Value.(*ssa.Builtin); ok {
					if bi.Name() == "append" || bi.Name() == "copy" {
						if v, ok := in.(ssa.Value); ok && containsNodes(v.Type(), node) {
							return false
						}
						if bi.Name() == "copy" && containsNodes(com.Args[0].Type(), node) {
							return false
						}
					}
					continue
				}
				c := com.StaticCallee()
				if c == nil {
					for _, a := range com.Args {
						if containsNodes(a.Type(), node) {
							return false
						}
					}
					continue
				}
				if p.InModule(c) {
					if !noNodeLeaves(p, c, node, seen) {
						return false
					}
					continue
				}
				if si := classifyStd(c); si.Class == stdMutatesArg {
					return false
				}
			}
		}
	}
	return true
}

func nodeType(p *Prog) *types.Named {
	if o := p.ExpPkg.Types.Scope().Lookup("node"); o != nil {
		if n, ok := o.Type().(*types.Named); ok {
			return n
		}
	}
	return nil
}

func isNodePtr(t types.Type, node *types.Named) bool {
	pt, ok := t.Underlying().(*types.Pointer)
	return ok && types.Identical(pt.Elem(), node)
}

// containsNodes: slice (of slices) of *node.
func containsNodes(t types.Type, node *types.Named) bool {
	for d := 0; d < 4; d++ {
		s, ok := t.Underlying().(*types.Slice)
		if !ok {
			return false
		}
		if isNodePtr(s.Elem(), node) {
			return true
		}
		t = s.Elem()
	}
	return false
}

func isNodeMethod(f *ssa.Function, node *types.Named) bool {
	r := f.Signature.Recv()
	return r != nil && isNodePtr(r.Type(), node)
}

func isBoolType(t types.Type) bool {
	b, ok := t.Underlying().(*types.Basic)
	return ok && b.Info()&types.IsBoolean != 0
}

// ---------------------------------------------------------------------------------------------
// X1 — role-dispatch coverage

type useObserver struct {
	fn    *ssa.Function
	sinks map[ssa.Instruction]bool
	calls map[*ssa.Call]string // calls that hand the node to another in-module function
}

func (o *useObserver) Visit(eng *Engine, fn *ssa.Function, in ssa.Instruction, env *Env) {
	if fn == o.fn && len(eng.stack) == 1 {
		if o.sinks[in] {
			env.marks["use"] = true
		}
		if c, ok := in.(*ssa.Call); ok && o.calls[c] != "" {
			env.marks["call:"+o.calls[c]] = true
		}
	}
}

// productiveSinks computes, for parameter v of f, the instructions whose execution means that v (or a
// value obtained from it through non-predicate in-module calls) contributes to f's result or to memory.
func productiveSinks(p *Prog, f *ssa.Function, v *ssa.Parameter, node *types.Named) map[ssa.Instruction]bool {
	derived := map[ssa.Value]bool{v: true}
	for changed := true; changed; {
		changed = false
		for _, b := range f.Blocks {
			for _, in := range b.Instrs {
				val, ok := in.(ssa.Value)
				if !ok || derived[val] {
					continue
				}
				d := false
				switch t := in.(type) {
				case *ssa.Call:
					if isBoolType(t.Type()) {
						break
					}
					for _, a := range t.Call.Args {
						if derived[a] {
							d = true
						}
					}
				case *ssa.Extract:
					d = derived[t.Tuple]
				case *ssa.ChangeType:
					d = derived[t.X]
				case *ssa.Slice:
					d = derived[t.X]
				case *ssa.MakeInterface:
					d = derived[t.X]
				case *ssa.IndexAddr:
					d = derived[t.X]
				case *ssa.UnOp:
					d = t.Op == token.MUL && derived[t.X]
				}
				// phis are deliberately not derived: a value merged from several paths says nothing about
				// the path actually taken (uses through phis are credited at the defining instruction)
				if d {
					derived[val] = true
					changed = true
				}
			}
		}
	}
	// consumer: an instruction that uses operand x productively
	consumes := func(in ssa.Instruction, x ssa.Value) bool {
		switch t := in.(type) {
		case *ssa.Store:
			return t.Val == x
		case *ssa.Return:
			for _, r := range t.Results {
				if r == x {
					return true
				}
			}
		case *ssa.MakeClosure:
			for _, b := range t.Bindings {
				if b == x {
					return true
				}
			}
		case ssa.CallInstruction:
			com := t.Common()
			uses := false
			for _, a := range com.Args {
				if a == x {
					uses = true
				}
			}
			if !uses {
				return false
			}
			if bi, ok := com.Value.(*ssa.Builtin); ok {
				return bi.Name() == "append" || bi.Name() == "copy"
			}
			callee := com.StaticCallee()
			if callee == nil {
				return true
			}
			if isNodeMethod(callee, node) {
				return false // predicates and accessors on the node itself do not consume it
			}
			return true
		}
		return false
	}
	// does value x reach a consumer through phis only?
	var reaches func(x ssa.Value, seen map[ssa.Value]bool) bool
	reaches = func(x ssa.Value, seen map[ssa.Value]bool) bool {
		if seen[x] || x.Referrers() == nil {
			return false
		}
		seen[x] = true
		for _, r := range *x.Referrers() {
			if consumes(r, x) {
				return true
			}
			if phi, ok := r.(*ssa.Phi); ok && reaches(phi, seen) {
				return true
			}
			if ex, ok := r.(*ssa.Extract); ok && reaches(ex, seen) {
				return true
			}
		}
		return false
	}
	sinks := map[ssa.Instruction]bool{}
	for _, b := range f.Blocks {
		for _, in := range b.Instrs {
			// direct consumption of a derived value
			for _, op := range in.Operands(nil) {
				if *op != nil && derived[*op] && consumes(in, *op) {
					sinks[in] = true
				}
			}
			// definition of a derived value that reaches a consumer through phis
			if val, ok := in.(ssa.Value); ok && derived[val] {
				if _, isPhi := in.(*ssa.Phi); !isPhi {
					viaPhi := false
					for _, r := range *val.Referrers() {
						if phi, ok := r.(*ssa.Phi); ok && reaches(phi, map[ssa.Value]bool{}) {
							viaPhi = true
						}
					}
					if viaPhi {
						sinks[in] = true
					}
				}
			}
		}
	}
	return sinks
}

// describeNodeCase renders role / conjunction of the (materialised) node a pointer denotes in env.
func describeNodeCase(eng *Engine, env *Env, a AV) string {
	obj := a.Obj
	if obj == 0 && a.Sym != 0 {
		obj = env.tgt[a.Sym]
	}
	if obj == 0 {
		return "node(unmaterialised)"
	}
	role := "?"
	if c, ok := env.cells[cellKey{obj, ".role"}]; ok {
		if s, ok := c.single(); ok {
			role = s
		}
	}
	out := "role=" + role
	if ex, ok := env.cells[cellKey{obj, ".exp"}]; ok && ex.K == KPtr && env.nilnessOf(ex) == nonNil {
		eo := ex.Obj
		if eo == 0 && ex.Sym != 0 {
			eo = env.tgt[ex.Sym]
		}
		if eo != 0 {
			if c, ok := env.cells[cellKey{eo, ".conjunction"}]; ok {
				if s, ok := c.single(); ok {
					out += " conjunction=" + s
				}
			}
		}
	}
	return out
}

func roleNames(p *Prog) map[string]string {
	out := map[string]string{}
	sc := p.ExpPkg.Types.Scope()
	for _, n := range sc.Names() {
		if c, ok := sc.Lookup(n).(*types.Const); ok {
			if nm, ok := c.Type().(*types.Named); ok && nm.Obj().Name() == "nodeRole" {
				out[c.Val().ExactString()] = n
			}
		}
	}
	return out
}

func rulesExpansion(p *Prog, r *Report, eng *Engine) {
	r.Rule("X1", "necessary", 3, "role-dispatch coverage: in every function of the expansion cluster that tests the kind of a *node parameter, each kind of node (every published shape: license, license reference, AND expression, OR expression) reaches, on every path, an instruction that makes the node contribute to the result; otherwise a term of that kind silently disappears")
	r.Rule("X2", "necessary", 0, "no truncation of alternative lists: in the expansion cluster no element of a [][]*node / []*node value is selected by a non-range index and no such value is re-sliced, except to feed len or a comparison")
	r.Rule("X3", "sufficient", 5, "append ownership: every append to a slice of nodes is to a fresh slice, to the loop's own accumulator, in place (result stored back where the operand was loaded from), or a transfer of a parameter whose argument is dead at every call site; otherwise two holders share one backing array and one of them is appended to")
	r.Rule("X5", "necessary", 5, "expansion neither invents nor alters nodes: no node or partial is allocated in the expansion cluster, and no field of node / expressionNodePartial / licenseNodePartial / referenceNodePartial is written after construction anywhere")

	node := nodeType(p)
	cluster, root := expansionCluster(p)
	if node == nil || root == nil {
		r.Unknown("X1", "anchors", "-", "unresolved anchor: type node or method (*node).expand")
		return
	}
	names := roleNames(p)
	var clusterNames []string
	for _, f := range cluster {
		clusterNames = append(clusterNames, p.shortKey(f))
	}
	r.Extra["expansion_cluster"] = clusterNames

	// ---- X1
	dispatch := map[string]map[string]string{} // case -> function -> callees the node is handed to
	dispatchSeen := map[string]map[string]bool{}
	nodeShapes := eng.shapesOf(node)
	for _, f := range cluster {
		if f.Parent() != nil {
			continue
		}
		for pi, prm := range f.Params {
			if !isNodePtr(prm.Type(), node) {
				continue
			}
			// subject: f applies a bool-returning node method directly to prm and returns node lists
			predicate := false
			for _, ref := range *prm.Referrers() {
				if c, ok := ref.(*ssa.Call); ok {
					if callee := c.Call.StaticCallee(); callee != nil && isNodeMethod(callee, node) && isBoolType(c.Type()) && len(c.Call.Args) > 0 && c.Call.Args[0] == prm {
						predicate = true
					}
				}
			}
			res := f.Signature.Results()
			if !predicate || res.Len() != 1 || !containsNodes(res.At(0).Type(), node) {
				continue
			}
			r.Funcs[p.shortKey(f)] = true
			sinks := productiveSinks(p, f, prm, node)
			for si := range nodeShapes {
				args := make([]CF, len(f.Params))
				if ent := eng.entry[f]; ent != nil {
					copy(args, ent)
				}
				args[pi] = CF{K: KPtr, Nil: nonNil, Shapes: []int{si}}
				obs := &useObserver{fn: f, sinks: sinks, calls: map[*ssa.Call]string{}}
				for _, b := range f.Blocks {
					for _, in := range b.Instrs {
						if c, ok := in.(*ssa.Call); ok {
							callee := c.Call.StaticCallee()
							if callee == nil || !p.InModule(callee) || isBoolType(c.Type()) || !eng.rec[callee] {
								continue // only the recursive expansion functions form the callee family
							}
							for _, a := range c.Call.Args {
								if a == ssa.Value(prm) {
									obs.calls[c] = callee.Name()
								}
							}
						}
					}
				}
				outs := eng.RunStandalone(f, args, obs)
				cases := map[string][2]int{}
				for _, o := range outs {
					d := describeNodeCase(eng, o.Env, eng.lastArgs[pi])
					c := cases[d]
					if o.Env.marks["use"] {
						c[0]++
					} else {
						c[1]++
					}
					cases[d] = c
					for m := range o.Env.marks {
						if strings.HasPrefix(m, "call:") {
							pretty := d
							for k, n := range names {
								pretty = strings.ReplaceAll(pretty, "role="+k, "role="+n)
							}
							if dispatch[pretty] == nil {
								dispatch[pretty] = map[string]string{}
							}
							prev := dispatch[pretty][p.shortKey(f)]
							if !strings.Contains(prev, strings.TrimPrefix(m, "call:")) {
								dispatch[pretty][p.shortKey(f)] = strings.TrimSpace(prev + " " + strings.TrimPrefix(m, "call:"))
							}
						}
					}
					{
						pretty := d
						for k, n := range names {
							pretty = strings.ReplaceAll(pretty, "role="+k, "role="+n)
						}
						if dispatch[pretty] == nil {
							dispatch[pretty] = map[string]string{}
						}
						if _, ok := dispatch[pretty][p.shortKey(f)]; !ok {
							dispatch[pretty][p.shortKey(f)] = ""
						}
					}
				}
				var ds []string
				for d := range cases {
					ds = append(ds, d)
				}
				sort.Strings(ds)
				if len(ds) == 0 {
					r.Note("X1: %s with %s restricted to shape %d produced no return (path infeasible)", p.shortKey(f), prm.Name(), si)
				}
				for _, d := range ds {
					pretty := d
					for k, n := range names {
						pretty = strings.ReplaceAll(pretty, "role="+k, "role="+n)
					}
					key := fmt.Sprintf("%s|%s|%s", p.shortKey(f), prm.Name(), pretty)
					c := cases[d]
					if c[1] > 0 {
						r.Bad("X1", key, p.pos(f.Pos()), fmt.Sprintf("a node with %s passes through %s on a path where neither the node nor anything obtained from it is stored, returned, appended or handed to another function: terms of this kind are dropped from the expansion (%d of %d return states)", pretty, f.Name(), c[1], c[0]+c[1]))
					} else {
						r.OK("X1", key, p.pos(f.Pos()), "contributes on every path", fmt.Sprintf("%d return states, %d sink instructions", c[0], len(sinks)), true)
					}
				}
			}
		}
	}

	r.Extra["dispatch_by_case"] = dispatch
	_ = dispatchSeen

	// ---- X2
	for _, f := range cluster {
		// comparators passed to sort.Slice get their indices from the sort contract
		if f.Parent() != nil {
			continue
		}
		// a function from which no node can get out (no node-typed result, store or append, transitively)
		// only answers questions about the lists — a comparator extracted into a named function, a
		// predicate: whatever it selects by position cannot be lost from the expansion
		if noNodeLeaves(p, f, node, map[*ssa.Function]bool{}) {
			r.OK("X2", p.shortKey(f)+"|comparator", p.pos(f.Pos()), "no node leaves this function", "", false)
			continue
		}
		for _, b := range f.Blocks {
			for _, in := range b.Instrs {
				switch t := in.(type) {
				case *ssa.IndexAddr:
					if !containsNodes(t.X.Type(), node) {
						continue
					}
					key := p.shortKey(f) + "|" + instrDesc(in)
					if isRangeIndexOf(t.Index, t.X) == nil {
						r.OK("X2", key, p.pos(in.Pos()), "range element", "", false)
						continue
					}
					if onlyFeedsLenOrStore(t) {
						r.OK("X2", key, p.pos(in.Pos()), "only len/compare or written", "", true)
						continue
					}
					r.Bad("X2", key, p.pos(in.Pos()), fmt.Sprintf("%s selects one element of a list of alternatives/terms by position and uses it; the other elements are lost", instrDesc(in)))
				case *ssa.Slice:
					if !containsNodes(t.X.Type(), node) || (t.Low == nil && t.High == nil) {
						continue
					}
					if _, isArr := t.X.Type().Underlying().(*types.Pointer); isArr {
						continue
					}
					// the tail of a slice this function has just made, used only as the destination of copy
					if _, fresh := t.X.(*ssa.MakeSlice); fresh {
						onlyCopyDst := true
						for _, ref := range *t.Referrers() {
							c, ok := ref.(*ssa.Call)
							if _, isDbg := ref.(*ssa.DebugRef); isDbg {
								continue
							}
							if !ok {
								onlyCopyDst = false
								continue
							}
							if b, ok := c.Call.Value.(*ssa.Builtin); !ok || b.Name() != "copy" || c.Call.Args[0] != ssa.Value(t) {
								onlyCopyDst = false
							}
						}
						if onlyCopyDst {
							r.OK("X2", p.shortKey(f)+"|"+instrDesc(in), p.pos(in.Pos()), "destination window of a copy into a fresh slice", "", false)
							continue
						}
					}
					key := p.shortKey(f) + "|" + instrDesc(in)
					r.Bad("X2", key, p.pos(in.Pos()), fmt.Sprintf("%s re-slices a list of alternatives/terms inside the expansion: elements outside the bounds are lost", instrDesc(in)))
				}
			}
		}
	}

	// ---- X6: the expansion does not filter. Only for the term-extraction property: dropping an absorbed
	// alternative (A OR (A AND B)) leaves the verdict of Satisfies unchanged but loses B for ExtractLicenses.
	if r.Property == "C06" {
		r.Rule("X6", "necessary", 1, "no filtering of alternatives or terms: in the expansion cluster every loop that accumulates node lists by append appends on every iteration (an append under a branch inside the loop drops alternatives or terms selectively)")
		for _, f := range cluster {
			for _, al := range findAppendLoops(f) {
				if !containsNodes(al.App.Type(), node) {
					continue
				}
				key := fmt.Sprintf("%s|append loop over %s", p.shortKey(f), describe(al.Coll))
				if al.Unconditional {
					r.OK("X6", key, p.pos(al.App.Pos()), "appends on every iteration", "", true)
				} else {
					r.Bad("X6", key, p.pos(al.App.Pos()), "the loop appends to its list of alternatives/terms only on some iterations: the others are dropped from the expansion")
				}
			}
		}
	}

	// ---- X3
	for _, f := range p.RList {
		for _, b := range f.Blocks {
			for _, in := range b.Instrs {
				c, ok := in.(*ssa.Call)
				if !ok {
					continue
				}
				bi, ok := c.Call.Value.(*ssa.Builtin)
				if !ok || bi.Name() != "append" {
					continue
				}
				if !containsNodes(c.Type(), node) {
					continue
				}
				key := p.shortKey(f) + "|append(" + describe(c.Call.Args[0]) + ", …)"
				cls, why := classifyAppend(p, f, c)
				if cls == "shared" {
					r.Bad("X3", key, p.pos(in.Pos()), why)
				} else {
					r.OK("X3", key, p.pos(in.Pos()), cls, why, true)
				}
			}
		}
	}

	// ---- X3 (second half): one slice header with two holders
	for _, f := range cluster {
		for _, b := range f.Blocks {
			for _, in := range b.Instrs {
				v, ok := in.(ssa.Value)
				if !ok || !containsNodes(v.Type(), node) || v.Referrers() == nil {
					continue
				}
				if _, isPhi := in.(*ssa.Phi); isPhi {
					continue
				}
				var holders []string
				for _, ref := range *v.Referrers() {
					switch t := ref.(type) {
					case *ssa.Store:
						if t.Val == v {
							holders = append(holders, "stored at "+p.pos(t.Pos()))
						}
					case *ssa.Return:
						holders = append(holders, "returned at "+p.pos(t.Pos()))
					case *ssa.Call:
						if bi, ok := t.Call.Value.(*ssa.Builtin); ok && bi.Name() == "append" && t.Call.Args[0] == v {
							holders = append(holders, "appended to at "+p.pos(t.Pos()))
						}
					}
				}
				if len(holders) >= 2 {
					r.Bad("X3", p.shortKey(f)+"|holders("+describe(v)+")", p.pos(in.Pos()), fmt.Sprintf("the slice %s gets %d holders (%s): alternatives that should be independent share one backing array", describe(v), len(holders), strings.Join(holders, ", ")))
				}
			}
		}
	}

	// ---- X5
	family := map[string]bool{}
	for _, n := range []string{"node", "expressionNodePartial", "licenseNodePartial", "referenceNodePartial"} {
		if o := p.ExpPkg.Types.Scope().Lookup(n); o != nil {
			family[o.Type().String()] = true
		}
	}
	for _, f := range cluster {
		bad := []string{}
		for _, b := range f.Blocks {
			for _, in := range b.Instrs {
				if al, ok := in.(*ssa.Alloc); ok {
					if family[al.Type().Underlying().(*types.Pointer).Elem().String()] {
						bad = append(bad, fmt.Sprintf("%s: allocates a %s", p.pos(in.Pos()), al.Type().Underlying().(*types.Pointer).Elem()))
					}
				}
			}
		}
		if len(bad) > 0 {
			r.Bad("X5", "noalloc|"+p.shortKey(f), p.pos(f.Pos()), strings.Join(bad, "; "))
		} else {
			r.OK("X5", "noalloc|"+p.shortKey(f), p.pos(f.Pos()), "no node construction", "", false)
		}
	}
	for _, w := range fieldWrites(p, family) {
		key := fmt.Sprintf("writeonce|%s", w.field)
		if len(w.mutations) > 0 {
			r.Bad("X5", key, p.pos(w.mutations[0].Pos()), fmt.Sprintf("field %s is written after construction (%d sites; first at %s): a node can change while it is shared between alternatives", w.field, len(w.mutations), p.pos(w.mutations[0].Pos())))
		} else {
			r.OK("X5", key, "-", "write-once", fmt.Sprintf("%d construction stores", w.construction), true)
		}
	}
}

func onlyFeedsLenOrStore(ia *ssa.IndexAddr) bool {
	for _, r := range *ia.Referrers() {
		switch t := r.(type) {
		case *ssa.Store:
			if t.Addr != ia {
				return false
			}
		case *ssa.UnOp:
			for _, rr := range *t.Referrers() {
				switch u := rr.(type) {
				case *ssa.Call:
					bi, ok := u.Call.Value.(*ssa.Builtin)
					if !ok || (bi.Name() != "len" && bi.Name() != "cap") {
						return false
					}
				case *ssa.BinOp:
				case *ssa.DebugRef:
				default:
					return false
				}
			}
		case *ssa.DebugRef:
		default:
			return false
		}
	}
	return true
}

// ---------------------------------------------------------------------------------------------
// A2 — construction vs mutation stores

type fieldWriteInfo struct {
	field        string
	construction int
	mutations    []ssa.Instruction
}

// baseIsLocalAlloc: the object a field address belongs to was allocated in the same function.
func baseIsLocalAlloc(v ssa.Value, d int) bool {
	if d > 6 {
		return false
	}
	switch t := v.(type) {
	case *ssa.Alloc:
		return true
	case *ssa.FieldAddr:
		return baseIsLocalAlloc(t.X, d+1)
	case *ssa.IndexAddr:
		return baseIsLocalAlloc(t.X, d+1)
	}
	return false
}

// storeIntoCallersFreshObject: the object written is one f was handed through a pointer parameter, and at
// every call site of f that argument is (the address of) an object the caller allocated itself — a partial
// still under construction that a helper fills in (t.parseModifiers(&lic)). f must have at least one static
// call site and must not be used as a value.
func storeIntoCallersFreshObject(p *Prog, funcs []*ssa.Function, f *ssa.Function, base ssa.Value, depth int) bool {
	if depth > 3 {
		return false
	}
	for d := 0; d < 6; d++ {
		switch t := base.(type) {
		case *ssa.FieldAddr:
			base = t.X
			continue
		case *ssa.IndexAddr:
			base = t.X
			continue
		}
		break
	}
	prm, ok := base.(*ssa.Parameter)
	if !ok {
		return false
	}
	idx := -1
	for i, q := range f.Params {
		if q == prm {
			idx = i
		}
	}
	if idx < 0 {
		return false
	}
	sites := 0
	for _, g := range funcs {
		for _, b := range g.Blocks {
			for _, in := range b.Instrs {
				if mc, ok := in.(*ssa.MakeClosure); ok && mc.Fn == ssa.Value(f) {
					return false
				}
				ci, ok := in.(ssa.CallInstruction)
				if !ok {
					continue
				}
				com := ci.Common()
				for _, a := range com.Args {
					if a == ssa.Value(f) {
						return false // handed on as a value
					}
				}
				if com.StaticCallee() != f {
					continue
				}
				sites++
				if idx >= len(com.Args) {
					return false
				}
				arg := com.Args[idx]
				if baseIsLocalAlloc(arg, 0) {
					continue
				}
				if !storeIntoCallersFreshObject(p, funcs, g, arg, depth+1) {
					return false
				}
			}
		}
	}
	return sites > 0
}

func fieldWrites(p *Prog, family map[string]bool) []fieldWriteInfo {
	m := map[string]*fieldWriteInfo{}
	var funcs []*ssa.Function
	for _, pk := range libPkgs(p) {
		funcs = append(funcs, p.AllModuleFuncs(pk)...)
	}
	// every field of the family gets an entry
	for tn := range family {
		for _, pk := range libPkgs(p) {
			sc := pk.Types.Scope()
			for _, n := range sc.Names() {
				if o, ok := sc.Lookup(n).(*types.TypeName); ok && o.Type().String() == tn {
					if st, ok := o.Type().Underlying().(*types.Struct); ok {
						for i := 0; i < st.NumFields(); i++ {
							k := tn + "." + st.Field(i).Name()
							m[k] = &fieldWriteInfo{field: strings.TrimPrefix(k, p.ModPath+"/")}
						}
					}
				}
			}
		}
	}
	for _, f := range funcs {
		if p.isTestPos(f.Pos()) {
			continue
		}
		for _, b := range f.Blocks {
			for _, in := range b.Instrs {
				st, ok := in.(*ssa.Store)
				if !ok {
					continue
				}
				fa, ok := st.Addr.(*ssa.FieldAddr)
				if !ok {
					continue
				}
				fk := fieldOf(fa)
				if !family[fk.Struct] {
					continue
				}
				w := m[fk.String()]
				if w == nil {
					w = &fieldWriteInfo{field: strings.TrimPrefix(fk.String(), p.ModPath+"/")}
					m[fk.String()] = w
				}
				if baseIsLocalAlloc(fa.X, 0) || storeIntoCallersFreshObject(p, funcs, f, fa.X, 0) {
					w.construction++
				} else {
					w.mutations = append(w.mutations, in)
				}
			}
		}
	}
	var ks []string
	for k := range m {
		ks = append(ks, k)
	}
	sort.Strings(ks)
	var out []fieldWriteInfo
	for _, k := range ks {
		out = append(out, *m[k])
	}
	return out
}

// ---------------------------------------------------------------------------------------------
// A7 — append classification

func classifyAppend(p *Prog, f *ssa.Function, c *ssa.Call) (string, string) {
	s := c.Call.Args[0]
	// escaping uses of a value other than the given append
	otherHolders := func(v ssa.Value, except ssa.Instruction) []string {
		var out []string
		if v.Referrers() == nil {
			return nil
		}
		for _, r := range *v.Referrers() {
			if r == except {
				continue
			}
			switch t := r.(type) {
			case *ssa.Store:
				if t.Val == v {
					out = append(out, "stored at "+p.pos(t.Pos()))
				}
			case *ssa.MakeClosure:
				out = append(out, "captured by a closure")
			case *ssa.Return:
				out = append(out, "returned at "+p.pos(t.Pos()))
			case ssa.CallInstruction:
				com := t.Common()
				if bi, ok := com.Value.(*ssa.Builtin); ok {
					if bi.Name() == "append" && com.Args[0] == v {
						out = append(out, "appended to again at "+p.pos(r.Pos()))
					}
					continue
				}
				if callee := com.StaticCallee(); callee != nil && p.InModule(callee) {
					out = append(out, "passed to "+callee.Name())
				}
			}
		}
		return out
	}
	var fresh func(v ssa.Value, seen map[ssa.Value]bool) bool
	fresh = func(v ssa.Value, seen map[ssa.Value]bool) bool {
		if seen[v] {
			return true
		}
		seen[v] = true
		switch t := v.(type) {
		case *ssa.Const:
			return t.IsNil()
		case *ssa.MakeSlice:
			return true
		case *ssa.Slice:
			if _, ok := t.X.(*ssa.Alloc); ok {
				return true
			}
			// full slice expression s[lo:hi:hi] caps capacity: appends reallocate
			if t.Max != nil && t.High != nil && t.Max == t.High {
				return true
			}
			return false
		case *ssa.Call:
			if bi, ok := t.Call.Value.(*ssa.Builtin); ok && bi.Name() == "append" {
				return fresh(t.Call.Args[0], seen) && len(otherHolders(t.Call.Args[0], t)) == 0
			}
			if callee := t.Call.StaticCallee(); callee != nil {
				switch callee.String() {
				case "slices.Clone", "slices.Clip", "slices.Concat":
					return true
				}
				if o := callee.Origin(); o != nil && o.Pkg != nil && o.Pkg.Pkg.Path() == "slices" {
					switch o.Name() {
					case "Clone", "Concat":
						return true
					case "Grow":
						// room reserved in a slice that is itself fresh (typically nil) and held by nothing else
						return len(t.Call.Args) == 2 && fresh(t.Call.Args[0], seen) && len(otherHolders(t.Call.Args[0], t)) == 0
					}
				}
			}
			return false
		case *ssa.Phi:
			for _, e := range t.Edges {
				if e == c {
					continue // the accumulator edge
				}
				if !fresh(e, seen) {
					return false
				}
			}
			return true
		}
		return false
	}
	if fresh(s, map[ssa.Value]bool{}) {
		// the result may only flow back into the accumulator or be held once
		if hs := otherHolders(s, c); len(hs) > 0 {
			if _, isPhi := s.(*ssa.Phi); !isPhi {
				return "shared", fmt.Sprintf("append(%s, …): the operand is also %s, so two holders share one backing array", describe(s), strings.Join(hs, ", "))
			}
		}
		return "fresh", "operand is nil, a new slice, a literal, or this loop's own accumulator"
	}
	// in place: s loaded from an address, result stored back to the same address
	if ld, ok := s.(*ssa.UnOp); ok && ld.Op == token.MUL {
		for _, r := range *c.Referrers() {
			if st, ok := r.(*ssa.Store); ok && st.Val == c && sameAddress(st.Addr, ld.X) {
				return "in-place", "result is stored back where the operand was loaded from"
			}
		}
	}
	// transfer: s is a parameter, the result is returned, the argument is dead at each call site
	if prm, ok := s.(*ssa.Parameter); ok {
		returned := false
		var reach func(v ssa.Value, seen map[ssa.Value]bool)
		reach = func(v ssa.Value, seen map[ssa.Value]bool) {
			if seen[v] || v.Referrers() == nil {
				return
			}
			seen[v] = true
			for _, r := range *v.Referrers() {
				switch t := r.(type) {
				case *ssa.Return:
					returned = true
				case *ssa.Phi:
					reach(t, seen)
				}
			}
		}
		reach(c, map[ssa.Value]bool{})
		if returned {
			idx := -1
			for i, q := range f.Params {
				if q == prm {
					idx = i
				}
			}
			okAll := true
			n := 0
			why := ""
			for _, g := range p.RList {
				for _, b := range g.Blocks {
					for _, in := range b.Instrs {
						call, ok := in.(*ssa.Call)
						if !ok || call.Call.StaticCallee() != f {
							continue
						}
						n++
						arg := call.Call.Args[idx]
						if cst, ok := arg.(*ssa.Const); ok && cst.IsNil() {
							continue
						}
						// the argument must have no use other than this call
						for _, r := range *arg.Referrers() {
							if r != in {
								if _, isDbg := r.(*ssa.DebugRef); !isDbg {
									okAll = false
									why = fmt.Sprintf("argument %s of the call at %s is used again at %s", describe(arg), p.pos(in.Pos()), p.pos(r.Pos()))
								}
							}
						}
					}
				}
			}
			if okAll && n > 0 {
				return "transfer", fmt.Sprintf("parameter appended to and returned; argument dead after each of %d call sites", n)
			}
			return "shared", "append to parameter " + prm.Name() + ": " + why
		}
	}
	return "shared", fmt.Sprintf("append(%s, …): the operand is neither fresh, nor this loop's accumulator, nor updated in place, nor a transferred parameter; the result shares its backing array with the operand, which stays reachable", describe(s))
}

func sameAddress(a, b ssa.Value) bool {
	if a == b {
		return true
	}
	switch x := a.(type) {
	case *ssa.IndexAddr:
		y, ok := b.(*ssa.IndexAddr)
		return ok && x.X == y.X && x.Index == y.Index
	case *ssa.FieldAddr:
		y, ok := b.(*ssa.FieldAddr)
		return ok && x.Field == y.Field && sameAddress(x.X, y.X)
	}
	return false
}
