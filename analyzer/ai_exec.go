package main

import (
	"fmt"
	"go/constant"
	"go/token"
	"go/types"
	"os"
	"sort"
	"strconv"

	"golang.org/x/tools/go/ssa"
	"golang.org/x/tools/go/ssa/ssautil"
)

// exec runs one non-terminator instruction; it may split (several successors) or kill (none).
func (eng *Engine) exec(fn *ssa.Function, in ssa.Instruction, env *Env) []*Env {
	switch t := in.(type) {
	case *ssa.DebugRef:
		return []*Env{env}
	case *ssa.Alloc:
		return eng.execAlloc(t, env)
	case *ssa.FieldAddr:
		return eng.execFieldAddr(t, env)
	case *ssa.Field:
		x := eng.val(env, t.X)
		st := t.X.Type().Underlying().(*types.Struct)
		name := "." + st.Field(t.Field).Name()
		res := top()
		if x.K == KStruct {
			ft := st.Field(t.Field).Type()
			if kindOf(ft) == KStruct {
				sub := AV{K: KStruct, Flds: map[string]AV{}}
				for p, v := range x.Flds {
					if len(p) > len(name) && p[:len(name)] == name && p[len(name)] == '.' {
						sub.Flds[p[len(name):]] = v
					}
				}
				res = sub
			} else if v, ok := x.Flds[name]; ok {
				res = v
			} else {
				res = eng.fromCF(env, defaultCF(ft, 0), ft, eng.instrKey(in))
			}
		} else {
			res = eng.fromCF(env, defaultCF(t.Type(), 0), t.Type(), eng.instrKey(in))
		}
		env.vals[t] = res
		return []*Env{env}
	case *ssa.IndexAddr:
		return eng.execIndexAddr(t, env)
	case *ssa.Index:
		// an element of a local table of functions ([...]func{f, g, h} ranged over): one of its entries
		if a, ok := eng.funcTableElem(env, t.X, t.Index); ok {
			env.vals[t] = a
			return []*Env{env}
		}
		// an element of a local array read through a copy of the array (for _, x := range [...]T{a, b}):
		// what the array's element cell holds (the copy is represented by the literal's own element cell)
		if x := eng.val(env, t.X); x.K == KSlice && x.Obj != 0 {
			if _, have := env.cells[cellKey{x.Obj, x.Path}]; have {
				v := eng.readAt(env, x.Obj, x.Path, t.Type())
				v.Src = nil
				env.vals[t] = eng.instantiate(env, v, t, "ix")
				return []*Env{env}
			}
		}
		env.vals[t] = eng.fromCF(env, defaultCF(t.Type(), 0), t.Type(), eng.instrKey(in))
		return []*Env{env}
	case *ssa.Lookup:
		x := eng.val(env, t.X)
		var res AV
		if x.K == KMap && x.Obj != 0 {
			mt := t.X.Type().Underlying().(*types.Map)
			res = eng.instantiate(env, eng.readAt(env, x.Obj, x.Path, mt.Elem()), in, "lk")
			// a missing key yields the zero value
			j := &joiner{eng: eng, a: env, b: env, out: env, site: eng.instrKey(in)}
			res = j.joinAV(res, zeroAV(mt.Elem()), "zero")
		} else if mt, ok := t.X.Type().Underlying().(*types.Map); ok {
			res = eng.fromCF(env, defaultCF(mt.Elem(), 0), mt.Elem(), eng.instrKey(in))
		} else {
			res = numTop() // string index
		}
		if t.CommaOk {
			res = AV{K: KTuple, Tup: []AV{res, boolAV(triU)}}
		}
		env.vals[t] = res
		return []*Env{env}
	case *ssa.UnOp:
		return eng.execUnOp(t, env)
	case *ssa.BinOp:
		env.vals[t] = eng.binop(env, t)
		return []*Env{env}
	case *ssa.Store:
		return eng.execStore(t, env)
	case *ssa.MapUpdate:
		m := eng.val(env, t.Map)
		if !eng.checkNonNil(in, m, env, "map "+t.Map.Name(), "nilmap") {
			return nil
		}
		env.setNil(m, nonNil)
		if m.K == KMap && m.Obj != 0 {
			mt := t.Map.Type().Underlying().(*types.Map)
			eng.writeAt(env, m.Obj, m.Path, eng.val(env, t.Value), mt.Elem())
		}
		return []*Env{env}
	case *ssa.Slice:
		return eng.execSlice(t, env)
	case *ssa.Extract:
		tu := eng.val(env, t.Tuple)
		if tu.K == KTuple && t.Index < len(tu.Tup) {
			env.vals[t] = tu.Tup[t.Index]
		} else {
			env.vals[t] = eng.fromCF(env, defaultCF(t.Type(), 0), t.Type(), eng.instrKey(in))
		}
		return []*Env{env}
	case *ssa.MakeInterface:
		x := eng.val(env, t.X)
		x.Src = nil
		env.vals[t] = AV{K: KIface, Nil: nonNil, In: &x}
		return []*Env{env}
	case *ssa.ChangeInterface:
		env.vals[t] = eng.val(env, t.X)
		return []*Env{env}
	case *ssa.ChangeType:
		env.vals[t] = eng.val(env, t.X)
		return []*Env{env}
	case *ssa.Convert:
		x := eng.val(env, t.X)
		if kindOf(t.Type()) == kindOf(t.X.Type()) && kindOf(t.Type()) == KNum {
			// numeric/string conversions keep constants only between integer types
			bi, ok1 := t.Type().Underlying().(*types.Basic)
			bx, ok2 := t.X.Type().Underlying().(*types.Basic)
			if ok1 && ok2 && bi.Info()&types.IsInteger != 0 && bx.Info()&types.IsInteger != 0 {
				env.vals[t] = stripSrc(x)
				return []*Env{env}
			}
			env.vals[t] = numTop()
			return []*Env{env}
		}
		if kindOf(t.Type()) == KSlice {
			// string -> []byte: fresh slice
			oid := eng.internObj(eng.instrKey(in))
			env.objs[oid] = &objInfo{Type: t.Type().Underlying().(*types.Slice).Elem(), Local: true, ElemCell: true, Summary: true, Desc: "converted bytes"}
			env.cells[cellKey{oid, "[]"}] = numTop()
			env.vals[t] = AV{K: KSlice, Nil: maybeNil, Obj: oid, Path: "[]"}
			return []*Env{env}
		}
		env.vals[t] = eng.fromCF(env, defaultCF(t.Type(), 0), t.Type(), eng.instrKey(in))
		return []*Env{env}
	case *ssa.MakeClosure:
		a := AV{K: KFunc, Nil: nonNil, Fn: t.Fn.(*ssa.Function)}
		for _, b := range t.Bindings {
			a.Bind = append(a.Bind, eng.val(env, b))
		}
		env.vals[t] = a
		return []*Env{env}
	case *ssa.MakeSlice:
		oid := eng.internObj(eng.instrKey(in))
		eng.resetObj(env, oid, t)
		et := t.Type().Underlying().(*types.Slice).Elem()
		env.objs[oid] = &objInfo{Type: et, Local: true, ElemCell: true, Summary: true, Desc: "make slice"}
		zeroLen := false
		if c, ok := t.Len.(*ssa.Const); ok && c.Value != nil && constant.Sign(c.Value) == 0 {
			zeroLen = true
		}
		if !zeroLen && !eng.totalInit(t) && !totalInitByCopy(t) {
			z := zeroAV(et)
			if z.K == KStruct {
				eng.writeAtInit(env, oid, "[]", z, et)
			} else {
				env.cells[cellKey{oid, "[]"}] = z
			}
		}
		env.vals[t] = AV{K: KSlice, Nil: nonNil, Obj: oid, Path: "[]"}
		return []*Env{env}
	case *ssa.MakeMap:
		oid := eng.internObj(eng.instrKey(in))
		eng.resetObj(env, oid, t)
		mt := t.Type().Underlying().(*types.Map)
		env.objs[oid] = &objInfo{Type: mt.Elem(), Local: true, ElemCell: true, Summary: true, Desc: "make map"}
		env.vals[t] = AV{K: KMap, Nil: nonNil, Obj: oid, Path: "[]"}
		return []*Env{env}
	case *ssa.MakeChan:
		env.vals[t] = AV{K: KMap, Nil: nonNil}
		return []*Env{env}
	case *ssa.TypeAssert:
		x := eng.val(env, t.X)
		var res AV
		if x.K == KIface && x.In != nil && types.Identical(t.AssertedType, t.X.Type()) {
			res = *x.In
		} else {
			res = eng.fromCF(env, defaultCF(t.AssertedType, 0), t.AssertedType, eng.instrKey(in))
		}
		if t.CommaOk {
			res = AV{K: KTuple, Tup: []AV{res, boolAV(triU)}}
		} else if eng.final {
			r := eng.derefs[in]
			if r == nil {
				r = &DerefRec{Instr: in, Fn: fn, What: "type assertion without comma-ok", Kind: "typeassert"}
				eng.derefs[in] = r
			}
			r.Visits++
			r.Bad++
			r.Witness = "a failed type assertion panics"
		}
		env.vals[t] = res
		return []*Env{env}
	case *ssa.Range:
		env.vals[t] = eng.val(env, t.X)
		return []*Env{env}
	case *ssa.Next:
		it := eng.val(env, t.Iter)
		tt := t.Type().(*types.Tuple)
		var k, v AV
		k = eng.fromCF(env, defaultCF(tt.At(1).Type(), 0), tt.At(1).Type(), eng.instrKey(in)+"k")
		if it.K == KMap && it.Obj != 0 {
			v = eng.instantiate(env, eng.readAt(env, it.Obj, it.Path, tt.At(2).Type()), in, "nx")
		} else {
			v = eng.fromCF(env, defaultCF(tt.At(2).Type(), 0), tt.At(2).Type(), eng.instrKey(in)+"v")
		}
		env.vals[t] = AV{K: KTuple, Tup: []AV{boolAV(triU), k, v}}
		return []*Env{env}
	case *ssa.Call:
		return eng.execCall(fn, t, env)
	case *ssa.Defer:
		eng.note("defer in %s: deferred call analysed at its defer statement", fn)
		return eng.execCall(fn, t, env)
	case *ssa.Go:
		eng.note("go statement in %s: spawned call analysed in place", fn)
		return eng.execCall(fn, t, env)
	case *ssa.RunDefers:
		return []*Env{env}
	case *ssa.Send, *ssa.Select:
		eng.note("channel operation in %s not modelled", fn)
		if v, ok := in.(ssa.Value); ok {
			env.vals[v] = eng.fromCF(env, defaultCF(v.Type(), 0), v.Type(), eng.instrKey(in))
		}
		return []*Env{env}
	case *ssa.SliceToArrayPointer, *ssa.MultiConvert:
		v := in.(ssa.Value)
		env.vals[v] = eng.fromCF(env, defaultCF(v.Type(), 0), v.Type(), eng.instrKey(in))
		return []*Env{env}
	}
	if v, ok := in.(ssa.Value); ok {
		eng.note("instruction %T not modelled; result unknown", in)
		env.vals[v] = eng.fromCF(env, defaultCF(v.Type(), 0), v.Type(), eng.instrKey(in))
	}
	return []*Env{env}
}

// resetObj prepares an allocation site for (re-)execution.
func (eng *Engine) resetObj(env *Env, oid ObjID, self ssa.Value) bool {
	if _, exists := env.objs[oid]; exists {
		if env.refsObj(oid, self) {
			env.objs[oid].Summary = true
			return true // keep contents, weak from now on
		}
		env.dropObj(oid)
	}
	return false
}

func (eng *Engine) execAlloc(t *ssa.Alloc, env *Env) []*Env {
	oid := eng.internObj(eng.instrKey(t))
	kept := eng.resetObj(env, oid, t)
	pt := t.Type().Underlying().(*types.Pointer).Elem()
	if at, ok := pt.Underlying().(*types.Array); ok {
		if !kept {
			env.objs[oid] = &objInfo{Type: at.Elem(), Local: true, ElemCell: true, Summary: true, Desc: "array " + t.Comment}
			if !eng.arrayFullyInit(t) {
				z := zeroAV(at.Elem())
				if z.K == KStruct {
					eng.writeAtInit(env, oid, "[]", z, at.Elem())
				} else {
					env.cells[cellKey{oid, "[]"}] = z
				}
			}
		}
		env.vals[t] = AV{K: KPtr, Obj: oid, Path: ""}
		return []*Env{env}
	}
	if !kept {
		env.objs[oid] = &objInfo{Type: pt, Local: true, Desc: "local " + t.Comment}
	}
	env.vals[t] = AV{K: KPtr, Obj: oid, Path: ""}
	return []*Env{env}
}

// arrayFullyInit: every element of the array is stored exactly once, with a constant index, in the
// allocating block (the composite-literal lowering).
func (eng *Engine) arrayFullyInit(al *ssa.Alloc) bool {
	if v, ok := eng.initArr[al]; ok {
		return v
	}
	at := al.Type().Underlying().(*types.Pointer).Elem().Underlying().(*types.Array)
	n := int(at.Len())
	set := make([]bool, n)
	ok := true
	for _, r := range *al.Referrers() {
		switch r := r.(type) {
		case *ssa.IndexAddr:
			c, isC := r.Index.(*ssa.Const)
			if !isC {
				ok = false
				break
			}
			i := int(c.Int64())
			stores := 0
			for _, rr := range *r.Referrers() {
				if st, isSt := rr.(*ssa.Store); isSt && st.Addr == r && st.Block() == al.Block() {
					stores++
				}
			}
			if i < 0 || i >= n || stores != 1 {
				ok = false
			} else {
				set[i] = true
			}
		case *ssa.Slice, *ssa.DebugRef:
		case *ssa.UnOp:
			// the array read as a whole (ranged over by value): a read
			if r.Op != token.MUL {
				ok = false
			}
		default:
			ok = false
		}
	}
	for _, s := range set {
		if !s {
			ok = false
		}
	}
	eng.initArr[al] = ok
	return ok
}

// totalInit (A8b): make([]T, len(xs)) whose every element is stored by a full range over xs before
// the slice can be returned or read.
func (eng *Engine) totalInit(ms *ssa.MakeSlice) bool {
	if v, ok := eng.initMake[ms]; ok {
		return v
	}
	res := func() bool {
		ln, ok := ms.Len.(*ssa.Call)
		if !ok {
			return false
		}
		b, ok := ln.Call.Value.(*ssa.Builtin)
		if !ok || b.Name() != "len" {
			return false
		}
		xs := ln.Call.Args[0]
		var hdr *ssa.BasicBlock
		var storeBlk *ssa.BasicBlock
		var rets []*ssa.Return
		var later []ssa.Instruction // uses other than the filling stores: they must come after the loop
		for _, r := range *ms.Referrers() {
			switch r := r.(type) {
			case *ssa.IndexAddr:
				if isRangeIndexOf(r.Index, xs) != nil {
					later = append(later, r)
					continue
				}
				h := r.Index.(*ssa.BinOp).X.(*ssa.Phi).Block()
				if hdr != nil && hdr != h {
					return false
				}
				hdr = h
				for _, rr := range *r.Referrers() {
					st, ok := rr.(*ssa.Store)
					if !ok || st.Addr != r {
						return false // read of an element or escaping address
					}
					if storeBlk != nil && storeBlk != st.Block() {
						return false
					}
					storeBlk = st.Block()
				}
			case *ssa.Return:
				rets = append(rets, r)
			case *ssa.DebugRef:
			default:
				if ri, ok := r.(ssa.Instruction); ok {
					later = append(later, ri)
				} else {
					return false
				}
			}
		}
		if hdr == nil || storeBlk == nil {
			return false
		}
		// every back edge into the header comes from a block dominated by the store block
		for _, p := range hdr.Preds {
			if hdr.Dominates(p) && !(storeBlk == p || storeBlk.Dominates(p)) {
				return false
			}
		}
		// the slice is only returned after the loop has run to completion
		exit := hdr.Succs[1]
		inLoop := map[*ssa.BasicBlock]bool{}
		for _, lb := range loopBody(hdr) {
			inLoop[lb] = true
		}
		if inLoop[exit] {
			return false
		}
		for _, r := range rets {
			if !(exit == r.Block() || exit.Dominates(r.Block())) {
				return false
			}
		}
		// any other use (a call that is handed the slice, a conversion, a read) happens after the loop too
		for _, u := range later {
			if !(exit == u.Block() || exit.Dominates(u.Block())) {
				return false
			}
		}
		return true
	}()
	eng.initMake[ms] = res
	if traceAI || os.Getenv("SPDXVERIF_TRACE_INIT") != "" {
		fmt.Fprintf(os.Stderr, "totalInit %s in %s = %v\n", ms.Name(), ms.Parent().Name(), res)
	}
	return res
}

// instantiate gives a value read from a summary cell a fresh identity for this read.
func (eng *Engine) instantiate(env *Env, a AV, in ssa.Instruction, tag string) AV {
	if a.Sym == 0 || !env.sumSym[a.Sym] {
		return a
	}
	s := eng.internSym(eng.instrKey(in) + ":" + tag)
	var self ssa.Value
	if v, ok := in.(ssa.Value); ok {
		self = v
	}
	eng.redefineSym(env, s, self)
	if env.sumSym[s] {
		// old instance still referenced: join facts
		env.nilOf[s] = joinNil(env.nilOf[s], env.nilOf[a.Sym])
		if os, ok := env.shapes[s]; ok {
			if ns, ok2 := env.shapes[a.Sym]; ok2 {
				env.shapes[s] = joinInts(os, ns)
			} else {
				delete(env.shapes, s)
			}
		}
	} else {
		env.nilOf[s] = env.nilOf[a.Sym]
		if ns, ok := env.shapes[a.Sym]; ok {
			env.shapes[s] = ns
		}
	}
	a.Sym = s
	return a
}

// deref resolves a pointer value to (object, path) environments; it records the nil obligation.
type locEnv struct {
	env  *Env
	obj  ObjID
	path string
}

func (eng *Engine) deref(in ssa.Instruction, ptr ssa.Value, env *Env, what string) []locEnv {
	a := eng.val(env, ptr)
	if a.K != KPtr {
		// unknown pointer-like value
		if !eng.checkNonNil(in, a, env, what, "nil") {
			return nil
		}
		oid := eng.internObj("unk:" + eng.instrKey(in))
		if _, ok := env.objs[oid]; !ok {
			env.objs[oid] = &objInfo{Summary: true, Desc: "unknown pointee"}
		}
		return []locEnv{{env, oid, ""}}
	}
	if !eng.checkNonNil(in, a, env, what, "nil") {
		return nil
	}
	env.setNil(a, nonNil)
	if a.Obj != 0 {
		return []locEnv{{env, a.Obj, a.Path}}
	}
	pt := ptr.Type().Underlying().(*types.Pointer).Elem()
	if n, _ := namedStruct(pt); n != nil && a.Sym != 0 {
		var out []locEnv
		for _, e := range eng.materialise(env, a, n) {
			if tg, ok := e.tgt[a.Sym]; ok {
				out = append(out, locEnv{e, tg, ""})
			}
		}
		return out
	}
	if a.Sym != 0 {
		if tg, ok := env.tgt[a.Sym]; ok {
			return []locEnv{{env, tg, ""}}
		}
		oid := eng.internObj("pt:" + eng.symName[a.Sym])
		if _, ok := env.objs[oid]; !ok {
			env.objs[oid] = &objInfo{Type: pt, Summary: env.sumSym[a.Sym], Desc: "pointee of " + eng.symName[a.Sym]}
		}
		env.tgt[a.Sym] = oid
		return []locEnv{{env, oid, ""}}
	}
	oid := eng.internObj("unk:" + eng.instrKey(in))
	if _, ok := env.objs[oid]; !ok {
		env.objs[oid] = &objInfo{Type: pt, Summary: true, Desc: "unknown pointee"}
	}
	return []locEnv{{env, oid, ""}}
}

func (eng *Engine) execFieldAddr(t *ssa.FieldAddr, env *Env) []*Env {
	st := t.X.Type().Underlying().(*types.Pointer).Elem().Underlying().(*types.Struct)
	name := "." + st.Field(t.Field).Name()
	var out []*Env
	for _, le := range eng.deref(t, t.X, env, "pointer "+describe(t.X)) {
		le.env.vals[t] = AV{K: KPtr, Obj: le.obj, Path: le.path + name}
		out = append(out, le.env)
	}
	return out
}

func describe(v ssa.Value) string {
	switch v := v.(type) {
	case *ssa.Parameter:
		return v.Name()
	case *ssa.Call:
		if c := v.Call.StaticCallee(); c != nil {
			return "result of " + c.Name() + "()"
		}
	case *ssa.UnOp:
		if fa, ok := v.X.(*ssa.FieldAddr); ok {
			st := fa.X.Type().Underlying().(*types.Pointer).Elem().Underlying().(*types.Struct)
			return describe(fa.X) + "." + st.Field(fa.Field).Name()
		}
		if ia, ok := v.X.(*ssa.IndexAddr); ok {
			return "element of " + describe(ia.X)
		}
	case *ssa.Phi:
		if v.Comment != "" {
			return v.Comment
		}
	case *ssa.Extract:
		return fmt.Sprintf("result #%d of %s", v.Index, describe(v.Tuple))
	case *ssa.Alloc:
		return "&" + v.Comment
	}
	return v.Name()
}

func (eng *Engine) execIndexAddr(t *ssa.IndexAddr, env *Env) []*Env {
	x := eng.val(env, t.X)
	switch t.X.Type().Underlying().(type) {
	case *types.Pointer: // pointer to array
		var out []*Env
		for _, le := range eng.deref(t, t.X, env, "array pointer "+describe(t.X)) {
			le.env.vals[t] = AV{K: KPtr, Obj: le.obj, Path: le.path + "[]"}
			out = append(out, le.env)
		}
		return out
	}
	if x.K == KSlice && x.Obj != 0 {
		env.vals[t] = AV{K: KPtr, Obj: x.Obj, Path: x.Path}
		return []*Env{env}
	}
	if x.K == KSlice && env.nilnessOf(x) == isNil {
		// a nil slice has no elements: indexing it is a bounds failure (engine-2's obligation), never a
		// continuing execution
		return nil
	}
	// unknown backing store
	key := "elems:" + eng.instrKey(t)
	if x.Sym != 0 {
		key = "elems:" + eng.symName[x.Sym]
	}
	oid := eng.internObj(key)
	if _, ok := env.objs[oid]; !ok {
		et := t.Type().Underlying().(*types.Pointer).Elem()
		env.objs[oid] = &objInfo{Type: et, Summary: true, ElemCell: true, Desc: "elements of unknown slice"}
		v := eng.fromCF(env, defaultCF(et, 0), et, key)
		if v.K == KStruct {
			eng.writeAtInit(env, oid, "[]", v, et)
		} else {
			env.cells[cellKey{oid, "[]"}] = v
		}
		eng.markSummary(env, v)
	}
	env.vals[t] = AV{K: KPtr, Obj: oid, Path: "[]"}
	return []*Env{env}
}

func (eng *Engine) execSlice(t *ssa.Slice, env *Env) []*Env {
	x := eng.val(env, t.X)
	switch t.X.Type().Underlying().(type) {
	case *types.Pointer:
		var out []*Env
		for _, le := range eng.deref(t, t.X, env, "array pointer "+describe(t.X)) {
			le.env.vals[t] = AV{K: KSlice, Nil: nonNil, Obj: le.obj, Path: le.path + "[]"}
			out = append(out, le.env)
		}
		return out
	case *types.Slice:
		r := AV{K: KSlice, Obj: x.Obj, Path: x.Path, Nil: env.nilnessOf(x)}
		if r.Nil == isNil {
			r.Nil = isNil
		}
		env.vals[t] = r
		return []*Env{env}
	}
	env.vals[t] = numTop() // string slice
	return []*Env{env}
}

func (eng *Engine) execUnOp(t *ssa.UnOp, env *Env) []*Env {
	switch t.Op {
	case token.NOT:
		x := eng.val(env, t.X)
		if x.K == KBool {
			r := boolAV(triNot(x.B))
			if x.Expr != "" {
				r.Expr = "!" + x.Expr
			}
			env.vals[t] = r
		} else {
			env.vals[t] = boolAV(triU)
		}
		return []*Env{env}
	case token.MUL:
		// a local array literal read as a whole: the value stands for the literal's element cell
		if al, isAl := t.X.(*ssa.Alloc); isAl {
			// (whether the literal is filled by whole-element stores or field by field: in the latter case the
			// element cell starts from the zero value and the stores join into it)
			if _, isArr := al.Type().Underlying().(*types.Pointer).Elem().Underlying().(*types.Array); isArr {
				if x := eng.val(env, al); x.K == KPtr && x.Obj != 0 {
					env.vals[t] = AV{K: KSlice, Nil: nonNil, Obj: x.Obj, Path: x.Path + "[]"}
					return []*Env{env}
				}
			}
		}
		// an element of a slice-backed local table of functions read with a known index
		if tbl, idx, _, ok := tableElem(t); ok {
			if iv := eng.val(env, idx); iv.K == KNum && len(iv.Set) == 1 {
				if a, ok := eng.funcTableElem(env, tbl, idx); ok && a.Fn != nil {
					env.vals[t] = a
					return []*Env{env}
				}
			}
		}
		var out []*Env
		for _, le := range eng.deref(t, t.X, env, "pointer "+describe(t.X)) {
			e := le.env
			v := eng.readAt(e, le.obj, le.path, t.Type())
			oi := e.objs[le.obj]
			_, wholeArray := t.Type().Underlying().(*types.Array)
			if v.K == KBot && oi != nil && oi.ElemCell && !wholeArray {
				// an element of a collection nothing was ever stored into: the collection is empty on this
				// path, the read cannot happen (its bounds obligation is engine-2's)
				continue
			}
			strong := oi != nil && !oi.Summary && !oi.ElemCell
			if !strong {
				v.Src = nil
				v = eng.instantiate(e, v, t, "ld")
				if v.K == KStruct {
					for p, f := range v.Flds {
						v.Flds[p] = eng.instantiate(e, f, t, "ld"+p)
					}
				}
			} else if _, have := e.cells[cellKey{le.obj, le.path}]; !have && v.K != KStruct {
				e.cells[cellKey{le.obj, le.path}] = stripSrc(v)
			}
			// split on small finite domains held in strongly updatable cells
			if strong && v.K == KBool && v.B == triU {
				for _, b := range []tri{triT, triF} {
					e2 := e.clone()
					nv := boolAV(b)
					e2.cells[cellKey{le.obj, le.path}] = nv
					k := cellKey{le.obj, le.path}
					nv.Src = &k
					e2.vals[t] = nv
					out = append(out, e2)
				}
				continue
			}
			if strong && v.K == KNum && len(v.Set) >= 2 && len(v.Set) <= 6 {
				for _, s := range v.Set {
					e2 := e.clone()
					nv := AV{K: KNum, Set: []string{s}}
					e2.cells[cellKey{le.obj, le.path}] = nv
					k := cellKey{le.obj, le.path}
					nv.Src = &k
					e2.vals[t] = nv
					out = append(out, e2)
				}
				continue
			}
			e.vals[t] = v
			out = append(out, e)
		}
		return out
	case token.ARROW:
		env.vals[t] = eng.fromCF(env, defaultCF(t.Type(), 0), t.Type(), eng.instrKey(t))
		return []*Env{env}
	}
	// SUB, XOR
	x := eng.val(env, t.X)
	if s, ok := x.single(); ok && t.Op == token.SUB {
		if c := constant.UnaryOp(token.SUB, constant.MakeFromLiteral(s, token.INT, 0), 0); c.Kind() != constant.Unknown {
			env.vals[t] = constAV(c)
			return []*Env{env}
		}
	}
	env.vals[t] = numTop()
	return []*Env{env}
}

func (eng *Engine) execStore(t *ssa.Store, env *Env) []*Env {
	var out []*Env
	for _, le := range eng.deref(t, t.Addr, env, "pointer "+describe(t.Addr)) {
		v := eng.val(le.env, t.Val)
		eng.writeAt(le.env, le.obj, le.path, v, t.Val.Type())
		// a mutated published object: publish its new shape so that other contexts see it
		if oi := le.env.objs[le.obj]; oi != nil && oi.Pub && !oi.ElemCell {
			if n, _ := namedStruct(oi.Type); n != nil {
				eng.publishShape(n, eng.objShape(le.env, le.obj, "", n, 0))
			}
		}
		out = append(out, le.env)
	}
	return out
}

func parseConst(s string) constant.Value {
	if len(s) > 0 && s[0] == '"' {
		return constant.MakeFromLiteral(s, token.STRING, 0)
	}
	c := constant.MakeFromLiteral(s, token.INT, 0)
	if c.Kind() == constant.Unknown {
		c = constant.MakeFromLiteral(s, token.FLOAT, 0)
	}
	return c
}

func exprOf(a AV) string {
	if a.Expr != "" {
		return a.Expr
	}
	if s, ok := a.single(); ok {
		return s
	}
	return ""
}

func (eng *Engine) binop(env *Env, t *ssa.BinOp) AV {
	r := eng.binop0(env, t)
	x, y := eng.val(env, t.X), eng.val(env, t.Y)
	ex, ey := exprOf(x), exprOf(y)
	if ex == "" || ey == "" || (x.Expr == "" && y.Expr == "") {
		return r
	}
	key := "(" + ex + " " + t.Op.String() + " " + ey + ")"
	switch r.K {
	case KBool:
		if r.B == triU {
			if v, ok := env.pure[key]; ok {
				r.B = v
			}
			r.Expr = key
		}
	case KNum:
		if r.Set == nil && (t.Op == token.ADD || t.Op == token.SUB) {
			r.Expr = key
		}
	}
	return r
}

func (eng *Engine) binop0(env *Env, t *ssa.BinOp) AV {
	x, y := eng.val(env, t.X), eng.val(env, t.Y)
	isCmp := false
	switch t.Op {
	case token.EQL, token.NEQ, token.LSS, token.LEQ, token.GTR, token.GEQ:
		isCmp = true
	}
	if isCmp {
		// references
		if x.isRef() || y.isRef() {
			if t.Op != token.EQL && t.Op != token.NEQ {
				return boolAV(triU)
			}
			nx, ny := env.nilnessOf(x), env.nilnessOf(y)
			res := triU
			switch {
			case nx == isNil && ny == isNil:
				res = triT
			case nx == isNil && ny == nonNil, nx == nonNil && ny == isNil:
				res = triF
			case x.K == KPtr && y.K == KPtr && x.Obj != 0 && y.Obj != 0:
				ox, oy := env.objs[x.Obj], env.objs[y.Obj]
				if x.Obj == y.Obj && x.Path == y.Path && ox != nil && !ox.Summary && !ox.ElemCell {
					res = triT
				} else if x.Obj != y.Obj && ox != nil && oy != nil && ox.Local && oy.Local && !ox.Summary && !oy.Summary {
					res = triF
				}
			}
			if t.Op == token.NEQ {
				res = triNot(res)
			}
			return boolAV(res)
		}
		if x.K == KBool && y.K == KBool {
			if x.B != triU && y.B != triU && (t.Op == token.EQL || t.Op == token.NEQ) {
				r := x.B == y.B
				if t.Op == token.NEQ {
					r = !r
				}
				if r {
					return boolAV(triT)
				}
				return boolAV(triF)
			}
			return boolAV(triU)
		}
		if x.K == KNum && y.K == KNum {
			sx, okx := x.single()
			sy, oky := y.single()
			if okx && oky {
				cx, cy := parseConst(sx), parseConst(sy)
				if cx.Kind() != constant.Unknown && cy.Kind() != constant.Unknown && (cx.Kind() == constant.String) == (cy.Kind() == constant.String) {
					if constant.Compare(cx, t.Op, cy) {
						return boolAV(triT)
					}
					return boolAV(triF)
				}
			}
			if x.Set != nil && y.Set != nil && (t.Op == token.EQL || t.Op == token.NEQ) {
				disjoint := true
				for _, a := range x.Set {
					if containsStr(y.Set, a) {
						disjoint = false
					}
				}
				if disjoint {
					if t.Op == token.EQL {
						return boolAV(triF)
					}
					return boolAV(triT)
				}
			}
			if x.Base != 0 && x.Base == y.Base {
				d := x.Off - y.Off
				var r bool
				switch t.Op {
				case token.EQL:
					r = d == 0
				case token.NEQ:
					r = d != 0
				case token.LSS:
					r = d < 0
				case token.LEQ:
					r = d <= 0
				case token.GTR:
					r = d > 0
				case token.GEQ:
					r = d >= 0
				}
				if r {
					return boolAV(triT)
				}
				return boolAV(triF)
			}
		}
		return boolAV(triU)
	}
	if x.K == KNum && y.K == KNum {
		sx, okx := x.single()
		sy, oky := y.single()
		if okx && oky {
			cx, cy := parseConst(sx), parseConst(sy)
			if cx.Kind() != constant.Unknown && cy.Kind() != constant.Unknown && cx.Kind() == cy.Kind() {
				switch t.Op {
				case token.ADD, token.SUB, token.MUL:
					if r := constant.BinaryOp(cx, t.Op, cy); r.Kind() != constant.Unknown {
						return constAV(r)
					}
				}
			}
		}
		// linear forms
		if t.Op == token.ADD || t.Op == token.SUB {
			if x.Base != 0 && oky {
				if c, ok := constant.Int64Val(parseConst(sy)); ok {
					if t.Op == token.SUB {
						c = -c
					}
					return AV{K: KNum, Base: x.Base, Off: x.Off + c}
				}
			}
			if y.Base != 0 && okx && t.Op == token.ADD {
				if c, ok := constant.Int64Val(parseConst(sx)); ok {
					return AV{K: KNum, Base: y.Base, Off: y.Off + c}
				}
			}
		}
		return numTop()
	}
	if kindOf(t.Type()) == KBool {
		return boolAV(triU)
	}
	return numTop()
}

// gc drops facts and objects that nothing refers to any more.
func (env *Env) gc(keep []AV) {
	syms := map[SymID]bool{}
	objs := map[ObjID]bool{}
	var visit func(a AV, d int)
	var work []ObjID
	visit = func(a AV, d int) {
		if d > 8 {
			return
		}
		if a.Sym != 0 && !syms[a.Sym] {
			syms[a.Sym] = true
			if t, ok := env.tgt[a.Sym]; ok && !objs[t] {
				objs[t] = true
				work = append(work, t)
			}
		}
		if a.Base != 0 {
			syms[a.Base] = true
		}
		if a.Obj != 0 && !objs[a.Obj] {
			objs[a.Obj] = true
			work = append(work, a.Obj)
		}
		if a.Src != nil && !objs[a.Src.Obj] {
			objs[a.Src.Obj] = true
			work = append(work, a.Src.Obj)
		}
		for _, x := range a.Tup {
			visit(x, d+1)
		}
		for _, x := range a.Flds {
			visit(x, d+1)
		}
		for _, x := range a.Bind {
			visit(x, d+1)
		}
		if a.In != nil {
			visit(*a.In, d+1)
		}
	}
	for _, a := range env.vals {
		visit(a, 0)
	}
	for _, a := range keep {
		visit(a, 0)
	}
	// cells of reachable objects
	byObj := map[ObjID][]cellKey{}
	for k := range env.cells {
		byObj[k.Obj] = append(byObj[k.Obj], k)
	}
	for len(work) > 0 {
		o := work[len(work)-1]
		work = work[:len(work)-1]
		ks := byObj[o]
		sort.Slice(ks, func(i, j int) bool { return ks[i].Path < ks[j].Path })
		for _, k := range ks {
			visit(env.cells[k], 0)
		}
	}
	for k := range env.cells {
		if !objs[k.Obj] {
			delete(env.cells, k)
		}
	}
	for o := range env.objs {
		if !objs[o] {
			delete(env.objs, o)
		}
	}
	for s := range env.nilOf {
		if !syms[s] {
			delete(env.nilOf, s)
		}
	}
	for s := range env.shapes {
		if !syms[s] {
			delete(env.shapes, s)
		}
	}
	for s := range env.tgt {
		if !syms[s] {
			delete(env.tgt, s)
		}
	}
	for s := range env.sumSym {
		if !syms[s] {
			delete(env.sumSym, s)
		}
	}
}

// funcTableOf: v is the value of a local array literal whose every element is initialised exactly once,
// in the literal's block, with a named function or method expression; returns those functions in order.
// funcTableElem: the value of slot idx of the function table tbl: exactly one entry when idx is a known
// constant, otherwise "one of them" when no slot carries bindings.
func (eng *Engine) funcTableElem(env *Env, tbl, idx ssa.Value) (AV, bool) {
	fns := funcTableOf(tbl)
	if len(fns) == 0 {
		return AV{}, false
	}
	binds := funcTableBindings(tbl)
	if iv := eng.val(env, idx); iv.K == KNum && len(iv.Set) == 1 {
		if n, err := strconv.Atoi(iv.Set[0]); err == nil && n >= 0 && n < len(fns) {
			a := AV{K: KFunc, Nil: nonNil, Fn: fns[n]}
			if n < len(binds) && binds[n] != nil {
				for _, b := range binds[n].Bindings {
					a.Bind = append(a.Bind, eng.val(env, b))
				}
			}
			return a, true
		}
	}
	for _, b := range binds {
		if b != nil && len(b.Bindings) > 0 {
			return AV{}, false
		}
	}
	return AV{K: KFunc, Nil: nonNil, Fns: fns}, true
}

// tableAllocOf: the array allocation behind a table value: a load of the array, the array's address, or a
// full slice of it ([]T{…} is lowered to new [n]T, element stores, slice).
// globalArrayInit: for a package-level array variable that is filled element by element in the package
// initialiser and never written (or address-taken) anywhere else, the values stored into its slots.
var globalArrayMemo = map[*ssa.Global][]ssa.Value{}

func globalArrayInit(g *ssa.Global) []ssa.Value {
	if v, ok := globalArrayMemo[g]; ok {
		return v
	}
	globalArrayMemo[g] = nil
	at, ok := g.Type().Underlying().(*types.Pointer).Elem().Underlying().(*types.Array)
	if !ok || g.Pkg == nil {
		return nil
	}
	out := make([]ssa.Value, int(at.Len()))
	var fns []*ssa.Function
	for f := range ssautil.AllFunctions(g.Pkg.Prog) {
		if f.Pkg == g.Pkg || (f.Parent() != nil && f.Parent().Pkg == g.Pkg) {
			fns = append(fns, f)
		}
	}
	for _, f := range fns {
		for _, b := range f.Blocks {
			for _, in := range b.Instrs {
				for _, op := range in.Operands(nil) {
					if op == nil || *op != ssa.Value(g) {
						continue
					}
					switch t := in.(type) {
					case *ssa.IndexAddr:
						for _, rr := range *t.Referrers() {
							switch x := rr.(type) {
							case *ssa.Store:
								k, isK := t.Index.(*ssa.Const)
								if x.Addr != ssa.Value(t) || f.Name() != "init" || !isK {
									return nil
								}
								i := int(k.Int64())
								if i < 0 || i >= len(out) || out[i] != nil {
									return nil
								}
								out[i] = x.Val
							case *ssa.UnOp:
								if x.Op != token.MUL {
									return nil
								}
							case *ssa.DebugRef:
							default:
								return nil
							}
						}
					case *ssa.UnOp:
						if t.Op != token.MUL {
							return nil
						}
					case *ssa.DebugRef:
					default:
						return nil // stored whole, passed on, sliced: not followed
					}
				}
			}
		}
	}
	for _, v := range out {
		if v == nil {
			return nil
		}
	}
	globalArrayMemo[g] = out
	return out
}

// tableGlobalOf: the package-level array behind a table value (the variable's address or a load of it).
func tableGlobalOf(v ssa.Value) *ssa.Global {
	switch t := v.(type) {
	case *ssa.Global:
		if globalArrayInit(t) != nil {
			return t
		}
	case *ssa.UnOp:
		if g, ok := t.X.(*ssa.Global); ok && t.Op == token.MUL && globalArrayInit(g) != nil {
			return g
		}
	}
	return nil
}

func tableAllocOf(v ssa.Value) *ssa.Alloc {
	switch t := v.(type) {
	case *ssa.Alloc:
		if _, ok := t.Type().Underlying().(*types.Pointer).Elem().Underlying().(*types.Array); ok {
			return t
		}
	case *ssa.UnOp:
		if t.Op == token.MUL {
			if al, ok := t.X.(*ssa.Alloc); ok {
				return tableAllocOf(al)
			}
		}
	case *ssa.Slice:
		if t.Low == nil && t.High == nil && t.Max == nil {
			if al, ok := t.X.(*ssa.Alloc); ok {
				return tableAllocOf(al)
			}
		}
	}
	return nil
}

// readOnlySlice: the slice value is only indexed for reading, measured or ranged over.
func readOnlySlice(sl *ssa.Slice) bool {
	for _, r := range *sl.Referrers() {
		switch r := r.(type) {
		case *ssa.IndexAddr:
			for _, rr := range *r.Referrers() {
				switch x := rr.(type) {
				case *ssa.UnOp:
					if x.Op != token.MUL {
						return false
					}
				case *ssa.DebugRef:
				default:
					return false
				}
			}
		case *ssa.DebugRef:
		case *ssa.Call:
			if b, ok := r.Call.Value.(*ssa.Builtin); !ok || b.Name() != "len" {
				return false
			}
		default:
			return false
		}
	}
	return true
}

// tableElem: in reads one element of a local table: table[i] on an array value, or *(&table[i]) on an
// array address / a slice of one.
func tableElem(in ssa.Instruction) (tbl, idx ssa.Value, elem ssa.Value, ok bool) {
	switch t := in.(type) {
	case *ssa.Index:
		if tableAllocOf(t.X) != nil || tableGlobalOf(t.X) != nil {
			return t.X, t.Index, t, true
		}
	case *ssa.UnOp:
		if t.Op == token.MUL {
			if ia, isIA := t.X.(*ssa.IndexAddr); isIA && (tableAllocOf(ia.X) != nil || tableGlobalOf(ia.X) != nil) {
				return ia.X, ia.Index, t, true
			}
		}
	}
	return nil, nil, nil, false
}

func funcTableOf(v ssa.Value) []*ssa.Function {
	if g := tableGlobalOf(v); g != nil {
		// an immutable package-level table of plain functions / method expressions
		var out []*ssa.Function
		for _, e := range globalArrayInit(g) {
			f, ok := e.(*ssa.Function)
			if !ok {
				return nil
			}
			out = append(out, f)
		}
		return out
	}
	al := tableAllocOf(v)
	if al == nil {
		return nil
	}
	at := al.Type().Underlying().(*types.Pointer).Elem().Underlying().(*types.Array)
	if _, isSig := at.Elem().Underlying().(*types.Signature); !isSig {
		return nil
	}
	out := make([]*ssa.Function, int(at.Len()))
	for _, r := range *al.Referrers() {
		switch r := r.(type) {
		case *ssa.IndexAddr:
			c, isC := r.Index.(*ssa.Const)
			if !isC {
				return nil
			}
			i := int(c.Int64())
			if i < 0 || i >= len(out) {
				return nil
			}
			for _, rr := range *r.Referrers() {
				st, isSt := rr.(*ssa.Store)
				if !isSt || st.Addr != ssa.Value(r) || st.Block() != al.Block() || out[i] != nil {
					if _, isDbg := rr.(*ssa.DebugRef); isDbg {
						continue
					}
					return nil
				}
				switch f := st.Val.(type) {
				case *ssa.Function:
					out[i] = f
				case *ssa.MakeClosure:
					out[i] = f.Fn.(*ssa.Function)
				default:
					return nil
				}
			}
		case *ssa.UnOp, *ssa.DebugRef:
		case *ssa.Slice:
			if !readOnlySlice(r) {
				return nil
			}
		default:
			return nil
		}
	}
	for _, f := range out {
		if f == nil {
			return nil
		}
	}
	return out
}

// funcTableBindings: per slot of a function table (see funcTableOf) the closure that fills it, nil for a
// plain function.
func funcTableBindings(v ssa.Value) []*ssa.MakeClosure {
	al := tableAllocOf(v)
	if al == nil {
		return nil
	}
	at := al.Type().Underlying().(*types.Pointer).Elem().Underlying().(*types.Array)
	out := make([]*ssa.MakeClosure, int(at.Len()))
	for _, r := range *al.Referrers() {
		ia, ok := r.(*ssa.IndexAddr)
		if !ok {
			continue
		}
		c, isC := ia.Index.(*ssa.Const)
		if !isC {
			continue
		}
		i := int(c.Int64())
		for _, rr := range *ia.Referrers() {
			if st, ok := rr.(*ssa.Store); ok && st.Addr == ssa.Value(ia) && i >= 0 && i < len(out) {
				if mc, ok := st.Val.(*ssa.MakeClosure); ok {
					out[i] = mc
				}
			}
		}
	}
	return out
}

// totalInitByCopy: make([]T, len(a)+len(b)) (or len(a)) that is filled completely, in its own block, by
// copy(s, a) and copy(s[len(a):], b) — the concatenation idiom. No element keeps its zero value.
func totalInitByCopy(ms *ssa.MakeSlice) bool {
	lenArg := func(v ssa.Value) ssa.Value {
		c, ok := v.(*ssa.Call)
		if !ok {
			return nil
		}
		if b, ok := c.Call.Value.(*ssa.Builtin); !ok || b.Name() != "len" {
			return nil
		}
		return c.Call.Args[0]
	}
	var parts []ssa.Value
	if a := lenArg(ms.Len); a != nil {
		parts = []ssa.Value{a}
	} else if bo, ok := ms.Len.(*ssa.BinOp); ok && bo.Op == token.ADD {
		a, b := lenArg(bo.X), lenArg(bo.Y)
		if a == nil || b == nil {
			return false
		}
		parts = []ssa.Value{a, b}
	} else {
		return false
	}
	copied := make([]bool, len(parts))
	isCopyOf := func(in ssa.Instruction, dst ssa.Value, src ssa.Value) bool {
		c, ok := in.(*ssa.Call)
		if !ok || c.Block() != ms.Block() {
			return false
		}
		b, ok := c.Call.Value.(*ssa.Builtin)
		return ok && b.Name() == "copy" && c.Call.Args[0] == dst && c.Call.Args[1] == src
	}
	for _, r := range *ms.Referrers() {
		if ri, ok := r.(ssa.Instruction); ok && isCopyOf(ri, ms, parts[0]) {
			copied[0] = true
		}
		if sl, ok := r.(*ssa.Slice); ok && len(parts) == 2 && sl.High == nil && sl.Low != nil && lenArg(sl.Low) == parts[0] {
			for _, rr := range *sl.Referrers() {
				if isCopyOf(rr, sl, parts[1]) {
					copied[1] = true
				}
			}
		}
	}
	for _, c := range copied {
		if !c {
			return false
		}
	}
	return true
}
