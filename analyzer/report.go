package main

import (
	"crypto/sha1"
	"encoding/json"
	"fmt"
	"math/rand"
	"os"
	"path/filepath"
	"sort"
	"strings"
)

type Status string

const (
	Discharged Status = "discharged"
	Violated   Status = "violated"
	Undecided  Status = "undecided"
)

// Obligation is one instance of one rule on one construct.
type Obligation struct {
	Rule       string `json:"rule"`
	Key        string `json:"construct"` // stable, position-free
	Pos        string `json:"pos,omitempty"`
	Status     Status `json:"status"`
	By         string `json:"by,omitempty"`     // discharge rule or reason
	Detail     string `json:"detail,omitempty"` // facts used / witness
	Nontrivial bool   `json:"nontrivial,omitempty"`
}

type RuleInfo struct {
	ID        string `json:"id"`
	Direction string `json:"direction"` // necessary | sufficient | exact
	Doc       string `json:"doc"`
	Floor     int    `json:"floor"`
}

// Report collects what one property check did.
type Report struct {
	Property string
	Tier     string
	Seed     int64
	Level    string
	Rules    []*RuleInfo
	ruleIdx  map[string]*RuleInfo
	Obls     []*Obligation
	keys     map[string]int
	Info     []string
	Extra    map[string]any
	Funcs    map[string]bool
	Assume   []string
	Trusted  []string
	Explain  string
}

func NewReport(prop, tier string, seed int64) *Report {
	return &Report{Property: prop, Tier: tier, Seed: seed, ruleIdx: map[string]*RuleInfo{}, keys: map[string]int{}, Extra: map[string]any{}, Funcs: map[string]bool{}}
}

func (r *Report) Rule(id, direction string, floor int, doc string) {
	if _, ok := r.ruleIdx[id]; ok {
		return
	}
	ri := &RuleInfo{ID: id, Direction: direction, Doc: doc, Floor: floor}
	r.ruleIdx[id] = ri
	r.Rules = append(r.Rules, ri)
}

func (r *Report) add(o *Obligation) *Obligation {
	if _, ok := r.ruleIdx[o.Rule]; !ok {
		panic("obligation for undeclared rule " + o.Rule)
	}
	// ordinal among identical keys keeps keys unique without using positions
	base := o.Rule + ":" + o.Key
	r.keys[base]++
	if n := r.keys[base]; n > 1 {
		o.Key = fmt.Sprintf("%s#%d", o.Key, n)
	}
	r.Obls = append(r.Obls, o)
	return o
}

func (r *Report) OK(rule, key, pos, by, detail string, nontrivial bool) {
	r.add(&Obligation{Rule: rule, Key: key, Pos: pos, Status: Discharged, By: by, Detail: detail, Nontrivial: nontrivial})
}

func (r *Report) Bad(rule, key, pos, reason string) {
	r.add(&Obligation{Rule: rule, Key: key, Pos: pos, Status: Violated, By: reason, Nontrivial: true})
}

func (r *Report) Unknown(rule, key, pos, reason string) {
	r.add(&Obligation{Rule: rule, Key: key, Pos: pos, Status: Undecided, By: reason, Nontrivial: true})
}

func (r *Report) Note(format string, a ...any) {
	r.Info = append(r.Info, fmt.Sprintf(format, a...))
}

// ---------------------------------------------------------------------------------------------

type KnownFinding struct {
	Property  string `json:"property"`
	Rule      string `json:"rule"`
	Construct string `json:"construct"`
	Status    string `json:"status"` // known | fixed
	Commit    string `json:"commit,omitempty"`
	WhatFails string `json:"what_fails"`
	Demo      string `json:"demonstration,omitempty"`
	Why       string `json:"why_not_repaired,omitempty"`
}

type KnownFile struct {
	Comment  string         `json:"_comment"`
	Findings []KnownFinding `json:"findings"`
}

func loadKnown(verifDir string) (*KnownFile, error) {
	b, err := os.ReadFile(filepath.Join(verifDir, "known_findings.json"))
	if err != nil {
		if os.IsNotExist(err) {
			return &KnownFile{}, nil
		}
		return nil, err
	}
	var kf KnownFile
	if err := json.Unmarshal(b, &kf); err != nil {
		return nil, fmt.Errorf("known_findings.json: %v", err)
	}
	return &kf, nil
}

// ---------------------------------------------------------------------------------------------

type byRule struct {
	Instances  int    `json:"instances"`
	Floor      int    `json:"floor"`
	Discharged int    `json:"discharged"`
	Violated   int    `json:"violated"`
	Undecided  int    `json:"undecided"`
	Direction  string `json:"direction"`
	Doc        string `json:"doc"`
}

// Finish applies floors and known findings, writes evidence + replay files and prints the verdict lines.
func (r *Report) Finish(verifDir string, p *Prog, wall float64, loadErr error) int {
	evDir := filepath.Join(verifDir, "evidence")
	os.MkdirAll(filepath.Join(evDir, "replay"), 0o755)

	if loadErr != nil {
		r.Rule("LOAD", "exact", 0, "the tree must load, type-check and build SSA; a tree that cannot be analysed is never reported as holding")
		r.Bad("LOAD", "load", "-", loadErr.Error())
	}
	// floors
	count := map[string]int{}
	for _, o := range r.Obls {
		count[o.Rule]++
	}
	if loadErr == nil {
		for _, ri := range r.Rules {
			if count[ri.ID] < ri.Floor {
				r.add(&Obligation{Rule: ri.ID, Key: "floor", Status: Violated, Nontrivial: true,
					By: fmt.Sprintf("kind=vacuous: rule matched %d instances, floor is %d (the constructs this rule is about were not found; anchors moved or the rule no longer recognises them)", count[ri.ID], ri.Floor)})
			}
		}
	}

	kf, kerr := loadKnown(verifDir)
	if kerr != nil {
		r.Rule("KNOWN", "exact", 0, "known_findings.json must parse")
		r.Bad("KNOWN", "known_findings.json", "-", kerr.Error())
		kf = &KnownFile{}
	}
	known := map[string]KnownFinding{}
	for _, k := range kf.Findings {
		if k.Status == "known" && k.Property == r.Property {
			known[k.Rule+":"+k.Construct] = k
		}
	}

	br := map[string]*byRule{}
	for _, ri := range r.Rules {
		br[ri.ID] = &byRule{Floor: ri.Floor, Direction: ri.Direction, Doc: ri.Doc}
	}
	var viol []*Obligation
	var knownHit []KnownFinding
	knownSeen := map[string]bool{}
	nontriv := map[string]bool{}
	discharged := 0
	for _, o := range r.Obls {
		b := br[o.Rule]
		b.Instances++
		switch o.Status {
		case Discharged:
			b.Discharged++
			discharged++
		case Violated, Undecided:
			if o.Status == Violated {
				b.Violated++
			} else {
				b.Undecided++
			}
			if k, ok := known[o.Rule+":"+o.Key]; ok {
				knownHit = append(knownHit, k)
				knownSeen[o.Rule+":"+o.Key] = true
			} else {
				viol = append(viol, o)
			}
		}
		if o.Nontrivial {
			nontriv[o.Rule+":"+o.Key] = true
		}
	}
	for k, v := range known {
		if !knownSeen[k] {
			r.Note("known finding %s no longer reported by the analysis (construct fixed or moved?): %s", k, v.WhatFails)
		}
	}

	// samples: seed-chosen obligations, preferring non-trivial ones
	rng := rand.New(rand.NewSource(r.Seed))
	var pool []*Obligation
	for _, o := range r.Obls {
		if o.Nontrivial {
			pool = append(pool, o)
		}
	}
	if len(pool) < 12 {
		pool = append(pool, r.Obls...)
	}
	rng.Shuffle(len(pool), func(i, j int) { pool[i], pool[j] = pool[j], pool[i] })
	var samples []any
	seenS := map[*Obligation]bool{}
	for _, o := range pool {
		if seenS[o] {
			continue
		}
		seenS[o] = true
		samples = append(samples, o)
		if len(samples) >= 12 {
			break
		}
	}
	for _, o := range viol {
		if !seenS[o] && len(samples) < 40 {
			samples = append(samples, o)
		}
	}
	if len(samples) == 0 {
		samples = append(samples, map[string]string{"note": "no obligations generated"})
	}

	cov := map[string]any{
		"explanation":         r.Explain,
		"obligations":         len(r.Obls),
		"discharged":          discharged,
		"evaluations":         len(r.Obls),
		"distinct_nontrivial": len(nontriv),
		"rule":                "one obligation per (rule, construct) enumerated from the type-checked program / SSA / constant tables of the current tree; non-trivial = the discharge needed more than a type-level fact (a dataflow, dominance, table or arithmetic argument), as flagged by the rule that discharged it",
		"by_rule":             br,
		"samples":             samples,
		"exhaustive":          true,
		"info":                r.Info,
		"known_findings_hit":  len(knownHit),
	}
	if r.Level == "proof" {
		cov["checker_cmd"] = fmt.Sprintf("bin/spdxverif check -property %s -tier %s", r.Property, r.Tier)
		cov["trusted_base"] = r.Trusted
	}
	if p != nil {
		var pk []string
		for _, x := range p.Pkgs {
			pk = append(pk, x.PkgPath)
		}
		cov["packages"] = pk
		cov["files"] = p.Files
		cov["config"] = p.Cfg.String()
		cov["callgraph"] = p.CGKind
		cov["reachable_functions"] = len(p.R)
		cov["api_roots"] = len(p.Roots)
	}
	var fl []string
	for f := range r.Funcs {
		fl = append(fl, f)
	}
	sort.Strings(fl)
	cov["functions_analysed"] = fl
	for k, v := range r.Extra {
		cov[k] = v
	}
	ev := map[string]any{
		"property_id": r.Property,
		"tier":        r.Tier,
		"seed":        r.Seed,
		"level":       r.Level,
		"coverage":    cov,
		"assumptions": append(append([]string{}, r.Assume...), r.Trusted...),
		"wall_s":      wall,
		"violations":  len(viol),
	}
	b, _ := json.MarshalIndent(ev, "", " ")
	evPath := filepath.Join(evDir, r.Property+".json")
	if err := os.WriteFile(evPath, append(b, '\n'), 0o644); err != nil {
		fmt.Printf("VIOLATION property=%s replay=%s\n", r.Property, "evidence-write-failed:"+err.Error())
		return 1
	}

	// summary for humans
	var ids []string
	for id := range br {
		ids = append(ids, id)
	}
	sort.Strings(ids)
	for _, id := range ids {
		b := br[id]
		fmt.Printf("rule %-8s instances=%-4d floor=%-3d discharged=%-4d violated=%d undecided=%d\n", id, b.Instances, b.Floor, b.Discharged, b.Violated, b.Undecided)
	}
	for _, k := range knownHit {
		fmt.Printf("KNOWN-FINDING: property=%s %s [%s:%s]\n", r.Property, k.WhatFails, k.Rule, k.Construct)
	}
	for _, o := range viol {
		h := sha1.Sum([]byte(o.Rule + ":" + o.Key))
		name := fmt.Sprintf("%s-%s-%x.json", r.Property, sanitize(o.Rule), h[:5])
		rp := filepath.Join(evDir, "replay", name)
		rb, _ := json.MarshalIndent(map[string]any{
			"property": r.Property, "rule": o.Rule, "construct": o.Key, "pos": o.Pos,
			"status": o.Status, "reason": o.By, "detail": o.Detail,
			"rule_doc": r.ruleIdx[o.Rule].Doc,
		}, "", " ")
		os.WriteFile(rp, append(rb, '\n'), 0o644)
		fmt.Printf("  %s %s at %s: %s [%s]\n", o.Status, o.Rule, o.Pos, o.By, o.Key)
		fmt.Printf("VIOLATION property=%s replay=%s\n", r.Property, rp)
	}
	if len(viol) > 0 {
		return 1
	}
	fmt.Printf("OK property=%s tier=%s obligations=%d discharged=%d known=%d wall=%.1fs\n", r.Property, r.Tier, len(r.Obls), discharged, len(knownHit), wall)
	return 0
}

func sanitize(s string) string {
	return strings.Map(func(r rune) rune {
		if r >= 'a' && r <= 'z' || r >= 'A' && r <= 'Z' || r >= '0' && r <= '9' {
			return r
		}
		return '_'
	}, s)
}
