package main

import (
	"fmt"
	"go/token"
	"go/types"
	"sort"
	"strings"

	"golang.org/x/tools/go/ssa"
)

// O5: the scan buffer starts as the caller's own string. Followed backwards from the construction of
// the stream: the buffer field is initialised with a parameter of its function, and every in-module
// caller on a path from the API passes one of its own parameters (or an element of a parameter list)
// unchanged. Any call in between (TrimSpace, a normaliser, a cache key) makes the offsets refer to a
// different string than the caller's.
//
// O6: the error handed back was produced in this call: following the returned error values backwards
// through phis, results of in-module calls and fields of the stream objects, every origin is nil or an
// error constructor (errors.New, fmt.Errorf, a literal); nothing is loaded from package-level state or
// taken out of a container filled by an earlier call.
func rulesC15b(p *Prog, r *Report, esT *types.Named, buffer string) {
	r.Rule("O5", "necessary", 4, "text identity: the scan buffer is initialised with the caller's string, passed unchanged along every call chain from the API to the scanner")
	r.Rule("O6", "necessary", 2, "error origin: every error an API function returns was constructed during this call (nil or an error constructor), never loaded from package-level state or an outside container")
	qz := &quantizer{p: p, elemVar: map[ssa.Value]string{}}
	// ---- O5
	st := esT.Underlying().(*types.Struct)
	bufIdx := -1
	for i := 0; i < st.NumFields(); i++ {
		if st.Field(i).Name() == buffer {
			bufIdx = i
		}
	}
	type need struct {
		fn  *ssa.Function
		prm int
	}
	var work []need
	seen := map[need]bool{}
	inits := 0
	for _, f := range p.RList {
		for _, b := range f.Blocks {
			for _, in := range b.Instrs {
				s, ok := in.(*ssa.Store)
				if !ok {
					continue
				}
				fa, ok := s.Addr.(*ssa.FieldAddr)
				if !ok || fa.Field != bufIdx {
					continue
				}
				if pt, ok := fa.X.Type().Underlying().(*types.Pointer); !ok || !types.Identical(pt.Elem(), esT) {
					continue
				}
				if _, isAlloc := fa.X.(*ssa.Alloc); !isAlloc {
					continue // a rewrite of an existing stream: O2's business
				}
				inits++
				key := fmt.Sprintf("%s|stream buffer init", p.shortKey(f))
				idx := -1
				for i, prm := range f.Params {
					if ssa.Value(prm) == s.Val {
						idx = i
					}
				}
				if idx < 0 {
					r.Bad("O5", key, p.pos(s.Pos()), "the scan buffer is initialised with "+shortDesc(qz.prov(s.Val, 0))+", not with the string the function was given: offsets index a different text than the caller's")
				} else {
					r.OK("O5", key, p.pos(s.Pos()), "buffer = parameter "+f.Params[idx].Name(), "", true)
					work = append(work, need{f, idx})
				}
			}
		}
	}
	if inits == 0 {
		r.Unknown("O5", "stream buffer init", "-", "kind=undecided: no construction of the scanning stream found")
	}
	api := map[*ssa.Function]bool{}
	for _, f := range p.Roots {
		api[f] = true
	}
	for len(work) > 0 {
		w := work[len(work)-1]
		work = work[:len(work)-1]
		if seen[w] {
			continue
		}
		seen[w] = true
		if api[w.fn] {
			continue // reached the caller
		}
		n := p.CG.Nodes[w.fn]
		if n == nil {
			continue
		}
		for _, e := range n.In {
			caller := e.Caller.Func
			if !p.R[caller] || e.Site == nil {
				continue
			}
			args := e.Site.Common().Args
			if e.Site.Common().IsInvoke() || w.prm >= len(args) {
				continue
			}
			a := args[w.prm]
			key := fmt.Sprintf("%s→%s|text argument", p.shortKey(caller), w.fn.Name())
			pv := qz.prov(a, 0)
			okArg := false
			for i, prm := range caller.Params {
				if pv == "param:"+prm.Name() || pv == "elem(param:"+prm.Name()+")" {
					okArg = true
					work = append(work, need{caller, i})
				}
			}
			if okArg {
				r.OK("O5", key, p.pos(e.Site.Pos()), "passed unchanged", pv, true)
			} else {
				r.Bad("O5", key, p.pos(e.Site.Pos()), fmt.Sprintf("%s hands %s to %s instead of its own argument: positions in messages refer to that derived text, not to the caller's string", caller.Name(), shortDesc(pv), w.fn.Name()))
			}
		}
	}

	// ---- O6
	eo := &errTrace{p: p, seen: map[ssa.Value]bool{}, fieldStores: map[string][]*ssa.Store{}}
	eo.index()
	var apis []*ssa.Function
	for f := range api {
		apis = append(apis, f)
	}
	sort.Slice(apis, func(i, j int) bool { return apis[i].String() < apis[j].String() })
	for _, f := range apis {
		res := f.Signature.Results()
		for i := 0; i < res.Len(); i++ {
			if !isErrorType(res.At(i).Type()) {
				continue
			}
			eo.bad = nil
			eo.seen = map[ssa.Value]bool{}
			eo.ctors = 0
			for _, b := range f.Blocks {
				if ret, ok := b.Instrs[len(b.Instrs)-1].(*ssa.Return); ok {
					eo.walk(ret.Results[i])
				}
			}
			key := p.shortKey(f) + "|returned error"
			if len(eo.bad) > 0 {
				sort.Strings(eo.bad)
				r.Bad("O6", key, p.pos(f.Pos()), strings.Join(uniqStrings(eo.bad), "; "))
			} else {
				r.OK("O6", key, p.pos(f.Pos()), "every origin is nil or an error constructor of this call", fmt.Sprintf("%d constructor sites", eo.ctors), true)
			}
		}
	}
}

func uniqStrings(s []string) []string {
	var out []string
	for i, x := range s {
		if i == 0 || x != s[i-1] {
			out = append(out, x)
		}
	}
	return out
}

type errTrace struct {
	p           *Prog
	seen        map[ssa.Value]bool
	fieldStores map[string][]*ssa.Store // "type.field" -> stores
	bad         []string
	ctors       int
}

func (eo *errTrace) index() {
	for _, pk := range eo.p.Pkgs {
		for _, f := range eo.p.AllModuleFuncs(pk) {
			if eo.p.isTestPos(f.Pos()) {
				continue
			}
			for _, b := range f.Blocks {
				for _, in := range b.Instrs {
					s, ok := in.(*ssa.Store)
					if !ok {
						continue
					}
					if fa, ok := s.Addr.(*ssa.FieldAddr); ok {
						k := fieldKeyStr(fa)
						eo.fieldStores[k] = append(eo.fieldStores[k], s)
					}
				}
			}
		}
	}
}

func fieldKeyStr(fa *ssa.FieldAddr) string {
	pt := fa.X.Type().Underlying().(*types.Pointer)
	return fmt.Sprintf("%s.%d", pt.Elem().String(), fa.Field)
}

func (eo *errTrace) walk(v ssa.Value) {
	if eo.seen[v] {
		return
	}
	eo.seen[v] = true
	p := eo.p
	switch t := v.(type) {
	case *ssa.Const:
		return
	case *ssa.Phi:
		for _, e := range t.Edges {
			eo.walk(e)
		}
	case *ssa.MakeInterface:
		eo.ctors++ // a concrete error value built here
	case *ssa.Extract:
		if c, ok := t.Tuple.(*ssa.Call); ok {
			eo.call(c, t.Index)
			return
		}
		eo.bad = append(eo.bad, fmt.Sprintf("%s: error taken from %s", p.pos(t.Pos()), describe(t.Tuple)))
	case *ssa.Call:
		eo.call(t, 0)
	case *ssa.UnOp:
		if t.Op != token.MUL {
			eo.bad = append(eo.bad, fmt.Sprintf("%s: unexpected operator on an error value", p.pos(t.Pos())))
			return
		}
		switch a := t.X.(type) {
		case *ssa.FieldAddr:
			k := fieldKeyStr(a)
			for _, s := range eo.fieldStores[k] {
				eo.walk(s.Val)
			}
			// the whole struct may have been stored at once (v := x.(T); v.err)
			if al, ok := a.X.(*ssa.Alloc); ok {
				for _, rr := range *al.Referrers() {
					if s, ok := rr.(*ssa.Store); ok && s.Addr == ssa.Value(al) {
						eo.walkStruct(s.Val)
					}
				}
			}
		case *ssa.Global:
			eo.bad = append(eo.bad, fmt.Sprintf("%s: the error is read from the package-level variable %s, which an earlier call may have filled for a different string", p.pos(t.Pos()), a.Name()))
		case *ssa.Alloc:
			for _, rr := range *a.Referrers() {
				if s, ok := rr.(*ssa.Store); ok && s.Addr == ssa.Value(a) {
					eo.walk(s.Val)
				}
			}
		default:
			eo.bad = append(eo.bad, fmt.Sprintf("%s: the error is loaded from %s, whose writers are not tracked", p.pos(t.Pos()), describe(t.X)))
		}
	case *ssa.TypeAssert:
		eo.bad = append(eo.bad, fmt.Sprintf("%s: the error is taken out of an interface value (%s) — a container entry, not a value constructed in this call", p.pos(t.Pos()), describe(t.X)))
	case *ssa.Field:
		eo.walkStruct(t.X)
	case *ssa.Parameter:
		// an error passed in: follow the callers
		f := t.Parent()
		idx := -1
		for i, prm := range f.Params {
			if prm == t {
				idx = i
			}
		}
		if n := p.CG.Nodes[f]; n != nil && idx >= 0 {
			for _, e := range n.In {
				if e.Site != nil && !e.Site.Common().IsInvoke() && idx < len(e.Site.Common().Args) && p.R[e.Caller.Func] {
					eo.walk(e.Site.Common().Args[idx])
				}
			}
		}
	default:
		eo.bad = append(eo.bad, fmt.Sprintf("%s: error value of unrecognised origin (%T)", p.pos(v.Pos()), v))
	}
}

// walkStruct: a struct value one of whose fields is the error. Field-wise stores are covered by the
// field index; here only the origin of a struct that arrives whole matters.
func (eo *errTrace) walkStruct(v ssa.Value) {
	if eo.seen[v] {
		return
	}
	eo.seen[v] = true
	p := eo.p
	switch t := v.(type) {
	case *ssa.Phi:
		for _, e := range t.Edges {
			eo.walkStruct(e)
		}
	case *ssa.UnOp:
		if t.Op == token.MUL {
			switch a := t.X.(type) {
			case *ssa.Alloc:
				for _, rr := range *a.Referrers() {
					if s, ok := rr.(*ssa.Store); ok && s.Addr == ssa.Value(a) {
						eo.walkStruct(s.Val)
					}
				}
				return // fields written one by one are in the field index
			case *ssa.Global:
				eo.bad = append(eo.bad, fmt.Sprintf("%s: the value holding the error is read from the package-level variable %s", p.pos(t.Pos()), a.Name()))
				return
			}
		}
		eo.bad = append(eo.bad, fmt.Sprintf("%s: the value holding the error is loaded from %s, whose writers are not tracked", p.pos(t.Pos()), describe(t.X)))
	case *ssa.TypeAssert:
		eo.bad = append(eo.bad, fmt.Sprintf("%s: the value holding the error is taken out of an interface value (%s) — a container entry (cache, map, sync.Map), not something constructed in this call", p.pos(t.Pos()), describe(t.X)))
	case *ssa.Lookup:
		eo.bad = append(eo.bad, fmt.Sprintf("%s: the value holding the error is looked up in a map — an entry stored by an earlier call can come back for a different string", p.pos(t.Pos())))
	case *ssa.Extract:
		eo.walkStruct(t.Tuple)
	case *ssa.Call:
		callee := t.Call.StaticCallee()
		if callee != nil && p.InModule(callee) {
			return // its fields are in the field index
		}
		eo.bad = append(eo.bad, fmt.Sprintf("%s: the value holding the error comes out of %s", p.pos(t.Pos()), describe(t)))
	default:
		eo.bad = append(eo.bad, fmt.Sprintf("%s: the value holding the error has an unrecognised origin (%T)", p.pos(v.Pos()), v))
	}
}

func (eo *errTrace) call(c *ssa.Call, idx int) {
	p := eo.p
	callee := c.Call.StaticCallee()
	if callee == nil {
		eo.bad = append(eo.bad, fmt.Sprintf("%s: error returned by a dynamic call", p.pos(c.Pos())))
		return
	}
	if p.InModule(callee) {
		for _, b := range callee.Blocks {
			if ret, ok := b.Instrs[len(b.Instrs)-1].(*ssa.Return); ok && idx < len(ret.Results) {
				eo.walk(ret.Results[idx])
			}
		}
		return
	}
	switch callee.String() {
	case "errors.New", "fmt.Errorf", "errors.Join":
		eo.ctors++
		return
	}
	eo.bad = append(eo.bad, fmt.Sprintf("%s: the error comes out of %s — not an error constructor; a value stored by an earlier call can come back for a different string", p.pos(c.Pos()), callee))
}
