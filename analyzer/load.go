package main

import (
	"fmt"
	"go/ast"
	"go/token"
	"go/types"
	"os"
	"path/filepath"
	"sort"
	"strings"

	"golang.org/x/tools/go/callgraph"
	"golang.org/x/tools/go/callgraph/cha"
	"golang.org/x/tools/go/callgraph/rta"
	"golang.org/x/tools/go/callgraph/vta"
	"golang.org/x/tools/go/packages"
	"golang.org/x/tools/go/ssa"
	"golang.org/x/tools/go/ssa/ssautil"
)

// Config is one build configuration of /repo.
type Config struct {
	GOOS, GOARCH string
	Tests        bool
}

func (c Config) String() string {
	s := c.GOOS + "/" + c.GOARCH
	if c.Tests {
		s += "+tests"
	}
	return s
}

// Prog is the resolved program every rule works on.
type Prog struct {
	RepoDir string
	Cfg     Config
	Fset    *token.FileSet
	Pkgs    []*packages.Package // in-module packages, sorted by path
	ModPath string
	SSA     *ssa.Program
	SSAPkg  map[string]*ssa.Package // by package path
	CG      *callgraph.Graph
	CGKind  string

	// Lib holds the library packages (spdxexp, spdxlicenses) whose exported functions are the API.
	ExpPkg, LicPkg, CmdPkg *packages.Package

	Roots []*ssa.Function        // exported package-level functions of the library packages
	R     map[*ssa.Function]bool // in-module functions reachable from Roots (incl. closures)
	RList []*ssa.Function        // R sorted by name
	// StdCallees are the out-of-module functions called directly from R.
	StdCallees map[string][]*callSite

	Files []string // non-test .go files analysed (relative to repo)

	Renames []string // renamed anchors analysed under their reference names (anchors.go)
}

type callSite struct {
	Caller *ssa.Function
	Instr  ssa.CallInstruction
}

func goEnv(cfg Config) []string {
	env := []string{}
	for _, kv := range os.Environ() {
		if strings.HasPrefix(kv, "GOWORK=") || strings.HasPrefix(kv, "GOFLAGS=") ||
			strings.HasPrefix(kv, "GOOS=") || strings.HasPrefix(kv, "GOARCH=") ||
			strings.HasPrefix(kv, "GOPROXY=") || strings.HasPrefix(kv, "GOSUMDB=") ||
			strings.HasPrefix(kv, "GOTOOLCHAIN=") || strings.HasPrefix(kv, "CGO_ENABLED=") {
			continue
		}
		env = append(env, kv)
	}
	env = append(env, "GOWORK=off", "GOFLAGS=-mod=mod", "GOPROXY=off", "GOSUMDB=off", "GOTOOLCHAIN=local", "CGO_ENABLED=0")
	if cfg.GOOS != "" {
		env = append(env, "GOOS="+cfg.GOOS)
	}
	if cfg.GOARCH != "" {
		env = append(env, "GOARCH="+cfg.GOARCH)
	}
	return env
}

// Load type-checks every package of the module rooted at repoDir and builds SSA and the call graph.
// Any failure is an error: the caller turns it into a VIOLATION (a tree that cannot be analysed is
// never reported as holding).
func Load(repoDir string, cfg Config, cgKind string) (*Prog, error) {
	abs, err := filepath.Abs(repoDir)
	if err != nil {
		return nil, err
	}
	if cfg.GOOS == "" {
		cfg.GOOS = "linux"
	}
	if cfg.GOARCH == "" {
		cfg.GOARCH = "amd64"
	}
	fset := token.NewFileSet()
	pc := &packages.Config{
		Mode:  packages.LoadAllSyntax | packages.NeedModule,
		Dir:   abs,
		Fset:  fset,
		Env:   goEnv(cfg),
		Tests: cfg.Tests,
	}
	// unexported anchors that were renamed consistently are analysed under their reference names (anchors.go)
	overlay, renames, _ := anchorOverlay(abs, cfg)
	if overlay != nil {
		pc.Overlay = overlay
	}
	initial, err := packages.Load(pc, "./...")
	if err != nil {
		return nil, fmt.Errorf("go/packages: %v", err)
	}
	if overlay != nil {
		// the overlay must type-check; if it does not, analyse the tree as it is
		bad := false
		packages.Visit(initial, nil, func(p *packages.Package) {
			if len(p.Errors) > 0 {
				bad = true
			}
		})
		if bad {
			overlay, renames = nil, nil
			pc.Overlay = nil
			pc.Fset = token.NewFileSet()
			fset = pc.Fset
			initial, err = packages.Load(pc, "./...")
			if err != nil {
				return nil, fmt.Errorf("go/packages: %v", err)
			}
		}
	}
	if len(initial) == 0 {
		return nil, fmt.Errorf("go/packages: no packages loaded from %s", abs)
	}
	var errs []string
	packages.Visit(initial, nil, func(p *packages.Package) {
		for _, e := range p.Errors {
			errs = append(errs, e.Error())
		}
	})
	if len(errs) > 0 {
		sort.Strings(errs)
		if len(errs) > 8 {
			errs = errs[:8]
		}
		return nil, fmt.Errorf("type-check/load errors: %s", strings.Join(errs, "; "))
	}

	p := &Prog{RepoDir: abs, Cfg: cfg, Fset: fset, SSAPkg: map[string]*ssa.Package{}, CGKind: cgKind}
	for _, r := range renames {
		p.Renames = append(p.Renames, r.String())
	}
	seen := map[string]bool{}
	for _, pk := range initial {
		if pk.Module == nil || !pk.Module.Main {
			continue
		}
		p.ModPath = pk.Module.Path
		// with Tests=true the same path appears as plain, [test] variant and .test main; keep the
		// variant that has the most files for a path (the [test] variant), skip synthesized mains.
		if strings.HasSuffix(pk.PkgPath, ".test") {
			continue
		}
		if seen[pk.ID] {
			continue
		}
		seen[pk.ID] = true
		p.Pkgs = append(p.Pkgs, pk)
	}
	if cfg.Tests {
		// prefer "path [path.test]" over "path"
		best := map[string]*packages.Package{}
		for _, pk := range p.Pkgs {
			if b, ok := best[pk.PkgPath]; !ok || len(pk.CompiledGoFiles) > len(b.CompiledGoFiles) {
				best[pk.PkgPath] = pk
			}
		}
		p.Pkgs = p.Pkgs[:0]
		for _, pk := range best {
			p.Pkgs = append(p.Pkgs, pk)
		}
	}
	sort.Slice(p.Pkgs, func(i, j int) bool { return p.Pkgs[i].PkgPath < p.Pkgs[j].PkgPath })
	if len(p.Pkgs) == 0 {
		return nil, fmt.Errorf("no main-module packages among %d loaded", len(initial))
	}
	for _, pk := range p.Pkgs {
		if len(pk.IgnoredFiles) > 0 && !cfg.Tests {
			// a file excluded by a build constraint would escape analysis
			var ig []string
			for _, f := range pk.IgnoredFiles {
				if strings.HasSuffix(f, ".go") && !strings.HasSuffix(f, "_test.go") {
					ig = append(ig, f)
				}
			}
			if len(ig) > 0 {
				return nil, fmt.Errorf("package %s: files excluded by build constraints are not analysed: %v", pk.PkgPath, ig)
			}
		}
		switch {
		case strings.HasSuffix(pk.PkgPath, "/spdxexp"):
			p.ExpPkg = pk
		case strings.HasSuffix(pk.PkgPath, "/spdxexp/spdxlicenses"):
			p.LicPkg = pk
		case strings.HasSuffix(pk.PkgPath, "/cmd"):
			p.CmdPkg = pk
		}
	}
	if p.ExpPkg == nil || p.LicPkg == nil {
		return nil, fmt.Errorf("unresolved anchor: packages spdxexp / spdxexp/spdxlicenses not found under %s", abs)
	}

	// file coverage: every non-test .go file on disk must be in a loaded package
	loaded := map[string]bool{}
	for _, pk := range p.Pkgs {
		for _, f := range pk.CompiledGoFiles {
			loaded[f] = true
		}
	}
	var missing []string
	err = filepath.Walk(abs, func(path string, info os.FileInfo, err error) error {
		if err != nil {
			return err
		}
		if info.IsDir() {
			n := info.Name()
			if path != abs && (strings.HasPrefix(n, ".") || strings.HasPrefix(n, "_") || n == "testdata" || n == "vendor") {
				return filepath.SkipDir
			}
			return nil
		}
		if !strings.HasSuffix(path, ".go") || strings.HasSuffix(path, "_test.go") {
			return nil
		}
		rel, _ := filepath.Rel(abs, path)
		if loaded[path] {
			p.Files = append(p.Files, rel)
		} else {
			missing = append(missing, rel)
		}
		return nil
	})
	if err != nil {
		return nil, err
	}
	if len(missing) > 0 {
		return nil, fmt.Errorf("source files not part of any loaded package (build tags? other module?): %v", missing)
	}
	sort.Strings(p.Files)

	// SSA
	prog, _ := ssautil.AllPackages(initial, ssa.InstantiateGenerics)
	prog.Build()
	p.SSA = prog
	for _, pk := range p.Pkgs {
		sp := prog.Package(pk.Types)
		if sp == nil {
			return nil, fmt.Errorf("no SSA package for %s", pk.PkgPath)
		}
		p.SSAPkg[pk.PkgPath] = sp
	}

	// roots: exported package-level functions of the two library packages
	for _, pk := range []*packages.Package{p.ExpPkg, p.LicPkg} {
		sp := p.SSAPkg[pk.PkgPath]
		for name, m := range sp.Members {
			if fn, ok := m.(*ssa.Function); ok && ast.IsExported(name) && fn.Signature.Recv() == nil {
				if strings.HasSuffix(fset.Position(fn.Pos()).Filename, "_test.go") {
					continue // test functions are not API
				}
				p.Roots = append(p.Roots, fn)
			}
		}
		// exported methods of exported types would be API as well
		for _, m := range sp.Members {
			if t, ok := m.(*ssa.Type); ok && ast.IsExported(t.Name()) {
				for _, T := range []types.Type{t.Type(), types.NewPointer(t.Type())} {
					ms := prog.MethodSets.MethodSet(T)
					for i := 0; i < ms.Len(); i++ {
						if ms.At(i).Obj().Exported() {
							if fn := prog.MethodValue(ms.At(i)); fn != nil {
								p.Roots = append(p.Roots, fn)
							}
						}
					}
				}
			}
		}
	}
	sort.Slice(p.Roots, func(i, j int) bool { return p.Roots[i].String() < p.Roots[j].String() })
	if len(p.Roots) == 0 {
		return nil, fmt.Errorf("unresolved anchor: no exported functions in library packages")
	}

	if err := p.buildCallGraph(cgKind); err != nil {
		return nil, err
	}
	return p, nil
}

func (p *Prog) buildCallGraph(kind string) error {
	switch kind {
	case "", "vta":
		all := ssautil.AllFunctions(p.SSA)
		p.CG = vta.CallGraph(all, cha.CallGraph(p.SSA))
		p.CGKind = "vta"
	case "cha":
		p.CG = cha.CallGraph(p.SSA)
	case "rta":
		res := rta.Analyze(p.Roots, true)
		p.CG = res.CallGraph
	default:
		return fmt.Errorf("unknown call graph kind %q", kind)
	}
	p.R = map[*ssa.Function]bool{}
	p.StdCallees = map[string][]*callSite{}
	var work []*ssa.Function
	add := func(f *ssa.Function) {
		if f == nil || p.R[f] {
			return
		}
		if !p.InModule(f) {
			return
		}
		p.R[f] = true
		work = append(work, f)
	}
	for _, r := range p.Roots {
		add(r)
	}
	for len(work) > 0 {
		f := work[len(work)-1]
		work = work[:len(work)-1]
		// closures defined in f are considered reachable with f
		for _, af := range f.AnonFuncs {
			add(af)
		}
		if n := p.CG.Nodes[f]; n != nil {
			for _, e := range n.Out {
				callee := e.Callee.Func
				if p.InModule(callee) {
					add(callee)
				} else if callee != nil && callee.Synthetic != "" {
					// a thunk / bound-method wrapper of a method expression or method value: what it forwards to
					for _, wb := range callee.Blocks {
						for _, win := range wb.Instrs {
							if wci, ok := win.(ssa.CallInstruction); ok {
								if inner := wci.Common().StaticCallee(); inner != nil && p.InModule(inner) {
									add(inner)
								}
							}
						}
					}
				}
			}
		}
		// direct static callees from the instructions themselves (belt and braces: does not
		// depend on the call-graph algorithm)
		for _, b := range f.Blocks {
			for _, in := range b.Instrs {
				ci, ok := in.(ssa.CallInstruction)
				if !ok {
					continue
				}
				if callee := ci.Common().StaticCallee(); callee != nil {
					if p.InModule(callee) {
						add(callee)
					} else {
						k := funcKey(callee)
						p.StdCallees[k] = append(p.StdCallees[k], &callSite{f, ci})
					}
				}
				// function values passed as arguments (closures, method values)
				addValue := func(fn *ssa.Function) {
					if fn == nil {
						return
					}
					if p.InModule(fn) {
						add(fn)
						return
					}
					if fn.Synthetic != "" {
						// a bound-method wrapper / thunk handed on as a value: what it forwards to
						for _, wb := range fn.Blocks {
							for _, win := range wb.Instrs {
								if wci, ok := win.(ssa.CallInstruction); ok {
									if inner := wci.Common().StaticCallee(); inner != nil && p.InModule(inner) {
										add(inner)
									}
								}
							}
						}
					}
				}
				for _, a := range ci.Common().Args {
					if mc, ok := a.(*ssa.MakeClosure); ok {
						if fn, ok := mc.Fn.(*ssa.Function); ok {
							addValue(fn)
						}
					}
					if fn, ok := a.(*ssa.Function); ok {
						addValue(fn)
					}
				}
			}
		}
	}
	p.RList = p.RList[:0]
	for f := range p.R {
		p.RList = append(p.RList, f)
	}
	sort.Slice(p.RList, func(i, j int) bool { return funcKey(p.RList[i]) < funcKey(p.RList[j]) })
	return nil
}

// InModule reports whether f (or its generic origin) is declared in the main module.
func (p *Prog) InModule(f *ssa.Function) bool {
	if f == nil {
		return false
	}
	if o := f.Origin(); o != nil {
		f = o
	}
	for f.Parent() != nil {
		f = f.Parent()
	}
	if f.Pkg == nil {
		return false
	}
	path := f.Pkg.Pkg.Path()
	return path == p.ModPath || strings.HasPrefix(path, p.ModPath+"/")
}

// funcKey is a stable, position-free name for a function.
func funcKey(f *ssa.Function) string {
	if f == nil {
		return "<nil>"
	}
	s := f.String()
	return s
}

// shortKey strips the module path from a function key.
func (p *Prog) shortKey(f *ssa.Function) string {
	s := funcKey(f)
	s = strings.ReplaceAll(s, p.ModPath+"/", "")
	return s
}

func (p *Prog) pos(pos token.Pos) string {
	if !pos.IsValid() {
		return "-"
	}
	ps := p.Fset.Position(pos)
	rel, err := filepath.Rel(p.RepoDir, ps.Filename)
	if err != nil {
		rel = ps.Filename
	}
	return fmt.Sprintf("%s:%d", rel, ps.Line)
}

// isTestFile reports whether pos lies in a _test.go file or test_helper.go.
func (p *Prog) isTestPos(pos token.Pos) bool {
	if !pos.IsValid() {
		return false
	}
	fn := p.Fset.Position(pos).Filename
	return strings.HasSuffix(fn, "_test.go")
}

// Func looks up a package-level function or method by short name, e.g. "spdxexp.parse" or
// "spdxexp.(*node).expand". Returns nil when absent (callers report unresolved-anchor).
func (p *Prog) Func(pkg *packages.Package, name string) *ssa.Function {
	sp := p.SSAPkg[pkg.PkgPath]
	if sp == nil {
		return nil
	}
	if strings.HasPrefix(name, "(*") {
		// (*T).m
		end := strings.Index(name, ").")
		tn := name[2:end]
		mn := name[end+2:]
		tm, ok := sp.Members[tn].(*ssa.Type)
		if !ok {
			return nil
		}
		// a method declared with a value receiver is the declared function itself, not the pointer wrapper
		vs := p.SSA.MethodSets.MethodSet(tm.Type())
		for i := 0; i < vs.Len(); i++ {
			if vs.At(i).Obj().Name() == mn {
				if f := p.SSA.MethodValue(vs.At(i)); f != nil && f.Synthetic == "" {
					return f
				}
			}
		}
		ms := p.SSA.MethodSets.MethodSet(types.NewPointer(tm.Type()))
		for i := 0; i < ms.Len(); i++ {
			if ms.At(i).Obj().Name() == mn {
				return p.SSA.MethodValue(ms.At(i))
			}
		}
		return nil
	}
	fn, _ := sp.Members[name].(*ssa.Function)
	return fn
}

// AllModuleFuncs returns every function (incl. methods, closures, generic instances) declared in
// the non-test files of the given package.
func (p *Prog) AllModuleFuncs(pkg *packages.Package) []*ssa.Function {
	var out []*ssa.Function
	for f := range ssautil.AllFunctions(p.SSA) {
		if !p.InModule(f) {
			continue
		}
		g := f
		if o := g.Origin(); o != nil {
			g = o
		}
		for g.Parent() != nil {
			g = g.Parent()
		}
		if g.Pkg == nil || g.Pkg.Pkg.Path() != pkg.PkgPath {
			continue
		}
		if f.Synthetic != "" && f.Origin() == nil {
			continue
		}
		if len(f.Blocks) == 0 {
			continue
		}
		if f.TypeParams().Len() > 0 && len(f.TypeArgs()) == 0 {
			continue // uninstantiated generic body
		}
		out = append(out, f)
	}
	sort.Slice(out, func(i, j int) bool { return funcKey(out[i]) < funcKey(out[j]) })
	return out
}
