package main

import (
	"fmt"
	"go/constant"
	"go/token"
	"go/types"

	"golang.org/x/tools/go/ssa"
)

// A1 — constant-table extraction.
//
// TVal is the value of a table-building expression: a string constant or a list of TVals.
type TVal struct {
	IsStr bool
	Str   string
	Pos   token.Pos
	Elems []TVal
}

type tableEval struct {
	p     *Prog
	depth int
}

// EvalTableFunc evaluates the (single) result of a parameter-less function that builds its result
// only from string constants, slice/array composite literals, nesting of those, append of those,
// calls to other such functions, and loads of package-level variables that are initialised once with
// such a value and never written elsewhere. Anything else is an error (the caller reports undecided).
func (p *Prog) EvalTableFunc(fn *ssa.Function) (TVal, error) {
	te := &tableEval{p: p}
	return te.evalFunc(fn)
}

func (te *tableEval) evalFunc(fn *ssa.Function) (TVal, error) {
	if fn == nil {
		return TVal{}, fmt.Errorf("function not found")
	}
	te.depth++
	defer func() { te.depth-- }()
	if te.depth > 8 {
		return TVal{}, fmt.Errorf("table construction nests deeper than 8 calls")
	}
	if len(fn.Params) != 0 {
		return TVal{}, fmt.Errorf("%s takes parameters", fn)
	}
	var rets []*ssa.Return
	for _, b := range fn.Blocks {
		for _, in := range b.Instrs {
			if r, ok := in.(*ssa.Return); ok {
				rets = append(rets, r)
			}
		}
	}
	if len(rets) != 1 || len(rets[0].Results) != 1 {
		return TVal{}, fmt.Errorf("%s: expected exactly one return of one value, found %d returns", fn, len(rets))
	}
	return te.eval(rets[0].Results[0], fn)
}

func (te *tableEval) eval(v ssa.Value, fn *ssa.Function) (TVal, error) {
	switch v := v.(type) {
	case *ssa.Const:
		if v.Value != nil && v.Value.Kind() == constant.String {
			return TVal{IsStr: true, Str: constant.StringVal(v.Value), Pos: v.Pos()}, nil
		}
		if v.IsNil() {
			return TVal{}, nil // nil slice = empty list
		}
		return TVal{}, fmt.Errorf("non-string constant %s", v)
	case *ssa.Slice:
		if v.Low != nil || v.High != nil || v.Max != nil {
			return TVal{}, fmt.Errorf("%s: partial slice expression in table", te.p.pos(v.Pos()))
		}
		al, ok := v.X.(*ssa.Alloc)
		if !ok {
			return TVal{}, fmt.Errorf("%s: slice of non-literal", te.p.pos(v.Pos()))
		}
		if err := te.sliceUsesOK(v); err != nil {
			return TVal{}, err
		}
		return te.evalArray(al, fn)
	case *ssa.Call:
		if b, ok := v.Call.Value.(*ssa.Builtin); ok && b.Name() == "append" && len(v.Call.Args) == 2 {
			a, err := te.eval(v.Call.Args[0], fn)
			if err != nil {
				return TVal{}, err
			}
			bb, err := te.eval(v.Call.Args[1], fn)
			if err != nil {
				return TVal{}, err
			}
			if a.IsStr || bb.IsStr {
				return TVal{}, fmt.Errorf("append of non-list")
			}
			return TVal{Elems: append(append([]TVal{}, a.Elems...), bb.Elems...), Pos: v.Pos()}, nil
		}
		if callee := v.Call.StaticCallee(); callee != nil && te.p.InModule(callee) && len(v.Call.Args) == 0 {
			return te.evalFunc(callee)
		}
		return TVal{}, fmt.Errorf("%s: call %s in table construction", te.p.pos(v.Pos()), v.Call.Value)
	case *ssa.UnOp:
		if v.Op == token.MUL {
			if g, ok := v.X.(*ssa.Global); ok {
				return te.evalGlobal(g)
			}
		}
		return TVal{}, fmt.Errorf("%s: unsupported load in table construction", te.p.pos(v.Pos()))
	}
	return TVal{}, fmt.Errorf("%s: unsupported %T in table construction", te.p.pos(v.Pos()), v)
}

// sliceUsesOK: the slice value made from a literal may only be returned, stored as an element of
// another literal, stored into a global, or appended; anything else (a call, an element store
// through it) could change the table after it was built.
func (te *tableEval) sliceUsesOK(s *ssa.Slice) error {
	for _, r := range *s.Referrers() {
		switch r := r.(type) {
		case *ssa.Return:
		case *ssa.Store:
			if r.Val != s {
				return fmt.Errorf("%s: table literal is written through after construction", te.p.pos(r.Pos()))
			}
		case *ssa.Call:
			if b, ok := r.Call.Value.(*ssa.Builtin); ok && (b.Name() == "append" || b.Name() == "len" || b.Name() == "cap") {
				continue
			}
			if callee := r.Call.StaticCallee(); callee != nil && te.p.InModule(callee) {
				// handed to a helper that only reads it (a variadic list of candidates that is ranged over)
				ro := true
				for i, a := range r.Call.Args {
					if a == ssa.Value(s) && !(i < len(callee.Params) && sliceParamReadOnly(callee.Params[i])) {
						ro = false
					}
				}
				if ro {
					continue
				}
			}
			return fmt.Errorf("%s: table literal passed to %s", te.p.pos(r.Pos()), r.Call.Value)
		case *ssa.IndexAddr:
			for _, rr := range *r.Referrers() {
				if st, ok := rr.(*ssa.Store); ok && st.Addr == r {
					return fmt.Errorf("%s: element of table literal overwritten", te.p.pos(st.Pos()))
				}
				if _, ok := rr.(*ssa.UnOp); !ok {
					if _, ok := rr.(*ssa.DebugRef); !ok {
						return fmt.Errorf("%s: address of table element escapes", te.p.pos(r.Pos()))
					}
				}
			}
		case *ssa.DebugRef:
		default:
			return fmt.Errorf("%s: table literal used by %T", te.p.pos(s.Pos()), r)
		}
	}
	return nil
}

func (te *tableEval) evalArray(al *ssa.Alloc, fn *ssa.Function) (TVal, error) {
	pt, ok := al.Type().Underlying().(*types.Pointer)
	if !ok {
		return TVal{}, fmt.Errorf("alloc of non-pointer")
	}
	at, ok := pt.Elem().Underlying().(*types.Array)
	if !ok {
		return TVal{}, fmt.Errorf("%s: literal backing store is not an array", te.p.pos(al.Pos()))
	}
	n := int(at.Len())
	out := TVal{Elems: make([]TVal, n), Pos: al.Pos()}
	set := make([]bool, n)
	for _, r := range *al.Referrers() {
		switch r := r.(type) {
		case *ssa.IndexAddr:
			c, ok := r.Index.(*ssa.Const)
			if !ok {
				return TVal{}, fmt.Errorf("%s: non-constant index into table literal", te.p.pos(r.Pos()))
			}
			i := int(c.Int64())
			if i < 0 || i >= n {
				return TVal{}, fmt.Errorf("index out of range in literal")
			}
			refs := *r.Referrers()
			var st *ssa.Store
			for _, rr := range refs {
				if _, ok := rr.(*ssa.DebugRef); ok {
					continue
				}
				s, ok := rr.(*ssa.Store)
				if !ok || s.Addr != r || st != nil {
					return TVal{}, fmt.Errorf("%s: element %d of table literal has a use other than its single initialising store", te.p.pos(r.Pos()), i)
				}
				st = s
			}
			if st == nil {
				return TVal{}, fmt.Errorf("element address without store")
			}
			if st.Block() != al.Block() {
				return TVal{}, fmt.Errorf("%s: table element initialised under control flow", te.p.pos(st.Pos()))
			}
			if set[i] {
				return TVal{}, fmt.Errorf("%s: element %d stored twice", te.p.pos(st.Pos()), i)
			}
			set[i] = true
			ev, err := te.eval(st.Val, fn)
			if err != nil {
				return TVal{}, err
			}
			if ev.Pos == token.NoPos {
				ev.Pos = st.Pos()
			}
			out.Elems[i] = ev
		case *ssa.Slice:
			if r.Block() != al.Block() {
				return TVal{}, fmt.Errorf("%s: literal sliced under control flow", te.p.pos(r.Pos()))
			}
		case *ssa.DebugRef:
		case *ssa.UnOp:
			// the whole array read as a value (range over an array literal): a copy, nothing can write through it
			if r.Op != token.MUL {
				return TVal{}, fmt.Errorf("%s: table literal backing array used by %T", te.p.pos(al.Pos()), r)
			}
		default:
			return TVal{}, fmt.Errorf("%s: table literal backing array used by %T", te.p.pos(al.Pos()), r)
		}
	}
	for i, ok := range set {
		if !ok {
			// unset element of a literal: zero value
			out.Elems[i] = TVal{IsStr: isString(at.Elem()), Pos: al.Pos()}
		}
	}
	return out, nil
}

func isString(t types.Type) bool {
	b, ok := t.Underlying().(*types.Basic)
	return ok && b.Kind() == types.String
}

// evalGlobal: the value of a package-level variable that is stored exactly once, in the package
// initialiser, and whose address is never taken otherwise.
func (te *tableEval) evalGlobal(g *ssa.Global) (TVal, error) {
	var st *ssa.Store
	for _, fn := range te.p.AllModuleFuncsOfSSAPkg(g.Pkg) {
		for _, b := range fn.Blocks {
			for _, in := range b.Instrs {
				for _, op := range in.Operands(nil) {
					if *op != g {
						continue
					}
					switch in := in.(type) {
					case *ssa.Store:
						if in.Addr == g {
							if fn.Name() != "init" || st != nil {
								return TVal{}, fmt.Errorf("%s: package variable %s written outside its initialiser", te.p.pos(in.Pos()), g.Name())
							}
							st = in
							continue
						}
						return TVal{}, fmt.Errorf("%s: address of %s escapes", te.p.pos(in.Pos()), g.Name())
					case *ssa.UnOp:
						if in.Op == token.MUL {
							// a load: the loaded slice must not be written through
							if err := te.loadedSliceReadOnly(in); err != nil {
								return TVal{}, err
							}
							continue
						}
					}
					return TVal{}, fmt.Errorf("%s: package variable %s used by %T", te.p.pos(in.Pos()), g.Name(), in)
				}
			}
		}
	}
	if st == nil {
		return TVal{}, fmt.Errorf("package variable %s has no initialising store", g.Name())
	}
	return te.eval(st.Val, st.Parent())
}

func (te *tableEval) loadedSliceReadOnly(v ssa.Value) error {
	for _, r := range *v.Referrers() {
		switch r := r.(type) {
		case *ssa.IndexAddr:
			for _, rr := range *r.Referrers() {
				if s, ok := rr.(*ssa.Store); ok && s.Addr == r {
					return fmt.Errorf("%s: element of shared table written", te.p.pos(s.Pos()))
				}
			}
		case *ssa.Call:
			if b, ok := r.Call.Value.(*ssa.Builtin); ok && (b.Name() == "len" || b.Name() == "cap") {
				continue
			}
			if callee := r.Call.StaticCallee(); callee != nil && te.p.InModule(callee) {
				continue // in-module readers are checked by C13's argument-mutation rule
			}
			return fmt.Errorf("%s: shared table passed to %s", te.p.pos(r.Pos()), r.Call.Value)
		}
	}
	return nil
}

func (p *Prog) AllModuleFuncsOfSSAPkg(sp *ssa.Package) []*ssa.Function {
	for _, pk := range p.Pkgs {
		if p.SSAPkg[pk.PkgPath] == sp {
			fs := p.AllModuleFuncs(pk)
			if init := sp.Members["init"]; init != nil {
				if f, ok := init.(*ssa.Function); ok {
					fs = append(fs, f)
				}
			}
			return fs
		}
	}
	return nil
}

// Strings flattens a one-level list of strings.
func (t TVal) Strings() ([]string, error) {
	if t.IsStr {
		return nil, fmt.Errorf("not a list")
	}
	out := make([]string, len(t.Elems))
	for i, e := range t.Elems {
		if !e.IsStr {
			return nil, fmt.Errorf("element %d is not a string", i)
		}
		out[i] = e.Str
	}
	return out, nil
}

// Tables are the four data tables of the library as compiled into the current tree.
type Tables struct {
	Active, Deprecated, Exceptions []string
	ActivePos, DepPos, ExcPos      []token.Pos
	Ranges                         [][][]string
	RangePos                       [][][]token.Pos
}

func strs(t TVal) ([]string, []token.Pos, error) {
	s, err := t.Strings()
	if err != nil {
		return nil, nil, err
	}
	ps := make([]token.Pos, len(t.Elems))
	for i, e := range t.Elems {
		ps[i] = e.Pos
	}
	return s, ps, nil
}

// LoadTables extracts the tables through the getter functions the library itself calls. The getter
// names are resolved from the call sites in spdxexp (activeLicense/deprecatedLicense/exceptionLicense
// wrappers are discovered structurally in rules that need them); here the four exported,
// parameter-less functions of spdxlicenses are looked up by the names the API documents.
func (p *Prog) LoadTables() (*Tables, error) {
	t := &Tables{}
	get := func(name string) (TVal, error) {
		fn := p.Func(p.LicPkg, name)
		if fn == nil {
			return TVal{}, fmt.Errorf("unresolved anchor: spdxlicenses.%s", name)
		}
		v, err := p.EvalTableFunc(fn)
		if err != nil {
			return TVal{}, fmt.Errorf("spdxlicenses.%s: cannot evaluate table statically: %v", name, err)
		}
		return v, nil
	}
	var err error
	var v TVal
	if v, err = get("GetLicenses"); err != nil {
		return nil, err
	}
	if t.Active, t.ActivePos, err = strs(v); err != nil {
		return nil, err
	}
	if v, err = get("GetDeprecated"); err != nil {
		return nil, err
	}
	if t.Deprecated, t.DepPos, err = strs(v); err != nil {
		return nil, err
	}
	if v, err = get("GetExceptions"); err != nil {
		return nil, err
	}
	if t.Exceptions, t.ExcPos, err = strs(v); err != nil {
		return nil, err
	}
	if v, err = get("LicenseRanges"); err != nil {
		return nil, err
	}
	if v.IsStr {
		return nil, fmt.Errorf("LicenseRanges is not a list")
	}
	for _, fam := range v.Elems {
		if fam.IsStr {
			return nil, fmt.Errorf("LicenseRanges: family is not a list")
		}
		var f [][]string
		var fp [][]token.Pos
		for _, grp := range fam.Elems {
			s, ps, err := strs(grp)
			if err != nil {
				return nil, fmt.Errorf("LicenseRanges: %v", err)
			}
			f = append(f, s)
			fp = append(fp, ps)
		}
		t.Ranges = append(t.Ranges, f)
		t.RangePos = append(t.RangePos, fp)
	}
	return t, nil
}

// sliceParamReadOnly: the slice parameter is only measured and read element-wise in its function.
func sliceParamReadOnly(prm *ssa.Parameter) bool {
	for _, r := range *prm.Referrers() {
		switch r := r.(type) {
		case *ssa.Call:
			if b, ok := r.Call.Value.(*ssa.Builtin); !ok || (b.Name() != "len" && b.Name() != "cap") {
				return false
			}
		case *ssa.IndexAddr:
			for _, rr := range *r.Referrers() {
				switch x := rr.(type) {
				case *ssa.UnOp:
					if x.Op != token.MUL {
						return false
					}
				case *ssa.DebugRef:
				default:
					return false
				}
			}
		case *ssa.DebugRef:
		default:
			return false
		}
	}
	return true
}
