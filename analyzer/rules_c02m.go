package main

import (
	"fmt"
	"go/token"
	"os"
	"sort"
	"strings"

	"golang.org/x/tools/go/ssa"
)

func init() {
	register("C02", &propDef{
		Level:   "other",
		Explain: "The matcher is inlined into one propositional formula over canonical atoms (role tests, flags, string equalities, family/position comparisons; symmetric atoms have their operands sorted) and decided by exhaustive truth tables: M1 a true result implies both terms are licenses (resp. both references), M2 a true result implies compatible exceptions and the exception gate is (neither has one) or (both have one and they are equal), M3 symmetry: the formula is equivalent to itself with the two terms swapped, M4 reflexivity: with both terms identified it reduces to true, M7 for two references the matcher is exactly identical LicenseRef id and identical-or-both-absent DocumentRef under ==, M5 every suffix strip removes exactly the length of the tested suffix and an '-or-later' token sets the plus flag, M6/T7 the plus cells call the in-range test with the non-plus term first and 'later' means a greater position. The table the formula's position atoms read is checked exhaustively (T1-T4), its readers structurally (T5, T6, T8). Not decided: per-pair outcomes (value level) beyond what the table rules give.",
		Run:     rulesC02,
		Trusted: []string{"go/ssa lowering", "atoms are treated as independent propositions except for the identities x==x, EqualFold(x,x), x>x"},
	})
}

// evalQ evaluates a formula under an assignment of atoms; quantifiers/unknown are not expected.
func evalQ(q *qf, asg map[string]bool) (bool, bool) {
	switch q.Op {
	case "true":
		return true, true
	case "false":
		return false, true
	case "atom":
		v, ok := asg[canonAtom(q.Atom)]
		return v, ok
	case "not":
		v, ok := evalQ(q.Args[0], asg)
		return !v, ok
	case "and":
		res := true
		for _, a := range q.Args {
			v, ok := evalQ(a, asg)
			if !ok {
				return false, false
			}
			res = res && v
		}
		return res, true
	case "or":
		res := false
		for _, a := range q.Args {
			v, ok := evalQ(a, asg)
			if !ok {
				return false, false
			}
			res = res || v
		}
		return res, true
	case "ite":
		c, ok := evalQ(q.Args[0], asg)
		if !ok {
			return false, false
		}
		if c {
			return evalQ(q.Args[1], asg)
		}
		return evalQ(q.Args[2], asg)
	}
	return false, false
}

func atomsOf(q *qf, set map[string]bool) {
	if q.Op == "atom" {
		set[canonAtom(q.Atom)] = true
	}
	for _, a := range q.Args {
		atomsOf(a, set)
	}
}

// mapAtoms rewrites every atom string.
func mapAtoms(q *qf, f func(string) *qf) *qf {
	if q.Op == "atom" {
		return f(q.Atom)
	}
	n := &qf{Op: q.Op, Atom: q.Atom, Coll: q.Coll, Var: q.Var}
	for _, a := range q.Args {
		n.Args = append(n.Args, mapAtoms(a, f))
	}
	return n
}

// forAll enumerates all assignments of the atoms of the given formulas and calls check; returns the
// first failing assignment.
func forAll(fs []*qf, check func(asg map[string]bool) bool) (map[string]bool, int, bool) {
	set := map[string]bool{}
	for _, f := range fs {
		atomsOf(f, set)
	}
	var atoms []string
	for a := range set {
		atoms = append(atoms, a)
	}
	sort.Strings(atoms)
	if len(atoms) > 22 {
		if os.Getenv("SPDXVERIF_TRACE_ATOMS") != "" {
			for _, a := range atoms {
				fmt.Println("ATOM", a)
			}
		}
		return nil, len(atoms), false
	}
	asg := map[string]bool{}
	n := 1 << len(atoms)
	for m := 0; m < n; m++ {
		for i, a := range atoms {
			asg[a] = m&(1<<i) != 0
		}
		if !check(asg) {
			cp := map[string]bool{}
			for k, v := range asg {
				cp[k] = v
			}
			return cp, len(atoms), true
		}
	}
	return nil, len(atoms), true
}

func showAsg(asg map[string]bool) string {
	var ks []string
	for k, v := range asg {
		if v {
			ks = append(ks, shortDesc(k))
		}
	}
	sort.Strings(ks)
	return "true atoms: " + strings.Join(ks, "; ")
}

// swapTerms exchanges the two members of the pair in an atom.
func swapTerms(a string) string {
	a = strings.ReplaceAll(a, ".firstNode", ".\x00")
	a = strings.ReplaceAll(a, ".secondNode", ".firstNode")
	return strings.ReplaceAll(a, ".\x00", ".secondNode")
}

// identify makes both members the same term and applies x==x, EqualFold(x,x), x>x.
func identify(a string) *qf {
	a = strings.ReplaceAll(a, ".secondNode", ".firstNode")
	c := canonAtom(a)
	if strings.HasPrefix(c, "(") && strings.HasSuffix(c, ")") {
		inner := c[1 : len(c)-1]
		for _, op := range []string{" == ", " != ", " > ", " < ", " >= ", " <= "} {
			depth := 0
			for i := 0; i+len(op) <= len(inner); i++ {
				switch inner[i] {
				case '(', '{', '[':
					depth++
				case ')', '}', ']':
					depth--
				}
				if depth == 0 && inner[i:i+len(op)] == op && inner[:i] == inner[i+len(op):] {
					switch strings.TrimSpace(op) {
					case "==", ">=", "<=":
						return qTrue()
					default:
						return qFalse()
					}
				}
			}
		}
	}
	if strings.HasPrefix(c, "strings.EqualFold(") {
		inner := c[len("strings.EqualFold(") : len(c)-1]
		depth := 0
		for i := 0; i < len(inner); i++ {
			switch inner[i] {
			case '(', '{', '[':
				depth++
			case ')', '}', ']':
				depth--
			case ',':
				if depth == 0 && strings.TrimSpace(inner[:i]) == strings.TrimSpace(inner[i+1:]) {
					return qTrue()
				}
			}
		}
	}
	return &qf{Op: "atom", Atom: a}
}

func rulesC02(p *Prog, r *Report) {
	r.Rule("M1", "necessary", 2, "role gates: the license matcher can only be true when both terms are licenses, the reference matcher only when both are references (a license never matches a LicenseRef)")
	r.Rule("M2", "necessary", 2, "exception gate: a license match implies compatible exceptions, and 'compatible' is exactly: neither has one, or both have one and they are equal")
	r.Rule("M3", "necessary", 2, "symmetry: each matcher is equivalent to itself with the two terms exchanged (exhaustive truth table over canonical atoms)")
	r.Rule("M4", "necessary", 2, "reflexivity: with both terms identified each matcher reduces to true for terms of its own kind")
	r.Rule("M5", "necessary", 3, "suffix arithmetic: every strip of a tested suffix removes exactly its length; an '-or-later' license token sets the plus flag")
	r.Rule("M6", "necessary", 2, "plus cells: with exactly one '+', the in-range test is applied with the non-plus term first; with two, only the family is compared; with none, versions must be equal; each cell consults only its own test, and a match that is not the exact-equality shortcut implies that test")

	// the matcher is what decides a single term against a single allowed entry: the verdict consults the
	// allowed entries through the two pair matchers only (no side table, fast path or index in between)
	ruleX4(p, r, "X4")

	lac := p.Func(p.ExpPkg, "(*nodePair).licensesAreCompatible")
	lrc := p.Func(p.ExpPkg, "(*nodePair).licenseRefsAreCompatible")
	exc := p.Func(p.ExpPkg, "(*nodePair).exceptionsAreCompatible")
	if lac == nil || lrc == nil || exc == nil {
		r.Unknown("M1", "anchor", "-", "unresolved anchor: matcher methods of nodePair")
		return
	}
	roleL, roleR := "", ""
	for k, n := range roleNames(p) {
		switch n {
		case "licenseNode":
			roleL = k
		case "licenseRefNode":
			roleR = k
		}
	}
	mk := func(fn *ssa.Function) *qf {
		qz := &quantizer{p: p, elemVar: map[ssa.Value]string{}, inlineAll: true, seeInts: true}
		return normQF(qz.funcFormulaWith(fn, 0, nil))
	}
	FL, FR, FE := mk(lac), mk(lrc), mk(exc)
	r.Extra["matcher_formulas"] = map[string]string{"licensesAreCompatible": FL.String(), "licenseRefsAreCompatible": FR.String(), "exceptionsAreCompatible": FE.String()}
	recv := "param:" + lac.Params[0].Name()
	roleAtom := func(term, role string) string { return canonAtom("(" + recv + "." + term + ".role == " + role + ")") }
	for _, x := range []struct {
		name string
		f    *qf
		fn   *ssa.Function
		role string
	}{{"licensesAreCompatible", FL, lac, roleL}, {"licenseRefsAreCompatible", FR, lrc, roleR}} {
		pos := p.pos(x.fn.Pos())
		if x.f == nil || x.f.has("unknown") || x.f.has("exists") || x.f.has("forall") {
			r.Unknown("M1", x.name, pos, "kind=undecided: matcher not expressible as a propositional formula: "+fmt.Sprint(x.f))
			continue
		}
		// M1
		bad, n, ok := forAll([]*qf{x.f}, func(asg map[string]bool) bool {
			v, _ := evalQ(x.f, asg)
			if !v {
				return true
			}
			return asg[roleAtom("firstNode", x.role)] && asg[roleAtom("secondNode", x.role)]
		})
		switch {
		case !ok:
			r.Unknown("M1", x.name, pos, fmt.Sprintf("kind=undecided: %d atoms is too many for an exhaustive table", n))
		case bad != nil:
			r.Bad("M1", x.name, pos, "the matcher can be true although a term is not of its kind: "+showAsg(bad))
		default:
			r.OK("M1", x.name, pos, "true ⇒ both terms of the matcher's kind", fmt.Sprintf("%d atoms, %d rows", n, 1<<n), true)
		}
		// M3
		sw := mapAtoms(x.f, func(a string) *qf { return &qf{Op: "atom", Atom: swapTerms(a)} })
		bad, n, ok = forAll([]*qf{x.f, sw}, func(asg map[string]bool) bool {
			a, _ := evalQ(x.f, asg)
			b, _ := evalQ(sw, asg)
			return a == b
		})
		switch {
		case !ok:
			r.Unknown("M3", x.name, pos, fmt.Sprintf("kind=undecided: %d atoms is too many for an exhaustive table", n))
		case bad != nil:
			a, _ := evalQ(x.f, bad)
			r.Bad("M3", x.name, pos, fmt.Sprintf("not symmetric: match(a,b)=%v but match(b,a)=%v when %s", a, !a, showAsg(bad)))
		default:
			r.OK("M3", x.name, pos, "equivalent under exchange of the two terms", fmt.Sprintf("%d atoms, %d rows", n, 1<<n), true)
		}
		// M4
		id := mapAtoms(x.f, identify)
		bad, n, ok = forAll([]*qf{id}, func(asg map[string]bool) bool {
			if !asg[roleAtom("firstNode", x.role)] {
				return true
			}
			v, _ := evalQ(id, asg)
			return v
		})
		switch {
		case !ok:
			r.Unknown("M4", x.name, pos, fmt.Sprintf("kind=undecided: %d atoms", n))
		case bad != nil:
			r.Bad("M4", x.name, pos, "a term of the matcher's kind does not match itself when "+showAsg(bad))
		default:
			r.OK("M4", x.name, pos, "match(a,a) reduces to true", fmt.Sprintf("%d atoms", n), true)
		}
	}
	ruleM7(p, r, FR, lrc, recv, roleR)
	// M2
	if FE != nil && FL != nil && !FE.has("unknown") && !FL.has("unknown") {
		bad, n, ok := forAll([]*qf{FL, FE}, func(asg map[string]bool) bool {
			l, _ := evalQ(FL, asg)
			e, _ := evalQ(FE, asg)
			return !l || e
		})
		switch {
		case !ok:
			r.Unknown("M2", "gate", p.pos(lac.Pos()), fmt.Sprintf("kind=undecided: %d atoms", n))
		case bad != nil:
			r.Bad("M2", "gate", p.pos(lac.Pos()), "licenses can match although their exceptions are not compatible: "+showAsg(bad))
		default:
			r.OK("M2", "gate", p.pos(lac.Pos()), "license match ⇒ exceptions compatible", fmt.Sprintf("%d atoms", n), true)
		}
		// meaning of the gate, for two licenses
		set := map[string]bool{}
		atomsOf(FE, set)
		var ha, hb, eq string
		for a := range set {
			switch {
			case strings.Contains(a, "hasException") && strings.Contains(a, "firstNode") && !strings.Contains(a, "secondNode"):
				ha = a
			case strings.Contains(a, "hasException") && strings.Contains(a, "secondNode") && !strings.Contains(a, "firstNode"):
				hb = a
			case strings.Contains(a, "exception(") && strings.Contains(a, "=="):
				eq = a
			}
		}
		if ha == "" || hb == "" || eq == "" {
			r.Unknown("M2", "meaning", p.pos(exc.Pos()), "kind=undecided: exception flags / equality atoms not recognised in "+FE.String())
		} else {
			bad, _, _ := forAll([]*qf{FE}, func(asg map[string]bool) bool {
				if !asg[roleAtom("firstNode", roleL)] || !asg[roleAtom("secondNode", roleL)] {
					return true
				}
				v, _ := evalQ(FE, asg)
				want := (!asg[ha] && !asg[hb]) || (asg[ha] && asg[hb] && asg[eq])
				return v == want
			})
			if bad != nil {
				r.Bad("M2", "meaning", p.pos(exc.Pos()), "for two licenses the exception gate is not '(neither has an exception) or (both have one and they are equal)': "+showAsg(bad))
			} else {
				r.OK("M2", "meaning", p.pos(exc.Pos()), "(¬ha ∧ ¬hb) ∨ (ha ∧ hb ∧ equal)", "", true)
			}
		}
	} else {
		r.Unknown("M2", "gate", p.pos(lac.Pos()), "kind=undecided: formulas unavailable")
	}

	// M5
	nStrip := 0
	for _, f := range p.RList {
		fb := newBoundsProver(p, sharedEngineLite(p)).forFn(f)
		for _, b := range f.Blocks {
			for _, in := range b.Instrs {
				if call, ok := in.(*ssa.Call); ok && call.Call.StaticCallee() != nil {
					switch call.Call.StaticCallee().String() {
					case "strings.CutSuffix", "strings.TrimSuffix":
						if c, isC := constString(call.Call.Args[1]); isC {
							nStrip++
							r.OK("M5", fmt.Sprintf("%s|strip %q", p.shortKey(f), c), p.pos(call.Pos()), "library strip removes exactly the suffix", call.Call.StaticCallee().Name(), true)
						}
					}
				}
				sl, ok := in.(*ssa.Slice)
				if !ok || sl.High == nil || !isStringType(sl.X.Type()) {
					continue
				}
				// s[lo : len(s)-k] guarded by HasSuffix(s, c)
				for cf := range fb.facts[b.Index] {
					call, ok := cf.c.(*ssa.Call)
					if !ok || !cf.pol || call.Call.StaticCallee() == nil || call.Call.StaticCallee().String() != "strings.HasSuffix" || call.Call.Args[0] != sl.X {
						continue
					}
					c, isC := constString(call.Call.Args[1])
					if !isC {
						continue
					}
					hi, okHi := fb.linOf(sl.High, sl, 0)
					if !okHi {
						continue
					}
					want := fb.lenOf(sl.X, sl, 0).addK(-int64(len(c)))
					// only strips: high is len(s) minus a constant
					d := fb.lenOf(sl.X, sl, 0).sub(hi)
					if !d.isConst() || d.k.Sign() <= 0 {
						continue
					}
					nStrip++
					key := fmt.Sprintf("%s|strip %q", p.shortKey(f), c)
					if hi.sub(want).isConst() && hi.sub(want).k.Sign() == 0 {
						r.OK("M5", key, p.pos(sl.Pos()), "removes exactly len(suffix)", "", true)
					} else {
						r.Bad("M5", key, p.pos(sl.Pos()), fmt.Sprintf("under HasSuffix(_, %q) the string is cut by %s bytes, not by %d: the stripped id is wrong", c, d.k.RatString(), len(c)))
					}
				}
			}
		}
	}
	if nStrip == 0 {
		r.Unknown("M5", "strips", "-", "kind=undecided: no suffix strip found")
	}
	// '-or-later' token ⇒ hasPlus
	if pl := p.Func(p.ExpPkg, "(*tokenStream).parseLicense"); pl != nil {
		found := false
		for _, sfx := range plusSuffixes(p, pl) {
			if sfx == "-or-later" {
				found = true
			}
		}
		if found {
			r.OK("M5", "parseLicense|-or-later sets hasPlus", p.pos(pl.Pos()), "store hasPlus=true under HasSuffix(value, \"-or-later\")", "", true)
		} else {
			r.Bad("M5", "parseLicense|-or-later sets hasPlus", p.pos(pl.Pos()), "a license token ending in -or-later does not set the plus flag: 'X-or-later' would not count as 'X+'")
		}
	}

	// M6: cells of the plus table, from the non-inlined formula
	{
		// the tests the cells are expected to consult stay opaque; any helper in between is seen through
		qz := &quantizer{p: p, elemVar: map[ssa.Value]string{}, stop: map[string]bool{
			"exceptionsAreCompatible": true, "hasPlus": true, "identifierInRange": true, "isLicense": true,
			"licensesExactlyEqual": true, "rangesAreCompatible": true, "rangesEqual": true, "compareEQ": true,
			"compareGT": true, "compareLT": true, "hasException": true, "isLicenseRef": true, "isExpression": true}}
		f := qz.funcFormulaWith(lac, 0, nil)
		s := ""
		if f != nil {
			s = f.String()
		}
		fwd := "(*spdxexp.nodePair).identifierInRange(" + recv + ")"
		rev := "(*spdxexp.nodePair).identifierInRange(&{firstNode:" + recv + ".secondNode, secondNode:" + recv + ".firstNode})"
		both := "(*spdxexp.nodePair).rangesAreCompatible(" + recv + ")"
		none := "(*spdxexp.nodePair).rangesEqual(" + recv + ")"
		hp1 := "(*spdxexp.node).hasPlus(" + recv + ".firstNode)"
		hp2 := "(*spdxexp.node).hasPlus(" + recv + ".secondNode)"
		atoms := formulaAtoms(f)
		need := []string{fwd, rev, both, hp1, hp2}
		var missing []string
		for _, n := range need {
			if !containsStr(atoms, n) {
				missing = append(missing, shortDesc(n))
			}
		}
		if !containsStr(atoms, none) && !containsStr(atoms, "spdxexp.compareEQ("+recv+".firstNode, "+recv+".secondNode)") {
			missing = append(missing, "rangesEqual/compareEQ")
		}
		if f == nil || len(missing) > 0 {
			r.Bad("M6", "plus cells|calls", p.pos(lac.Pos()), fmt.Sprintf("the four +/no+ cells do not call the expected tests (missing %v): %s", missing, s))
		} else {
			r.OK("M6", "plus cells|calls", p.pos(lac.Pos()), "in-range test on the pair and on the reversed pair, family test, equality test", "", true)
			// cell semantics by truth table over the atoms, restricted to rows that reach the cells
			cellOK := true
			why := ""
			eqAtom := none
			if !containsStr(atoms, none) {
				eqAtom = "spdxexp.compareEQ(" + recv + ".firstNode, " + recv + ".secondNode)"
			}
			bad, _, ok := forAll([]*qf{f}, func(asg map[string]bool) bool {
				// rows that pass the gates: find them by requiring the formula to depend on the cell atom only
				v, _ := evalQ(f, asg)
				// neutralise: if gates fail the formula is false regardless; detect gate pass by flipping the cell atom
				var cell string
				switch {
				case asg[canonAtom(hp1)] && asg[canonAtom(hp2)]:
					cell = both
				case !asg[canonAtom(hp1)] && asg[canonAtom(hp2)]:
					cell = fwd
				case asg[canonAtom(hp1)] && !asg[canonAtom(hp2)]:
					cell = rev
				default:
					cell = eqAtom
				}
				// within a cell the verdict may only depend on gate atoms and on that cell's atom
				for _, other := range []string{fwd, rev, both, eqAtom} {
					if other == cell {
						continue
					}
					a2 := map[string]bool{}
					for k, x := range asg {
						a2[k] = x
					}
					a2[canonAtom(other)] = !asg[canonAtom(other)]
					v2, _ := evalQ(f, a2)
					if v2 != v {
						why = fmt.Sprintf("in the cell hasPlus(first)=%v, hasPlus(second)=%v the verdict depends on %s", asg[canonAtom(hp1)], asg[canonAtom(hp2)], shortDesc(other))
						return false
					}
				}
				return true
			})
			if !ok {
				r.Unknown("M6", "plus cells|selection", p.pos(lac.Pos()), "kind=undecided: too many atoms")
			} else if bad != nil {
				cellOK = false
			}
			if cellOK {
				r.OK("M6", "plus cells|selection", p.pos(lac.Pos()), "each cell consults exactly its own test", "", true)
			} else {
				r.Bad("M6", "plus cells|selection", p.pos(lac.Pos()), why)
			}
			// determination: apart from the exact-equality shortcut, a match implies that the test of the
			// row's own cell holds (extra gates can only make the verdict false, so they never trip this;
			// a guard that bypasses the cell's range test with some other comparison does)
			exact := "(*spdxexp.nodePair).licensesExactlyEqual(" + recv + ")"
			if cellOK && ok && containsStr(atoms, exact) {
				why2 := ""
				bad2, _, ok2 := forAll([]*qf{f}, func(asg map[string]bool) bool {
					v, _ := evalQ(f, asg)
					if !v || asg[canonAtom(exact)] {
						return true
					}
					var cell string
					switch {
					case asg[canonAtom(hp1)] && asg[canonAtom(hp2)]:
						cell = both
					case !asg[canonAtom(hp1)] && asg[canonAtom(hp2)]:
						cell = fwd
					case asg[canonAtom(hp1)] && !asg[canonAtom(hp2)]:
						cell = rev
					default:
						cell = eqAtom
					}
					if !asg[canonAtom(cell)] {
						why2 = fmt.Sprintf("in the cell hasPlus(first)=%v, hasPlus(second)=%v the terms can match although they are not exactly equal and the cell's own test %s is false: the verdict does not go through the range table there (%s)", asg[canonAtom(hp1)], asg[canonAtom(hp2)], shortDesc(cell), showAsg(asg))
						return false
					}
					return true
				})
				if ok2 && bad2 != nil {
					r.Bad("M6", "plus cells|determination", p.pos(lac.Pos()), why2)
				} else if ok2 {
					r.OK("M6", "plus cells|determination", p.pos(lac.Pos()), "match ⇒ exactly equal ∨ the cell's own test", "", true)
				}
			}
		}
	}
	_ = token.ADD
	// table side
	t, err := p.LoadTables()
	r.Rule("A1", "exact", 4, "the data tables are compile-time constants the checker can evaluate")
	if err != nil {
		r.Unknown("A1", "tables", "-", err.Error())
		return
	}
	r.OK("A1", "GetLicenses", "-", "evaluated", "", true)
	r.OK("A1", "GetDeprecated", "-", "evaluated", "", true)
	r.OK("A1", "GetExceptions", "-", "evaluated", "", true)
	r.OK("A1", "LicenseRanges", "-", "evaluated", "", true)
	rulesRangeTable(p, r, t)
	rulesRangeCode(p, r)
}
