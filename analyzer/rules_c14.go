package main

import (
	"fmt"
	"sort"
	"strings"

	"golang.org/x/tools/go/ssa"
)

func init() {
	register("C14", &propDef{
		Level:   "other",
		Explain: "Narrow. A polynomial bound needs a cost analysis with loop bounds over runtime sizes and is not attempted. Decided necessary conditions for 'no exponential family': C1 no multiplicative recurrence — inside a recursive cycle no result is built as a product (nested ranges with an append in the inner body) of two values that both come from recursive calls; C2 no function of a recursive cycle calls a cycle member twice on the same argument; C3 the parser has no left recursion: every cycle of parser calls passes through a call site that is only reached after a token was consumed; A loop-nest degree along call chains is reported as information only. The cross product of the OR-of-ANDs expansion violates C1 today and is a recorded known finding (D7).",
		Run:     rulesC14,
		Trusted: []string{"go/ssa lowering", "regexp matching is linear in the input (RE2)"},
	})
}

// productLoop: fn contains nested full ranges over A (outer) and B (inner) with an append to an
// accumulator in the inner body. Returns the two collections.
func productLoops(fn *ssa.Function) [][2]ssa.Value {
	var out [][2]ssa.Value
	type lp struct {
		hdr  *ssa.BasicBlock
		coll ssa.Value
		body map[*ssa.BasicBlock]bool
	}
	var loops []lp
	for _, h := range fn.Blocks {
		if !isLoopHeader(h) {
			continue
		}
		ifi, ok := h.Instrs[len(h.Instrs)-1].(*ssa.If)
		if !ok {
			continue
		}
		cmp, ok := ifi.Cond.(*ssa.BinOp)
		if !ok {
			continue
		}
		ln, ok := cmp.Y.(*ssa.Call)
		if !ok || len(ln.Call.Args) == 0 || isRangeIndexOf(cmp.X, ln.Call.Args[0]) != nil {
			continue
		}
		body := map[*ssa.BasicBlock]bool{}
		for _, b := range loopBody(h) {
			body[b] = true
		}
		loops = append(loops, lp{h, ln.Call.Args[0], body})
	}
	for _, outer := range loops {
		for _, inner := range loops {
			if inner.hdr == outer.hdr || !outer.body[inner.hdr] {
				continue
			}
			// an append in the inner body whose result reaches a phi of the outer header (accumulates across both)
			for b := range inner.body {
				for _, in := range b.Instrs {
					c, ok := in.(*ssa.Call)
					if !ok {
						continue
					}
					if bi, ok := c.Call.Value.(*ssa.Builtin); !ok || bi.Name() != "append" {
						continue
					}
					if reachesPhiOf(c, outer.hdr, map[ssa.Value]bool{}) {
						out = append(out, [2]ssa.Value{outer.coll, inner.coll})
					}
				}
			}
		}
	}
	return out
}

func reachesPhiOf(v ssa.Value, hdr *ssa.BasicBlock, seen map[ssa.Value]bool) bool {
	if seen[v] || v.Referrers() == nil {
		return false
	}
	seen[v] = true
	for _, r := range *v.Referrers() {
		if phi, ok := r.(*ssa.Phi); ok {
			if phi.Block() == hdr {
				return true
			}
			if reachesPhiOf(phi, hdr, seen) {
				return true
			}
		}
	}
	return false
}

// fromRecursive: v is (a phi of) the result of a call to a member of a recursive cycle.
func fromRecursive(eng *Engine, v ssa.Value, seen map[ssa.Value]bool) *ssa.Function {
	if seen[v] {
		return nil
	}
	seen[v] = true
	switch t := v.(type) {
	case *ssa.Call:
		if c := t.Call.StaticCallee(); c != nil && eng.rec[c] {
			return c
		}
	case *ssa.Phi:
		for _, e := range t.Edges {
			if f := fromRecursive(eng, e, seen); f != nil {
				return f
			}
		}
	case *ssa.Extract:
		return fromRecursive(eng, t.Tuple, seen)
	}
	return nil
}

func rulesC14(p *Prog, r *Report) {
	eng := sharedEngineLite(p)
	r.Rule("C1", "necessary", 1, "no multiplicative recurrence: in a recursive cycle, no value is the product (nested ranges + append) of two values that both come from recursive calls")
	r.Rule("C2", "necessary", 3, "single use of recursive results: no function of a recursive cycle calls a member of the cycle twice with the same arguments on one path")
	r.Rule("C3", "necessary", 3, "no left recursion: every cycle of calls among the token-parser functions passes through a call site reached only after a token was consumed")

	// product functions: parameters multiplied
	type prodInfo struct {
		fn   *ssa.Function
		a, b int // parameter indices (-1 = not a parameter)
	}
	var prods []prodInfo
	paramIdx := func(fn *ssa.Function, v ssa.Value) int {
		for i, prm := range fn.Params {
			if ssa.Value(prm) == v {
				return i
			}
		}
		return -1
	}
	for _, f := range p.RList {
		for _, pl := range productLoops(f) {
			prods = append(prods, prodInfo{f, paramIdx(f, pl[0]), paramIdx(f, pl[1])})
		}
	}
	var pnames []string
	for _, pr := range prods {
		pnames = append(pnames, fmt.Sprintf("%s(#%d × #%d)", p.shortKey(pr.fn), pr.a, pr.b))
	}
	r.Extra["product_loops"] = pnames
	// C1
	var recs []*ssa.Function
	for f := range eng.rec {
		if p.R[f] {
			recs = append(recs, f)
		}
	}
	sort.Slice(recs, func(i, j int) bool { return recs[i].String() < recs[j].String() })
	for _, f := range recs {
		r.Funcs[p.shortKey(f)] = true
		found := false
		// direct product loops over two recursive results
		for _, pl := range productLoops(f) {
			fa := fromRecursive(eng, pl[0], map[ssa.Value]bool{})
			fb := fromRecursive(eng, pl[1], map[ssa.Value]bool{})
			if fa != nil && fb != nil {
				found = true
				r.Bad("C1", p.shortKey(f)+"/inline product", p.pos(f.Pos()), fmt.Sprintf("%s multiplies the results of recursive calls to %s and %s: the number of alternatives doubles with every level", f.Name(), fa.Name(), fb.Name()))
			}
		}
		// calls to product helpers with two recursive results
		nProd := 0
		for _, b := range f.Blocks {
			for _, in := range b.Instrs {
				c, ok := in.(*ssa.Call)
				if !ok || c.Call.StaticCallee() == nil {
					continue
				}
				for _, pr := range prods {
					if pr.fn != c.Call.StaticCallee() || pr.a < 0 || pr.b < 0 {
						continue
					}
					fa := fromRecursive(eng, c.Call.Args[pr.a], map[ssa.Value]bool{})
					fb := fromRecursive(eng, c.Call.Args[pr.b], map[ssa.Value]bool{})
					if fa != nil && fb != nil {
						found = true
						// keyed by the call site's function, not by the product helper's name: the finding is "this
						// function multiplies two recursive expansions", however the helper is called or declared
						nProd++
						key := fmt.Sprintf("%s/product of two recursive expansions", p.shortKey(f))
						if nProd > 1 {
							key += fmt.Sprintf("#%d", nProd)
						}
						r.Bad("C1", key, p.pos(c.Pos()), fmt.Sprintf("|result| = |%s(…)| · |%s(…)|: %s builds the full cross product of two recursively expanded operands, so an AND of n two-way ORs materialises 2^n alternatives (a few hundred bytes of input allocate gigabytes)", fa.Name(), fb.Name(), pr.fn.Name()))
					}
				}
			}
		}
		if !found {
			r.OK("C1", p.shortKey(f), p.pos(f.Pos()), "no product of two recursive results", "", true)
		}
	}
	// C2
	qz := &quantizer{p: p, elemVar: map[ssa.Value]string{}}
	for _, f := range recs {
		type site struct {
			c   *ssa.Call
			key string
		}
		var sites []site
		for _, b := range f.Blocks {
			for _, in := range b.Instrs {
				c, ok := in.(*ssa.Call)
				if !ok || c.Call.StaticCallee() == nil || !eng.rec[c.Call.StaticCallee()] {
					continue
				}
				var as []string
				for _, a := range c.Call.Args {
					as = append(as, qz.prov(a, 0))
				}
				sites = append(sites, site{c, c.Call.StaticCallee().String() + "(" + strings.Join(as, ",") + ")"})
			}
		}
		dup := ""
		for i := range sites {
			for j := i + 1; j < len(sites); j++ {
				if sites[i].key != sites[j].key {
					continue
				}
				bi, bj := sites[i].c.Block(), sites[j].c.Block()
				if bi == bj || bi.Dominates(bj) || bj.Dominates(bi) {
					dup = fmt.Sprintf("%s is evaluated twice on one path (%s and %s): the work doubles at every level of nesting", shortDesc(sites[i].key), p.pos(sites[i].c.Pos()), p.pos(sites[j].c.Pos()))
				}
			}
		}
		if dup != "" {
			r.Bad("C2", p.shortKey(f), p.pos(f.Pos()), dup)
		} else {
			r.OK("C2", p.shortKey(f), p.pos(f.Pos()), "each recursive result computed once per path", fmt.Sprintf("%d recursive call sites", len(sites)), true)
		}
	}
	// C3
	parseOp := p.Func(p.ExpPkg, "(*tokenStream).parseOperator")
	if parseOp == nil {
		r.Unknown("C3", "anchor", "-", "unresolved anchor: (*tokenStream).parseOperator")
	} else {
		pi := &parserInfo{p: p, consumes: map[*ssa.Call]bool{}, parseOp: parseOp}
		// edges not guarded by consumption
		free := map[*ssa.Function][]*ssa.Function{}
		var pfs []*ssa.Function
		for _, f := range recs {
			if f.Signature.Recv() == nil || !strings.HasSuffix(f.Signature.Recv().Type().String(), "tokenStream") {
				continue
			}
			pfs = append(pfs, f)
			for _, b := range f.Blocks {
				for _, in := range b.Instrs {
					c, ok := in.(*ssa.Call)
					if !ok || c.Call.StaticCallee() == nil || !eng.rec[c.Call.StaticCallee()] {
						continue
					}
					consumed := false
					for _, b2 := range f.Blocks {
						for _, x := range b2.Instrs {
							c2, ok := x.(*ssa.Call)
							if !ok {
								continue
							}
							if _, isOp := pi.opConst(c2); !isOp {
								// an operator matcher called with a non-constant operator (a combinator handed its
								// operator) consumes a token on success all the same
								if cal := c2.Call.StaticCallee(); cal == nil || !opMatcherSet(p)[cal] {
									continue
								}
							}
							for _, eb := range nonNilEdgeBlocks(c2) {
								if eb == c.Block() || eb.Dominates(c.Block()) {
									consumed = true
								}
							}
						}
					}
					if !consumed {
						free[f] = append(free[f], c.Call.StaticCallee())
					}
				}
			}
		}
		// cycle detection in the consumption-free subgraph
		for _, f := range pfs {
			seen := map[*ssa.Function]bool{}
			var path []string
			var dfs func(g *ssa.Function) bool
			dfs = func(g *ssa.Function) bool {
				path = append(path, g.Name())
				for _, h := range free[g] {
					if h == f {
						path = append(path, h.Name())
						return true
					}
					if !seen[h] {
						seen[h] = true
						if dfs(h) {
							return true
						}
					}
				}
				path = path[:len(path)-1]
				return false
			}
			if dfs(f) {
				r.Bad("C3", p.shortKey(f), p.pos(f.Pos()), fmt.Sprintf("left recursion: %s can re-enter itself without consuming a token (%s): unbounded recursion on some inputs", f.Name(), strings.Join(path, " → ")))
			} else {
				r.OK("C3", p.shortKey(f), p.pos(f.Pos()), "every cycle through this function consumes a token", "", true)
			}
		}
		if len(pfs) == 0 {
			r.Unknown("C3", "parser cycle", "-", "kind=undecided: no recursive parser functions found")
		}
	}
	rulesC14b(p, r)
	// C4
	constColl := func(v ssa.Value) bool {
		s := qz.prov(v, 0)
		return strings.Contains(s, "spdxlicenses.") || strings.HasPrefix(s, "local") || strings.Contains(s, "elem(elem(spdxexp/spdxlicenses")
	}
	degree := map[*ssa.Function]int{}
	var deg func(f *ssa.Function, stack map[*ssa.Function]bool) int
	deg = func(f *ssa.Function, stack map[*ssa.Function]bool) int {
		if d, ok := degree[f]; ok {
			return d
		}
		if stack[f] {
			return 0
		}
		stack[f] = true
		defer delete(stack, f)
		// depth of each block in loops over non-constant collections
		depthOf := map[*ssa.BasicBlock]int{}
		for _, h := range f.Blocks {
			if !isLoopHeader(h) {
				continue
			}
			inputSized := true
			if ifi, ok := h.Instrs[len(h.Instrs)-1].(*ssa.If); ok {
				if cmp, ok := ifi.Cond.(*ssa.BinOp); ok {
					if ln, ok := cmp.Y.(*ssa.Call); ok && len(ln.Call.Args) > 0 && isRangeIndexOf(cmp.X, ln.Call.Args[0]) == nil && constColl(ln.Call.Args[0]) {
						inputSized = false
					}
				}
			}
			if !inputSized {
				continue
			}
			for _, b := range loopBody(h) {
				depthOf[b]++
			}
		}
		best := 0
		for _, b := range f.Blocks {
			d := depthOf[b]
			if d > best {
				best = d
			}
			for _, in := range b.Instrs {
				if ci, ok := in.(ssa.CallInstruction); ok {
					if c := ci.Common().StaticCallee(); c != nil && p.InModule(c) {
						if x := d + deg(c, stack); x > best {
							best = x
						}
					}
					for _, a := range ci.Common().Args {
						if mc, ok := a.(*ssa.MakeClosure); ok {
							// comparator of a sort: n log n calls ~ one more level
							if x := d + 1 + deg(mc.Fn.(*ssa.Function), stack); x > best {
								best = x
							}
						}
					}
				}
			}
		}
		if eng.rec[f] {
			best++ // one level for the traversal of the tree
		}
		degree[f] = best
		return best
	}
	degs := map[string]int{}
	for _, f := range p.RList {
		if f.Parent() == nil {
			degs[p.shortKey(f)] = deg(f, map[*ssa.Function]bool{})
		}
	}
	// information only: the metric counts one level per recursive function on a call chain and is too
	// coarse to be a verdict
	r.Extra["loop_nest_degree_along_call_chains(info)"] = degs
}
