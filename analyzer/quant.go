package main

// A8(a)+A9+A10-lite: the value of a bool-returning function as a formula over atoms, with stateless
// range loops summarised as quantifiers. Purely structural: blocks, branches, phis, provenance.

import (
	"fmt"
	"go/constant"
	"go/token"
	"go/types"
	"regexp"
	"sort"
	"strings"

	"golang.org/x/tools/go/ssa"
)

type qf struct {
	Op   string // true false atom not and or ite exists forall err next unknown
	Args []*qf
	Atom string
	Coll string // collection ranged over
	Var  string // name of the element ("e1", "e2", …)
}

func qTrue() *qf  { return &qf{Op: "true"} }
func qFalse() *qf { return &qf{Op: "false"} }

func (q *qf) String() string {
	switch q.Op {
	case "true", "false", "err", "next", "unknown":
		if q.Op == "unknown" && q.Atom != "" {
			return "unknown(" + q.Atom + ")"
		}
		if q.Op == "next" {
			return "next" + q.Atom
		}
		return q.Op
	case "atom":
		return q.Atom
	case "not":
		return "¬" + q.Args[0].String()
	case "and", "or":
		var p []string
		for _, a := range q.Args {
			p = append(p, a.String())
		}
		sep := " ∧ "
		if q.Op == "or" {
			sep = " ∨ "
		}
		return "(" + strings.Join(p, sep) + ")"
	case "ite":
		return "ite(" + q.Args[0].String() + ", " + q.Args[1].String() + ", " + q.Args[2].String() + ")"
	case "exists":
		return "∃" + q.Var + "∈" + q.Coll + ". " + q.Args[0].String()
	case "forall":
		return "∀" + q.Var + "∈" + q.Coll + ". " + q.Args[0].String()
	}
	return "?"
}

func qNot(a *qf) *qf {
	switch a.Op {
	case "true":
		return qFalse()
	case "false":
		return qTrue()
	case "not":
		return a.Args[0]
	case "exists":
		return &qf{Op: "forall", Coll: a.Coll, Var: a.Var, Args: []*qf{qNot(a.Args[0])}}
	case "forall":
		return &qf{Op: "exists", Coll: a.Coll, Var: a.Var, Args: []*qf{qNot(a.Args[0])}}
	case "err", "next", "unknown":
		return a
	case "and":
		n := &qf{Op: "or"}
		for _, x := range a.Args {
			n.Args = append(n.Args, qNot(x))
		}
		return n
	case "or":
		n := &qf{Op: "and"}
		for _, x := range a.Args {
			n.Args = append(n.Args, qNot(x))
		}
		return n
	}
	return &qf{Op: "not", Args: []*qf{a}}
}

func qIte(c, a, b *qf) *qf {
	switch c.Op {
	case "true":
		return a
	case "false":
		return b
	}
	if a.String() == b.String() {
		return a
	}
	if a.Op == "next" || b.Op == "next" {
		return &qf{Op: "ite", Args: []*qf{c, a, b}}
	}
	if a.Op == "true" && b.Op == "false" {
		return c
	}
	if a.Op == "false" && b.Op == "true" {
		return qNot(c)
	}
	if a.Op == "true" {
		return &qf{Op: "or", Args: []*qf{c, b}}
	}
	if b.Op == "false" {
		return &qf{Op: "and", Args: []*qf{c, a}}
	}
	if a.Op == "false" {
		return &qf{Op: "and", Args: []*qf{qNot(c), b}}
	}
	if b.Op == "true" {
		return &qf{Op: "or", Args: []*qf{qNot(c), a}}
	}
	return &qf{Op: "ite", Args: []*qf{c, a, b}}
}

func (q *qf) has(op string) bool {
	if q.Op == op {
		return true
	}
	for _, a := range q.Args {
		if a.has(op) {
			return true
		}
	}
	return false
}

// stripErr removes branches that end in an error return (the formula is about valid input).
func stripErr(q *qf) *qf {
	switch q.Op {
	case "ite":
		a, b := stripErr(q.Args[1]), stripErr(q.Args[2])
		if a.Op == "err" {
			return b
		}
		if b.Op == "err" {
			return a
		}
		return qIte(q.Args[0], a, b)
	case "and", "or", "not", "exists", "forall":
		n := &qf{Op: q.Op, Coll: q.Coll, Var: q.Var, Atom: q.Atom}
		for _, a := range q.Args {
			n.Args = append(n.Args, stripErr(a))
		}
		return n
	}
	return q
}

type quantizer struct {
	inlineAll bool // inline every in-module bool callee (for matcher algebra), not only those with loops
	// stop: when non-nil, helper functions are seen through — a call to an in-module function that is
	// not named here is replaced by what it returns (value provenance) or inlined (bool formula). The
	// functions named here are the anchors the caller's expected shape talks about; they stay opaque.
	stop     map[string]bool
	opaque   map[*ssa.Function]bool // never inlined / seen through, even under inlineAll (their results are atoms)
	idxProv  bool                   // describe range induction variables as idx(collection) and slices.Index as indexof(c, x)
	seeInts  bool                   // see through in-module helpers for integer-typed results only (matcher algebra)
	retDepth int
	p        *Prog
	nloops   int
	elemVar  map[ssa.Value]string     // loaded range element -> bound variable
	fnBind   map[ssa.Value]*fnBinding // function-valued parameter / free variable -> the closure bound to it by inlining
	depth    int
	cloDepth int
	notes    []string
}

// fnBinding is a function value known by inlining: the function and, for a closure, the descriptions of
// its free variables taken where the closure was made.
type fnBinding struct {
	fn     *ssa.Function
	free   []string
	freeFn []*fnBinding
}

// closureOf: the function value v denotes, when that is known here.
func (qz *quantizer) closureOf(v ssa.Value, d int) *fnBinding {
	if d > 4 {
		return nil
	}
	if cb, ok := qz.fnBind[v]; ok {
		return cb
	}
	switch t := v.(type) {
	case *ssa.Function:
		if len(t.Blocks) > 0 {
			return &fnBinding{fn: t}
		}
	case *ssa.MakeClosure:
		fn, _ := t.Fn.(*ssa.Function)
		if fn == nil || len(fn.Blocks) == 0 {
			return nil
		}
		cb := &fnBinding{fn: fn}
		for _, b := range t.Bindings {
			cb.free = append(cb.free, qz.provCell(b))
			cb.freeFn = append(cb.freeFn, qz.closureOf(b, d+1))
		}
		return cb
	case *ssa.UnOp:
		if al, ok := t.X.(*ssa.Alloc); ok && t.Op == token.MUL {
			var stored ssa.Value
			n := 0
			for _, r := range *al.Referrers() {
				if st, ok := r.(*ssa.Store); ok && st.Addr == ssa.Value(al) {
					stored = st.Val
					n++
				}
			}
			if n == 1 {
				return qz.closureOf(stored, d+1)
			}
		}
	case *ssa.ChangeType:
		return qz.closureOf(t.X, d+1)
	}
	return nil
}

// bindFuncArgs records, for the function-typed parameters of fn, the closures passed at a call that is
// being inlined; the returned func undoes it.
func (qz *quantizer) bindFuncArgs(fn *ssa.Function, args []ssa.Value) func() {
	type sv struct {
		prm ssa.Value
		old *fnBinding
		had bool
	}
	var saved []sv
	var binds []*fnBinding
	for i := range fn.Params {
		var cb *fnBinding
		if i < len(args) {
			if _, isSig := fn.Params[i].Type().Underlying().(*types.Signature); isSig {
				cb = qz.closureOf(args[i], 0)
			}
		}
		binds = append(binds, cb)
	}
	for i, prm := range fn.Params {
		if binds[i] == nil {
			continue
		}
		if qz.fnBind == nil {
			qz.fnBind = map[ssa.Value]*fnBinding{}
		}
		old, had := qz.fnBind[prm]
		saved = append(saved, sv{prm, old, had})
		qz.fnBind[prm] = binds[i]
	}
	return func() {
		for _, x := range saved {
			delete(qz.fnBind, x.prm)
			if x.had {
				qz.fnBind[x.prm] = x.old
			}
		}
	}
}

// callClosure: the formula of result #0 of a call of a known closure with the given arguments.
func (qz *quantizer) callClosure(cb *fnBinding, args []ssa.Value) *qf {
	fn := cb.fn
	descs := make([]string, len(fn.Params))
	for i := range fn.Params {
		if i < len(args) {
			descs[i] = qz.prov(args[i], 0)
		}
	}
	undo := qz.bindFuncArgs(fn, args)
	savedE := map[ssa.Value]string{}
	hadE := map[ssa.Value]bool{}
	savedF := map[ssa.Value]*fnBinding{}
	hadF := map[ssa.Value]bool{}
	set := func(v ssa.Value, d string) {
		if old, ok := qz.elemVar[v]; ok {
			savedE[v], hadE[v] = old, true
		}
		qz.elemVar[v] = d
	}
	for i, prm := range fn.Params {
		if i < len(args) {
			set(prm, descs[i])
		}
	}
	for i, fv := range fn.FreeVars {
		if i < len(cb.free) {
			set(fv, cb.free[i])
			if cb.freeFn[i] != nil {
				if qz.fnBind == nil {
					qz.fnBind = map[ssa.Value]*fnBinding{}
				}
				if old, ok := qz.fnBind[fv]; ok {
					savedF[fv], hadF[fv] = old, true
				}
				qz.fnBind[fv] = cb.freeFn[i]
			}
		}
	}
	cx := &quantCtx{fn: fn, result: 0, phis: map[*ssa.Phi]*qf{}, headers: map[*ssa.BasicBlock]bool{}}
	// the closure body stands where the helper's own loop body would stand: it does not count against
	// the inlining depth (closure nesting is bounded separately)
	qz.cloDepth++
	f := qz.block(cx, fn.Blocks[0], nil)
	qz.cloDepth--
	for i, prm := range fn.Params {
		if i < len(args) {
			delete(qz.elemVar, prm)
			if hadE[prm] {
				qz.elemVar[prm] = savedE[prm]
			}
		}
	}
	for i, fv := range fn.FreeVars {
		if i < len(cb.free) {
			delete(qz.elemVar, fv)
			if hadE[fv] {
				qz.elemVar[fv] = savedE[fv]
			}
			delete(qz.fnBind, fv)
			if hadF[fv] {
				qz.fnBind[fv] = savedF[fv]
			}
		}
	}
	undo()
	return f
}

var valueRecvRe = regexp.MustCompile(`^\(([A-Za-z_][A-Za-z0-9_]*\.[A-Za-z_][A-Za-z0-9_]*)\)\.`)

// prov: canonical, position-free description of where a value comes from.
func (qz *quantizer) prov(v ssa.Value, d int) string {
	if d > 8 {
		return "…"
	}
	if n, ok := qz.elemVar[v]; ok {
		return n
	}
	switch t := v.(type) {
	case *ssa.Parameter:
		return "param:" + t.Name()
	case *ssa.Const:
		if t.Value == nil {
			return "nil"
		}
		return t.Value.ExactString()
	case *ssa.Call:
		if rp, ok := qz.retProv(t, 0); ok {
			return rp
		}
		if qz.idxProv {
			if c := t.Call.StaticCallee(); c != nil && len(t.Call.Args) == 2 {
				if o := c.Origin(); o != nil && o.Pkg != nil && o.Pkg.Pkg.Path() == "slices" && o.Name() == "Index" {
					return "indexof(" + qz.prov(t.Call.Args[0], d+1) + ", " + qz.prov(t.Call.Args[1], d+1) + ")"
				}
			}
		}
		var as []string
		for _, a := range t.Call.Args {
			as = append(as, qz.prov(a, d+1))
		}
		name := "?"
		if c := t.Call.StaticCallee(); c != nil {
			name = valueRecvRe.ReplaceAllString(qz.p.shortKey(c), "(*$1).") // (T).m and (*T).m name one method
		} else if b, ok := t.Call.Value.(*ssa.Builtin); ok {
			name = b.Name()
		}
		return name + "(" + strings.Join(as, ", ") + ")"
	case *ssa.Extract:
		if c, ok := t.Tuple.(*ssa.Call); ok {
			if rp, ok := qz.retProv(c, t.Index); ok {
				return rp
			}
		}
		return fmt.Sprintf("%s#%d", qz.prov(t.Tuple, d+1), t.Index)
	case *ssa.UnOp:
		if t.Op == token.MUL {
			if ia, ok := t.X.(*ssa.IndexAddr); ok {
				if n, ok := qz.elemVar[t]; ok {
					return n
				}
				if qz.idxProv && isRangeIndexOf(ia.Index, ia.X) != nil {
					// position-exact mode: only the element at a range induction variable is "the current
					// element"; any other index names a particular entry
					return "at(" + qz.prov(ia.X, d+1) + ", " + qz.prov(ia.Index, d+1) + ")"
				}
				return "elem(" + qz.prov(ia.X, d+1) + ")"
			}
			if fa, ok := t.X.(*ssa.FieldAddr); ok {
				st := fa.X.Type().Underlying().(*types.Pointer).Elem().Underlying().(*types.Struct)
				// a field of a struct literal is the value stored into it
				if al, ok := fa.X.(*ssa.Alloc); ok {
					for _, r := range *al.Referrers() {
						fa2, ok := r.(*ssa.FieldAddr)
						if !ok || fa2.Field != fa.Field {
							continue
						}
						for _, rr := range *fa2.Referrers() {
							if s, ok := rr.(*ssa.Store); ok && s.Addr == ssa.Value(fa2) {
								return qz.prov(s.Val, d+1)
							}
						}
					}
				}
				// a parameter bound to a struct literal by inlining: "&{f:X, …}.f" → X
				base := qz.prov(fa.X, d+1)
				name := st.Field(fa.Field).Name()
				if strings.HasPrefix(base, "&{") && strings.HasSuffix(base, "}") {
					if v, ok := literalField(base, name); ok {
						return v
					}
				}
				return base + "." + name
			}
			inner := qz.prov(t.X, d+1)
			if strings.HasPrefix(inner, "&cell:") {
				return strings.TrimPrefix(inner, "&cell:")
			}
			if al, isAl := t.X.(*ssa.Alloc); isAl {
				// a struct held by value (a spilled by-value parameter, a literal) denotes the same term as a
				// pointer to it: fields are selected from it either way
				if _, stt := namedStruct(al.Type().Underlying().(*types.Pointer).Elem()); stt != nil && (strings.HasPrefix(inner, "param:") || strings.HasPrefix(inner, "&{")) {
					return inner
				}
			}
			return "*" + inner
		}
		return t.Op.String() + qz.prov(t.X, d+1)
	case *ssa.Lookup:
		return qz.prov(t.X, d+1) + "[" + qz.prov(t.Index, d+1) + "]"
	case *ssa.Index:
		return qz.prov(t.X, d+1) + "[" + qz.prov(t.Index, d+1) + "]"
	case *ssa.Alloc:
		// a copy of a whole struct: *local = *src
		for _, r := range *t.Referrers() {
			if st, ok := r.(*ssa.Store); ok && st.Addr == ssa.Value(t) {
				if ld, ok := st.Val.(*ssa.UnOp); ok && ld.Op == token.MUL {
					return qz.prov(ld.X, d+1) // the copy denotes the same term
				}
				if prm, ok := st.Val.(*ssa.Parameter); ok {
					// a by-value struct parameter (value receiver) spilled to a local: the parameter itself
					if _, stt := namedStruct(prm.Type()); stt != nil {
						return qz.prov(prm, d+1)
					}
				}
				switch st.Val.(type) {
				case *ssa.Extract, *ssa.Call:
					// a struct result kept in a local: the literal the helper returns, when it resolves
					if _, stt := namedStruct(st.Val.Type()); stt != nil {
						if pv := qz.prov(st.Val, d+1); strings.HasPrefix(pv, "&{") {
							return pv
						}
					}
				}
			}
		}
		// a struct literal: its field stores
		if _, st := namedStruct(t.Type().Underlying().(*types.Pointer).Elem()); st != nil {
			var fs []string
			for _, r := range *t.Referrers() {
				fa, ok := r.(*ssa.FieldAddr)
				if !ok {
					continue
				}
				for _, rr := range *fa.Referrers() {
					if s, ok := rr.(*ssa.Store); ok && s.Addr == fa {
						fs = append(fs, st.Field(fa.Field).Name()+":"+qz.prov(s.Val, d+1))
					}
				}
			}
			sort.Strings(fs)
			return "&{" + strings.Join(fs, ", ") + "}"
		}
		return "local"
	case *ssa.BinOp:
		if qz.idxProv {
			if coll := rangeCollOf(t); coll != nil {
				return "idx(" + qz.prov(coll, d+1) + ")"
			}
		}
		return "(" + qz.prov(t.X, d+1) + " " + t.Op.String() + " " + qz.prov(t.Y, d+1) + ")"
	case *ssa.Phi:
		return "phi:" + t.Comment
	case *ssa.Slice:
		lo, hi := "", ""
		if t.Low != nil {
			lo = qz.prov(t.Low, d+1)
		}
		if t.High != nil {
			hi = qz.prov(t.High, d+1)
		}
		return qz.prov(t.X, d+1) + "[" + lo + ":" + hi + "]"
	case *ssa.MakeInterface:
		return qz.prov(t.X, d+1)
	case *ssa.ChangeType:
		return qz.prov(t.X, d+1)
	}
	return fmt.Sprintf("%T", v)
}

func (qz *quantizer) maxDepth() int {
	if qz.inlineAll {
		return 7
	}
	if qz.stop != nil {
		return 5 // helpers between the anchors are seen through; the anchors themselves stay opaque
	}
	return 3
}

// seeThrough: the callee is an in-module helper that the current expected shape does not name.
func (qz *quantizer) seeThrough(callee *ssa.Function) bool {
	if qz.stop == nil || callee == nil || !qz.p.InModule(callee) || len(callee.Blocks) == 0 {
		return false
	}
	name := callee.Name()
	return !qz.stop[name]
}

// retProv: result #k of a call to a helper, described by what the helper returns: the provenance of the
// returned value with the helper's parameters bound to the call's arguments, provided all returns that
// do not return a constant (nil, zero — the companions of an error or a false ok) agree on it.
func (qz *quantizer) retProv(c *ssa.Call, k int) (string, bool) {
	callee := c.Call.StaticCallee()
	if callee == nil || qz.retDepth > 3 || qz.opaque[callee] {
		return "", false
	}
	res := callee.Signature.Results()
	if k >= res.Len() || isBoolType(res.At(k).Type()) {
		return "", false
	}
	if !qz.seeThrough(callee) {
		structLit := false
		if qz.inlineAll && qz.p.InModule(callee) && len(callee.Blocks) == 1 {
			// a one-block constructor of a struct literal (pair.reversed()): the literal itself
			if ret, ok := callee.Blocks[0].Instrs[len(callee.Blocks[0].Instrs)-1].(*ssa.Return); ok && k < len(ret.Results) {
				rv := ret.Results[k]
				if ld, ok := rv.(*ssa.UnOp); ok && ld.Op == token.MUL {
					rv = ld.X // the literal returned by value
				}
				if al, ok := rv.(*ssa.Alloc); ok {
					if _, st := namedStruct(al.Type().Underlying().(*types.Pointer).Elem()); st != nil {
						structLit = true
					}
				}
			}
		}
		_, structRes := namedStruct(res.At(k).Type())
		if !structLit && !(qz.seeInts && qz.p.InModule(callee) && len(callee.Blocks) > 0 && (isIntType(res.At(k).Type()) || structRes != nil)) {
			return "", false
		}
	}
	saved := map[ssa.Value]string{}
	had := map[ssa.Value]bool{}
	for i, prm := range callee.Params {
		if i < len(c.Call.Args) {
			if old, ok := qz.elemVar[prm]; ok {
				saved[prm], had[prm] = old, true
			}
		}
	}
	// bind after computing all argument descriptions (arguments are caller values)
	descs := make([]string, len(callee.Params))
	for i := range callee.Params {
		if i < len(c.Call.Args) {
			descs[i] = qz.prov(c.Call.Args[i], 1)
		}
	}
	for i, prm := range callee.Params {
		if i < len(c.Call.Args) {
			qz.elemVar[prm] = descs[i]
		}
	}
	qz.retDepth++
	set := map[string]bool{}
	for _, b := range callee.Blocks {
		ret, ok := b.Instrs[len(b.Instrs)-1].(*ssa.Return)
		if !ok || k >= len(ret.Results) {
			continue
		}
		if _, isConst := ret.Results[k].(*ssa.Const); isConst {
			continue
		}
		if last := res.Len() - 1; last > k && isBoolType(res.At(last).Type()) {
			if fc, isC := ret.Results[last].(*ssa.Const); isC && fc.Value != nil && fc.Value.String() == "false" {
				continue // the companion of a false "found"
			}
		}
		set[qz.prov(ret.Results[k], 1)] = true
	}
	qz.retDepth--
	for _, prm := range callee.Params {
		delete(qz.elemVar, prm)
		if had[prm] {
			qz.elemVar[prm] = saved[prm]
		}
	}
	if len(set) != 1 {
		return "", false
	}
	for s := range set {
		if strings.HasPrefix(s, "phi:") || s == "local" {
			return "", false
		}
		return s, true
	}
	return "", false
}

// boolOf: formula of a bool-typed SSA value in the current phi environment.
func (qz *quantizer) boolOf(v ssa.Value, phis map[*ssa.Phi]*qf) *qf {
	switch t := v.(type) {
	case *ssa.Const:
		if t.Value != nil && t.Value.String() == "true" {
			return qTrue()
		}
		return qFalse()
	case *ssa.Phi:
		if f, ok := phis[t]; ok {
			return f
		}
		return &qf{Op: "unknown", Atom: "phi " + t.Comment}
	case *ssa.UnOp:
		if t.Op == token.NOT {
			return qNot(qz.boolOf(t.X, phis))
		}
	case *ssa.Extract:
		// a bool component of a helper's result tuple
		if c, ok := t.Tuple.(*ssa.Call); ok {
			if callee := c.Call.StaticCallee(); callee != nil && qz.p.InModule(callee) && qz.depth < qz.maxDepth() && !qz.opaque[callee] {
				if hasLoop(callee) || qz.inlineAll || qz.seeThrough(callee) {
					qz.depth++
					sub := qz.funcFormulaWith(callee, t.Index, c.Call.Args)
					qz.depth--
					if sub != nil {
						return sub
					}
				}
			}
		}
	case *ssa.BinOp:
		// cmp.Compare(a, b) OP 0  is  a OP b
		for _, pr := range [][2]ssa.Value{{t.X, t.Y}, {t.Y, t.X}} {
			k, isK := pr[1].(*ssa.Const)
			c, isC := pr[0].(*ssa.Call)
			if !isK || !isC || k.Value == nil || k.Value.Kind() != constant.Int || k.Int64() != 0 || len(c.Call.Args) != 2 {
				continue
			}
			callee := c.Call.StaticCallee()
			if callee == nil {
				continue
			}
			o := callee.Origin()
			if o == nil {
				o = callee
			}
			if o.Pkg == nil || o.Pkg.Pkg.Path() != "cmp" || o.Name() != "Compare" {
				continue
			}
			op := t.Op
			if pr[0] == t.Y {
				// 0 OP cmp(a,b): mirror
				switch op {
				case token.LSS:
					op = token.GTR
				case token.GTR:
					op = token.LSS
				case token.LEQ:
					op = token.GEQ
				case token.GEQ:
					op = token.LEQ
				}
			}
			return &qf{Op: "atom", Atom: "(" + qz.prov(c.Call.Args[0], 0) + " " + op.String() + " " + qz.prov(c.Call.Args[1], 0) + ")"}
		}
		// helper(...) == K for a helper that returns one of a few constants (a three-way comparison, an
		// enum): the disjunction of the conditions under which it returns K
		if (t.Op == token.EQL || t.Op == token.NEQ) && (qz.inlineAll || qz.stop != nil) && qz.depth < qz.maxDepth() {
			for _, pr := range [][2]ssa.Value{{t.X, t.Y}, {t.Y, t.X}} {
				k, isK := pr[1].(*ssa.Const)
				if !isK || k.Value == nil || isBoolType(k.Type()) || k.IsNil() {
					continue
				}
				var call *ssa.Call
				idx := 0
				switch cv := pr[0].(type) {
				case *ssa.Call:
					call = cv
				case *ssa.Extract:
					call, _ = cv.Tuple.(*ssa.Call)
					idx = cv.Index
				}
				if call == nil || call.Call.StaticCallee() == nil || !qz.p.InModule(call.Call.StaticCallee()) {
					continue
				}
				callee := call.Call.StaticCallee()
				if !returnsOnlyConsts(callee, idx) {
					continue
				}
				qz.depth++
				sub := qz.funcFormulaEq(callee, idx, call.Call.Args, k)
				qz.depth--
				if sub != nil && !sub.has("unknown") {
					if t.Op == token.NEQ {
						return qNot(sub)
					}
					return sub
				}
			}
		}
		if isBoolType(t.X.Type()) && (t.Op == token.EQL || t.Op == token.NEQ) {
			x, y := qz.boolOf(t.X, phis), qz.boolOf(t.Y, phis)
			if t.Op == token.EQL {
				return qIte(x, y, qNot(y))
			}
			return qIte(x, qNot(y), y)
		}
	case *ssa.Call:
		if t.Call.StaticCallee() == nil && !t.Call.IsInvoke() && isBoolType(t.Type()) && qz.cloDepth < 6 {
			// a call of a function value that inlining has bound to a known closure (a predicate handed
			// to a generic helper)
			if cb := qz.closureOf(t.Call.Value, 0); cb != nil {
				if sub := qz.callClosure(cb, t.Call.Args); sub != nil {
					return sub
				}
			}
		}
		if callee := t.Call.StaticCallee(); callee != nil && !qz.p.InModule(callee) {
			base := callee.Name()
			if o := callee.Origin(); o != nil {
				base = o.Name()
			}
			pkg := ""
			if o := callee.Origin(); o != nil && o.Pkg != nil {
				pkg = o.Pkg.Pkg.Path()
			} else if callee.Pkg != nil {
				pkg = callee.Pkg.Pkg.Path()
			}
			if pkg == "slices" && base == "ContainsFunc" && len(t.Call.Args) == 2 {
				// ∃ e ∈ s. f(e)
				if mc, ok := t.Call.Args[1].(*ssa.MakeClosure); ok {
					fn := mc.Fn.(*ssa.Function)
					qz.nloops++
					name := fmt.Sprintf("e%d", qz.nloops)
					coll := qz.prov(t.Call.Args[0], 0)
					// bind the closure's parameter and free variables
					qz.elemVar[fn.Params[0]] = name
					for i, fv := range fn.FreeVars {
						if i < len(mc.Bindings) {
							qz.elemVar[fv] = qz.provCell(mc.Bindings[i])
						}
					}
					qz.depth++
					cx := &quantCtx{fn: fn, result: 0, phis: map[*ssa.Phi]*qf{}, headers: map[*ssa.BasicBlock]bool{}}
					body := qz.block(cx, fn.Blocks[0], nil)
					qz.depth--
					delete(qz.elemVar, fn.Params[0])
					for _, fv := range fn.FreeVars {
						delete(qz.elemVar, fv)
					}
					return &qf{Op: "exists", Coll: coll, Var: name, Args: []*qf{body}}
				}
			}
		}
		if callee := t.Call.StaticCallee(); callee != nil && qz.p.InModule(callee) && qz.depth < qz.maxDepth() && !qz.opaque[callee] {
			// inline the callee's own formula when it contains loops (quantifiers); otherwise an atom
			if hasLoop(callee) || ((qz.inlineAll || qz.seeThrough(callee)) && isBoolType(t.Type())) {
				qz.depth++
				sub := qz.funcFormulaWith(callee, 0, t.Call.Args)
				qz.depth--
				if sub != nil {
					return sub
				}
			}
		}
	}
	return &qf{Op: "atom", Atom: qz.prov(v, 0)}
}

func hasLoop(f *ssa.Function) bool {
	for _, b := range f.Blocks {
		if isLoopHeader(b) {
			return true
		}
	}
	return false
}

type quantCtx struct {
	fn      *ssa.Function
	result  int
	phis    map[*ssa.Phi]*qf
	headers map[*ssa.BasicBlock]bool // loop headers currently being summarised: reaching them = next
	subst   map[*ssa.Parameter]string
	steps   int
	eqConst *ssa.Const // when set: the formula is "result == eqConst" (for helpers returning one of a few constants)
}

// funcFormulaWith computes the formula of result #k of fn, with parameters described by args (caller
// values) when given.
func (qz *quantizer) funcFormulaWith(fn *ssa.Function, k int, args []ssa.Value) *qf {
	if len(fn.Blocks) == 0 {
		return nil
	}
	saved := map[ssa.Value]string{}
	if args != nil {
		for i, prm := range fn.Params {
			if i < len(args) {
				if old, ok := qz.elemVar[prm]; ok {
					saved[prm] = old
				}
				qz.elemVar[prm] = qz.prov(args[i], 0)
			}
		}
	}
	undoFn := qz.bindFuncArgs(fn, args)
	cx := &quantCtx{fn: fn, result: k, phis: map[*ssa.Phi]*qf{}, headers: map[*ssa.BasicBlock]bool{}}
	f := qz.block(cx, fn.Blocks[0], nil)
	undoFn()
	if args != nil {
		for _, prm := range fn.Params {
			delete(qz.elemVar, prm)
			if old, ok := saved[prm]; ok {
				qz.elemVar[prm] = old
			}
		}
	}
	return f
}

// funcFormulaEq: the formula of "result #k of fn equals the constant c".
func (qz *quantizer) funcFormulaEq(fn *ssa.Function, k int, args []ssa.Value, c *ssa.Const) *qf {
	if len(fn.Blocks) == 0 {
		return nil
	}
	saved := map[ssa.Value]string{}
	descs := make([]string, len(fn.Params))
	for i := range fn.Params {
		if i < len(args) {
			descs[i] = qz.prov(args[i], 0)
		}
	}
	for i, prm := range fn.Params {
		if i < len(args) {
			if old, ok := qz.elemVar[prm]; ok {
				saved[prm] = old
			}
			qz.elemVar[prm] = descs[i]
		}
	}
	undoFn := qz.bindFuncArgs(fn, args)
	cx := &quantCtx{fn: fn, result: k, phis: map[*ssa.Phi]*qf{}, headers: map[*ssa.BasicBlock]bool{}, eqConst: c}
	f := qz.block(cx, fn.Blocks[0], nil)
	undoFn()
	for _, prm := range fn.Params {
		delete(qz.elemVar, prm)
		if old, ok := saved[prm]; ok {
			qz.elemVar[prm] = old
		}
	}
	return f
}

// returnsOnlyConsts: every return of fn gives a constant for result #k.
func returnsOnlyConsts(fn *ssa.Function, k int) bool {
	n := 0
	for _, b := range fn.Blocks {
		ret, ok := b.Instrs[len(b.Instrs)-1].(*ssa.Return)
		if !ok {
			continue
		}
		if k >= len(ret.Results) {
			return false
		}
		if _, ok := ret.Results[k].(*ssa.Const); !ok {
			// a phi of constants also counts
			phi, isPhi := ret.Results[k].(*ssa.Phi)
			if !isPhi {
				return false
			}
			for _, e := range phi.Edges {
				if _, ok := e.(*ssa.Const); !ok {
					return false
				}
			}
		}
		n++
	}
	return n > 0
}

func (qz *quantizer) enterEdge(cx *quantCtx, from, to *ssa.BasicBlock) map[*ssa.Phi]*qf {
	// evaluate bool phis of `to` for the edge; returns the previous bindings to restore
	old := map[*ssa.Phi]*qf{}
	idx := -1
	for i, p := range to.Preds {
		if p == from {
			idx = i
			break
		}
	}
	if idx < 0 {
		return old
	}
	var vals []*qf
	var ps []*ssa.Phi
	for _, in := range to.Instrs {
		phi, ok := in.(*ssa.Phi)
		if !ok {
			break
		}
		if !isBoolType(phi.Type()) {
			continue
		}
		ps = append(ps, phi)
		vals = append(vals, qz.boolOf(phi.Edges[idx], cx.phis))
	}
	for i, phi := range ps {
		if o, ok := cx.phis[phi]; ok {
			old[phi] = o
		} else {
			old[phi] = nil
		}
		cx.phis[phi] = vals[i]
	}
	return old
}

func (qz *quantizer) restore(cx *quantCtx, old map[*ssa.Phi]*qf) {
	for phi, o := range old {
		if o == nil {
			delete(cx.phis, phi)
		} else {
			cx.phis[phi] = o
		}
	}
}

func (qz *quantizer) succ(cx *quantCtx, from, to *ssa.BasicBlock) *qf {
	if cx.headers[to] {
		return &qf{Op: "next", Atom: fmt.Sprint(to.Index)}
	}
	old := qz.enterEdge(cx, from, to)
	f := qz.block(cx, to, from)
	qz.restore(cx, old)
	return f
}

// block: value of the function's result when execution continues at b.
func (qz *quantizer) block(cx *quantCtx, b *ssa.BasicBlock, from *ssa.BasicBlock) *qf {
	cx.steps++
	if cx.steps > 4000 {
		return &qf{Op: "unknown", Atom: "too many paths"}
	}
	if isLoopHeader(b) {
		return qz.loop(cx, b)
	}
	last := b.Instrs[len(b.Instrs)-1]
	switch t := last.(type) {
	case *ssa.Return:
		// an accompanying non-nil error marks an error return
		for i, r := range t.Results {
			if i != cx.result && isErrorType(r.Type()) {
				if c, ok := r.(*ssa.Const); !ok || !c.IsNil() {
					return &qf{Op: "err"}
				}
			}
		}
		if cx.result >= len(t.Results) {
			return &qf{Op: "unknown", Atom: "no such result"}
		}
		if cx.eqConst != nil {
			rv := t.Results[cx.result]
			if c, ok := rv.(*ssa.Const); ok && c.Value != nil && cx.eqConst.Value != nil {
				if constant.Compare(c.Value, token.EQL, cx.eqConst.Value) {
					return qTrue()
				}
				return qFalse()
			}
			return &qf{Op: "atom", Atom: "(" + qz.prov(rv, 0) + " == " + cx.eqConst.Value.ExactString() + ")"}
		}
		return qz.boolOf(t.Results[cx.result], cx.phis)
	case *ssa.If:
		c := qz.boolOf(t.Cond, cx.phis)
		a := qz.succ(cx, b, b.Succs[0])
		e := qz.succ(cx, b, b.Succs[1])
		return qIte(c, a, e)
	case *ssa.Jump:
		return qz.succ(cx, b, b.Succs[0])
	case *ssa.Panic:
		return &qf{Op: "err"}
	}
	return &qf{Op: "unknown", Atom: fmt.Sprintf("%T", last)}
}

// loop summarises a stateless range loop with header h.
func (qz *quantizer) loop(cx *quantCtx, h *ssa.BasicBlock) *qf {
	// stateless: the only phi of the header is the range index
	var idxPhi *ssa.Phi
	for _, in := range h.Instrs {
		phi, ok := in.(*ssa.Phi)
		if !ok {
			break
		}
		if phi.Comment == "rangeindex" && idxPhi == nil {
			idxPhi = phi
			continue
		}
		return &qf{Op: "unknown", Atom: fmt.Sprintf("loop at %s carries state in %s", qz.p.pos(phi.Pos()), phi.Comment)}
	}
	ifi, ok := h.Instrs[len(h.Instrs)-1].(*ssa.If)
	if !ok || idxPhi == nil {
		return &qf{Op: "unknown", Atom: "loop is not a range loop"}
	}
	// collection: the len() bound
	cmp, ok := ifi.Cond.(*ssa.BinOp)
	if !ok {
		return &qf{Op: "unknown", Atom: "loop condition"}
	}
	ln, ok := cmp.Y.(*ssa.Call)
	if !ok {
		return &qf{Op: "unknown", Atom: "loop bound"}
	}
	coll := ln.Call.Args[0]
	if isRangeIndexOf(cmp.X, coll) != nil {
		return &qf{Op: "unknown", Atom: "loop is not a full forward range"}
	}
	qz.nloops++
	name := fmt.Sprintf("e%d", qz.nloops)
	collDesc := qz.prov(coll, 0)
	// bind loads of coll[idx] in the loop to the element variable
	var bound []ssa.Value
	for _, lb := range loopBody(h) {
		for _, in := range lb.Instrs {
			if ld, ok := in.(*ssa.UnOp); ok && ld.Op == token.MUL {
				if ia, ok := ld.X.(*ssa.IndexAddr); ok && ia.X == coll && ia.Index == cmp.X {
					qz.elemVar[ld] = name
					bound = append(bound, ld)
				}
			}
		}
	}
	// side effects in the body would make the loop stateful
	for _, lb := range loopBody(h) {
		for _, in := range lb.Instrs {
			switch t := in.(type) {
			case *ssa.Store:
				if !baseIsLocalAlloc(t.Addr, 0) {
					return &qf{Op: "unknown", Atom: fmt.Sprintf("loop body writes memory at %s", qz.p.pos(t.Pos()))}
				}
			case *ssa.MapUpdate:
				return &qf{Op: "unknown", Atom: "loop body updates a map"}
			}
		}
	}
	cx.headers[h] = true
	body := qz.succ(cx, h, h.Succs[0])
	delete(cx.headers, h)
	exh := qz.succ(cx, h, h.Succs[1])
	for _, v := range bound {
		delete(qz.elemVar, v)
	}
	return qz.firstMatch(body, exh, collDesc, name, fmt.Sprint(h.Index))
}

// firstMatch: iterate elements; the body formula either continues (next of this loop) or yields a value.
func (qz *quantizer) firstMatch(body, exh *qf, coll, name, label string) *qf {
	if !hasNext(body, label) {
		return &qf{Op: "unknown", Atom: "loop body never continues"}
	}
	c, x, ok := splitNext(body, label)
	if !ok {
		return &qf{Op: "unknown", Atom: "loop body shape: " + body.String()}
	}
	if hasNext(x, label) {
		return &qf{Op: "unknown", Atom: "nested continue"}
	}
	if mentions(x, name) {
		return &qf{Op: "unknown", Atom: "early exit value depends on the element: " + x.String()}
	}
	// value: if some element satisfies c, X; else the exhaustion value
	ex := &qf{Op: "exists", Coll: coll, Var: name, Args: []*qf{c}}
	return qIte(ex, x, exh)
}

func hasNext(q *qf, label string) bool {
	if q.Op == "next" && q.Atom == label {
		return true
	}
	for _, a := range q.Args {
		if hasNext(a, label) {
			return true
		}
	}
	return false
}

func isNext(q *qf, label string) bool { return q.Op == "next" && q.Atom == label }

func mentions(q *qf, name string) bool {
	if q.Op == "atom" || q.Op == "exists" || q.Op == "forall" {
		for _, s := range []string{q.Atom, q.Coll} {
			for i := strings.Index(s, name); i >= 0; {
				end := i + len(name)
				if end >= len(s) || s[end] < '0' || s[end] > '9' {
					return true
				}
				j := strings.Index(s[end:], name)
				if j < 0 {
					break
				}
				i = end + j
			}
		}
	}
	for _, a := range q.Args {
		if mentions(a, name) {
			return true
		}
	}
	return false
}

// splitNext rewrites f as ite(c, X, next) for this loop's next and returns (c, X): c is the condition
// under which the iteration leaves the loop, X the value it leaves with (the same on every leaving path).
func splitNext(f *qf, label string) (*qf, *qf, bool) {
	if isNext(f, label) {
		return qFalse(), nil, true
	}
	if !hasNext(f, label) {
		return qTrue(), f, true
	}
	var c, a, b *qf
	switch f.Op {
	case "ite":
		c, a, b = f.Args[0], f.Args[1], f.Args[2]
	case "and":
		if len(f.Args) != 2 {
			return nil, nil, false
		}
		c, a, b = f.Args[0], f.Args[1], qFalse()
	case "or":
		if len(f.Args) != 2 {
			return nil, nil, false
		}
		c, a, b = f.Args[0], qTrue(), f.Args[1]
	default:
		return nil, nil, false
	}
	if hasNext(c, label) {
		return nil, nil, false
	}
	ca, xa, oka := splitNext(a, label)
	cb, xb, okb := splitNext(b, label)
	if !oka || !okb {
		return nil, nil, false
	}
	var x *qf
	switch {
	case xa == nil:
		x = xb
	case xb == nil:
		x = xa
	case xa.String() == xb.String():
		x = xa
	default:
		return nil, nil, false
	}
	if x == nil {
		x = qFalse()
	}
	return qOr(qAnd(c, ca), qAnd(qNot(c), cb)), x, true
}

func qAnd(a, b *qf) *qf {
	switch {
	case a.Op == "false" || b.Op == "false":
		return qFalse()
	case a.Op == "true":
		return b
	case b.Op == "true":
		return a
	}
	return &qf{Op: "and", Args: []*qf{a, b}}
}

func qOr(a, b *qf) *qf {
	switch {
	case a.Op == "true" || b.Op == "true":
		return qTrue()
	case a.Op == "false":
		return b
	case b.Op == "false":
		return a
	}
	// c ∨ (¬c ∧ d) = c ∨ d
	if b.Op == "and" && len(b.Args) == 2 && qNot(a).String() == b.Args[0].String() {
		return qOr(a, b.Args[1])
	}
	if a.Op == "and" && len(a.Args) == 2 && qNot(b).String() == a.Args[0].String() {
		return qOr(b, a.Args[1])
	}
	return &qf{Op: "or", Args: []*qf{a, b}}
}

// polarity of quantifiers over collections matching pred: +1 only positive, -1 only negative, 0 none, 2 mixed.
func polarityOf(q *qf, match func(coll string) bool, pos bool, acc *[]string) {
	switch q.Op {
	case "not":
		polarityOf(q.Args[0], match, !pos, acc)
	case "exists", "forall":
		if match(q.Coll) {
			kind := "∃"
			if q.Op == "forall" {
				kind = "∀"
			}
			sign := "+"
			if !pos {
				sign = "-"
			}
			*acc = append(*acc, sign+kind)
		}
		polarityOf(q.Args[0], match, pos, acc)
	case "ite":
		// condition occurs in both polarities
		polarityOf(q.Args[0], match, pos, acc)
		polarityOf(q.Args[0], match, !pos, acc)
		polarityOf(q.Args[1], match, pos, acc)
		polarityOf(q.Args[2], match, pos, acc)
	default:
		for _, a := range q.Args {
			polarityOf(a, match, pos, acc)
		}
	}
}

// provCell: provenance of a variable captured by a closure: the captured value, or — for a cell
// captured by reference — the single value stored into it.
func (qz *quantizer) provCell(v ssa.Value) string {
	if al, ok := v.(*ssa.Alloc); ok {
		var stored ssa.Value
		n := 0
		for _, r := range *al.Referrers() {
			if st, ok := r.(*ssa.Store); ok && st.Addr == ssa.Value(al) {
				stored = st.Val
				n++
			}
		}
		if n == 1 {
			return "&cell:" + qz.prov(stored, 0)
		}
	}
	return qz.prov(v, 0)
}

// literalField extracts the value of field name from a rendered struct literal "&{a:X, b:Y}".
func literalField(lit, name string) (string, bool) {
	inner := lit[2 : len(lit)-1]
	depth := 0
	start := 0
	var parts []string
	for i := 0; i < len(inner); i++ {
		switch inner[i] {
		case '(', '{', '[':
			depth++
		case ')', '}', ']':
			depth--
		case ',':
			if depth == 0 {
				parts = append(parts, strings.TrimSpace(inner[start:i]))
				start = i + 1
			}
		}
	}
	parts = append(parts, strings.TrimSpace(inner[start:]))
	for _, p := range parts {
		if strings.HasPrefix(p, name+":") {
			return strings.TrimPrefix(p, name+":"), true
		}
	}
	return "", false
}

// rangeCollOf: idx is the induction variable (phi+1) of a full forward range over a collection; returns
// that collection, else nil.
func rangeCollOf(idx *ssa.BinOp) ssa.Value {
	if idx.Op != token.ADD {
		return nil
	}
	phi, ok := idx.X.(*ssa.Phi)
	if !ok {
		return nil
	}
	blk := phi.Block()
	ifi, ok := blk.Instrs[len(blk.Instrs)-1].(*ssa.If)
	if !ok {
		return nil
	}
	cmp, ok := ifi.Cond.(*ssa.BinOp)
	if !ok || cmp.X != ssa.Value(idx) {
		return nil
	}
	ln, ok := cmp.Y.(*ssa.Call)
	if !ok || len(ln.Call.Args) != 1 {
		return nil
	}
	if isRangeIndexOf(idx, ln.Call.Args[0]) != nil {
		return nil
	}
	return ln.Call.Args[0]
}
