package main

import (
	"fmt"
	"go/token"
	"go/types"
	"regexp"
	"sort"
	"strconv"
	"strings"

	"golang.org/x/tools/go/ssa"
)

// ---------------------------------------------------------------------------------------------
// helpers: location keys

type locKeys struct {
	group, version, index string // ExactString of the uint8 constants
	ok                    bool
}

func locationKeys(p *Prog) locKeys {
	sc := p.ExpPkg.Types.Scope()
	get := func(n string) string {
		if c, ok := sc.Lookup(n).(*types.Const); ok {
			return c.Val().ExactString()
		}
		return ""
	}
	k := locKeys{get("licenseGroup"), get("versionGroup"), get("licenseIndex"), true}
	if k.group == "" || k.version == "" || k.index == "" {
		k.ok = false
	}
	return k
}

// locLookup: v = X.location[k] ; returns (X, k).
func locLookup(v ssa.Value) (ssa.Value, string, bool) {
	lk, ok := v.(*ssa.Lookup)
	if !ok {
		return nil, "", false
	}
	c, ok := lk.Index.(*ssa.Const)
	if !ok || c.Value == nil {
		return nil, "", false
	}
	ld, ok := lk.X.(*ssa.UnOp)
	if !ok || ld.Op != token.MUL {
		return nil, "", false
	}
	fa, ok := ld.X.(*ssa.FieldAddr)
	if !ok || fieldOf(fa).Field != "location" {
		return nil, "", false
	}
	return fa.X, c.Value.ExactString(), true
}

// ---------------------------------------------------------------------------------------------
// T5–T8 (C11 code clause), reused by C02

func rulesRangeCode(p *Prog, r *Report) {
	r.Rule("T5", "necessary", 1, "positions are what the loops say: the position recorded for an id is (family index, version-group index, index in group) of the three nested full ranges over the table, the probe is the simplified id, and the search returns at the first match")
	r.Rule("T6", "necessary", 3, "family gate: every comparison of version-group positions is dominated by 'both ids are located and in the same family'")
	r.Rule("T7", "necessary", 2, "direction: 'later' is a greater version-group position of the first argument; the non-plus id is tested against the plus id, not the other way round")
	r.Rule("T8", "sufficient", 1, "the table getter returns a fresh literal on every call (no reader can disturb another)")
	lk := locationKeys(p)
	glr := p.Func(p.ExpPkg, "getLicenseRange")
	simp := p.Func(p.ExpPkg, "simplifyLicense")
	same := p.Func(p.ExpPkg, "sameLicenseGroup")
	if !lk.ok || glr == nil {
		r.Unknown("T5", "anchor", "-", "unresolved anchor: getLicenseRange / location key constants")
		return
	}
	if same == nil {
		// the family gate as a method or under another name: the bool function over two ranges
		lrT := glr.Signature.Results().At(0).Type()
		for _, f := range p.RList {
			if f.Signature.Results().Len() != 1 || !isBoolType(f.Signature.Results().At(0).Type()) || len(f.Params) != 2 {
				continue
			}
			if types.Identical(f.Params[0].Type(), lrT) && types.Identical(f.Params[1].Type(), lrT) {
				same = f
			}
		}
	}
	r.Funcs[p.shortKey(glr)] = true
	// T5: where the three recorded positions come from, by provenance (helpers seen through): the family
	// index is the induction variable of a full range over the table, the version-group index that of a
	// full range over the family, the index in the group that of a full range over the group (under the
	// test "entry == simplified id") or the result of slices.Index(group, simplified id). Every loop of
	// the search, in getLicenseRange and in the helpers it delegates to, must be exhaustive.
	{
		var probs []string
		qzp := &quantizer{p: p, elemVar: map[ssa.Value]string{}, idxProv: true, stop: map[string]bool{"simplifyLicense": true, "LicenseRanges": true}}
		// the search may be split: getLicenseRange → a search helper that is handed the probe and the table →
		// a constructor that records the position. Helpers are walked with their parameters bound to the
		// descriptions of the arguments, so positions and probe are described in getLicenseRange's terms.
		var lr string
		{
			seenFn := map[*ssa.Function]bool{}
			var find func(fn *ssa.Function, d int)
			find = func(fn *ssa.Function, d int) {
				if seenFn[fn] || d > 3 {
					return
				}
				seenFn[fn] = true
				for _, b := range fn.Blocks {
					for _, in := range b.Instrs {
						if c, ok := in.(*ssa.Call); ok && c.Call.StaticCallee() != nil {
							if c.Call.StaticCallee().Name() == "LicenseRanges" {
								lr = qzp.prov(c, 0)
							} else if p.InModule(c.Call.StaticCallee()) && c.Call.StaticCallee() != simp {
								find(c.Call.StaticCallee(), d+1)
							}
						}
					}
				}
			}
			find(glr, 0)
		}
		probeDesc := "strings.TrimSuffix(param:" + glr.Params[0].Name() + ", \"-or-later\")" // the strip written in place
		if simp != nil {
			probeDesc = p.shortKey(simp) + "(param:" + glr.Params[0].Name() + ")"
		}
		if lr == "" {
			probs = append(probs, "the search does not run over LicenseRanges()")
		}
		names := map[string]string{lk.group: "licenseGroup", lk.version: "versionGroup", lk.index: "licenseIndex"}
		want := map[string][]string{
			lk.group:   {"idx(" + lr + ")"},
			lk.version: {"idx(elem(" + lr + "))"},
			lk.index:   {"idx(elem(elem(" + lr + ")))", "indexof(elem(elem(" + lr + ")), " + probeDesc + ")"},
		}
		seen := map[string]bool{}
		var matchBlock *ssa.BasicBlock
		matchFn := glr
		byLoopTest := false
		searchFns := []*ssa.Function{glr}
		helperDescs := map[*ssa.Function][]string{}
		{
			visited := map[*ssa.Function]bool{glr: true}
			var visit func(fn *ssa.Function, siteFn *ssa.Function, siteBlk *ssa.BasicBlock, d int)
			visit = func(fn *ssa.Function, siteFn *ssa.Function, siteBlk *ssa.BasicBlock, d int) {
				for _, b := range fn.Blocks {
					for _, in := range b.Instrs {
						switch t := in.(type) {
						case *ssa.MapUpdate:
							kc, ok := t.Key.(*ssa.Const)
							if !ok || kc.Value == nil {
								probs = append(probs, "non-constant location key")
								continue
							}
							k := kc.Value.ExactString()
							seen[k] = true
							if siteBlk != nil {
								matchBlock, matchFn = siteBlk, siteFn // recorded by a loop-free constructor called here
							} else {
								matchBlock, matchFn = b, fn
							}
							got := qzp.prov(t.Value, 0)
							okV := false
							for _, w := range want[k] {
								if got == w {
									okV = true
								}
							}
							if !okV {
								probs = append(probs, fmt.Sprintf("location[%s] is set to %s, not to the position of the matching entry at that level of the table (%s)", names[k], shortDesc(got), shortDesc(strings.Join(want[k], " or "))))
							}
							if k == lk.index && strings.HasPrefix(got, "idx(") {
								byLoopTest = true
							}
						case *ssa.Call:
							callee := t.Call.StaticCallee()
							if callee == nil || !p.InModule(callee) || callee == simp || visited[callee] || d >= 3 || len(callee.Blocks) == 0 {
								continue
							}
							visited[callee] = true
							descs := make([]string, len(callee.Params))
							for i := range callee.Params {
								if i < len(t.Call.Args) {
									descs[i] = qzp.prov(t.Call.Args[i], 0)
								}
							}
							for i, prm := range callee.Params {
								if i < len(t.Call.Args) {
									qzp.elemVar[prm] = descs[i]
								}
							}
							if hasLoop(callee) {
								searchFns = append(searchFns, callee)
								helperDescs[callee] = descs
								visit(callee, nil, nil, d+1)
							} else if siteBlk != nil {
								visit(callee, siteFn, siteBlk, d+1)
							} else {
								visit(callee, fn, b, d+1)
							}
							for _, prm := range callee.Params {
								delete(qzp.elemVar, prm)
							}
						}
					}
				}
			}
			visit(glr, nil, nil, 0)
		}
		for k, n := range names {
			if !seen[k] {
				probs = append(probs, "location["+n+"] is never set")
			}
		}
		if matchBlock != nil && byLoopTest {
			// loop form: the record is made under "entry == simplified id"
			okCond := false
			for _, l := range pathLiteralsWith(qzp, matchFn, matchBlock) {
				if l.Op == "atom" && (l.Atom == canonAtom("(elem(elem(elem("+lr+"))) == "+probeDesc+")")) {
					okCond = true
				}
			}
			if !okCond {
				// the test may sit in the search helper that returns the positions: every return of it that
				// can say "found" must be under the test
				for _, h := range searchFns[1:] {
					descs := helperDescs[h]
					for i, prm := range h.Params {
						if i < len(descs) {
							qzp.elemVar[prm] = descs[i]
						}
					}
					res := h.Signature.Results()
					nFound, nUnder := 0, 0
					for _, hb := range h.Blocks {
						ret, isRet := hb.Instrs[len(hb.Instrs)-1].(*ssa.Return)
						if !isRet || len(ret.Results) == 0 {
							continue
						}
						last := ret.Results[len(ret.Results)-1]
						if !isBoolType(res.At(res.Len() - 1).Type()) {
							continue
						}
						if fc, isC := last.(*ssa.Const); isC && fc.Value != nil && fc.Value.String() == "false" {
							continue
						}
						nFound++
						for _, l := range pathLiteralsWith(qzp, h, hb) {
							if l.Op == "atom" && (l.Atom == canonAtom("(elem(elem(elem("+lr+"))) == "+probeDesc+")")) {
								nUnder++
								break
							}
						}
					}
					for _, prm := range h.Params {
						delete(qzp.elemVar, prm)
					}
					if nFound > 0 && nFound == nUnder {
						okCond = true
					}
				}
			}
			if !okCond {
				probs = append(probs, "the match condition is not simplifyLicense(id) == table entry")
			}
		}
		if matchBlock != nil {
			if _, isRet := matchBlock.Instrs[len(matchBlock.Instrs)-1].(*ssa.Return); !isRet {
				probs = append(probs, "the search does not return at the first match")
			}
		}
		// exhaustiveness of every loop involved: in getLicenseRange and in the helpers whose results it uses
		fnsToCheck := searchFns
		for _, b := range glr.Blocks {
			for _, in := range b.Instrs {
				if c, ok := in.(*ssa.Call); ok && c.Call.StaticCallee() != nil && p.InModule(c.Call.StaticCallee()) && c.Call.StaticCallee() != simp && hasLoop(c.Call.StaticCallee()) {
					dup := false
					for _, x := range fnsToCheck {
						if x == c.Call.StaticCallee() {
							dup = true
						}
					}
					if !dup {
						fnsToCheck = append(fnsToCheck, c.Call.StaticCallee())
					}
				}
			}
		}
		for _, fn := range fnsToCheck {
			var hdrs []*ssa.BasicBlock
			for _, b := range fn.Blocks {
				if isLoopHeader(b) {
					hdrs = append(hdrs, b)
				}
			}
			sort.Slice(hdrs, func(i, j int) bool { return hdrs[i].Dominates(hdrs[j]) })
			// the success block: the record (getLicenseRange) or the return of found positions (a helper)
			var succ *ssa.BasicBlock
			if fn == matchFn {
				succ = matchBlock
			} else {
				for _, b := range fn.Blocks {
					if ret, ok := b.Instrs[len(b.Instrs)-1].(*ssa.Return); ok && len(ret.Results) > 0 {
						if _, isC := ret.Results[0].(*ssa.Const); !isC {
							succ = b
						}
					}
				}
			}
			if succ == nil || len(hdrs) == 0 {
				continue
			}
			var test *ssa.BasicBlock
			for cur := succ.Idom(); cur != nil; cur = cur.Idom() {
				if _, ok := cur.Instrs[len(cur.Instrs)-1].(*ssa.If); ok && !isLoopHeader(cur) {
					test = cur
					break
				}
			}
			if test != nil {
				probs = append(probs, skipsInSearch(p, hdrs, test)...)
			}
		}
		if len(probs) > 0 {
			r.Bad("T5", "getLicenseRange", p.pos(glr.Pos()), strings.Join(probs, "; "))
		} else {
			r.OK("T5", "getLicenseRange", p.pos(glr.Pos()), "(family, group, index) of the first match of the simplified id", "", true)
		}
	}
	// T6 / T7
	qz := &quantizer{p: p, elemVar: map[ssa.Value]string{}, inlineAll: true, seeInts: true}
	if same == nil {
		r.OK("T6", "sameLicenseGroup", p.pos(glr.Pos()), "no separate family-gate function: the gate is judged inside each comparison below", "", false)
	} else {
		// sameLicenseGroup's meaning
		f := qz.funcFormulaWith(same, 0, nil)
		a, b := "param:"+same.Params[0].Name(), "param:"+same.Params[1].Name()
		want := &qf{Op: "and", Args: []*qf{
			qNot(&qf{Op: "atom", Atom: "(" + a + " == nil)"}),
			qNot(&qf{Op: "atom", Atom: "(" + b + " == nil)"}),
			qNot(&qf{Op: "atom", Atom: "(" + a + ".location[" + lk.group + "] != " + b + ".location[" + lk.group + "])"}),
		}}
		got := ""
		if f != nil {
			got = f.String()
		}
		okSame := f != nil && !f.has("unknown") && canonBool(normQF(f)) == canonBool(normQF(want))
		if okSame {
			r.OK("T6", "sameLicenseGroup", p.pos(same.Pos()), "both located ∧ same family index", got, true)
		} else {
			r.Bad("T6", "sameLicenseGroup", p.pos(same.Pos()), "the family gate does not mean 'both ids are located and their family indices are equal': "+got)
		}
	}
	// T6/T7 on the derived formulas: every function that orders version positions is inlined into one
	// propositional formula (helpers seen through, integer results by what the helper returns), its atoms
	// are mapped onto abstract propositions about the two terms, and the result is compared with the
	// specified meaning by an exhaustive truth table. How the code is split into helpers does not matter.
	roleL := ""
	for k, n := range roleNames(p) {
		if n == "licenseNode" {
			roleL = k
		}
	}
	type cmpSpec struct {
		name string
		fn   *ssa.Function
		a, b string // descriptions of the two terms
		spec func(A, B string) *qf
	}
	at := func(s string) *qf { return &qf{Op: "atom", Atom: s} }
	and := func(xs ...*qf) *qf { return &qf{Op: "and", Args: xs} }
	or := func(xs ...*qf) *qf { return &qf{Op: "or", Args: xs} }
	gate := func(A, B string) *qf { return and(at("LOC("+A+")"), at("LOC("+B+")"), at("FAM")) }
	gt := func(A, B string) *qf {
		return and(at("LIC("+A+")"), at("LIC("+B+")"), gate(A, B), at("LATER("+A+","+B+")"))
	}
	eq := func(A, B string) *qf {
		return and(at("LIC("+A+")"), at("LIC("+B+")"), or(at("IDEQ"), and(gate(A, B), at("VEQ"))))
	}
	var specs []cmpSpec
	if fn := p.Func(p.ExpPkg, "compareGT"); fn != nil && len(fn.Params) == 2 {
		specs = append(specs, cmpSpec{"compareGT", fn, "param:" + fn.Params[0].Name(), "param:" + fn.Params[1].Name(), gt})
	}
	if fn := p.Func(p.ExpPkg, "compareLT"); fn != nil && len(fn.Params) == 2 {
		specs = append(specs, cmpSpec{"compareLT", fn, "param:" + fn.Params[0].Name(), "param:" + fn.Params[1].Name(), func(A, B string) *qf { return gt(B, A) }})
	}
	if fn := p.Func(p.ExpPkg, "compareEQ"); fn != nil && len(fn.Params) == 2 {
		specs = append(specs, cmpSpec{"compareEQ", fn, "param:" + fn.Params[0].Name(), "param:" + fn.Params[1].Name(), eq})
	}
	iir := p.Func(p.ExpPkg, "(*nodePair).identifierInRange")
	if iir == nil {
		r.Unknown("T7", "identifierInRange", "-", "unresolved anchor")
	} else {
		recv := "param:" + iir.Params[0].Name()
		specs = append(specs, cmpSpec{"identifierInRange", iir, recv + ".firstNode", recv + ".secondNode", func(A, B string) *qf { return or(gt(A, B), eq(A, B)) }})
	}
	dbg := map[string]string{}
	for _, sp := range specs {
		qq := &quantizer{p: p, elemVar: map[ssa.Value]string{}, inlineAll: true, seeInts: true}
		f := qq.funcFormulaWith(sp.fn, 0, nil)
		pos := p.pos(sp.fn.Pos())
		if f == nil || f.has("unknown") || f.has("exists") || f.has("forall") {
			r.Unknown("T7", sp.name+"|meaning", pos, "kind=undecided: not expressible as a propositional formula: "+fmt.Sprint(f))
			continue
		}
		f = normQF(f)
		var unmapped []string
		af := mapAtoms(f, func(a string) *qf {
			if n, neg, ok := abstractPosAtom(a, sp.a, sp.b, roleL, lk); ok {
				if neg {
					return qNot(at(n))
				}
				return at(n)
			}
			unmapped = append(unmapped, a)
			return at(a)
		})
		dbg[sp.name] = af.String()
		want := sp.spec("A", "B")
		// T6: true ⇒ both located and in the same family (or, for equality, the same id)
		bad, n, ok := forAll([]*qf{af, want}, func(asg map[string]bool) bool {
			v, _ := evalQ(af, asg)
			if !v {
				return true
			}
			return (asg["LOC(A)"] && asg["LOC(B)"] && asg["FAM"]) || asg["IDEQ"]
		})
		switch {
		case !ok:
			r.Unknown("T6", sp.name+"|gate", pos, fmt.Sprintf("kind=undecided: %d atoms", n))
		case bad != nil:
			r.Bad("T6", sp.name+"|gate", pos, "version-group positions decide the result without the family gate ('both ids located and in the same family'): '+' could reach an id of a different family, or a nil range is dereferenced; "+showAsg(bad))
		default:
			r.OK("T6", sp.name+"|gate", pos, "true ⇒ both located ∧ same family (or same id)", af.String(), true)
		}
		// T7: exactly the specified meaning
		bad, n, ok = forAll([]*qf{af, want}, func(asg map[string]bool) bool {
			// the two version positions are integers: exactly one of LATER(A,B), LATER(B,A), VEQ holds
			// (when only some of the three propositions occur, at most one of those)
			cnt, present := 0, 0
			for _, k := range []string{"LATER(A,B)", "LATER(B,A)", "VEQ"} {
				if v, ok := asg[k]; ok {
					present++
					if v {
						cnt++
					}
				}
			}
			if cnt > 1 || (present == 3 && cnt != 1) {
				return true
			}
			v, _ := evalQ(af, asg)
			w, _ := evalQ(want, asg)
			return v == w
		})
		switch {
		case !ok:
			r.Unknown("T7", sp.name+"|meaning", pos, fmt.Sprintf("kind=undecided: %d atoms", n))
		case bad != nil:
			v, _ := evalQ(af, bad)
			r.Bad("T7", sp.name+"|meaning", pos, fmt.Sprintf("%s answers %v where its meaning (%s) says %v, when %s%s", sp.name, v, want, !v, showAsg(bad), unmappedNote(unmapped)))
		default:
			r.OK("T7", sp.name+"|meaning", pos, "≡ "+want.String(), fmt.Sprintf("%d atoms", n), true)
		}
	}
	r.Extra["position_formulas"] = dbg
	// T8
	if lr := p.Func(p.LicPkg, "LicenseRanges"); lr != nil {
		fr := &freshness{p: p, memo: map[ssa.Value]string{}, taint: &taintResult{Params: map[*ssa.Parameter]bool{}}}
		bad := ""
		for _, b := range lr.Blocks {
			if ret, ok := b.Instrs[len(b.Instrs)-1].(*ssa.Return); ok {
				if why := fr.notFresh(ret.Results[0], map[ssa.Value]bool{}); why != "" {
					bad = why
				}
			}
		}
		if bad == "" {
			r.OK("T8", "LicenseRanges", p.pos(lr.Pos()), "fresh literal per call", "", false)
		} else {
			r.Bad("T8", "LicenseRanges", p.pos(lr.Pos()), "the range table handed to readers is shared: "+bad)
		}
	}
}

func unmappedNote(u []string) string {
	if len(u) == 0 {
		return ""
	}
	sort.Strings(u)
	return "; atoms without a reading: " + shortDesc(strings.Join(uniqStrings(u), " | "))
}

// abstractPosAtom maps a concrete atom of a position-comparing function onto an abstract proposition
// about its two terms A (described by a) and B (described by b):
//
//	LIC(X)  X is a license node            LOC(X)  X's id is in the range table
//	FAM     both ids in the same family    VEQ     same version group
//	LATER(X,Y)  X's version group is after Y's    IDEQ  the two ids are the same string
//
// The license id of a term may be spelled through the accessor or through the fields.
func abstractPosAtom(atom, a, b, roleL string, lk locKeys) (string, bool, bool) {
	term := func(s string) string {
		switch s {
		case a:
			return "A"
		case b:
			return "B"
		}
		return ""
	}
	lid := func(s string) string { // license id expression -> term
		for _, pre := range []string{"*(*spdxexp.node).license(", "(*spdxexp.node).license("} {
			if strings.HasPrefix(s, pre) && strings.HasSuffix(s, ")") {
				return term(s[len(pre) : len(s)-1])
			}
		}
		if strings.HasSuffix(s, ".lic.license") {
			return term(strings.TrimSuffix(s, ".lic.license"))
		}
		return ""
	}
	rng := func(s string) string { // range expression -> term
		const pre = "spdxexp.getLicenseRange("
		if strings.HasPrefix(s, pre) && strings.HasSuffix(s, ")") {
			return lid(s[len(pre) : len(s)-1])
		}
		return ""
	}
	loc := func(s string) (string, string) { // R.location[k] -> term, k
		i := strings.LastIndex(s, ".location[")
		if i < 0 || !strings.HasSuffix(s, "]") {
			return "", ""
		}
		return rng(s[:i]), s[i+len(".location[") : len(s)-1]
	}
	if !strings.HasPrefix(atom, "(") || !strings.HasSuffix(atom, ")") {
		return "", false, false
	}
	inner := atom[1 : len(atom)-1]
	for _, op := range []string{" == ", " < "} {
		depth := 0
		for i := 0; i+len(op) <= len(inner); i++ {
			switch inner[i] {
			case '(', '{', '[':
				depth++
			case ')', '}', ']':
				depth--
			}
			if depth != 0 || inner[i:i+len(op)] != op {
				continue
			}
			l, rr := inner[:i], inner[i+len(op):]
			if op == " == " {
				// role test
				for _, pr := range [][2]string{{l, rr}, {rr, l}} {
					if pr[0] == roleL && strings.HasSuffix(pr[1], ".role") {
						if t := term(strings.TrimSuffix(pr[1], ".role")); t != "" {
							return "LIC(" + t + ")", false, true
						}
					}
					if pr[0] == "nil" {
						if t := rng(pr[1]); t != "" {
							return "LOC(" + t + ")", true, true // (nil == R) is ¬LOC
						}
					}
				}
				if t1, t2 := lid(l), lid(rr); t1 != "" && t2 != "" && t1 != t2 {
					return "IDEQ", false, true
				}
				t1, k1 := loc(l)
				t2, k2 := loc(rr)
				if t1 != "" && t2 != "" && t1 != t2 && k1 == k2 {
					switch k1 {
					case lk.group:
						return "FAM", false, true
					case lk.version:
						return "VEQ", false, true
					}
				}
				return "", false, false
			}
			// l < r
			t1, k1 := loc(l)
			t2, k2 := loc(rr)
			if t1 != "" && t2 != "" && t1 != t2 && k1 == lk.version && k2 == lk.version {
				return "LATER(" + t2 + "," + t1 + ")", false, true
			}
			return "", false, false
		}
	}
	return "", false, false
}

func formulaAtoms(f *qf) []string {
	if f == nil {
		return nil
	}
	if f.Op == "atom" {
		return []string{f.Atom}
	}
	var out []string
	for _, a := range f.Args {
		out = append(out, formulaAtoms(a)...)
	}
	return out
}

// rangeOfParam: v is getLicenseRange(*<param i>.license()).
func rangeOfParam(v ssa.Value, fn *ssa.Function, i int) bool {
	c, ok := v.(*ssa.Call)
	if !ok || c.Call.StaticCallee() == nil || c.Call.StaticCallee().Name() != "getLicenseRange" {
		return false
	}
	ld, ok := c.Call.Args[0].(*ssa.UnOp)
	if !ok {
		return false
	}
	acc, ok := ld.X.(*ssa.Call)
	if !ok || len(acc.Call.Args) != 1 || i >= len(fn.Params) {
		return false
	}
	return acc.Call.Args[0] == ssa.Value(fn.Params[i])
}

func whichParam(v ssa.Value, fn *ssa.Function) string {
	for i := range fn.Params {
		if rangeOfParam(v, fn, i) {
			return "position(" + fn.Params[i].Name() + ")"
		}
	}
	return describe(v)
}

// canonBool: canonical string of a formula with commutative operators sorted.
func canonBool(f *qf) string {
	switch f.Op {
	case "and", "or":
		var parts []string
		var flat func(q *qf)
		flat = func(q *qf) {
			if q.Op == f.Op {
				for _, a := range q.Args {
					flat(a)
				}
			} else {
				parts = append(parts, canonBool(q))
			}
		}
		flat(f)
		sort.Strings(parts)
		sep := "∧"
		if f.Op == "or" {
			sep = "∨"
		}
		return "(" + strings.Join(parts, sep) + ")"
	case "not":
		inner := canonBool(f.Args[0])
		if strings.HasPrefix(inner, "¬") {
			return strings.TrimPrefix(inner, "¬")
		}
		return "¬" + inner
	case "atom":
		return canonAtom(f.Atom)
	case "ite":
		return "ite(" + canonBool(f.Args[0]) + "," + canonBool(f.Args[1]) + "," + canonBool(f.Args[2]) + ")"
	}
	return f.String()
}

// normQF rewrites comparison atoms to a canonical spelling so that equivalent source forms give the same
// proposition: (a != b) → ¬(a == b), (a > b) → (b < a), (a >= b) → ¬(a < b), (a <= b) → ¬(b < a);
// operands of == are sorted by canonAtom.
var constCmpRe = regexp.MustCompile(`^\((-?\d+) (==|!=|<|<=|>|>=) (-?\d+)\)$`)

func normQF(q *qf) *qf {
	if q == nil {
		return nil
	}
	if q.Op == "atom" {
		a := q.Atom
		if r, ok := cmpCompareAtom(a); ok {
			return normQF(&qf{Op: "atom", Atom: r})
		}
		// a comparison of two integer literals (an enum parameter bound to a constant by inlining)
		if m := constCmpRe.FindStringSubmatch(a); m != nil {
			x, _ := strconv.ParseInt(m[1], 10, 64)
			y, _ := strconv.ParseInt(m[3], 10, 64)
			v := false
			switch m[2] {
			case "==":
				v = x == y
			case "!=":
				v = x != y
			case "<":
				v = x < y
			case "<=":
				v = x <= y
			case ">":
				v = x > y
			case ">=":
				v = x >= y
			}
			if v {
				return qTrue()
			}
			return qFalse()
		}
		if strings.HasPrefix(a, "(") && strings.HasSuffix(a, ")") {
			inner := a[1 : len(a)-1]
			for _, op := range []string{" != ", " >= ", " <= ", " > "} {
				depth := 0
				for i := 0; i+len(op) <= len(inner); i++ {
					switch inner[i] {
					case '(', '{', '[':
						depth++
					case ')', '}', ']':
						depth--
					}
					if depth == 0 && inner[i:i+len(op)] == op {
						l, r := inner[:i], inner[i+len(op):]
						switch op {
						case " != ":
							return qNot(&qf{Op: "atom", Atom: canonAtom("(" + l + " == " + r + ")")})
						case " >= ":
							return qNot(&qf{Op: "atom", Atom: "(" + l + " < " + r + ")"})
						case " <= ":
							return qNot(&qf{Op: "atom", Atom: "(" + r + " < " + l + ")"})
						case " > ":
							return &qf{Op: "atom", Atom: "(" + r + " < " + l + ")"}
						}
					}
				}
			}
		}
		return &qf{Op: "atom", Atom: canonAtom(a)}
	}
	n := &qf{Op: q.Op, Atom: q.Atom, Coll: q.Coll, Var: q.Var}
	for _, a := range q.Args {
		n.Args = append(n.Args, normQF(a))
	}
	if n.Op == "not" && len(n.Args) == 1 {
		return qNot(n.Args[0])
	}
	return n
}

// canonAtom sorts the operands of symmetric comparisons "(a == b)" / "(a != b)" and of EqualFold.
func canonAtom(a string) string {
	if strings.HasPrefix(a, "(") && strings.HasSuffix(a, ")") {
		inner := a[1 : len(a)-1]
		for _, op := range []string{" == ", " != "} {
			// split at top level
			depth := 0
			for i := 0; i+len(op) <= len(inner); i++ {
				switch inner[i] {
				case '(', '{', '[':
					depth++
				case ')', '}', ']':
					depth--
				}
				if depth == 0 && inner[i:i+len(op)] == op {
					l, r := inner[:i], inner[i+len(op):]
					if l > r {
						l, r = r, l
					}
					return "(" + l + op + r + ")"
				}
			}
		}
	}
	if strings.HasPrefix(a, "strings.EqualFold(") && strings.HasSuffix(a, ")") {
		inner := a[len("strings.EqualFold(") : len(a)-1]
		depth := 0
		for i := 0; i < len(inner); i++ {
			switch inner[i] {
			case '(', '{', '[':
				depth++
			case ')', '}', ']':
				depth--
			case ',':
				if depth == 0 {
					l, r := strings.TrimSpace(inner[:i]), strings.TrimSpace(inner[i+1:])
					if l > r {
						l, r = r, l
					}
					return "strings.EqualFold(" + l + ", " + r + ")"
				}
			}
		}
	}
	return a
}

// naturalLoop: the blocks of the natural loop of header h.
func naturalLoop(h *ssa.BasicBlock) map[*ssa.BasicBlock]bool {
	in := map[*ssa.BasicBlock]bool{h: true}
	var work []*ssa.BasicBlock
	for _, p := range h.Preds {
		if h.Dominates(p) && !in[p] {
			in[p] = true
			work = append(work, p)
		}
	}
	for len(work) > 0 {
		b := work[len(work)-1]
		work = work[:len(work)-1]
		for _, p := range b.Preds {
			if !in[p] {
				in[p] = true
				work = append(work, p)
			}
		}
	}
	return in
}

// skipsInSearch: hdrs are the headers of a loop nest (outer to inner) that searches a table, test is
// the block whose branch compares the probe with the current entry. Reports every conditional (or
// return) inside the nest through which an iteration of some level can end — by continue, break or
// return — without reaching the next inner loop (or, at the innermost level, the test): such a branch
// lets the search pass over entries it never compares, so "not found" no longer means "not in the table".
func skipsInSearch(p *Prog, hdrs []*ssa.BasicBlock, test *ssa.BasicBlock) []string {
	var probs []string
	if len(hdrs) == 0 {
		return nil
	}
	loops := make([]map[*ssa.BasicBlock]bool, len(hdrs))
	isHdr := map[*ssa.BasicBlock]bool{}
	for i, h := range hdrs {
		loops[i] = naturalLoop(h)
		isHdr[h] = true
	}
	// reach(from, goal, avoid, stop): is there a path from→…→x with goal(x), never entering avoid, not continuing through stop
	reach := func(from *ssa.BasicBlock, goal func(*ssa.BasicBlock) bool, avoid *ssa.BasicBlock) bool {
		seen := map[*ssa.BasicBlock]bool{}
		var dfs func(b *ssa.BasicBlock) bool
		dfs = func(b *ssa.BasicBlock) bool {
			if b == avoid || seen[b] {
				return false
			}
			seen[b] = true
			if goal(b) {
				return true
			}
			for _, s := range b.Succs {
				if dfs(s) {
					return true
				}
			}
			return false
		}
		return dfs(from)
	}
	for _, b := range hdrs[0].Parent().Blocks {
		if !loops[0][b] || isHdr[b] || b == test {
			continue
		}
		lvl := 0
		for i := range hdrs {
			if loops[i][b] {
				lvl = i
			}
		}
		way := test
		if lvl+1 < len(hdrs) {
			way = hdrs[lvl+1]
		}
		h := hdrs[lvl]
		endIter := func(x *ssa.BasicBlock) bool { return x == h || !loops[lvl][x] || len(x.Succs) == 0 }
		// does b precede the waypoint within one iteration?
		if !reach(b, func(x *ssa.BasicBlock) bool { return x == way }, h) {
			continue
		}
		if len(b.Succs) == 0 {
			continue
		}
		if len(b.Succs) == 1 {
			continue // straight-line
		}
		for _, s := range b.Succs {
			if s != way && reach(s, endIter, way) {
				at := b.Instrs[len(b.Instrs)-1].Pos()
				if iff, ok := b.Instrs[len(b.Instrs)-1].(*ssa.If); ok && iff.Cond.Pos().IsValid() {
					at = iff.Cond.Pos()
				}
				probs = append(probs, fmt.Sprintf("%s: this branch can end an iteration of the search before the remaining entries are compared (continue, break or return inside the table scan): an id that is in the table can be reported as not found", p.pos(at)))
				break
			}
		}
	}
	return probs
}

// cmpCompareAtom rewrites "(cmp.Compare[T](A, B) OP 0)" and "(0 OP cmp.Compare[T](A, B))" to "(A OP B)".
func cmpCompareAtom(a string) (string, bool) {
	if !strings.HasPrefix(a, "(") || !strings.HasSuffix(a, ")") || !strings.Contains(a, "cmp.Compare[") {
		return "", false
	}
	inner := a[1 : len(a)-1]
	for _, op := range []string{" == ", " != ", " >= ", " <= ", " > ", " < "} {
		depth := 0
		for i := 0; i+len(op) <= len(inner); i++ {
			switch inner[i] {
			case '(', '{', '[':
				depth++
			case ')', '}', ']':
				depth--
			}
			if depth != 0 || inner[i:i+len(op)] != op {
				continue
			}
			l, r := inner[:i], inner[i+len(op):]
			o := strings.TrimSpace(op)
			call := ""
			switch {
			case r == "0" && strings.HasPrefix(l, "cmp.Compare["):
				call = l
			case l == "0" && strings.HasPrefix(r, "cmp.Compare["):
				call = r
				switch o {
				case "<":
					o = ">"
				case ">":
					o = "<"
				case "<=":
					o = ">="
				case ">=":
					o = "<="
				}
			default:
				return "", false
			}
			open := strings.Index(call, "](")
			if open < 0 || !strings.HasSuffix(call, ")") {
				return "", false
			}
			args := call[open+2 : len(call)-1]
			d2 := 0
			for j := 0; j < len(args); j++ {
				switch args[j] {
				case '(', '{', '[':
					d2++
				case ')', '}', ']':
					d2--
				case ',':
					if d2 == 0 {
						return "(" + strings.TrimSpace(args[:j]) + " " + o + " " + strings.TrimSpace(args[j+1:]) + ")", true
					}
				}
			}
			return "", false
		}
	}
	return "", false
}
