package main

import (
	"fmt"
	"go/token"
	"go/types"
	"sort"
	"strings"

	"golang.org/x/tools/go/ssa"
)

// ---------------------------------------------------------------------------------------------
// helpers: location keys

type locKeys struct {
	group, version, index string // ExactString of the uint8 constants
	ok                    bool
}

func locationKeys(p *Prog) locKeys {
	sc := p.ExpPkg.Types.Scope()
	get := func(n string) string {
		if c, ok := sc.Lookup(n).(*types.Const); ok {
			return c.Val().ExactString()
		}
		return ""
	}
	k := locKeys{get("licenseGroup"), get("versionGroup"), get("licenseIndex"), true}
	if k.group == "" || k.version == "" || k.index == "" {
		k.ok = false
	}
	return k
}

// locLookup: v = X.location[k] ; returns (X, k).
func locLookup(v ssa.Value) (ssa.Value, string, bool) {
	lk, ok := v.(*ssa.Lookup)
	if !ok {
		return nil, "", false
	}
	c, ok := lk.Index.(*ssa.Const)
	if !ok || c.Value == nil {
		return nil, "", false
	}
	ld, ok := lk.X.(*ssa.UnOp)
	if !ok || ld.Op != token.MUL {
		return nil, "", false
	}
	fa, ok := ld.X.(*ssa.FieldAddr)
	if !ok || fieldOf(fa).Field != "location" {
		return nil, "", false
	}
	return fa.X, c.Value.ExactString(), true
}

// ---------------------------------------------------------------------------------------------
// T5–T8 (C11 code clause), reused by C02

func rulesRangeCode(p *Prog, r *Report) {
	r.Rule("T5", "necessary", 1, "positions are what the loops say: the position recorded for an id is (family index, version-group index, index in group) of the three nested full ranges over the table, the probe is the simplified id, and the search returns at the first match")
	r.Rule("T6", "necessary", 3, "family gate: every comparison of version-group positions is dominated by 'both ids are located and in the same family'")
	r.Rule("T7", "necessary", 2, "direction: 'later' is a greater version-group position of the first argument; the non-plus id is tested against the plus id, not the other way round")
	r.Rule("T8", "sufficient", 1, "the table getter returns a fresh literal on every call (no reader can disturb another)")
	lk := locationKeys(p)
	glr := p.Func(p.ExpPkg, "getLicenseRange")
	simp := p.Func(p.ExpPkg, "simplifyLicense")
	same := p.Func(p.ExpPkg, "sameLicenseGroup")
	if !lk.ok || glr == nil || simp == nil || same == nil {
		r.Unknown("T5", "anchor", "-", "unresolved anchor: getLicenseRange / simplifyLicense / sameLicenseGroup / location key constants")
		return
	}
	r.Funcs[p.shortKey(glr)] = true
	// T5
	{
		var probs []string
		// loops: nest by dominance
		var hdrs []*ssa.BasicBlock
		for _, b := range glr.Blocks {
			if isLoopHeader(b) {
				hdrs = append(hdrs, b)
			}
		}
		sort.Slice(hdrs, func(i, j int) bool { return hdrs[i].Dominates(hdrs[j]) })
		type loopInfo struct {
			idx  ssa.Value
			coll ssa.Value
		}
		var loops []loopInfo
		for _, h := range hdrs {
			ifi, ok := h.Instrs[len(h.Instrs)-1].(*ssa.If)
			if !ok {
				continue
			}
			cmp, ok := ifi.Cond.(*ssa.BinOp)
			if !ok {
				continue
			}
			ln, ok := cmp.Y.(*ssa.Call)
			if !ok || len(ln.Call.Args) == 0 || isRangeIndexOf(cmp.X, ln.Call.Args[0]) != nil {
				probs = append(probs, "a loop of the position search is not a full forward range")
				continue
			}
			loops = append(loops, loopInfo{cmp.X, ln.Call.Args[0]})
		}
		if len(loops) != 3 {
			probs = append(probs, fmt.Sprintf("expected three nested ranges over the table, found %d", len(loops)))
		} else {
			// nesting: coll[1] = elem(coll[0]) etc., coll[0] = LicenseRanges()
			c0, ok := loops[0].coll.(*ssa.Call)
			if !ok || c0.Call.StaticCallee() == nil || c0.Call.StaticCallee().Name() != "LicenseRanges" {
				probs = append(probs, "the outer range is not over LicenseRanges()")
			}
			if !isElemOf(loops[1].coll, loops[0].coll) || !isElemOf(loops[2].coll, loops[1].coll) {
				probs = append(probs, "the ranges are not nested family → version group → id")
			}
			want := map[string]ssa.Value{lk.group: loops[0].idx, lk.version: loops[1].idx, lk.index: loops[2].idx}
			names := map[string]string{lk.group: "licenseGroup", lk.version: "versionGroup", lk.index: "licenseIndex"}
			seen := map[string]bool{}
			var matchBlock *ssa.BasicBlock
			for _, b := range glr.Blocks {
				for _, in := range b.Instrs {
					mu, ok := in.(*ssa.MapUpdate)
					if !ok {
						continue
					}
					kc, ok := mu.Key.(*ssa.Const)
					if !ok || kc.Value == nil {
						probs = append(probs, "non-constant location key")
						continue
					}
					k := kc.Value.ExactString()
					seen[k] = true
					matchBlock = b
					if want[k] != mu.Value {
						probs = append(probs, fmt.Sprintf("location[%s] is set to %s, not to the index of the matching loop level", names[k], describeIdx(mu.Value)))
					}
				}
			}
			for k, n := range names {
				if !seen[k] {
					probs = append(probs, "location["+n+"] is never set")
				}
			}
			// match condition and first-match return
			if matchBlock != nil {
				fb := newBoundsProver(p, sharedEngineLite(p)).forFn(glr)
				okCond := false
				for cf := range fb.facts[matchBlock.Index] {
					bo, ok := cf.c.(*ssa.BinOp)
					if !ok || !cf.pol || bo.Op != token.EQL {
						continue
					}
					for _, pair := range [][2]ssa.Value{{bo.X, bo.Y}, {bo.Y, bo.X}} {
						call, ok := pair[0].(*ssa.Call)
						if ok && call.Call.StaticCallee() == simp && call.Call.Args[0] == ssa.Value(glr.Params[0]) && isElemOf(pair[1], loops[2].coll) {
							okCond = true
						}
					}
				}
				if !okCond {
					probs = append(probs, "the match condition is not simplifyLicense(id) == table entry")
				}
				if _, isRet := matchBlock.Instrs[len(matchBlock.Instrs)-1].(*ssa.Return); !isRet {
					probs = append(probs, "the search does not return at the first match")
				}
				// exhaustive: no conditional inside the nest can skip table entries before they are tested
				if t := matchBlock.Idom(); t != nil {
					probs = append(probs, skipsInSearch(p, hdrs, t)...)
				}
			}
		}
		if len(probs) > 0 {
			r.Bad("T5", "getLicenseRange", p.pos(glr.Pos()), strings.Join(probs, "; "))
		} else {
			r.OK("T5", "getLicenseRange", p.pos(glr.Pos()), "(family, group, index) of the first match of the simplified id", "", true)
		}
	}
	// T6 / T7
	bp := newBoundsProver(p, sharedEngineLite(p))
	qz := &quantizer{p: p, elemVar: map[ssa.Value]string{}, inlineAll: true}
	{
		// sameLicenseGroup's meaning
		f := qz.funcFormulaWith(same, 0, nil)
		a, b := "param:"+same.Params[0].Name(), "param:"+same.Params[1].Name()
		want := &qf{Op: "and", Args: []*qf{
			qNot(&qf{Op: "atom", Atom: "(" + a + " == nil)"}),
			qNot(&qf{Op: "atom", Atom: "(" + b + " == nil)"}),
			qNot(&qf{Op: "atom", Atom: "(" + a + ".location[" + lk.group + "] != " + b + ".location[" + lk.group + "])"}),
		}}
		got := ""
		if f != nil {
			got = f.String()
		}
		okSame := f != nil && !f.has("unknown") && canonBool(f) == canonBool(want)
		if okSame {
			r.OK("T6", "sameLicenseGroup", p.pos(same.Pos()), "both located ∧ same family index", got, true)
		} else {
			r.Bad("T6", "sameLicenseGroup", p.pos(same.Pos()), "the family gate does not mean 'both ids are located and their family indices are equal': "+got)
		}
	}
	nCmp := 0
	for _, fn := range p.RList {
		fb := bp.forFn(fn)
		for _, b := range fn.Blocks {
			for _, in := range b.Instrs {
				bo, ok := in.(*ssa.BinOp)
				if !ok {
					continue
				}
				x, kx, okx := locLookup(bo.X)
				y, ky, oky := locLookup(bo.Y)
				if !okx || !oky || kx != lk.version || ky != lk.version {
					continue
				}
				nCmp++
				key := fmt.Sprintf("%s|versionGroup %s versionGroup", p.shortKey(fn), bo.Op)
				gated := false
				for cf := range fb.facts[b.Index] {
					call, ok := cf.c.(*ssa.Call)
					if !ok || !cf.pol || call.Call.StaticCallee() != same {
						continue
					}
					a0, a1 := call.Call.Args[0], call.Call.Args[1]
					if (a0 == x && a1 == y) || (a0 == y && a1 == x) {
						gated = true
					}
				}
				if gated {
					r.OK("T6", key, p.pos(bo.Pos()), "dominated by sameLicenseGroup(...) == true on the same two ranges", "", true)
				} else {
					r.Bad("T6", key, p.pos(bo.Pos()), "version-group positions are compared without the family gate: '+' could reach an id of a different family (or a nil range is dereferenced)")
				}
				// T7 direction for the strict comparison: first argument's range on the left of '>'
				if bo.Op == token.GTR || bo.Op == token.LSS {
					first := rangeOfParam(x, fn, 0)
					second := rangeOfParam(y, fn, 1)
					name := fn.Name()
					wantOp := token.GTR
					if strings.HasSuffix(name, "LT") {
						wantOp = token.LSS
					}
					k7 := fmt.Sprintf("%s|direction", p.shortKey(fn))
					if first && second && bo.Op == wantOp {
						r.OK("T7", k7, p.pos(bo.Pos()), "position(first) "+bo.Op.String()+" position(second)", "", true)
					} else {
						r.Bad("T7", k7, p.pos(bo.Pos()), fmt.Sprintf("%s compares positions as %s %s %s: the ordering of versions is reversed or applied to the wrong operands", name, whichParam(x, fn), bo.Op, whichParam(y, fn)))
					}
				}
			}
		}
	}
	if nCmp == 0 {
		r.Unknown("T6", "comparisons", "-", "kind=undecided: no comparison of version-group positions found")
	}
	// T7b: identifierInRange(simple, plus)
	if iir := p.Func(p.ExpPkg, "(*nodePair).identifierInRange"); iir != nil {
		qz2 := &quantizer{p: p, elemVar: map[ssa.Value]string{}}
		f := qz2.funcFormulaWith(iir, 0, nil)
		s := ""
		if f != nil {
			s = f.String()
		}
		wantA := "spdxexp.compareGT(param:nodes.firstNode, param:nodes.secondNode)"
		wantB := "spdxexp.compareEQ(param:nodes.firstNode, param:nodes.secondNode)"
		flat := formulaAtoms(f)
		if f != nil && f.Op == "or" && containsStr(flat, wantA) && containsStr(flat, wantB) && len(flat) == 2 {
			r.OK("T7", "identifierInRange", p.pos(iir.Pos()), "later-or-equal of (simple, plus)", s, true)
		} else {
			r.Bad("T7", "identifierInRange", p.pos(iir.Pos()), "identifierInRange is not 'first is later than or equal to second' on its own pair: "+s)
		}
	} else {
		r.Unknown("T7", "identifierInRange", "-", "unresolved anchor")
	}
	// T8
	if lr := p.Func(p.LicPkg, "LicenseRanges"); lr != nil {
		fr := &freshness{p: p, memo: map[ssa.Value]string{}, taint: &taintResult{Params: map[*ssa.Parameter]bool{}}}
		bad := ""
		for _, b := range lr.Blocks {
			if ret, ok := b.Instrs[len(b.Instrs)-1].(*ssa.Return); ok {
				if why := fr.notFresh(ret.Results[0], map[ssa.Value]bool{}); why != "" {
					bad = why
				}
			}
		}
		if bad == "" {
			r.OK("T8", "LicenseRanges", p.pos(lr.Pos()), "fresh literal per call", "", false)
		} else {
			r.Bad("T8", "LicenseRanges", p.pos(lr.Pos()), "the range table handed to readers is shared: "+bad)
		}
	}
}

func formulaAtoms(f *qf) []string {
	if f == nil {
		return nil
	}
	if f.Op == "atom" {
		return []string{f.Atom}
	}
	var out []string
	for _, a := range f.Args {
		out = append(out, formulaAtoms(a)...)
	}
	return out
}

// rangeOfParam: v is getLicenseRange(*<param i>.license()).
func rangeOfParam(v ssa.Value, fn *ssa.Function, i int) bool {
	c, ok := v.(*ssa.Call)
	if !ok || c.Call.StaticCallee() == nil || c.Call.StaticCallee().Name() != "getLicenseRange" {
		return false
	}
	ld, ok := c.Call.Args[0].(*ssa.UnOp)
	if !ok {
		return false
	}
	acc, ok := ld.X.(*ssa.Call)
	if !ok || len(acc.Call.Args) != 1 || i >= len(fn.Params) {
		return false
	}
	return acc.Call.Args[0] == ssa.Value(fn.Params[i])
}

func whichParam(v ssa.Value, fn *ssa.Function) string {
	for i := range fn.Params {
		if rangeOfParam(v, fn, i) {
			return "position(" + fn.Params[i].Name() + ")"
		}
	}
	return describe(v)
}

// canonBool: canonical string of a formula with commutative operators sorted.
func canonBool(f *qf) string {
	switch f.Op {
	case "and", "or":
		var parts []string
		var flat func(q *qf)
		flat = func(q *qf) {
			if q.Op == f.Op {
				for _, a := range q.Args {
					flat(a)
				}
			} else {
				parts = append(parts, canonBool(q))
			}
		}
		flat(f)
		sort.Strings(parts)
		sep := "∧"
		if f.Op == "or" {
			sep = "∨"
		}
		return "(" + strings.Join(parts, sep) + ")"
	case "not":
		return "¬" + canonBool(f.Args[0])
	case "atom":
		return canonAtom(f.Atom)
	case "ite":
		return "ite(" + canonBool(f.Args[0]) + "," + canonBool(f.Args[1]) + "," + canonBool(f.Args[2]) + ")"
	}
	return f.String()
}

// canonAtom sorts the operands of symmetric comparisons "(a == b)" / "(a != b)" and of EqualFold.
func canonAtom(a string) string {
	if strings.HasPrefix(a, "(") && strings.HasSuffix(a, ")") {
		inner := a[1 : len(a)-1]
		for _, op := range []string{" == ", " != "} {
			// split at top level
			depth := 0
			for i := 0; i+len(op) <= len(inner); i++ {
				switch inner[i] {
				case '(', '{', '[':
					depth++
				case ')', '}', ']':
					depth--
				}
				if depth == 0 && inner[i:i+len(op)] == op {
					l, r := inner[:i], inner[i+len(op):]
					if l > r {
						l, r = r, l
					}
					return "(" + l + op + r + ")"
				}
			}
		}
	}
	if strings.HasPrefix(a, "strings.EqualFold(") && strings.HasSuffix(a, ")") {
		inner := a[len("strings.EqualFold(") : len(a)-1]
		depth := 0
		for i := 0; i < len(inner); i++ {
			switch inner[i] {
			case '(', '{', '[':
				depth++
			case ')', '}', ']':
				depth--
			case ',':
				if depth == 0 {
					l, r := strings.TrimSpace(inner[:i]), strings.TrimSpace(inner[i+1:])
					if l > r {
						l, r = r, l
					}
					return "strings.EqualFold(" + l + ", " + r + ")"
				}
			}
		}
	}
	return a
}


// naturalLoop: the blocks of the natural loop of header h.
func naturalLoop(h *ssa.BasicBlock) map[*ssa.BasicBlock]bool {
	in := map[*ssa.BasicBlock]bool{h: true}
	var work []*ssa.BasicBlock
	for _, p := range h.Preds {
		if h.Dominates(p) && !in[p] {
			in[p] = true
			work = append(work, p)
		}
	}
	for len(work) > 0 {
		b := work[len(work)-1]
		work = work[:len(work)-1]
		for _, p := range b.Preds {
			if !in[p] {
				in[p] = true
				work = append(work, p)
			}
		}
	}
	return in
}

// skipsInSearch: hdrs are the headers of a loop nest (outer to inner) that searches a table, test is
// the block whose branch compares the probe with the current entry. Reports every conditional (or
// return) inside the nest through which an iteration of some level can end — by continue, break or
// return — without reaching the next inner loop (or, at the innermost level, the test): such a branch
// lets the search pass over entries it never compares, so "not found" no longer means "not in the table".
func skipsInSearch(p *Prog, hdrs []*ssa.BasicBlock, test *ssa.BasicBlock) []string {
	var probs []string
	if len(hdrs) == 0 {
		return nil
	}
	loops := make([]map[*ssa.BasicBlock]bool, len(hdrs))
	isHdr := map[*ssa.BasicBlock]bool{}
	for i, h := range hdrs {
		loops[i] = naturalLoop(h)
		isHdr[h] = true
	}
	// reach(from, goal, avoid, stop): is there a path from→…→x with goal(x), never entering avoid, not continuing through stop
	reach := func(from *ssa.BasicBlock, goal func(*ssa.BasicBlock) bool, avoid *ssa.BasicBlock) bool {
		seen := map[*ssa.BasicBlock]bool{}
		var dfs func(b *ssa.BasicBlock) bool
		dfs = func(b *ssa.BasicBlock) bool {
			if b == avoid || seen[b] {
				return false
			}
			seen[b] = true
			if goal(b) {
				return true
			}
			for _, s := range b.Succs {
				if dfs(s) {
					return true
				}
			}
			return false
		}
		return dfs(from)
	}
	for _, b := range hdrs[0].Parent().Blocks {
		if !loops[0][b] || isHdr[b] || b == test {
			continue
		}
		lvl := 0
		for i := range hdrs {
			if loops[i][b] {
				lvl = i
			}
		}
		way := test
		if lvl+1 < len(hdrs) {
			way = hdrs[lvl+1]
		}
		h := hdrs[lvl]
		endIter := func(x *ssa.BasicBlock) bool { return x == h || !loops[lvl][x] || len(x.Succs) == 0 }
		// does b precede the waypoint within one iteration?
		if !reach(b, func(x *ssa.BasicBlock) bool { return x == way }, h) {
			continue
		}
		if len(b.Succs) == 0 {
			continue
		}
		if len(b.Succs) == 1 {
			continue // straight-line
		}
		for _, s := range b.Succs {
			if s != way && reach(s, endIter, way) {
				at := b.Instrs[len(b.Instrs)-1].Pos()
				if iff, ok := b.Instrs[len(b.Instrs)-1].(*ssa.If); ok && iff.Cond.Pos().IsValid() {
					at = iff.Cond.Pos()
				}
				probs = append(probs, fmt.Sprintf("%s: this branch can end an iteration of the search before the remaining entries are compared (continue, break or return inside the table scan): an id that is in the table can be reported as not found", p.pos(at)))
				break
			}
		}
	}
	return probs
}
