package main

import (
	"fmt"
	"go/constant"
	"go/token"
	"regexp"
	"sort"
	"strings"

	"golang.org/x/tools/go/ssa"
)

// getterField: for a method of *node whose every result is nil or the address of one field (reached
// from the receiver), the name of that field; "" otherwise.
func getterField(p *Prog, method string) string {
	fn := p.Func(p.ExpPkg, "(*node)."+method)
	if fn == nil || len(fn.Params) == 0 {
		return ""
	}
	field := ""
	for _, b := range fn.Blocks {
		for _, in := range b.Instrs {
			ret, ok := in.(*ssa.Return)
			if !ok {
				continue
			}
			if len(ret.Results) != 1 {
				return ""
			}
			var walk func(v ssa.Value, d int) bool
			walk = func(v ssa.Value, d int) bool {
				if d > 4 {
					return false
				}
				switch t := v.(type) {
				case *ssa.Const:
					return t.IsNil() || t.Value == nil || (t.Value.Kind() == constant.String && constant.StringVal(t.Value) == "")
				case *ssa.UnOp:
					// a getter that returns the field's value rather than its address
					if t.Op == token.MUL {
						if fa, ok := t.X.(*ssa.FieldAddr); ok {
							return walk(fa, d+1)
						}
					}
					return false
				case *ssa.Phi:
					for _, e := range t.Edges {
						if !walk(e, d+1) {
							return false
						}
					}
					return true
				case *ssa.FieldAddr:
					// the base must come from the receiver
					base := t.X
					for {
						if fa, ok := base.(*ssa.FieldAddr); ok {
							base = fa.X
							continue
						}
						if ld, ok := base.(*ssa.UnOp); ok && ld.Op == token.MUL {
							base = ld.X // a part held by pointer
							continue
						}
						break
					}
					if base != ssa.Value(fn.Params[0]) {
						return false
					}
					n := fieldOf(t).Field
					if field != "" && field != n {
						return false
					}
					field = n
					return true
				}
				return false
			}
			if !walk(ret.Results[0], 0) {
				return ""
			}
		}
	}
	return field
}

var refGetterRe = regexp.MustCompile(`^\(\*spdxexp\.node\)\.(\w+)\((.+)\.(firstNode|secondNode)\)$`)
var refFieldRe = regexp.MustCompile(`^(.+)\.(firstNode|secondNode)\.\w+\.(\w+)$`)

// refOperand resolves one operand of a comparison in the reference matcher to (term, field of the
// reference part).
func refOperand(p *Prog, recv, s string) (string, string) {
	s = strings.TrimPrefix(strings.TrimSpace(s), "*")
	if m := refGetterRe.FindStringSubmatch(s); m != nil && m[2] == recv {
		return m[3], getterField(p, m[1])
	}
	if m := refFieldRe.FindStringSubmatch(s); m != nil && m[1] == recv {
		return m[2], m[3]
	}
	return "", ""
}

// ruleM7: for two references the reference matcher is exactly
//
//	id(a) == id(b) ∧ (hasDoc(a) ⇔ hasDoc(b)) ∧ (hasDoc(a) ⇒ doc(a) == doc(b))
//
// where == is identity of the strings (not a case-folding or otherwise coarser comparison).
func ruleM7(p *Prog, r *Report, FR *qf, lrc *ssa.Function, recv, roleR string) {
	r.Rule("M7", "necessary", 1, "reference identity: for two LicenseRefs the matcher is exactly 'identical LicenseRef id, DocumentRef both absent or both present and identical', with == on the strings")
	pos := p.pos(lrc.Pos())
	if FR == nil || FR.has("unknown") || FR.has("exists") || FR.has("forall") {
		r.Unknown("M7", "licenseRefsAreCompatible", pos, "kind=undecided: matcher not expressible as a propositional formula")
		return
	}
	set := map[string]bool{}
	atomsOf(FR, set)
	role := map[string]string{}  // atom -> term whose role it tests for roleR
	other := map[string]string{} // atom -> term: role test for another role (false for a reference)
	flag := map[string]string{}  // atom -> term
	var eqID, eqDoc string
	var unknownAtoms []string
	roleRe := regexp.MustCompile(`^\((\d+) == (.+)\.(firstNode|secondNode)\.role\)$`)
	for a := range set {
		if m := roleRe.FindStringSubmatch(a); m != nil && m[2] == recv {
			if m[1] == roleR {
				role[a] = m[3]
			} else {
				other[a] = m[3]
			}
			continue
		}
		if m := refFieldRe.FindStringSubmatch(a); m != nil && m[1] == recv && m[3] == "hasDocumentRef" {
			flag[a] = m[2]
			continue
		}
		if strings.HasPrefix(a, "(") && strings.HasSuffix(a, ")") {
			inner := a[1 : len(a)-1]
			if i := topLevelIndex(inner, " == "); i >= 0 {
				t1, f1 := refOperand(p, recv, inner[:i])
				t2, f2 := refOperand(p, recv, inner[i+4:])
				if t1 != "" && t2 != "" && t1 != t2 && f1 == f2 {
					switch f1 {
					case "licenseRef":
						eqID = a
						continue
					case "documentRef":
						eqDoc = a
						continue
					}
				}
			}
		}
		unknownAtoms = append(unknownAtoms, shortDesc(a))
	}
	var fa, fb2 string
	for a, t := range flag {
		if t == "firstNode" {
			fa = a
		} else {
			fb2 = a
		}
	}
	if eqID == "" || eqDoc == "" || fa == "" || fb2 == "" {
		var miss []string
		if eqID == "" {
			miss = append(miss, "identity (==) of the two LicenseRef ids")
		}
		if eqDoc == "" {
			miss = append(miss, "identity (==) of the two DocumentRef ids")
		}
		if fa == "" || fb2 == "" {
			miss = append(miss, "the DocumentRef-present flags of both terms")
		}
		r.Bad("M7", "licenseRefsAreCompatible", pos, fmt.Sprintf("the reference matcher does not consult %s; it decides on: %s", strings.Join(miss, ", "), strings.Join(sortedStrs(append(unknownAtoms, shortDesc(eqID), shortDesc(eqDoc))), "; ")))
		return
	}
	bad, n, ok := forAll([]*qf{FR}, func(asg map[string]bool) bool {
		for a := range role {
			if !asg[a] {
				return true // not two references
			}
		}
		for a := range other {
			if asg[a] {
				return true // a reference has no other role
			}
		}
		v, _ := evalQ(FR, asg)
		want := asg[eqID] && asg[fa] == asg[fb2] && (!asg[fa] || asg[eqDoc])
		return v == want
	})
	switch {
	case !ok:
		r.Unknown("M7", "licenseRefsAreCompatible", pos, fmt.Sprintf("kind=undecided: %d atoms is too many for an exhaustive table", n))
	case bad != nil:
		v, _ := evalQ(FR, bad)
		r.Bad("M7", "licenseRefsAreCompatible", pos, fmt.Sprintf("for two references the matcher answers %v where 'same LicenseRef id and same-or-absent DocumentRef' is %v, when %s", v, !v, showAsg(bad)))
	default:
		r.OK("M7", "licenseRefsAreCompatible", pos, "≡ id(a)==id(b) ∧ (hasDoc(a)⇔hasDoc(b)) ∧ (hasDoc(a)⇒doc(a)==doc(b))", fmt.Sprintf("%d atoms, %d rows", n, 1<<n), true)
	}
}

func topLevelIndex(s, op string) int {
	depth := 0
	for i := 0; i+len(op) <= len(s); i++ {
		switch s[i] {
		case '(', '{', '[':
			depth++
		case ')', '}', ']':
			depth--
		}
		if depth == 0 && s[i:i+len(op)] == op {
			return i
		}
	}
	return -1
}

func sortedStrs(in []string) []string {
	var out []string
	for _, s := range in {
		if s != "" {
			out = append(out, s)
		}
	}
	sort.Strings(out)
	return out
}
