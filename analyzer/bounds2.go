package main

import (
	"fmt"
	"go/constant"
	"go/token"
	"go/types"
	"math/big"
	"os"
	"sort"
	"strings"

	"golang.org/x/tools/go/ssa"
)

func newBoundsProver(p *Prog, eng *Engine) *boundsProver {
	return &boundsProver{p: p, eng: eng, eff: eng.eff, fns: map[*ssa.Function]*fnBounds{}, cand: map[string]bool{}, nilMods: map[*ssa.Function]map[fieldKey]bool{}}
}

func (bp *boundsProver) forFn(fn *ssa.Function) *fnBounds {
	if fb, ok := bp.fns[fn]; ok {
		return fb
	}
	fb := &fnBounds{bp: bp, fn: fn, verCache: map[string][]string{}, phiInv: map[*ssa.Phi][]phiCand{}, order: map[ssa.Instruction]int{}}
	bp.fns[fn] = fb
	n := 0
	for _, b := range fn.Blocks {
		for _, in := range b.Instrs {
			fb.order[in] = n
			n++
		}
	}
	if len(fn.Blocks) > 0 {
		fb.computeFacts()
	}
	return fb
}

// ---------------------------------------------------------------------------------------------
// global candidates

type invField struct {
	T      *types.Named
	F      string // int field
	G      string // buffer field ("" for f ≥ 0)
	GIsStr bool
}

func (bp *boundsProver) structTypes() []*types.Named {
	var out []*types.Named
	sc := bp.p.ExpPkg.Types.Scope()
	for _, n := range sc.Names() {
		if tn, ok := sc.Lookup(n).(*types.TypeName); ok {
			if nm, ok := tn.Type().(*types.Named); ok {
				if _, ok := nm.Underlying().(*types.Struct); ok {
					out = append(out, nm)
				}
			}
		}
	}
	return out
}

func (bp *boundsProver) invCandidates(T *types.Named) []invField {
	st := T.Underlying().(*types.Struct)
	var out []invField
	for i := 0; i < st.NumFields(); i++ {
		f := st.Field(i)
		if !isIntType(f.Type()) || f.Type() != types.Typ[types.Int] {
			continue
		}
		out = append(out, invField{T: T, F: f.Name()})
		for j := 0; j < st.NumFields(); j++ {
			g := st.Field(j)
			if isStringType(g.Type()) || kindOf(g.Type()) == KSlice {
				out = append(out, invField{T: T, F: f.Name(), G: g.Name(), GIsStr: isStringType(g.Type())})
			}
		}
	}
	return out
}

func (c invField) key() string {
	if c.G == "" {
		return fmt.Sprintf("inv|%s|%s>=0", c.T.Obj().Name(), c.F)
	}
	return fmt.Sprintf("inv|%s|%s<=len(%s)", c.T.Obj().Name(), c.F, c.G)
}

// invConstraint instantiates an object-invariant candidate for base at the version holding just
// before (after=false) or just after (after=true) instruction at.
func (fb *fnBounds) invConstraint(c invField, base ssa.Value, at ssa.Instruction, after bool) constraint {
	ver := func(field string) string {
		cls := "fld:" + c.T.String() + "." + field
		if after {
			return fb.versionAfter(cls, at)
		}
		return fb.versionAt(cls, at)
	}
	f := linVar(fmt.Sprintf("mem(%s.%s@%s)", fb.vid(base, at), c.F, ver(c.F)))
	if c.G == "" {
		return geq(f, linConst(0), c.key())
	}
	g := linVar("len:" + fmt.Sprintf("mem(%s.%s@%s)", fb.vid(base, at), c.G, ver(c.G)))
	return geq(g, f, c.key())
}

// entryVersionInstr: a pseudo position "function entry": the first instruction of block 0.
func (fb *fnBounds) entryInstr() ssa.Instruction { return fb.fn.Blocks[0].Instrs[0] }

// basesOf: SSA values of type *T in fn that denote objects whose invariant is maintained here:
// parameters and local allocations.
func (fb *fnBounds) basesOf(T *types.Named) []ssa.Value {
	var out []ssa.Value
	for _, p := range fb.fn.Params {
		if pt, ok := p.Type().Underlying().(*types.Pointer); ok && types.Identical(pt.Elem(), T) {
			out = append(out, p)
		}
	}
	for _, b := range fb.fn.Blocks {
		for _, in := range b.Instrs {
			if al, ok := in.(*ssa.Alloc); ok {
				if types.Identical(al.Type().Underlying().(*types.Pointer).Elem(), T) {
					out = append(out, al)
				}
			}
		}
	}
	return out
}

type postCand struct {
	Fn *ssa.Function
	T  *types.Named
	F  string
}

func (c postCand) key() string { return fmt.Sprintf("post|%s|%s>=len(result)", c.Fn.String(), c.F) }

type preCand struct {
	Fn  *ssa.Function
	T   *types.Named
	F   string
	Arg int    // index of the string parameter whose length bounds the field; -1: constant K; -2: below len of field G
	K   int64  // with Arg == -1: the field is at least this constant
	G   string // with Arg == -2: the field is strictly below the length of this string/slice field
}

func (c preCand) key() string {
	switch {
	case c.Arg == -3:
		return fmt.Sprintf("pre|%s|param%d>=0", c.Fn.String(), c.K)
	case c.Arg == -4:
		return fmt.Sprintf("pre|%s|%s+param%d<=len(%s)", c.Fn.String(), c.F, c.K, c.G)
	case c.Arg == -2:
		return fmt.Sprintf("pre|%s|%s<len(%s)", c.Fn.String(), c.F, c.G)
	case c.Arg < 0:
		return fmt.Sprintf("pre|%s|%s>=%d", c.Fn.String(), c.F, c.K)
	}
	return fmt.Sprintf("pre|%s|%s>=len(%s)", c.Fn.String(), c.F, c.Fn.Params[c.Arg].Name())
}

// constraint: the candidate as a constraint on the object recv (and the other arguments) at `at`.
func (c preCand) constraint(fb *fnBounds, recv ssa.Value, args []ssa.Value, at ssa.Instruction) constraint {
	cls := "fld:" + c.T.String() + "." + c.F
	fv := linVar(fmt.Sprintf("mem(%s.%s@%s)", fb.vid(recv, at), c.F, fb.versionAt(cls, at)))
	if c.Arg == -3 || c.Arg == -4 {
		// an integer parameter: non-negative / the cursor plus it stays within the buffer
		var pl lin
		okP := false
		if int(c.K) < len(args) {
			pl, okP = fb.linOf(args[c.K], at, 0)
		}
		if !okP {
			return constraint{linConst(-1), c.key() + " (argument not linear)"} // unsatisfiable: the candidate is dropped
		}
		if c.Arg == -3 {
			return geq(pl, linConst(0), c.key())
		}
		clsG := "fld:" + c.T.String() + "." + c.G
		gl := linVar(fmt.Sprintf("len:mem(%s.%s@%s)", fb.vid(recv, at), c.G, fb.versionAt(clsG, at)))
		return geq(gl, fv.add(pl), c.key())
	}
	if c.Arg == -2 {
		clsG := "fld:" + c.T.String() + "." + c.G
		gl := linVar(fmt.Sprintf("len:mem(%s.%s@%s)", fb.vid(recv, at), c.G, fb.versionAt(clsG, at)))
		return gt(gl, fv, c.key())
	}
	return geq(fv, c.bound(fb, args, at), c.key())
}

// bound: the right-hand side of the candidate, over the given argument values.
func (c preCand) bound(fb *fnBounds, args []ssa.Value, at ssa.Instruction) lin {
	if c.Arg < 0 {
		return linConst(c.K)
	}
	return fb.lenOf(args[c.Arg], at, 0)
}

func recvStruct(fn *ssa.Function) *types.Named {
	if len(fn.Params) == 0 {
		return nil
	}
	pt, ok := fn.Params[0].Type().Underlying().(*types.Pointer)
	if !ok {
		return nil
	}
	n, _ := namedStruct(pt.Elem())
	return n
}

func intFields(T *types.Named) []string {
	st := T.Underlying().(*types.Struct)
	var out []string
	for i := 0; i < st.NumFields(); i++ {
		if st.Field(i).Type() == types.Typ[types.Int] {
			out = append(out, st.Field(i).Name())
		}
	}
	return out
}

func (bp *boundsProver) postCandidates(fn *ssa.Function) []postCand {
	T := recvStruct(fn)
	res := fn.Signature.Results()
	if T == nil || res.Len() != 1 || !isStringType(res.At(0).Type()) {
		return nil
	}
	var out []postCand
	for _, f := range intFields(T) {
		out = append(out, postCand{fn, T, f})
	}
	return out
}

func (bp *boundsProver) preCandidates(fn *ssa.Function) []preCand {
	T := recvStruct(fn)
	if T == nil {
		return nil
	}
	var out []preCand
	for i, p := range fn.Params {
		if i == 0 || !isStringType(p.Type()) {
			continue
		}
		for _, f := range intFields(T) {
			out = append(out, preCand{Fn: fn, T: T, F: f, Arg: i})
		}
	}
	// s.g[s.f] with g a string/slice field and f an int field of the receiver: "f is below len(g)" (a
	// getter of the current element that is only valid while something is left)
	for _, b := range fn.Blocks {
		for _, in := range b.Instrs {
			var x, idx ssa.Value
			switch t := in.(type) {
			case *ssa.Lookup:
				x, idx = t.X, t.Index
			case *ssa.Index:
				x, idx = t.X, t.Index
			case *ssa.IndexAddr:
				x, idx = t.X, t.Index
			default:
				continue
			}
			lx, ok1 := x.(*ssa.UnOp)
			li, ok2 := idx.(*ssa.UnOp)
			if !ok1 || !ok2 || lx.Op != token.MUL || li.Op != token.MUL {
				continue
			}
			fx, ok1 := lx.X.(*ssa.FieldAddr)
			fi, ok2 := li.X.(*ssa.FieldAddr)
			if !ok1 || !ok2 || fx.X != ssa.Value(fn.Params[0]) || fi.X != ssa.Value(fn.Params[0]) {
				continue
			}
			c := preCand{Fn: fn, T: T, F: fieldOf(fi).Field, Arg: -2, G: fieldOf(fx).Field}
			dup := false
			for _, o := range out {
				if o.key() == c.key() {
					dup = true
				}
			}
			if !dup {
				out = append(out, c)
			}
		}
	}
	// an integer parameter added to a cursor field (advance(n)): n ≥ 0 and cursor + n ≤ len(buffer)
	for pi, prm := range fn.Params {
		if pi == 0 || !isIntType(prm.Type()) {
			continue
		}
		used := false
		for _, ref := range *prm.Referrers() {
			if bo, ok := ref.(*ssa.BinOp); ok && bo.Op == token.ADD {
				used = true
			}
		}
		if !used {
			continue
		}
		out = append(out, preCand{Fn: fn, T: T, Arg: -3, K: int64(pi)})
		for _, ic := range bp.invCandidates(T) {
			if ic.G != "" && ic.GIsStr {
				out = append(out, preCand{Fn: fn, T: T, F: ic.F, Arg: -4, K: int64(pi), G: ic.G})
			}
		}
	}
	// field - K with a positive constant K in the body: "the field is at least K" (a helper that steps
	// the cursor back by the length of something its caller has just matched)
	seen := map[string]bool{}
	for _, b := range fn.Blocks {
		for _, in := range b.Instrs {
			bo, ok := in.(*ssa.BinOp)
			if !ok || bo.Op != token.SUB {
				continue
			}
			k, ok := bo.Y.(*ssa.Const)
			if !ok || k.Value == nil || !isIntType(k.Type()) || k.Int64() <= 0 {
				continue
			}
			ld, ok := bo.X.(*ssa.UnOp)
			if !ok || ld.Op != token.MUL {
				continue
			}
			fa, ok := ld.X.(*ssa.FieldAddr)
			if !ok || fa.X != ssa.Value(fn.Params[0]) {
				continue
			}
			fname := fieldOf(fa).Field
			c := preCand{Fn: fn, T: T, F: fname, Arg: -1, K: k.Int64()}
			if !seen[c.key()] {
				seen[c.key()] = true
				out = append(out, c)
			}
		}
	}
	return out
}

// ---------------------------------------------------------------------------------------------
// facts available just before instruction `at`

func (fb *fnBounds) factsBefore(at ssa.Instruction) []constraint {
	var cs []constraint
	bp := fb.bp
	blk := at.Block()
	// branch facts
	var conds []condFact
	for cf := range fb.facts[blk.Index] {
		conds = append(conds, cf)
	}
	sort.Slice(conds, func(i, j int) bool { return conds[i].c.Name() < conds[j].c.Name() })
	for _, cf := range conds {
		ci, _ := cf.c.(ssa.Instruction)
		where := at
		if ci != nil {
			where = ci
		}
		cs = append(cs, fb.condConstraints(cf.c, cf.pol, where, 0)...)
	}
	// entry assumptions
	entry := fb.entryInstr()
	for _, T := range bp.structTypes() {
		for _, c := range bp.invCandidates(T) {
			if !bp.cand[c.key()] {
				continue
			}
			for _, prm := range fb.fn.Params {
				if pt, ok := prm.Type().Underlying().(*types.Pointer); ok && types.Identical(pt.Elem(), T) {
					cs = append(cs, fb.invConstraint(c, prm, entry, false))
				}
			}
		}
	}
	for _, c := range bp.preCandidates(fb.fn) {
		if bp.cand[c.key()] {
			var prms []ssa.Value
			for _, prm := range fb.fn.Params {
				prms = append(prms, prm)
			}
			cs = append(cs, c.constraint(fb, fb.fn.Params[0], prms, entry))
		}
	}
	cs = append(cs, fb.closureContract()...)
	// facts established by dominating instructions
	for _, b := range fb.fn.Blocks {
		if !(b == blk || b.Dominates(blk)) {
			continue
		}
		for _, in := range b.Instrs {
			if b == blk && fb.order[in] >= fb.order[at] {
				break
			}
			cs = append(cs, fb.postFacts(in)...)
		}
	}
	// join-point invariants of dominating phis
	for _, b := range fb.fn.Blocks {
		if !(b == blk || b.Dominates(blk)) {
			continue
		}
		for _, in := range b.Instrs {
			phi, ok := in.(*ssa.Phi)
			if !ok {
				break
			}
			if b == blk && fb.order[in] >= fb.order[at] {
				break
			}
			if pv, ok := phiVar(phi); ok {
				for _, pc := range fb.phiInv[phi] {
					if pc.alive {
						cs = append(cs, pc.mk(linVar(pv)))
					}
				}
			}
		}
		for _, bc := range fb.blockInv[b] {
			if bc.alive {
				cs = append(cs, bc.fact)
			}
		}
	}
	// lengths are non-negative
	seen := map[string]bool{}
	n := len(cs)
	for i := 0; i < n; i++ {
		for v := range cs[i].e.c {
			if strings.HasPrefix(v, "len:") && !seen[v] {
				seen[v] = true
				cs = append(cs, geq(linVar(v), linConst(0), "len ≥ 0"))
			}
		}
	}
	// integer disequalities that hold here (x != y on this path): with x ≤ y known they give x < y, with
	// x ≥ y known x > y (the `i == len(s) || s[i] …` idiom)
	for _, cf := range conds {
		bo, ok := cf.c.(*ssa.BinOp)
		if !ok || !isIntType(bo.X.Type()) || !(bo.Op == token.NEQ && cf.pol || bo.Op == token.EQL && !cf.pol) {
			continue
		}
		x, okx := fb.linOf(bo.X, bo, 0)
		y, oky := fb.linOf(bo.Y, bo, 0)
		if !okx || !oky {
			continue
		}
		why := fmt.Sprintf("branch %s != %s", describeIdx(bo.X), describeIdx(bo.Y))
		if g := geq(y, x, why); entails(addLenNonNeg(cs, g), g) {
			cs = append(cs, gt(y, x, why))
		} else if g := geq(x, y, why); entails(addLenNonNeg(cs, g), g) {
			cs = append(cs, gt(x, y, why))
		}
	}
	return cs
}

func addLenNonNeg(cs []constraint, g constraint) []constraint {
	for v := range g.e.c {
		if strings.HasPrefix(v, "len:") {
			cs = append(cs, geq(linVar(v), linConst(0), "len ≥ 0"))
		}
	}
	return cs
}

// postFacts: what holds once instruction `in` has executed without panicking.
func (fb *fnBounds) postFacts(in ssa.Instruction) []constraint {
	bp := fb.bp
	var cs []constraint
	switch t := in.(type) {
	case *ssa.Store:
		if fa, ok := t.Addr.(*ssa.FieldAddr); ok {
			fk := fieldOf(fa)
			cls := "fld:" + fk.String()
			name := fmt.Sprintf("mem(%s.%s@%s)", fb.vid(fa.X, t), fk.Field, fb.versionAfter(cls, t))
			if isIntType(t.Val.Type()) {
				if l, ok := fb.linOf(t.Val, t, 0); ok {
					cs = append(cs, eqs(linVar(name), l, "stored value")...)
				}
			} else if isStringType(t.Val.Type()) || kindOf(t.Val.Type()) == KSlice {
				cs = append(cs, eqs(linVar("len:"+name), fb.lenOf(t.Val, t, 0), "stored value")...)
			}
		}
	case *ssa.Alloc:
		// a fresh struct is zeroed
		if n, st := namedStruct(t.Type().Underlying().(*types.Pointer).Elem()); n != nil {
			for i := 0; i < st.NumFields(); i++ {
				f := st.Field(i)
				cls := "fld:" + n.String() + "." + f.Name()
				name := fmt.Sprintf("mem(%s.%s@%s)", fb.vid(t, t), f.Name(), fb.versionAfter(cls, t))
				if isIntType(f.Type()) {
					cs = append(cs, eqs(linVar(name), linConst(0), "zeroed allocation")...)
				} else if isStringType(f.Type()) || kindOf(f.Type()) == KSlice {
					cs = append(cs, eqs(linVar("len:"+name), linConst(0), "zeroed allocation")...)
				}
			}
		}
	case *ssa.Slice:
		// executed without panic: 0 ≤ lo ≤ hi ≤ len(x)
		lo, okLo := linConst(0), true
		if t.Low != nil {
			lo, okLo = fb.linOf(t.Low, t, 0)
		}
		hi, okHi := fb.lenOf(t.X, t, 0), true
		if t.High != nil {
			hi, okHi = fb.linOf(t.High, t, 0)
		}
		if okLo && okHi {
			why := "slice expression succeeded"
			cs = append(cs, geq(lo, linConst(0), why), geq(hi, lo, why))
			if _, isStr := t.X.Type().Underlying().(*types.Basic); isStr {
				cs = append(cs, geq(fb.lenOf(t.X, t, 0), hi, why))
			}
		}
	case *ssa.IndexAddr:
		if i, ok := fb.linOf(t.Index, t, 0); ok {
			why := "index expression succeeded"
			cs = append(cs, geq(i, linConst(0), why), gt(fb.lenOf(t.X, t, 0), i, why))
		}
	case *ssa.BinOp:
		// definitions of x>>k, x/k, x%k, x&k for an unsigned x and a constant k (bitmap and bucket
		// arithmetic): the result is a fresh variable tied to x by linear facts
		if !isIntType(t.Type()) || !isUnsignedType(t.X.Type()) {
			break
		}
		k, isK := t.Y.(*ssa.Const)
		if !isK || k.Value == nil {
			break
		}
		kv, exact := constant.Int64Val(constant.ToInt(k.Value))
		if !exact || kv < 0 {
			break
		}
		x, okx := fb.linOf(t.X, t, 0)
		if !okx {
			break
		}
		res := linVar(ssaName(t))
		why := "definition of " + describeIdx(t)
		cs = append(cs, geq(x, linConst(0), "unsigned operand"))
		if max := unsignedMax(t.X.Type()); max > 0 {
			cs = append(cs, geq(linConst(max), x, "unsigned operand"))
		}
		switch t.Op {
		case token.SHR, token.QUO:
			var div int64
			if t.Op == token.SHR {
				if kv > 62 {
					break
				}
				div = int64(1) << uint(kv)
			} else {
				div = kv
			}
			if div <= 0 {
				break
			}
			// div·r ≤ x ≤ div·r + div − 1
			cs = append(cs, geq(res, linConst(0), why), geq(x, res.scale(big.NewRat(div, 1)), why), geq(res.scale(big.NewRat(div, 1)).addK(div-1), x, why))
		case token.REM:
			if kv > 0 {
				cs = append(cs, geq(res, linConst(0), why), geq(linConst(kv-1), res, why), geq(x, res, why))
			}
		case token.AND:
			cs = append(cs, geq(res, linConst(0), why), geq(linConst(kv), res, why), geq(x, res, why))
		}
	case *ssa.Call:
		callee := t.Call.StaticCallee()
		if callee == nil {
			// one of a known set of in-module functions: the object invariants hold again for every
			// object handed to it (they are properties of the type, re-established by every function)
			if _, ok := bp.dynTargets(t); ok {
				done := map[ssa.Value]bool{}
				for _, a := range dynArgs(t) {
					pt, ok := a.Type().Underlying().(*types.Pointer)
					if !ok {
						continue
					}
					n, _ := namedStruct(pt.Elem())
					if n == nil {
						continue
					}
					done[a] = true
					for _, c := range bp.invCandidates(n) {
						if bp.cand[c.key()] {
							cs = append(cs, fb.invConstraint(c, a, t, true))
						}
					}
				}
				// the target may have been bound to an object of this function when it was made a value
				// (t.parseAnd handed to a combinator): for a type whose fields are only ever written through
				// a function's own parameters and locals, every function re-establishes the invariant of
				// whatever object it wrote, so it holds again for every object in scope here
				for _, T := range bp.structTypes() {
					if !bp.writtenThroughBasesOnly(T) {
						continue
					}
					for _, base := range fb.basesOf(T) {
						if done[base] {
							continue
						}
						if bi, ok := base.(ssa.Instruction); ok && !fb.dominatesInstr(bi, t) {
							continue
						}
						for _, c := range bp.invCandidates(T) {
							if bp.cand[c.key()] {
								cs = append(cs, fb.invConstraint(c, base, t, true))
							}
						}
					}
				}
			}
			return cs
		}
		if !bp.p.InModule(callee) {
			switch callee.String() {
			case "strings.TrimPrefix", "strings.TrimSuffix", "strings.TrimSpace", "strings.TrimLeft", "strings.TrimRight", "strings.Trim":
				cs = append(cs, geq(fb.lenOf(t.Call.Args[0], t, 0), linVar("len:"+ssaName(t)), callee.Name()+" never lengthens"))
			case "strings.ToLower", "strings.ToUpper":
			case "strings.CutSuffix", "strings.CutPrefix":
				for _, ref := range *t.Referrers() {
					if ex, ok := ref.(*ssa.Extract); ok && ex.Index == 0 {
						cs = append(cs, geq(fb.lenOf(t.Call.Args[0], t, 0), linVar("len:"+ssaName(ex)), callee.Name()+" never lengthens"))
					}
				}
			case "strings.Index", "strings.LastIndex", "strings.IndexByte", "strings.IndexRune", "strings.IndexAny":
				cs = append(cs, geq(linVar(ssaName(t)), linConst(-1), callee.Name()+" result contract"), gt(fb.lenOf(t.Call.Args[0], t, 0), linVar(ssaName(t)), callee.Name()+" result contract"))
			}
			if o := callee.Origin(); o != nil && o.Pkg != nil && o.Pkg.Pkg.Path() == "slices" {
				switch o.Name() {
				case "IndexFunc", "Index":
					// -1 ≤ result < len(s)
					cs = append(cs, geq(linVar(ssaName(t)), linConst(-1), "slices."+o.Name()+" result contract"), gt(fb.lenOf(t.Call.Args[0], t, 0), linVar(ssaName(t)), "slices."+o.Name()+" result contract"))
				}
			}
			return cs
		}
		if ti := bp.transparent(callee); ti != nil && len(ti.updates) > 0 {
			// as if inlined: exactly these field updates, nothing re-established
			for _, u := range ti.updates {
				cls := "fld:" + u.fk.String()
				before := linVar(fmt.Sprintf("mem(%s.%s@%s)", fb.vid(t.Call.Args[0], t), u.fk.Field, fb.versionAt(cls, t)))
				after := linVar(fmt.Sprintf("mem(%s.%s@%s)", fb.vid(t.Call.Args[0], t), u.fk.Field, fb.versionAfter(cls, t)))
				if d, ok := fb.renameCallee(u.delta, callee, t, false); ok {
					cs = append(cs, eqs(after, before.add(d), callee.Name()+" moves "+u.fk.Field+" by its argument")...)
				}
			}
			return cs
		}
		// integer results that are positions in an argument: result < len(argument) (a "not found"
		// result is a negative constant, for which this holds trivially)
		if res := callee.Signature.Results(); res.Len() >= 1 {
			for k := 0; k < res.Len(); k++ {
				if !isIntType(res.At(k).Type()) {
					continue
				}
				pi, ok := bp.intResultBelowLen(callee, k)
				if !ok || pi >= len(t.Call.Args) {
					continue
				}
				var rv ssa.Value
				if res.Len() == 1 {
					rv = t
				} else {
					for _, ref := range *t.Referrers() {
						if ex, ok := ref.(*ssa.Extract); ok && ex.Index == k {
							rv = ex
						}
					}
				}
				if rv != nil {
					cs = append(cs, gt(fb.lenOf(t.Call.Args[pi], t, 0), linVar(ssaName(rv)), fmt.Sprintf("%s result #%d is a position in its argument #%d (or negative)", callee.Name(), k, pi)))
				}
			}
		}
		// object invariants re-established by the callee for the objects passed to it
		for i, prm := range callee.Params {
			pt, ok := prm.Type().Underlying().(*types.Pointer)
			if !ok || i >= len(t.Call.Args) {
				continue
			}
			n, _ := namedStruct(pt.Elem())
			if n == nil {
				continue
			}
			for _, c := range bp.invCandidates(n) {
				if bp.cand[c.key()] {
					cs = append(cs, fb.invConstraint(c, t.Call.Args[i], t, true))
				}
			}
		}
		for _, c := range bp.postCandidates(callee) {
			if bp.cand[c.key()] {
				cls := "fld:" + c.T.String() + "." + c.F
				f := linVar(fmt.Sprintf("mem(%s.%s@%s)", fb.vid(t.Call.Args[0], t), c.F, fb.versionAfter(cls, t)))
				cs = append(cs, geq(f, linVar("len:"+ssaName(t)), c.key()))
			}
		}
	}
	return cs
}

// closureContract: facts at entry of a comparator passed to sort.Slice: both indices are in range of
// the sorted slice, whose length the comparator cannot change.
func (fb *fnBounds) closureContract() []constraint {
	fn := fb.fn
	// a comparator method of a slice type handed to sort.Slice as a bound method value of the very slice that
	// is sorted (sort.Slice(xs, byKey(xs).less)): both indices are in range of the receiver
	if fn.Parent() == nil && fn.Signature.Recv() != nil && len(fn.Params) == 3 && isIntType(fn.Params[1].Type()) && isIntType(fn.Params[2].Type()) && kindOf(fn.Params[0].Type()) == KSlice {
		p := fb.bp.p
		sites, other := 0, 0
		strip := func(v ssa.Value) ssa.Value {
			for {
				if ct, ok := v.(*ssa.ChangeType); ok {
					v = ct.X
					continue
				}
				return v
			}
		}
		for _, g := range p.RList {
			for _, b := range g.Blocks {
				for _, in := range b.Instrs {
					switch t := in.(type) {
					case *ssa.MakeClosure:
						w, ok := t.Fn.(*ssa.Function)
						if !ok || unwrapThunk(p, w) != fn || w == fn {
							continue
						}
						okSite := len(t.Bindings) == 1
						for _, r := range *t.Referrers() {
							call, isCall := r.(*ssa.Call)
							if !isCall {
								if _, isDbg := r.(*ssa.DebugRef); !isDbg {
									okSite = false
								}
								continue
							}
							callee := call.Call.StaticCallee()
							if callee == nil || (callee.String() != "sort.Slice" && callee.String() != "sort.SliceStable") {
								okSite = false
								continue
							}
							mi, isMI := call.Call.Args[0].(*ssa.MakeInterface)
							if !isMI || !okSite || strip(mi.X) != strip(t.Bindings[0]) {
								okSite = false
							}
						}
						if okSite {
							sites++
						} else {
							other++
						}
					case ssa.CallInstruction:
						if t.Common().StaticCallee() == fn {
							other++
						}
						for _, a := range t.Common().Args {
							if a == ssa.Value(fn) {
								other++
							}
						}
					}
				}
			}
		}
		if sites > 0 && other == 0 {
			L := fb.lenOf(fn.Params[0], fb.entryInstr(), 0)
			why := "sort.Slice index contract (bound comparator method of the sorted slice)"
			return []constraint{geq(linVar(ssaName(fn.Params[1])), linConst(0), why), gt(L, linVar(ssaName(fn.Params[1])), why),
				geq(linVar(ssaName(fn.Params[2])), linConst(0), why), gt(L, linVar(ssaName(fn.Params[2])), why)}
		}
		return nil
	}
	if fn.Parent() == nil || len(fn.Params) != 2 || !isIntType(fn.Params[0].Type()) || !isIntType(fn.Params[1].Type()) {
		return nil
	}
	// find the MakeClosure and the sort.Slice call using it
	for _, b := range fn.Parent().Blocks {
		for _, in := range b.Instrs {
			mc, ok := in.(*ssa.MakeClosure)
			if !ok || mc.Fn != fn {
				continue
			}
			for _, r := range *mc.Referrers() {
				call, ok := r.(*ssa.Call)
				if !ok {
					continue
				}
				callee := call.Call.StaticCallee()
				if callee == nil || (callee.String() != "sort.Slice" && callee.String() != "sort.SliceStable") {
					continue
				}
				mi, ok := call.Call.Args[0].(*ssa.MakeInterface)
				if !ok {
					continue
				}
				// the sorted slice X must be the value the closure sees: either a captured value or a
				// load of a captured cell that the closure never writes
				L := linVar("len:sorted@" + fn.String())
				var cs []constraint
				why := "sort.Slice index contract"
				cs = append(cs, geq(linVar(ssaName(fn.Params[0])), linConst(0), why), gt(L, linVar(ssaName(fn.Params[0])), why),
					geq(linVar(ssaName(fn.Params[1])), linConst(0), why), gt(L, linVar(ssaName(fn.Params[1])), why))
				tied := false
				for i, bind := range mc.Bindings {
					if i >= len(fn.FreeVars) {
						break
					}
					fv := fn.FreeVars[i]
					switch x := mi.X.(type) {
					case *ssa.UnOp:
						if x.Op == token.MUL && x.X == bind && !cellWrittenIn(fn, bind, mc) {
							// every load of fv inside the closure has this length
							for _, rr := range *fv.Referrers() {
								if ld, ok := rr.(*ssa.UnOp); ok && ld.Op == token.MUL {
									cs = append(cs, eqs(fb.lenOf(ld, ld, 0), L, why)...)
									tied = true
								}
							}
						}
					default:
						if mi.X == bind {
							cs = append(cs, eqs(fb.lenOf(fv, fb.entryInstr(), 0), L, why)...)
							tied = true
						}
					}
				}
				if !tied {
					return nil
				}
				return cs
			}
		}
	}
	return nil
}

// ---------------------------------------------------------------------------------------------
// join-point invariants (Houdini within a function)

// phiVar is the variable a join-point invariant speaks about: the phi itself for integers, its length
// for strings and slices.
func phiVar(phi *ssa.Phi) (string, bool) {
	switch {
	case isIntType(phi.Type()):
		return ssaName(phi), true
	case isStringType(phi.Type()) || kindOf(phi.Type()) == KSlice:
		return "len:" + ssaName(phi), true
	}
	return "", false
}

func (fb *fnBounds) phiEdge(phi *ssa.Phi, ei int, at ssa.Instruction) (lin, bool) {
	if isIntType(phi.Type()) {
		return fb.linOf(phi.Edges[ei], at, 0)
	}
	return fb.lenOf(phi.Edges[ei], at, 0), true
}

func (fb *fnBounds) inferPhiInvariants() {
	fn := fb.fn
	var phis []*ssa.Phi
	for _, b := range fn.Blocks {
		for _, in := range b.Instrs {
			if phi, ok := in.(*ssa.Phi); ok {
				if _, ok := phiVar(phi); ok {
					phis = append(phis, phi)
				}
			}
		}
	}
	fb.blockInv = map[*ssa.BasicBlock][]blockCand{}
	// object-invariant candidates at merge points (memory versions merge there)
	for _, b := range fn.Blocks {
		if len(b.Preds) < 2 {
			continue
		}
		first := b.Instrs[0]
		for _, T := range fb.bp.structTypes() {
			for _, base := range fb.basesOf(T) {
				if bi, ok := base.(ssa.Instruction); ok && !(bi.Block() != b && bi.Block().Dominates(b)) {
					continue
				}
				for _, c := range fb.bp.invCandidates(T) {
					if !fb.bp.cand[c.key()] {
						continue
					}
					c, base := c, base
					fb.blockInv[b] = append(fb.blockInv[b], blockCand{alive: true, desc: c.key() + " at merge",
						at:   func(at ssa.Instruction) constraint { return fb.invConstraint(c, base, at, false) },
						fact: fb.invConstraint(c, base, first, false)})
				}
			}
		}
	}
	// a cursor field does not fall below a value read from it before the join (a loop that only moves the
	// cursor forward: start := s.i; for … { s.i++ }; buf[start:s.i])
	for _, b := range fn.Blocks {
		if len(b.Preds) < 2 {
			continue
		}
		for _, db := range fn.Blocks {
			if db == b || !db.Dominates(b) {
				continue
			}
			for _, in := range db.Instrs {
				ld, ok := in.(*ssa.UnOp)
				if !ok || ld.Op != token.MUL || !isIntType(ld.Type()) {
					continue
				}
				fa, ok := ld.X.(*ssa.FieldAddr)
				if !ok {
					continue
				}
				if bi, ok := fa.X.(ssa.Instruction); ok && !(bi.Block() != b && bi.Block().Dominates(b)) {
					continue
				}
				old, ok := fb.linOf(ld, ld, 0)
				if !ok {
					continue
				}
				fk := fieldOf(fa)
				cls := "fld:" + fk.String()
				base := fa.X
				cur := func(at ssa.Instruction) constraint {
					return geq(linVar(fmt.Sprintf("mem(%s.%s@%s)", fb.vid(base, at), fk.Field, fb.versionAt(cls, at))), old, "the field has not fallen below an earlier value of it")
				}
				fb.blockInv[b] = append(fb.blockInv[b], blockCand{alive: true, desc: fmt.Sprintf("%s ≥ its value at %s, at merge", fk.Field, fb.bp.p.pos(ld.Pos())), at: cur, fact: cur(b.Instrs[0])})
			}
		}
	}
	// the function's own surviving strict preconditions on its receiver (cursor < len(buffer), cursor ≥ k)
	// as candidates at merge points: a loop that only calls non-advancing-on-failure readers keeps them
	if T := recvStruct(fn); T != nil {
		for _, c := range fb.bp.preCandidates(fn) {
			if c.Arg >= 0 || !fb.bp.cand[c.key()] || c.T != T {
				continue
			}
			c := c
			for _, b := range fn.Blocks {
				if len(b.Preds) < 2 {
					continue
				}
				fb.blockInv[b] = append(fb.blockInv[b], blockCand{alive: true, desc: c.key() + " at merge",
					at:   func(at ssa.Instruction) constraint { return c.constraint(fb, fn.Params[0], nil, at) },
					fact: c.constraint(fb, fn.Params[0], nil, b.Instrs[0])})
			}
		}
	}
	// candidate templates
	for _, phi := range phis {
		pv, _ := phiVar(phi)
		_ = pv
		var cands []phiCand
		for _, k := range []int64{-1, 0, 1, 2} {
			k := k
			cands = append(cands, phiCand{desc: fmt.Sprintf("%s ≥ %d", phi.Comment, k), alive: true,
				mk: func(x lin) constraint { return geq(x, linConst(k), "join invariant") }})
		}
		var others []lin
		var odesc []string
		seen := map[string]bool{}
		addOther := func(l lin, d string) {
			k := l.String()
			if seen[k] || len(others) > 24 {
				return
			}
			seen[k] = true
			others = append(others, l)
			odesc = append(odesc, d)
		}
		for _, q := range phis {
			if q != phi && q.Block() == phi.Block() {
				qv, _ := phiVar(q)
				addOther(linVar(qv), q.Comment)
				if isIntType(q.Type()) && isIntType(phi.Type()) {
					// two counters advancing together with a fixed lead (e.g. a write cursor behind a
					// range index that starts at -1 over a re-slice)
					addOther(linVar(qv).addK(1), q.Comment+"+1")
					addOther(linVar(qv).addK(2), q.Comment+"+2")
				}
			}
		}
		// the phi's own incoming values (in terms of dominating variables) and their neighbours
		for ei := range phi.Edges {
			last := phi.Block().Preds[ei].Instrs[len(phi.Block().Preds[ei].Instrs)-1]
			if l, ok := fb.phiEdge(phi, ei, last); ok && !l.isConst() {
				self := false
				for v := range l.c {
					if v == pv {
						self = true
					}
				}
				if !self {
					addOther(l, "incoming value")
				}
			}
		}
		for _, b := range fn.Blocks {
			if !b.Dominates(phi.Block()) || b == phi.Block() {
				continue
			}
			for _, in := range b.Instrs {
				switch c := in.(type) {
				case *ssa.Call:
					if bi, ok := c.Call.Value.(*ssa.Builtin); ok && bi.Name() == "len" {
						addOther(fb.lenOf(c.Call.Args[0], c, 0), "len("+describe(c.Call.Args[0])+")")
					} else if isStringType(c.Type()) || kindOf(c.Type()) == KSlice {
						// a string / slice obtained before the loop (rest := exp.rest()): its length bounds
						// counters that scan it
						addOther(fb.lenOf(c, c, 0), "len("+describe(c)+")")
					}
				case *ssa.Slice:
					if isStringType(c.Type()) || kindOf(c.Type()) == KSlice {
						addOther(fb.lenOf(c, c, 0), "len("+describe(c)+")")
					}
				case *ssa.BinOp:
					if isIntType(c.Type()) && (c.Op == token.ADD || c.Op == token.SUB) {
						if l, ok := fb.linOf(c, c, 0); ok {
							addOther(l, describeIdx(c))
						}
					}
				case *ssa.UnOp:
					// the length of a string/slice loaded from memory before the join
					if c.Op == token.MUL && (isStringType(c.Type()) || kindOf(c.Type()) == KSlice) {
						addOther(fb.lenOf(c, c, 0), "len("+describe(c)+")")
					}
				}
			}
		}
		for _, p := range fn.Params {
			if kindOf(p.Type()) == KSlice || isStringType(p.Type()) {
				addOther(fb.lenOf(p, fb.entryInstr(), 0), "len("+p.Name()+")")
			}
		}
		for i, o := range others {
			o := o
			cands = append(cands, phiCand{desc: fmt.Sprintf("%s ≤ %s", phi.Comment, odesc[i]), alive: true,
				mk: func(x lin) constraint { return geq(o, x, "join invariant") }})
			cands = append(cands, phiCand{desc: fmt.Sprintf("%s < %s", phi.Comment, odesc[i]), alive: true,
				mk: func(x lin) constraint { return gt(o, x, "join invariant") }})
			cands = append(cands, phiCand{desc: fmt.Sprintf("%s ≥ %s", phi.Comment, odesc[i]), alive: true,
				mk: func(x lin) constraint { return geq(x, o, "join invariant") }})
		}
		fb.phiInv[phi] = cands
	}
	edgeFacts := func(b *ssa.BasicBlock, ei int) ([]constraint, ssa.Instruction) {
		pred := b.Preds[ei]
		last := pred.Instrs[len(pred.Instrs)-1]
		facts := fb.factsBefore(last)
		if ifi, isIf := last.(*ssa.If); isIf && pred.Succs[0] != pred.Succs[1] {
			facts = append(facts, fb.condConstraints(ifi.Cond, pred.Succs[0] == b, last, 0)...)
		}
		return facts, last
	}
	// Houdini
	for changed := true; changed; {
		changed = false
		for b, bcs := range fb.blockInv {
			for ci := range bcs {
				bc := &fb.blockInv[b][ci]
				if !bc.alive {
					continue
				}
				for ei := range b.Preds {
					facts, last := edgeFacts(b, ei)
					goal := bc.at(last)
					facts = addLenNonNeg(facts, goal)
					if !entails(facts, goal) {
						bc.alive = false
						changed = true
						break
					}
				}
			}
		}
		for _, phi := range phis {
			b := phi.Block()
			for ci := range fb.phiInv[phi] {
				pc := &fb.phiInv[phi][ci]
				if !pc.alive {
					continue
				}
				ok := true
				for ei := range b.Preds {
					facts, last := edgeFacts(b, ei)
					ev, evOK := fb.phiEdge(phi, ei, last)
					if !evOK {
						ok = false
						break
					}
					// the other phis of this block mentioned by the candidate take their values on this edge;
					// the incoming value ev is already a pre-state term and must not be substituted again
					goal := pc.mk(linVar("$self"))
					goal = fb.substPhis(goal, b, ei, last)
					if c, ok := goal.e.c["$self"]; ok {
						rest := goal.e.clone()
						delete(rest.c, "$self")
						goal.e = rest.add(ev.scale(c))
					}
					facts = addLenNonNeg(facts, goal)
					if !entails(facts, goal) {
						if tf := os.Getenv("SPDXVERIF_TRACE_INV"); tf != "" && strings.Contains(fb.fn.Name()+"|"+pc.desc, tf) {
							fmt.Printf("INV-FAIL %s: %s on edge %d of block %d: goal %s\n", fb.fn.Name(), pc.desc, ei, b.Index, shortVars(goal.e.String()))
							for _, f := range facts {
								fmt.Printf("      fact %-50s [%s]\n", shortVars(f.e.String()), f.why)
							}
						}
						ok = false
						break
					}
				}
				if !ok {
					if tf := os.Getenv("SPDXVERIF_TRACE_INV"); tf != "" && strings.Contains(fb.fn.Name(), tf) {
						fmt.Printf("INV-DROP %s: %s\n", fb.fn.Name(), pc.desc)
					}
					pc.alive = false
					changed = true
				}
			}
		}
	}
}

// substPhis replaces, in a constraint about the state after entering block b via edge ei, the phis
// of b by the values they receive on that edge.
func (fb *fnBounds) substPhis(g constraint, b *ssa.BasicBlock, ei int, at ssa.Instruction) constraint {
	out := constraint{e: linConst(0), why: g.why}
	out.e.k.Set(g.e.k)
	for v, c := range g.e.c {
		repl := linVar(v)
		for _, in := range b.Instrs {
			phi, ok := in.(*ssa.Phi)
			if !ok {
				break
			}
			if pv, ok := phiVar(phi); ok && pv == v {
				if l, ok := fb.phiEdge(phi, ei, at); ok {
					repl = l
				}
			}
		}
		out.e = out.e.add(repl.scale(c))
	}
	return out
}

// ---------------------------------------------------------------------------------------------
// proving

func (fb *fnBounds) prove(at ssa.Instruction, goals []constraint) (bool, string) {
	facts := fb.factsBefore(at)
	for _, g := range goals {
		fs := addLenNonNeg(facts, g)
		if !entails(fs, g) {
			if tf := os.Getenv("SPDXVERIF_TRACE_FACTS"); tf != "" && strings.Contains(fb.fn.Name(), tf) {
				fmt.Printf("FAILED %s at %s: goal %s ≥ 0\n", fb.fn.Name(), fb.bp.p.pos(at.Pos()), shortVars(g.e.String()))
				for _, f := range fs {
					fmt.Printf("    fact %-60s  [%s]\n", shortVars(f.e.String())+" ≥ 0", f.why)
				}
			}
			return false, g.why + ": cannot show " + g.e.String() + " ≥ 0"
		}
	}
	return true, ""
}

// houdiniGlobal drops global candidates until the remaining set is inductive.
func (bp *boundsProver) houdiniGlobal(fns []*ssa.Function) {
	for _, T := range bp.structTypes() {
		for _, c := range bp.invCandidates(T) {
			bp.cand[c.key()] = true
		}
	}
	callers := map[*ssa.Function][]*ssa.Call{}
	for _, f := range fns {
		for _, b := range f.Blocks {
			for _, in := range b.Instrs {
				if c, ok := in.(*ssa.Call); ok {
					if callee := c.Call.StaticCallee(); callee != nil && bp.p.InModule(callee) {
						callers[callee] = append(callers[callee], c)
					}
				}
			}
		}
	}
	for _, f := range fns {
		for _, c := range bp.postCandidates(f) {
			bp.cand[c.key()] = true
		}
		for _, c := range bp.preCandidates(f) {
			if len(callers[f]) > 0 {
				bp.cand[c.key()] = true
			}
		}
	}
	for round := 0; round < 30; round++ {
		bp.resMemo = nil // derived result contracts are proved under the current assumptions: recompute
		bp.foundMemo = nil
		// phi invariants depend on the global assumptions: recompute each round
		for _, f := range fns {
			fb := bp.forFn(f)
			fb.phiInv = map[*ssa.Phi][]phiCand{}
			fb.inferPhiInvariants()
		}
		dropped := false
		drop := func(key, why string) {
			if bp.cand[key] {
				bp.cand[key] = false
				dropped = true
				bp.log = append(bp.log, fmt.Sprintf("dropped %s: %s", key, why))
			}
		}
		for _, f := range fns {
			fb := bp.forFn(f)
			if bp.eng.fnVisits[f] == 0 {
				continue
			}
			for _, b := range f.Blocks {
				for _, in := range b.Instrs {
					if bp.eng.visits[in] == 0 {
						continue // unreachable per engine-1
					}
					isRet := false
					dynCall := false
					var call *ssa.Call
					switch t := in.(type) {
					case *ssa.Return:
						isRet = true
						if ti := bp.transparent(f); ti != nil && len(ti.updates) > 0 {
							isRet = false // transparent mutator: its callers answer for the invariants
						}
					case *ssa.Call:
						if callee := t.Call.StaticCallee(); callee != nil && bp.p.InModule(callee) {
							if ti := bp.transparent(callee); ti != nil && len(ti.updates) > 0 && !hasBoundsObligation(callee) {
								// inlined in effect, and nothing in its body relies on the invariants: not a boundary
								continue
							}
							call = t
						} else if callee == nil {
							if ts, ok := bp.dynTargets(t); ok {
								// the targets assume the object invariants (checked below, like at a static
								// call); their own preconditions cannot be established at a dynamic site
								dynCall = true
								for _, tg := range ts {
									for _, c := range bp.preCandidates(tg) {
										drop(c.key(), fmt.Sprintf("callee reachable through the dynamic call at %s", bp.p.pos(t.Pos())))
									}
								}
							}
						}
					}
					if !isRet && call == nil && !dynCall {
						continue
					}
					// object invariants hold at every call boundary and return for the objects in scope
					for _, T := range bp.structTypes() {
						cands := bp.invCandidates(T)
						for _, base := range fb.basesOf(T) {
							if bi, ok := base.(ssa.Instruction); ok && !fb.dominatesInstr(bi, in) {
								continue
							}
							for _, c := range cands {
								if !bp.cand[c.key()] {
									continue
								}
								g := fb.invConstraint(c, base, in, false)
								if ok, why := fb.prove(in, []constraint{g}); !ok {
									drop(c.key(), fmt.Sprintf("not established at %s in %s (%s)", bp.p.pos(in.Pos()), f.Name(), why))
								}
							}
						}
					}
					if isRet {
						ret := in.(*ssa.Return)
						for _, c := range bp.postCandidates(f) {
							if !bp.cand[c.key()] {
								continue
							}
							cls := "fld:" + c.T.String() + "." + c.F
							fv := linVar(fmt.Sprintf("mem(%s.%s@%s)", fb.vid(f.Params[0], in), c.F, fb.versionAt(cls, in)))
							g := geq(fv, fb.lenOf(ret.Results[0], in, 0), c.key())
							if ok, why := fb.prove(in, []constraint{g}); !ok {
								drop(c.key(), fmt.Sprintf("not established at return %s (%s)", bp.p.pos(in.Pos()), why))
							}
						}
					}
					if call != nil {
						callee := call.Call.StaticCallee()
						for _, c := range bp.preCandidates(callee) {
							if !bp.cand[c.key()] {
								continue
							}
							g := c.constraint(fb, call.Call.Args[0], call.Call.Args, in)
							if ok, why := fb.prove(in, []constraint{g}); !ok {
								drop(c.key(), fmt.Sprintf("not established at call %s (%s)", bp.p.pos(in.Pos()), why))
							}
						}
					}
				}
			}
		}
		if !dropped {
			break
		}
	}
	bp.resMemo = nil
	bp.foundMemo = nil
	for _, f := range fns {
		fb := bp.forFn(f)
		fb.phiInv = map[*ssa.Phi][]phiCand{}
		fb.inferPhiInvariants()
	}
}

// ---------------------------------------------------------------------------------------------
// the rule

func rulesBounds(p *Prog, r *Report) {
	r.Rule("B", "sufficient", 40, "bounds: every index, slice and string-index expression is within range, by linear entailment from the facts that hold at that point on all paths (or the instruction is unreachable)")
	eng := sharedEngine(p)
	bp := newBoundsProver(p, eng)
	bp.houdiniGlobal(p.RList)
	var alive, dead []string
	for k, v := range bp.cand {
		if v {
			alive = append(alive, k)
		} else {
			dead = append(dead, k)
		}
	}
	sort.Strings(alive)
	sort.Strings(dead)
	r.Extra["bounds_inferred_contracts"] = alive
	r.Extra["bounds_dropped_candidates"] = len(dead)
	r.Extra["bounds_houdini_log"] = bp.log
	if os.Getenv("SPDXVERIF_TRACE_BOUNDS") != "" {
		for _, l := range bp.log {
			fmt.Println("HOUDINI", l)
		}
		fmt.Println("ALIVE", alive)
	}

	for _, f := range p.RList {
		fb := bp.forFn(f)
		key := p.shortKey(f)
		for _, b := range f.Blocks {
			for _, in := range b.Instrs {
				var goals []constraint
				switch t := in.(type) {
				case *ssa.IndexAddr:
					if _, isPtr := t.X.Type().Underlying().(*types.Pointer); isPtr {
						// constant index into an array
						if c, ok := t.Index.(*ssa.Const); ok {
							at := t.X.Type().Underlying().(*types.Pointer).Elem().Underlying().(*types.Array)
							if c.Int64() >= 0 && c.Int64() < at.Len() {
								r.OK("B", key+"|"+instrDesc(in), p.pos(in.Pos()), "constant index into array", "", false)
								continue
							}
						}
					}
					i, ok := fb.linOf(t.Index, t, 0)
					if !ok {
						r.Unknown("B", key+"|"+instrDesc(in), p.pos(in.Pos()), "kind=undecided: index is not a linear integer expression")
						continue
					}
					goals = []constraint{geq(i, linConst(0), "index ≥ 0"), gt(fb.lenOf(t.X, t, 0), i, "index < len")}
				case *ssa.Index:
					i, ok := fb.linOf(t.Index, t, 0)
					if !ok {
						r.Unknown("B", key+"|"+instrDesc(in), p.pos(in.Pos()), "kind=undecided: index is not a linear integer expression")
						continue
					}
					goals = []constraint{geq(i, linConst(0), "index ≥ 0"), gt(fb.lenOf(t.X, t, 0), i, "index < len")}
				case *ssa.Lookup:
					if _, isMap := t.X.Type().Underlying().(*types.Map); isMap {
						continue
					}
					i, ok := fb.linOf(t.Index, t, 0)
					if !ok {
						r.Unknown("B", key+"|"+instrDesc(in), p.pos(in.Pos()), "kind=undecided: index is not a linear integer expression")
						continue
					}
					goals = []constraint{geq(i, linConst(0), "index ≥ 0"), gt(fb.lenOf(t.X, t, 0), i, "index < len")}
				case *ssa.Slice:
					if t.Low == nil && t.High == nil && t.Max == nil {
						r.OK("B", key+"|"+instrDesc(in), p.pos(in.Pos()), "full slice", "", false)
						continue
					}
					lo, okLo := linConst(0), true
					if t.Low != nil {
						lo, okLo = fb.linOf(t.Low, t, 0)
					}
					hi, okHi := fb.lenOf(t.X, t, 0), true
					if t.High != nil {
						hi, okHi = fb.linOf(t.High, t, 0)
					}
					if !okLo || !okHi || t.Max != nil {
						r.Unknown("B", key+"|"+instrDesc(in), p.pos(in.Pos()), "kind=undecided: slice bounds are not linear integer expressions")
						continue
					}
					goals = []constraint{geq(lo, linConst(0), "low ≥ 0"), geq(hi, lo, "low ≤ high"), geq(fb.lenOf(t.X, t, 0), hi, "high ≤ len")}
				case *ssa.Call:
					// slices.Grow(s, n) panics for a negative n
					callee := t.Call.StaticCallee()
					if callee == nil || len(t.Call.Args) != 2 {
						continue
					}
					o := callee.Origin()
					if o == nil || o.Pkg == nil || o.Pkg.Pkg.Path() != "slices" || o.Name() != "Grow" {
						continue
					}
					n, ok := fb.linOf(t.Call.Args[1], t, 0)
					if !ok {
						r.Unknown("B", key+"|"+instrDesc(in), p.pos(in.Pos()), "kind=undecided: the count given to slices.Grow is not a linear integer expression")
						continue
					}
					goals = []constraint{geq(n, linConst(0), "slices.Grow count ≥ 0")}
				default:
					continue
				}
				ikey := key + "|" + instrDesc(in)
				pos := p.pos(in.Pos())
				if eng.fnVisits[f] > 0 && eng.visits[in] == 0 {
					r.OK("B", ikey, pos, "unreachable", "no abstract state of the interpreter reaches this instruction", true)
					continue
				}
				if ok, why := fb.prove(in, goals); ok {
					r.OK("B", ikey, pos, "entailed", fmt.Sprintf("%d goals from %d facts", len(goals), len(fb.factsBefore(in))), true)
				} else {
					r.Bad("B", ikey, pos, why)
				}
			}
		}
	}
}

func shortVars(s string) string {
	for {
		i := strings.Index(s, "(*github.com/")
		if i < 0 {
			i = strings.Index(s, "github.com/")
			if i < 0 {
				return s
			}
		}
		j := strings.Index(s[i:], "::")
		if j < 0 {
			return s
		}
		s = s[:i] + s[i+j+2:]
	}
}

// intResultBelowLen: result #k of fn is, at every return, either a negative constant or provably below
// the length of one and the same slice/string parameter; returns that parameter's index.
func (bp *boundsProver) intResultBelowLen(fn *ssa.Function, k int) (int, bool) {
	key := fmt.Sprintf("%s#%d", fn.String(), k)
	if bp.resMemo == nil {
		bp.resMemo = map[string]int{}
	}
	if v, ok := bp.resMemo[key]; ok {
		return v, v >= 0
	}
	bp.resMemo[key] = -1
	fb := bp.forFn(fn)
	for pi, prm := range fn.Params {
		kd := kindOf(prm.Type())
		if kd != KSlice && !isStringType(prm.Type()) {
			continue
		}
		all, n := true, 0
		for _, b := range fn.Blocks {
			ret, ok := b.Instrs[len(b.Instrs)-1].(*ssa.Return)
			if !ok || k >= len(ret.Results) {
				continue
			}
			if c, ok := ret.Results[k].(*ssa.Const); ok && c.Value != nil && c.Int64() < 0 {
				continue
			}
			n++
			v, okV := fb.linOf(ret.Results[k], ret, 0)
			if !okV {
				all = false
				break
			}
			if ok, _ := fb.prove(ret, []constraint{gt(fb.lenOf(prm, ret, 0), v, "result below len(param)")}); !ok {
				all = false
				break
			}
		}
		if all && n > 0 {
			bp.resMemo[key] = pi
			return pi, true
		}
	}
	return -1, false
}

// hasBoundsObligation: fn indexes or slices something (its body relies on facts about sizes).
func hasBoundsObligation(fn *ssa.Function) bool {
	for _, b := range fn.Blocks {
		for _, in := range b.Instrs {
			switch in.(type) {
			case *ssa.Slice, *ssa.Index, *ssa.IndexAddr, *ssa.Lookup:
				return true
			}
		}
	}
	return false
}

// writtenThroughBasesOnly: every store to a field of T in the module goes through a parameter or a local
// allocation of the storing function (never through a pointer loaded from elsewhere, a free variable or a
// global), so the invariant check at that function's returns covers the object that was written.
func (bp *boundsProver) writtenThroughBasesOnly(T *types.Named) bool {
	if bp.basesOnly == nil {
		bp.basesOnly = map[*types.Named]bool{}
	}
	if v, ok := bp.basesOnly[T]; ok {
		return v
	}
	res := true
	for _, pk := range bp.p.Pkgs {
		for _, f := range bp.p.AllModuleFuncs(pk) {
			for _, b := range f.Blocks {
				for _, in := range b.Instrs {
					st, ok := in.(*ssa.Store)
					if !ok {
						continue
					}
					fa, ok := st.Addr.(*ssa.FieldAddr)
					if !ok {
						continue
					}
					pt, ok := fa.X.Type().Underlying().(*types.Pointer)
					if !ok || !types.Identical(pt.Elem(), T) {
						continue
					}
					switch fa.X.(type) {
					case *ssa.Parameter, *ssa.Alloc:
					default:
						res = false
					}
				}
			}
		}
	}
	bp.basesOnly[T] = res
	return res
}

func isUnsignedType(t types.Type) bool {
	b, ok := t.Underlying().(*types.Basic)
	return ok && b.Info()&types.IsUnsigned != 0
}

// unsignedMax: the largest value of a small unsigned type (0 when it does not fit an int64 comfortably).
func unsignedMax(t types.Type) int64 {
	b, ok := t.Underlying().(*types.Basic)
	if !ok {
		return 0
	}
	switch b.Kind() {
	case types.Uint8:
		return 255
	case types.Uint16:
		return 65535
	case types.Uint32:
		return 1<<32 - 1
	}
	return 0
}

// foundContract: a fact about integer result #K (or integer field KF of struct result #K) of a (…, bool)
// function that holds at every return whose bool result is not the constant false. Kind 0: result ≥ 0;
// 1: result < len(param P); 2: result < len(param P [result J (field JF)]).
type foundContract struct {
	K, Kind, P, J int
	KF, JF        string
	desc          string
}

type virtResult struct {
	K int
	F string // "" for an integer result, else the integer field of a struct result
}

func (v virtResult) String() string {
	if v.F == "" {
		return fmt.Sprintf("#%d", v.K)
	}
	return fmt.Sprintf("#%d.%s", v.K, v.F)
}

func (bp *boundsProver) foundContracts(fn *ssa.Function) []foundContract {
	if bp.foundMemo == nil {
		bp.foundMemo = map[*ssa.Function][]foundContract{}
	}
	if v, ok := bp.foundMemo[fn]; ok {
		return v
	}
	bp.foundMemo[fn] = nil
	res := fn.Signature.Results()
	n := res.Len()
	if n < 2 || len(fn.Blocks) == 0 || !isBoolType(res.At(n-1).Type()) {
		return nil
	}
	var rets []*ssa.Return
	for _, b := range fn.Blocks {
		ret, ok := b.Instrs[len(b.Instrs)-1].(*ssa.Return)
		if !ok || len(ret.Results) != n {
			continue
		}
		if c, ok := ret.Results[n-1].(*ssa.Const); ok && c.Value != nil && !constant.BoolVal(c.Value) {
			continue
		}
		rets = append(rets, ret)
	}
	if len(rets) == 0 {
		return nil
	}
	fb := bp.forFn(fn)
	var virt []virtResult
	for k := 0; k < n-1; k++ {
		if isIntType(res.At(k).Type()) {
			virt = append(virt, virtResult{K: k})
		} else if _, st := namedStruct(res.At(k).Type()); st != nil {
			for i := 0; i < st.NumFields(); i++ {
				if isIntType(st.Field(i).Type()) {
					virt = append(virt, virtResult{K: k, F: st.Field(i).Name()})
				}
			}
		}
	}
	// the value of a virtual result at a return
	valueAt := func(v virtResult, ret *ssa.Return) (lin, bool) {
		if v.F == "" {
			return fb.linOf(ret.Results[v.K], ret, 0)
		}
		ld, ok := ret.Results[v.K].(*ssa.UnOp)
		if !ok || ld.Op != token.MUL {
			return lin{}, false
		}
		al, ok := ld.X.(*ssa.Alloc)
		if !ok {
			return lin{}, false
		}
		nm, _ := namedStruct(al.Type().Underlying().(*types.Pointer).Elem())
		if nm == nil {
			return lin{}, false
		}
		cls := "fld:" + nm.String() + "." + v.F
		return linVar(fmt.Sprintf("mem(%s.%s@%s)", fb.vid(al, ld), v.F, fb.versionAt(cls, ld))), true
	}
	holds := func(goal func(ret *ssa.Return) (constraint, bool)) bool {
		for _, ret := range rets {
			g, ok := goal(ret)
			if !ok {
				return false
			}
			if ok, _ := fb.prove(ret, []constraint{g}); !ok {
				return false
			}
		}
		return true
	}
	var out []foundContract
	for _, vk := range virt {
		vk := vk
		if holds(func(ret *ssa.Return) (constraint, bool) {
			v, ok := valueAt(vk, ret)
			if !ok {
				return constraint{}, false
			}
			return geq(v, linConst(0), "result ≥ 0"), true
		}) {
			out = append(out, foundContract{K: vk.K, KF: vk.F, Kind: 0, desc: fmt.Sprintf("result %s is not negative", vk)})
		}
		for pi, prm := range fn.Params {
			if kindOf(prm.Type()) != KSlice && !isStringType(prm.Type()) {
				continue
			}
			pi, prm := pi, prm
			if holds(func(ret *ssa.Return) (constraint, bool) {
				v, ok := valueAt(vk, ret)
				if !ok {
					return constraint{}, false
				}
				return gt(fb.lenOf(prm, ret, 0), v, "result below len(param)"), true
			}) {
				out = append(out, foundContract{K: vk.K, KF: vk.F, Kind: 1, P: pi, desc: fmt.Sprintf("result %s is a position in argument #%d", vk, pi)})
				continue
			}
			// a position in the element of the parameter selected by another result
			sl, ok := prm.Type().Underlying().(*types.Slice)
			if !ok || kindOf(sl.Elem()) != KSlice && !isStringType(sl.Elem()) {
				continue
			}
			for _, vj := range virt {
				if vj == vk {
					continue
				}
				vj := vj
				if holds(func(ret *ssa.Return) (constraint, bool) {
					v, ok := valueAt(vk, ret)
					rj, okj := valueAt(vj, ret)
					if !ok || !okj {
						return constraint{}, false
					}
					// an element prm[idx] read in a block dominating the return with idx = result j
					for _, b := range fn.Blocks {
						if !(b == ret.Block() || b.Dominates(ret.Block())) {
							continue
						}
						for _, in := range b.Instrs {
							ld, ok := in.(*ssa.UnOp)
							if !ok || ld.Op != token.MUL {
								continue
							}
							ia, ok := ld.X.(*ssa.IndexAddr)
							if !ok || ia.X != ssa.Value(prm) {
								continue
							}
							il, ok := fb.linOf(ia.Index, ia, 0)
							if !ok {
								continue
							}
							eq1 := geq(il, rj, "same index")
							eq2 := geq(rj, il, "same index")
							if ok, _ := fb.prove(ret, []constraint{eq1, eq2}); !ok {
								continue
							}
							return gt(fb.lenOf(ld, ret, 0), v, "result below len(param[result])"), true
						}
					}
					return constraint{}, false
				}) {
					out = append(out, foundContract{K: vk.K, KF: vk.F, Kind: 2, P: pi, J: vj.K, JF: vj.F, desc: fmt.Sprintf("result %s is a position in the element of argument #%d selected by result %s", vk, pi, vj)})
				}
			}
		}
	}
	bp.foundMemo[fn] = out
	return out
}
