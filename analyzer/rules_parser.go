package main

import (
	"fmt"
	"go/token"
	"go/types"
	"sort"
	"strings"

	"golang.org/x/tools/go/ssa"
)

// P1 — precedence layering of the recursive-descent parser.

type parserInfo struct {
	p        *Prog
	parseOp  *ssa.Function
	ops0     map[*ssa.Function]map[string]bool
	consumes map[*ssa.Call]bool
	// bind: while a parser combinator (a function that is handed its operator and its sub-parsers) is
	// judged for one of its call sites, its parameters stand for that site's arguments
	bind map[*ssa.Parameter]ssa.Value
	// while a combinator is judged for one call site: the combinator and the function containing that site (a
	// call of the combinator to itself that passes its own parameters on stands for that function)
	siteComb, siteWrapper *ssa.Function
}

// passThroughSelfCall: c is a call of g to itself whose arguments are g's own parameters, in order.
func passThroughSelfCall(g *ssa.Function, c *ssa.Call) bool {
	if c.Parent() != g || c.Call.StaticCallee() != g || len(c.Call.Args) != len(g.Params) {
		return false
	}
	for i, a := range c.Call.Args {
		if a != ssa.Value(g.Params[i]) {
			return false
		}
	}
	return true
}

// deref replaces a bound parameter by the call-site argument.
func (pi *parserInfo) deref(v ssa.Value) ssa.Value {
	for i := 0; i < 4; i++ {
		prm, ok := v.(*ssa.Parameter)
		if !ok {
			return v
		}
		a, ok := pi.bind[prm]
		if !ok {
			return v
		}
		v = a
	}
	return v
}

// calleeOf: the function a call runs: its static callee, or — for a call through a bound function
// parameter — the function (method value unwrapped) passed at the site under judgement.
func (pi *parserInfo) calleeOf(c *ssa.Call) *ssa.Function {
	if f := c.Call.StaticCallee(); f != nil {
		if pi.siteComb != nil && f == pi.siteComb && pi.siteWrapper != nil && passThroughSelfCall(f, c) {
			return pi.siteWrapper // the same instantiation again: the wrapper that made it
		}
		return f
	}
	switch fv := pi.deref(c.Call.Value).(type) {
	case *ssa.Function:
		return unwrapThunk(pi.p, fv)
	case *ssa.MakeClosure:
		if f, ok := fv.Fn.(*ssa.Function); ok {
			return unwrapThunk(pi.p, f)
		}
	}
	return nil
}

// isCombinator: g takes at least one function-typed parameter that it calls.
func isCombinator(g *ssa.Function) bool {
	for _, prm := range g.Params {
		if _, ok := prm.Type().Underlying().(*types.Signature); !ok {
			continue
		}
		for _, ref := range *prm.Referrers() {
			if c, ok := ref.(*ssa.Call); ok && c.Call.Value == ssa.Value(prm) {
				return true
			}
		}
	}
	return false
}

// withSite runs fn with g's parameters bound to the arguments of call site c.
func (pi *parserInfo) withSite(g *ssa.Function, c *ssa.Call, fn func()) {
	old := pi.bind
	pi.bind = map[*ssa.Parameter]ssa.Value{}
	for k, v := range old {
		pi.bind[k] = v
	}
	for i, prm := range g.Params {
		if i < len(c.Call.Args) {
			pi.bind[prm] = c.Call.Args[i]
		}
	}
	oldC, oldW := pi.siteComb, pi.siteWrapper
	pi.siteComb, pi.siteWrapper = g, c.Parent()
	fn()
	pi.bind = old
	pi.siteComb, pi.siteWrapper = oldC, oldW
}

// nonNilEdgeBlock returns the block entered when call result c is non-nil, if c is tested directly.
func nonNilEdgeBlocks(c *ssa.Call) []*ssa.BasicBlock {
	var out []*ssa.BasicBlock
	// (value, ok) results: the blocks on the true edge of a branch on the ok component
	for _, r := range *c.Referrers() {
		ex, ok := r.(*ssa.Extract)
		if !ok || !isBoolType(ex.Type()) {
			continue
		}
		var visit func(v ssa.Value, neg bool)
		visit = func(v ssa.Value, neg bool) {
			if v.Referrers() == nil {
				return
			}
			for _, rr := range *v.Referrers() {
				switch t := rr.(type) {
				case *ssa.If:
					if neg {
						out = append(out, t.Block().Succs[1])
					} else {
						out = append(out, t.Block().Succs[0])
					}
				case *ssa.UnOp:
					if t.Op == token.NOT {
						visit(t, !neg)
					}
				}
			}
		}
		visit(ex, false)
	}
	for _, r := range *c.Referrers() {
		bo, ok := r.(*ssa.BinOp)
		if !ok || (bo.Op != token.EQL && bo.Op != token.NEQ) {
			continue
		}
		other := bo.Y
		if bo.Y == c {
			other = bo.X
		}
		cst, ok := other.(*ssa.Const)
		if !ok || !cst.IsNil() {
			continue
		}
		for _, rr := range *bo.Referrers() {
			ifi, ok := rr.(*ssa.If)
			if !ok {
				continue
			}
			b := ifi.Block()
			if bo.Op == token.NEQ {
				out = append(out, b.Succs[0])
			} else {
				out = append(out, b.Succs[1])
			}
		}
	}
	return out
}

// reachesValueReturn: from block b, can a Return whose first result is not the nil constant be reached?
func reachesValueReturn(b *ssa.BasicBlock) bool {
	seen := map[*ssa.BasicBlock]bool{}
	work := []*ssa.BasicBlock{b}
	for len(work) > 0 {
		x := work[len(work)-1]
		work = work[:len(work)-1]
		if seen[x] {
			continue
		}
		seen[x] = true
		if ret, ok := x.Instrs[len(x.Instrs)-1].(*ssa.Return); ok && len(ret.Results) > 0 {
			// an error value is a diagnosis, not a parsed construct
			if !isNilValue(ret.Results[0], 0) && !isErrorType(ret.Results[0].Type()) {
				return true
			}
		}
		work = append(work, x.Succs...)
	}
	return false
}

func (pi *parserInfo) opConst(c *ssa.Call) (string, bool) {
	if c.Call.StaticCallee() == nil || !opMatcherSet(pi.p)[c.Call.StaticCallee()] || len(c.Call.Args) < 2 {
		return "", false
	}
	return constString(pi.deref(c.Call.Args[1]))
}

// consuming: a parseOperator(c) call whose success leads to a value-returning path of its function.
func (pi *parserInfo) consuming(c *ssa.Call) bool {
	if v, ok := pi.consumes[c]; ok {
		return v
	}
	res := false
	edges := nonNilEdgeBlocks(c)
	for _, b := range edges {
		if reachesValueReturn(b) {
			res = true
		}
	}
	if len(edges) == 0 {
		// result not tested (e.g. used directly): treat as consuming
		res = true
	}
	pi.consumes[c] = res
	return res
}

// behindParen: instruction `in` only executes after a successful parseOperator("(") in its function.
func (pi *parserInfo) behindParen(in ssa.Instruction) bool {
	f := in.Parent()
	for _, b := range f.Blocks {
		for _, x := range b.Instrs {
			c, ok := x.(*ssa.Call)
			if !ok {
				continue
			}
			if s, ok := pi.opConst(c); !ok || s != "(" {
				continue
			}
			for _, eb := range nonNilEdgeBlocks(c) {
				if eb == in.Block() || eb.Dominates(in.Block()) {
					return true
				}
			}
		}
	}
	return false
}

func (pi *parserInfo) computeOps0(funcs []*ssa.Function) {
	pi.ops0 = map[*ssa.Function]map[string]bool{}
	for _, f := range funcs {
		pi.ops0[f] = map[string]bool{}
	}
	for changed := true; changed; {
		changed = false
		for _, f := range funcs {
			add := func(s string) {
				if !pi.ops0[f][s] {
					pi.ops0[f][s] = true
					changed = true
				}
			}
			var scan func(g *ssa.Function, depth int)
			scan = func(g *ssa.Function, depth int) {
				for _, b := range g.Blocks {
					for _, in := range b.Instrs {
						c, ok := in.(*ssa.Call)
						if !ok || pi.behindParen(c) {
							continue
						}
						callee := pi.calleeOf(c)
						if callee == nil || !pi.p.InModule(callee) {
							continue
						}
						if s, ok := pi.opConst(c); ok {
							if pi.consuming(c) {
								add(s)
							}
							continue
						}
						if _, isOp := opMatcherSet(pi.p)[callee]; isOp {
							continue // an operator probe whose operator is not known here
						}
						if c.Call.StaticCallee() != nil && isCombinator(callee) && depth < 2 {
							// a combinator consumes what its operator and sub-parser arguments consume at this site
							pi.withSite(callee, c, func() { scan(callee, depth+1) })
							continue
						}
						for s := range pi.ops0[callee] {
							add(s)
						}
					}
				}
			}
			scan(f, 0)
		}
	}
}

func setStr(m map[string]bool) string {
	var ks []string
	for k := range m {
		ks = append(ks, k)
	}
	sort.Strings(ks)
	return "{" + strings.Join(ks, " ") + "}"
}

func ruleP1(p *Prog, r *Report, eng *Engine) {
	ruleP1x(p, r, eng)
}

// ruleP1x is ruleP1; it also hands back the consumption summaries it computed (nil when its anchors are missing).
func ruleP1x(p *Prog, r *Report, eng *Engine) (pinfo *parserInfo, pfuncs []*ssa.Function) {
	r.Rule("P1", "necessary", 3, "precedence layering: the function that builds an OR node takes its left operand from a sub-parser that cannot consume OR outside parentheses; the function that builds an AND node takes both operands from sub-parsers that cannot consume OR outside parentheses; operands are the results of those calls in source order; the parenthesis parser returns exactly its inner result")
	pi := &parserInfo{p: p, consumes: map[*ssa.Call]bool{}}
	pi.parseOp = p.Func(p.ExpPkg, "(*tokenStream).parseOperator")
	if pi.parseOp == nil {
		r.Unknown("P1", "anchor", "-", "unresolved anchor: (*tokenStream).parseOperator")
		return
	}
	var funcs []*ssa.Function
	for _, f := range p.RList {
		if f.Signature.Recv() != nil && strings.Contains(f.Signature.Recv().Type().String(), "tokenStream") {
			funcs = append(funcs, f)
		}
	}
	pi.computeOps0(funcs)
	pinfo, pfuncs = pi, funcs
	treeMeaning := r.Property != "C05" // see "a constructor hands back the node it builds" below
	ops := map[string]string{}
	for _, f := range funcs {
		ops[f.Name()] = setStr(pi.ops0[f])
	}
	r.Extra["operators_consumable_outside_parentheses"] = ops

	expPartial := p.ExpPkg.Types.Scope().Lookup("expressionNodePartial")
	if expPartial == nil {
		r.Unknown("P1", "anchor", "-", "unresolved anchor: type expressionNodePartial")
		return
	}
	st := expPartial.Type().Underlying().(*types.Struct)
	checkSite := func(f *ssa.Function, at token.Pos, vals map[string]ssa.Value) {
		conj := resolveConjunction(pi, vals["conjunction"])
		key := fmt.Sprintf("%s|builds %q node", p.shortKey(f), conj)
		pos := p.pos(at)
		l, okL := vals["left"].(*ssa.Call)
		rt, okR := vals["right"].(*ssa.Call)
		if !okL || !okR || pi.calleeOf(l) == nil || pi.calleeOf(rt) == nil {
			r.Unknown("P1", key, pos, "kind=undecided: operands of the node literal are not direct results of sub-parser calls")
			return
		}
		lf, rf := pi.calleeOf(l), pi.calleeOf(rt)
		var probs []string
		if !(l.Block() == rt.Block() && blockOrder(l) < blockOrder(rt) || l.Block() != rt.Block() && l.Block().Dominates(rt.Block())) {
			probs = append(probs, "the left operand is not parsed before the right operand")
		}
		switch conj {
		case "or":
			if pi.ops0[lf]["OR"] {
				probs = append(probs, fmt.Sprintf("left operand comes from %s, which can itself consume OR outside parentheses %s", lf.Name(), setStr(pi.ops0[lf])))
			}
			if !pi.ops0[lf]["AND"] {
				probs = append(probs, fmt.Sprintf("left operand comes from %s, which cannot parse an AND chain: AND would not bind tighter than OR", lf.Name()))
			}
			if !pi.ops0[rf]["AND"] {
				probs = append(probs, fmt.Sprintf("right operand comes from %s, which cannot parse an AND chain", rf.Name()))
			}
		case "and":
			if pi.ops0[lf]["OR"] {
				probs = append(probs, fmt.Sprintf("left operand comes from %s, which can consume OR outside parentheses %s: OR would bind tighter than AND", lf.Name(), setStr(pi.ops0[lf])))
			}
			if pi.ops0[rf]["OR"] {
				probs = append(probs, fmt.Sprintf("right operand comes from %s, which can consume OR outside parentheses %s: 'A AND B OR C' would group as A AND (B OR C)", rf.Name(), setStr(pi.ops0[rf])))
			}
		default:
			probs = append(probs, "conjunction value is not resolvable to \"and\" / \"or\"")
		}
		// the operator consumed between the operands must be the node's own
		wantOp := strings.ToUpper(conj)
		between := false
		for _, b2 := range f.Blocks {
			for _, in2 := range b2.Instrs {
				if c2, ok := in2.(*ssa.Call); ok {
					if s, ok := pi.opConst(c2); ok && s == wantOp && pi.consuming(c2) {
						if (c2.Block() == l.Block() && blockOrder(c2) > blockOrder(l) || l.Block().Dominates(c2.Block()) && l.Block() != c2.Block()) &&
							(c2.Block() == rt.Block() && blockOrder(c2) < blockOrder(rt) || c2.Block().Dominates(rt.Block()) && c2.Block() != rt.Block()) {
							between = true
						}
					}
				}
			}
		}
		if treeMeaning {
			probs = append(probs, operandReturnedAlone(p, f, rt, l, rt)...)
		}
		if !between && (conj == "and" || conj == "or") {
			probs = append(probs, fmt.Sprintf("no successful parseOperator(%q) lies between parsing the left and the right operand", wantOp))
		}
		if len(probs) > 0 {
			r.Bad("P1", key, pos, strings.Join(probs, "; "))
		} else {
			r.OK("P1", key, pos, "layered", fmt.Sprintf("left from %s %s, right from %s %s", lf.Name(), setStr(pi.ops0[lf]), rf.Name(), setStr(pi.ops0[rf])), true)
		}
	}
	// constructor helpers: functions that build an expression node from their own parameters
	ctors := map[*ssa.Function]map[string]int{}
	for _, pk := range p.Pkgs {
		for _, g := range p.AllModuleFuncs(pk) {
			if p.isTestPos(g.Pos()) {
				continue
			}
			for _, gb := range g.Blocks {
				for _, gin := range gb.Instrs {
					al, ok := gin.(*ssa.Alloc)
					if !ok || !types.Identical(al.Type().Underlying().(*types.Pointer).Elem(), expPartial.Type()) {
						continue
					}
					m := map[string]int{}
					for _, ref := range *al.Referrers() {
						fa, ok := ref.(*ssa.FieldAddr)
						if !ok {
							continue
						}
						for _, rr := range *fa.Referrers() {
							if sx, ok := rr.(*ssa.Store); ok && sx.Addr == fa {
								for pi2, prm := range g.Params {
									if sx.Val == ssa.Value(prm) {
										m[st.Field(fa.Field).Name()] = pi2
									}
								}
							}
						}
					}
					if _, okL := m["left"]; okL {
						if _, okR := m["right"]; okR {
							ctors[g] = m
						}
					}
				}
			}
		}
	}
	// a constructor hands back the node it builds: an operand returned alone drops the other operand.  This is
	// about the tree's meaning (C01, C10), not about which strings are accepted: C05 does not ask it.
	if treeMeaning {
		var cs []*ssa.Function
		for g := range ctors {
			cs = append(cs, g)
		}
		sort.Slice(cs, func(i, j int) bool { return cs[i].Pos() < cs[j].Pos() })
		for _, g := range cs {
			m := ctors[g]
			a, b := ssa.Value(g.Params[m["left"]]), ssa.Value(g.Params[m["right"]])
			key := p.shortKey(g) + "|returns the node it builds"
			if probs := operandReturnedAlone(p, g, nil, a, b); len(probs) > 0 {
				r.Bad("P1", key, p.pos(g.Pos()), strings.Join(probs, "; "))
			} else {
				r.OK("P1", key, p.pos(g.Pos()), "no operand returned alone", "", true)
			}
		}
	}
	// judge: a node built in a combinator (literal or constructor call) is judged once per call site of the
	// combinator, with operator and sub-parsers bound; otherwise in place
	judge := func(f *ssa.Function, at token.Pos, vals map[string]ssa.Value) {
		if isCombinator(f) {
			n := 0
			for _, h := range funcs {
				for _, hb := range h.Blocks {
					for _, hin := range hb.Instrs {
						if hc, ok := hin.(*ssa.Call); ok && hc.Call.StaticCallee() == f {
							if passThroughSelfCall(f, hc) {
								continue // the combinator's own recursion: judged with each outer site
							}
							n++
							pi.withSite(f, hc, func() { checkSite(f, hc.Pos(), vals) })
						}
					}
				}
			}
			if n > 0 {
				return
			}
		}
		checkSite(f, at, vals)
	}
	for _, f := range funcs {
		for _, b := range f.Blocks {
			for _, in := range b.Instrs {
				if c, ok := in.(*ssa.Call); ok && c.Call.StaticCallee() != nil {
					if m, isCtor := ctors[c.Call.StaticCallee()]; isCtor {
						vals := map[string]ssa.Value{}
						for fld, idx := range m {
							if idx < len(c.Call.Args) {
								vals[fld] = c.Call.Args[idx]
							}
						}
						judge(f, c.Pos(), vals)
					}
					continue
				}
				al, ok := in.(*ssa.Alloc)
				if !ok || !types.Identical(al.Type().Underlying().(*types.Pointer).Elem(), expPartial.Type()) {
					continue
				}
				vals := map[string]ssa.Value{}
				for _, ref := range *al.Referrers() {
					fa, ok := ref.(*ssa.FieldAddr)
					if !ok {
						continue
					}
					for _, rr := range *fa.Referrers() {
						if s, ok := rr.(*ssa.Store); ok && s.Addr == fa {
							vals[st.Field(fa.Field).Name()] = s.Val
						}
					}
				}
				judge(f, al.Pos(), vals)
			}
		}
	}
	// parenthesis transparency
	for _, f := range funcs {
		var open *ssa.Call
		for _, b := range f.Blocks {
			for _, in := range b.Instrs {
				if c, ok := in.(*ssa.Call); ok {
					if s, ok := pi.opConst(c); ok && s == "(" && pi.consuming(c) {
						open = c
					}
				}
			}
		}
		if open == nil {
			continue
		}
		key := p.shortKey(f) + "|parenthesised result"
		var probs []string
		closed := false
		nParen := 0
		for _, b := range f.Blocks {
			ret, ok := b.Instrs[len(b.Instrs)-1].(*ssa.Return)
			if !ok || len(ret.Results) == 0 {
				continue
			}
			if isNilValue(ret.Results[0], 0) {
				continue
			}
			if !pi.behindParen(ret) {
				continue // a return of the same function that is not on the parenthesis path (another kind of atom)
			}
			nParen++
			inner, ok := ret.Results[0].(*ssa.Call)
			if !ok || inner.Call.StaticCallee() == nil || !pi.behindParen(inner) {
				probs = append(probs, fmt.Sprintf("%s: the value returned for a parenthesised expression is not the plain result of the inner parse (parentheses would leave a trace in the tree)", p.pos(ret.Pos())))
				continue
			}
			if !pi.ops0[inner.Call.StaticCallee()]["OR"] {
				probs = append(probs, fmt.Sprintf("inside parentheses %s is called, which cannot parse OR: '(A OR B)' would be rejected", inner.Call.StaticCallee().Name()))
			}
			// a successful ")" must dominate the return
			for _, b2 := range f.Blocks {
				for _, in2 := range b2.Instrs {
					if c2, ok := in2.(*ssa.Call); ok {
						if s, ok := pi.opConst(c2); ok && s == ")" {
							for _, eb := range nonNilEdgeBlocks(c2) {
								if eb == b || eb.Dominates(b) {
									closed = true
								}
							}
						}
					}
				}
			}
			if !closed {
				probs = append(probs, fmt.Sprintf("%s: the parenthesised result is returned without a successful parseOperator(\")\")", p.pos(ret.Pos())))
			}
		}
		if nParen == 0 {
			probs = append(probs, "after an opening parenthesis no value is ever returned")
		}
		if len(probs) > 0 {
			r.Bad("P1", key, p.pos(f.Pos()), strings.Join(probs, "; "))
		} else {
			r.OK("P1", key, p.pos(f.Pos()), "transparent", "returns the inner result after a matching close parenthesis", true)
		}
	}
	return
}

// ruleG11 — one ':' per reference atom.  The grammar's only use of ':' is [DocumentRef-id ':'] LicenseRef-id, so
// no accepted expression has two ':' inside one atom.  After a successful probe for ":" the code that runs
// (the blocks entered only on success) must not probe for ":" again, nor call a parser function that can
// itself consume ":" outside parentheses: either would accept DocumentRef-a:DocumentRef-b:LicenseRef-c.
func ruleG11(p *Prog, r *Report, pi *parserInfo, funcs []*ssa.Function) {
	r.Rule("G11", "necessary", 1, "one ':' per reference atom: the code that runs after a successful probe for the ':' operator neither probes for ':' again nor calls a parser function that can consume ':' (a document reference qualifies exactly one license reference)")
	if pi == nil {
		r.Unknown("G11", "anchor", "-", "unresolved anchor: parser consumption summaries (see P1)")
		return
	}
	for _, f := range funcs {
		for _, b := range f.Blocks {
			for _, in := range b.Instrs {
				c, ok := in.(*ssa.Call)
				if !ok {
					continue
				}
				if s, ok := pi.opConst(c); !ok || s != ":" || !pi.consuming(c) {
					continue
				}
				key := p.shortKey(f) + "|after ':'"
				edges := nonNilEdgeBlocks(c)
				inRegion := func(x ssa.Instruction) bool {
					if len(edges) == 0 {
						// result not tested here: everything the probe's block dominates, after the probe
						return x.Block() == b && blockOrder(x) > blockOrder(c) || x.Block() != b && b.Dominates(x.Block())
					}
					for _, e := range edges {
						if e == x.Block() || e.Dominates(x.Block()) {
							return true
						}
					}
					return false
				}
				var probs []string
				n := 0
				for _, b2 := range f.Blocks {
					for _, in2 := range b2.Instrs {
						c2, ok := in2.(*ssa.Call)
						if !ok || c2 == c || !inRegion(c2) {
							continue
						}
						n++
						if s2, ok := pi.opConst(c2); ok {
							if s2 == ":" && pi.consuming(c2) {
								probs = append(probs, fmt.Sprintf("%s: a second ':' is consumed", p.pos(c2.Pos())))
							}
							continue
						}
						callee := pi.calleeOf(c2)
						if callee == nil || !p.InModule(callee) {
							continue
						}
						if pi.ops0[callee][":"] {
							probs = append(probs, fmt.Sprintf("%s: calls %s, which can itself consume ':' %s: DocumentRef-a:DocumentRef-b:LicenseRef-c would be accepted", p.pos(c2.Pos()), callee.Name(), setStr(pi.ops0[callee])))
						}
					}
				}
				// the probe must not be reached again from its own success edge (a loop over "DocumentRef-x :"
				// prefixes), unless another operator has been consumed on the way
				stop := map[*ssa.BasicBlock]bool{}
				for _, b2 := range f.Blocks {
					for _, in2 := range b2.Instrs {
						if c2, ok := in2.(*ssa.Call); ok && c2 != c {
							if s2, ok := pi.opConst(c2); ok && s2 != ":" {
								for _, e := range nonNilEdgeBlocks(c2) {
									stop[e] = true
								}
							}
						}
					}
				}
				if len(edges) > 0 {
					seenB := map[*ssa.BasicBlock]bool{}
					work := append([]*ssa.BasicBlock{}, edges...)
					for len(work) > 0 {
						x := work[len(work)-1]
						work = work[:len(work)-1]
						if seenB[x] || stop[x] {
							continue
						}
						seenB[x] = true
						if x == b {
							probs = append(probs, "the probe for ':' is reached again from its own success (a loop accepts a chain of 'DocumentRef-x:' prefixes)")
							break
						}
						work = append(work, x.Succs...)
					}
				}
				if len(probs) > 0 {
					r.Bad("G11", key, p.pos(c.Pos()), strings.Join(probs, "; "))
				} else {
					r.OK("G11", key, p.pos(c.Pos()), "single", fmt.Sprintf("%d calls run after the ':' is consumed; none can consume another ':'", n), true)
				}
			}
		}
	}
}

func blockOrder(in ssa.Instruction) int {
	for i, x := range in.Block().Instrs {
		if x == in {
			return i
		}
	}
	return -1
}

// resolveConjunction: the string stored into expressionNodePartial.conjunction: a constant, or
// strings.ToLower(*parseOperator(c)) whose pointee equals c on the success path.
func resolveConjunction(pi *parserInfo, v ssa.Value) string {
	if v == nil {
		return "?"
	}
	v = pi.deref(v)
	if s, ok := constString(v); ok {
		return s
	}
	if c, ok := v.(*ssa.Call); ok && c.Call.StaticCallee() != nil {
		name := c.Call.StaticCallee().String()
		if name == "strings.ToLower" || name == "strings.ToUpper" {
			// of the operator the combinator was handed (and matched: the "between" test below checks that)
			if k, ok := constString(pi.deref(c.Call.Args[0])); ok {
				if name == "strings.ToLower" {
					return strings.ToLower(k)
				}
				return strings.ToUpper(k)
			}
			var pc *ssa.Call
			if ld, ok := c.Call.Args[0].(*ssa.UnOp); ok && ld.Op == token.MUL {
				pc, _ = ld.X.(*ssa.Call) // *parseOperator(c)
			}
			if ex, ok := c.Call.Args[0].(*ssa.Extract); ok && ex.Index == 0 {
				pc, _ = ex.Tuple.(*ssa.Call) // value, ok := matchOperator(c)
			}
			if pc != nil {
				if s, ok := pi.opConst(pc); ok && guardedEqualityReturn(pi.p, baseOpMatcher(pi.p)) {
					if name == "strings.ToLower" {
						return strings.ToLower(s)
					}
					return strings.ToUpper(s)
				}
			}
		}
	}
	return "?"
}

// guardedEqualityReturn: every non-nil return of fn is the address of a string field that was
// compared equal (==) with the string parameter on the path to the return.
func guardedEqualityReturn(guardProg *Prog, fn *ssa.Function) bool {
	if fn == nil || len(fn.Params) < 2 {
		return false
	}
	prm := fn.Params[len(fn.Params)-1]
	okAny := false
	for _, b := range fn.Blocks {
		ret, ok := b.Instrs[len(b.Instrs)-1].(*ssa.Return)
		if !ok || len(ret.Results) < 1 {
			continue
		}
		if isNilValue(ret.Results[0], 0) {
			continue
		}
		if c, isC := ret.Results[0].(*ssa.Const); isC && len(ret.Results) > 1 {
			_ = c
			continue // ("", false)
		}
		fa, ok := ret.Results[0].(*ssa.FieldAddr)
		if !ok {
			// the value flavour: return X.f, true
			ld, isLd := ret.Results[0].(*ssa.UnOp)
			if !isLd || ld.Op != token.MUL {
				return false
			}
			fa, ok = ld.X.(*ssa.FieldAddr)
			if !ok {
				return false
			}
		}
		// find a dominating comparison  *(&X.field) == prm  that holds here: an == on its true edge or a
		// != on its false edge (the early-return form)
		guarded := false
		edgeHolds := func(d *ssa.BasicBlock, k int) bool {
			sb := d.Succs[k]
			return d.Succs[0] != d.Succs[1] && len(sb.Preds) == 1 && (sb == b || sb.Dominates(b))
		}
		for _, d := range fn.Blocks {
			ifi, ok := d.Instrs[len(d.Instrs)-1].(*ssa.If)
			if !ok {
				continue
			}
			bo, ok := ifi.Cond.(*ssa.BinOp)
			if !ok {
				continue
			}
			if !(bo.Op == token.EQL && edgeHolds(d, 0) || bo.Op == token.NEQ && edgeHolds(d, 1)) {
				continue
			}
			for _, pair := range [][2]ssa.Value{{bo.X, bo.Y}, {bo.Y, bo.X}} {
				ld, ok := pair[0].(*ssa.UnOp)
				if !ok || ld.Op != token.MUL || pair[1] != prm {
					continue
				}
				if fa2, ok := ld.X.(*ssa.FieldAddr); ok && fa2.Field == fa.Field && fa2.X == fa.X {
					guarded = true
				}
			}
		}
		if !guarded {
			// the comparison may sit in a predicate helper (tok.isOperator(op)): look at the inlined formula
			// of each dominating condition for the conjunct  X.field == operator-parameter
			qz := &quantizer{p: guardProg, elemVar: map[ssa.Value]string{}, inlineAll: true}
			st := fa.X.Type().Underlying().(*types.Pointer).Elem().Underlying().(*types.Struct)
			want := qz.prov(fa.X, 0) + "." + st.Field(fa.Field).Name()
			for _, d := range fn.Blocks {
				ifi, ok := d.Instrs[len(d.Instrs)-1].(*ssa.If)
				if !ok {
					continue
				}
				neg := false
				switch {
				case edgeHolds(d, 0):
				case edgeHolds(d, 1):
					neg = true
				default:
					continue
				}
				var conj func(q *qf)
				conj = func(q *qf) {
					if q.Op == "and" {
						for _, a := range q.Args {
							conj(a)
						}
						return
					}
					if q.Op == "atom" && (q.Atom == "("+want+" == param:"+prm.Name()+")" || q.Atom == "(param:"+prm.Name()+" == "+want+")") {
						guarded = true
					}
				}
				f := qz.boolOf(ifi.Cond, map[*ssa.Phi]*qf{})
				if neg {
					f = qNot(f)
				}
				conj(f)
			}
		}
		if !guarded {
			return false
		}
		okAny = true
	}
	return okAny
}

// isNilValue: v is the nil constant, or the result of an in-package helper every return of which is
// such a value (func (t *T) fail(msg string) *node { t.err = …; return nil }).
func isNilValue(v ssa.Value, d int) bool {
	if d > 3 {
		return false
	}
	switch t := v.(type) {
	case *ssa.Const:
		return t.IsNil()
	case *ssa.Call:
		callee := t.Call.StaticCallee()
		if callee == nil || len(callee.Blocks) == 0 || callee.Signature.Results().Len() != 1 {
			return false
		}
		n := 0
		for _, b := range callee.Blocks {
			if ret, ok := b.Instrs[len(b.Instrs)-1].(*ssa.Return); ok {
				n++
				if !isNilValue(ret.Results[0], d+1) {
					return false
				}
			}
		}
		return n > 0
	}
	return false
}

// opMatcherSet: the operator matchers of the token parser: the anchor (*tokenStream).parseOperator and
// every tokenStream method that it forwards its own operator parameter to, or that forwards its own
// string parameter to a known matcher (a (value, ok) flavour next to a pointer flavour, say).
var opMatcherMemo = map[*Prog]map[*ssa.Function]bool{}

func opMatcherSet(p *Prog) map[*ssa.Function]bool {
	if m, ok := opMatcherMemo[p]; ok {
		return m
	}
	m := map[*ssa.Function]bool{}
	opMatcherMemo[p] = m
	anchor := p.Func(p.ExpPkg, "(*tokenStream).parseOperator")
	if anchor == nil {
		return m
	}
	m[anchor] = true
	isStream := func(f *ssa.Function) bool {
		return f.Signature.Recv() != nil && strings.Contains(f.Signature.Recv().Type().String(), "tokenStream") && len(f.Params) == 2 && isStringType(f.Params[1].Type())
	}
	for changed := true; changed; {
		changed = false
		fns := p.AllModuleFuncs(p.ExpPkg)
		for f := range m {
			fns = append(fns, f) // a matcher kept only for the tests is not among the program's reachable functions
		}
		for _, f := range fns {
			if !isStream(f) || p.isTestPos(f.Pos()) {
				continue
			}
			for _, b := range f.Blocks {
				for _, in := range b.Instrs {
					c, ok := in.(*ssa.Call)
					if !ok || c.Call.StaticCallee() == nil || len(c.Call.Args) != 2 || c.Call.Args[1] != ssa.Value(f.Params[1]) || c.Call.Args[0] != ssa.Value(f.Params[0]) {
						continue
					}
					g := c.Call.StaticCallee()
					if !isStream(g) {
						continue
					}
					// f forwards its operator to g
					if m[f] && !m[g] {
						m[g] = true
						changed = true
					}
					if m[g] && !m[f] {
						m[f] = true
						changed = true
					}
				}
			}
		}
	}
	return m
}

// baseOpMatcher: the matcher that actually looks at the token (the one that forwards to no other matcher).
func baseOpMatcher(p *Prog) *ssa.Function {
	set := opMatcherSet(p)
	for f := range set {
		forwards := false
		for _, b := range f.Blocks {
			for _, in := range b.Instrs {
				if c, ok := in.(*ssa.Call); ok && c.Call.StaticCallee() != nil && set[c.Call.StaticCallee()] {
					forwards = true
				}
			}
		}
		if !forwards {
			return f
		}
	}
	return nil
}

// operandReturnedAlone: returns of g that hand back operand a or b itself (instead of the node joining them).
// With after != nil only returns that run after that instruction (both operands parsed) are looked at.  A
// return of an operand is accepted under a guard that says the two operands are the same term: pointer
// equality, or equality (==) of their canonical texts.
func operandReturnedAlone(p *Prog, g *ssa.Function, after ssa.Instruction, a, b ssa.Value) []string {
	var probs []string
	sameTermGuard := func(blk *ssa.BasicBlock) bool {
		for _, x := range g.Blocks {
			ifi, ok := x.Instrs[len(x.Instrs)-1].(*ssa.If)
			if !ok {
				continue
			}
			bo, ok := ifi.Cond.(*ssa.BinOp)
			if !ok || (bo.Op != token.EQL && bo.Op != token.NEQ) {
				continue
			}
			side := x.Succs[0]
			if bo.Op == token.NEQ {
				side = x.Succs[1]
			}
			if !(side == blk || side.Dominates(blk)) || len(side.Preds) != 1 {
				continue
			}
			if bo.X == a && bo.Y == b || bo.X == b && bo.Y == a {
				return true
			}
			text := func(v ssa.Value) ssa.Value {
				ld, ok := v.(*ssa.UnOp)
				if !ok || ld.Op != token.MUL {
					return nil
				}
				c, ok := ld.X.(*ssa.Call)
				if !ok || c.Call.StaticCallee() == nil || c.Call.StaticCallee().Name() != "reconstructedLicenseString" || len(c.Call.Args) != 1 {
					return nil
				}
				return c.Call.Args[0]
			}
			tx, ty := text(bo.X), text(bo.Y)
			if tx != nil && ty != nil && (tx == a && ty == b || tx == b && ty == a) {
				return true
			}
		}
		return false
	}
	for _, blk := range g.Blocks {
		ret, ok := blk.Instrs[len(blk.Instrs)-1].(*ssa.Return)
		if !ok || len(ret.Results) == 0 {
			continue
		}
		if after != nil {
			ab := after.Block()
			if !(ab == blk || ab.Dominates(blk)) {
				continue
			}
		}
		seen := map[ssa.Value]bool{}
		var walk func(v ssa.Value, at *ssa.BasicBlock)
		walk = func(v ssa.Value, at *ssa.BasicBlock) {
			if seen[v] {
				return
			}
			seen[v] = true
			if ph, ok := v.(*ssa.Phi); ok {
				for i, e := range ph.Edges {
					walk(e, ph.Block().Preds[i])
				}
				return
			}
			if v != a && v != b {
				return
			}
			if after != nil && !(after.Block() == at || after.Block().Dominates(at)) {
				return
			}
			if sameTermGuard(at) {
				return
			}
			which := "left"
			if v == b {
				which = "right"
			}
			probs = append(probs, fmt.Sprintf("%s: %s returns its %s operand alone: the other operand vanishes from the tree unless the two are the same term, and no guard says so (pointer equality or == of canonical texts)", p.pos(ret.Pos()), g.Name(), which))
		}
		walk(ret.Results[0], blk)
	}
	return probs
}
