package main

func init() {
	register("C06", &propDef{
		Level:   "other",
		Explain: "'No term is lost, none invented' decided structurally along the pipeline parse -> expand -> flatten -> canonical text -> de-duplicate: the expansion rules shared with C01 (X1 every node kind contributes on every path, X2 no positional selection, X3 append ownership, X5 no construction/mutation), E1 the pipeline is element-wise, total and unconditional, E2 de-duplication keeps first occurrences only, E3 the canonical text is built from the node's canonical fields only and from all of them, E4 every constant the printer emits is a keyword the scanner recognises. Not decided: the round-trip equalities themselves (values).",
		Run: func(p *Prog, r *Report) {
			eng := sharedEngine(p)
			rulesExpansion(p, r, eng)
			rulesExtract(p, r, eng)
		},
		Trusted: []string{"go/ssa lowering"},
	})
}
