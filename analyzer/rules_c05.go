package main

import (
	"fmt"
	"go/constant"
	"go/token"
	"go/types"
	"math/big"
	"os"
	"regexp"
	"sort"
	"strings"

	"golang.org/x/tools/go/ssa"
)

func init() {
	register("C05", &propDef{
		Level:   "other",
		Explain: "Narrow. Language equality with the SPDX grammar quantifies over all strings and cannot be read off the shape of a hand-written scanner; building a recogniser from the code and running it on enumerated strings would be execution under a static label and is not done. Decided necessary conditions: G1 the scanner's operator table equals the set of operators the parser asks for, G2 keyword order (no keyword shadows a longer one; reference prefixes and operators are tried before ids), G3 every token role the scanner produces is consumed by the parser and vice versa, G4 every rewrite of the scan buffer keeps all unread input (linear entailment: the kept tail starts at or before the cursor, or nothing is unread) and every forward move of the cursor skips only text that was matched, G5 a parse is accepted only at end of input, G6 a parser function that consumed a token never reports 'not present' without an error, G7 every listed id is readable by the id pattern, P1 precedence layering and parenthesis transparency.",
		Run:     rulesC05,
		Trusted: []string{"go/ssa lowering", "strings.HasPrefix / TrimPrefix / FindStringIndex contracts"},
	})
}

func rulesC05(p *Prog, r *Report) {
	eng := sharedEngine(p)
	// acceptance is decided by scanning and parsing the argument, by nothing else about it (no cache keyed
	// by a transformed text, no pre-normalisation)
	ruleW1(p, r)
	r.Rule("G1", "necessary", 5, "operator table agreement between scanner and parser")
	r.Rule("G2", "necessary", 2, "keyword order: a scanner keyword that is a prefix of another is tried after it; every keyword reader is tried before the id reader")
	r.Rule("G3", "necessary", 4, "token-role agreement: every role stored into a token by the scanner is tested by the parser and vice versa")
	r.Rule("G4", "necessary", 3, "no unread input is discarded: every rewrite of the scan buffer ends with the old buffer from a position at or before the cursor (possibly minus a recognised constant prefix), or nothing is unread; every forward move of the cursor is by the length of text that was matched")
	r.Rule("G5", "necessary", 1, "accept only at end of input: the token parser returns a tree only where the token cursor is exhausted")
	r.Rule("G6", "necessary", 5, "consumption implies error or progress: a parser function returns nil without setting the stream's error only if it consumed no token")

	kw, err := scannerKeywords(p)
	if err != nil {
		r.Unknown("G1", "scanner-keywords", "-", err.Error())
		return
	}
	parseOp := p.Func(p.ExpPkg, "(*tokenStream).parseOperator")
	if parseOp == nil {
		r.Unknown("G1", "anchor", "-", "unresolved anchor: (*tokenStream).parseOperator")
		return
	}
	// G1
	asked := map[string]token.Pos{}
	for _, f := range p.RList {
		for _, b := range f.Blocks {
			for _, in := range b.Instrs {
				if c, ok := in.(*ssa.Call); ok && (c.Call.StaticCallee() != nil && opMatcherSet(p)[c.Call.StaticCallee()]) && len(c.Call.Args) == 2 {
					if s, ok := constString(c.Call.Args[1]); ok {
						asked[s] = c.Pos()
					} else if prm, isPrm := c.Call.Args[1].(*ssa.Parameter); isPrm {
						// a helper that probes for the operator it is given: the constants its call sites pass
						cs, ok := paramConsts(p, prm)
						if !ok {
							r.Unknown("G1", "parseOperator argument", p.pos(c.Pos()), "kind=undecided: operator requested by the parser is not a constant")
							continue
						}
						for _, k := range cs {
							if k.Value.Kind() == constant.String {
								asked[constant.StringVal(k.Value)] = c.Pos()
							}
						}
					} else if ss, ok := constStringSet(c.Call.Args[1], 0); ok {
						// an operator taken from a local constant table (e.g. a list of misplaced operators)
						for _, s := range ss {
							asked[s] = c.Pos()
						}
					} else {
						if os.Getenv("SPDXVERIF_TRACE") != "" {
							fmt.Printf("G1 arg: %T %v\n", c.Call.Args[1], c.Call.Args[1])
							for _, op := range c.Call.Args[1].(ssa.Instruction).Operands(nil) {
								fmt.Printf("   operand %T %v\n", *op, *op)
								if in, ok := (*op).(ssa.Instruction); ok {
									for _, o2 := range in.Operands(nil) {
										fmt.Printf("      operand %T %v\n", *o2, *o2)
									}
								}
							}
						}
						r.Unknown("G1", "parseOperator argument", p.pos(c.Pos()), "kind=undecided: operator requested by the parser is not a constant")
					}
				}
			}
		}
	}
	scanned := map[string]bool{}
	for _, o := range kw.Operators {
		scanned[o] = true
	}
	var all []string
	for o := range asked {
		all = append(all, o)
	}
	for o := range scanned {
		if _, ok := asked[o]; !ok {
			all = append(all, o)
		}
	}
	sort.Strings(all)
	for _, o := range all {
		key := fmt.Sprintf("operator %q", o)
		_, a := asked[o]
		s := scanned[o]
		switch {
		case a && s:
			r.OK("G1", key, p.pos(asked[o]), "scanned and parsed", "", false)
		case a:
			r.Bad("G1", key, p.pos(asked[o]), fmt.Sprintf("the parser asks for operator %q, which the scanner never produces %v", o, kw.Operators))
		default:
			r.Bad("G1", key, p.pos(kw.OperatorFn.Pos()), fmt.Sprintf("the scanner produces operator %q, which no parser function ever asks for: input containing it can only be rejected with a generic error or mis-tokenised", o))
		}
	}
	// G2
	okOrder := true
	for i := range kw.Operators {
		for j := i + 1; j < len(kw.Operators); j++ {
			if strings.HasPrefix(kw.Operators[j], kw.Operators[i]) && kw.Operators[i] != kw.Operators[j] {
				okOrder = false
				r.Bad("G2", fmt.Sprintf("%q before %q", kw.Operators[i], kw.Operators[j]), p.pos(kw.OperatorFn.Pos()), fmt.Sprintf("operator %q is tried before %q, of which it is a prefix: the longer one can never be read", kw.Operators[i], kw.Operators[j]))
			}
		}
	}
	if okOrder {
		r.OK("G2", "operator prefixes", p.pos(kw.OperatorFn.Pos()), "no operator shadows a longer one", strings.Join(kw.Operators, " "), true)
	}
	if pt := p.Func(p.ExpPkg, "(*expressionStream).parseToken"); pt == nil {
		r.Unknown("G2", "anchor", "-", "unresolved anchor: (*expressionStream).parseToken")
	} else {
		// classify callees: keyword readers reach the literal reader; the id reader reaches the id regexp without a literal read
		reaches := func(f *ssa.Function, target *ssa.Function) bool {
			seen := map[*ssa.Function]bool{}
			var walk func(g *ssa.Function) bool
			walk = func(g *ssa.Function) bool {
				if g == target {
					return true
				}
				if seen[g] || !p.InModule(g) {
					return false
				}
				seen[g] = true
				for _, c := range eng.staticCallees(g) {
					if walk(c) {
						return true
					}
				}
				return false
			}
			return walk(f)
		}
		reachesAny := func(f *ssa.Function, targets []*ssa.Function) bool {
			for _, t := range targets {
				if reaches(f, t) {
					return true
				}
			}
			return false
		}
		var kwCalls, idCalls []*ssa.Call
		for _, b := range pt.Blocks {
			for _, in := range b.Instrs {
				c, ok := in.(*ssa.Call)
				if !ok || c.Call.StaticCallee() == nil || !p.InModule(c.Call.StaticCallee()) {
					continue
				}
				callee := c.Call.StaticCallee()
				switch {
				case reaches(callee, kw.ReadFn):
					kwCalls = append(kwCalls, c)
				case kw.ReadRegex != nil && reaches(callee, kw.ReadRegex), reachesAny(callee, kw.ClassReaders):
					idCalls = append(idCalls, c)
				}
			}
		}
		// table-driven form: a local table of reader functions tried in order by a range loop
		if len(kwCalls) == 0 && len(idCalls) == 0 {
			for _, b := range pt.Blocks {
				for _, in := range b.Instrs {
					tbl, tidx, elem, ok := tableElem(in)
					if !ok {
						continue
					}
					fns := funcTableOf(tbl)
					if len(fns) == 0 || isRangeIndexOf(tidx, tbl) != nil {
						continue
					}
					called := false
					for _, ref := range *elem.Referrers() {
						if c, ok := ref.(*ssa.Call); ok && c.Call.Value == elem {
							called = true
						}
					}
					if !called {
						continue
					}
					firstID, lastKW := -1, -1
					nk, ni := 0, 0
					for i, f := range fns {
						g := unwrapThunk(p, f)
						switch {
						case reaches(g, kw.ReadFn):
							lastKW = i
							nk++
						case kw.ReadRegex != nil && reaches(g, kw.ReadRegex), reachesAny(g, kw.ClassReaders):
							if firstID < 0 {
								firstID = i
							}
							ni++
						}
					}
					switch {
					case nk == 0 || ni == 0:
						r.Unknown("G2", "reader order", p.pos(pt.Pos()), "kind=undecided: keyword readers / id reader not recognised in the reader table of parseToken")
					case lastKW > firstID:
						r.Bad("G2", "reader order", p.pos(pt.Pos()), fmt.Sprintf("ids are matched broadly; slot %d of the reader table (a keyword reader) comes after slot %d (the id reader), so a keyword or reference prefix would be swallowed by the id reader", lastKW, firstID))
					default:
						r.OK("G2", "reader order", p.pos(pt.Pos()), "keyword readers precede the id reader in the reader table", fmt.Sprintf("%d keyword readers, %d id readers", nk, ni), true)
					}
					goto g2done
				}
			}
		}
		{
			bad := ""
			for _, ic := range idCalls {
				for _, kc := range kwCalls {
					if !(kc.Block() == ic.Block() && blockOrder(kc) < blockOrder(ic) || kc.Block() != ic.Block() && kc.Block().Dominates(ic.Block())) {
						bad = fmt.Sprintf("%s is not tried before %s", kc.Call.StaticCallee().Name(), ic.Call.StaticCallee().Name())
					}
				}
			}
			if len(idCalls) == 0 || len(kwCalls) == 0 {
				r.Unknown("G2", "reader order", p.pos(pt.Pos()), "kind=undecided: keyword readers / id reader not recognised in parseToken")
			} else if bad != "" {
				r.Bad("G2", "reader order", p.pos(pt.Pos()), "ids are matched broadly; "+bad+", so a keyword or reference prefix would be swallowed by the id reader")
			} else {
				r.OK("G2", "reader order", p.pos(pt.Pos()), "keyword readers dominate the id reader", fmt.Sprintf("%d keyword readers, %d id readers", len(kwCalls), len(idCalls)), true)
			}
		}
	g2done:
	}
	// G3
	tokT := p.ExpPkg.Types.Scope().Lookup("token")
	roleNamesT := map[string]string{}
	sc := p.ExpPkg.Types.Scope()
	for _, n := range sc.Names() {
		if c, ok := sc.Lookup(n).(*types.Const); ok {
			if nm, ok := c.Type().(*types.Named); ok && nm.Obj().Name() == "tokenrole" {
				roleNamesT[c.Val().ExactString()] = n
			}
		}
	}
	if tokT == nil {
		r.Unknown("G3", "anchor", "-", "unresolved anchor: type token")
	} else {
		produced := map[string]token.Pos{}
		consumed := map[string]token.Pos{}
		for _, f := range p.RList {
			for _, b := range f.Blocks {
				for _, in := range b.Instrs {
					switch t := in.(type) {
					case *ssa.Store:
						if fa, ok := t.Addr.(*ssa.FieldAddr); ok && fieldOf(fa).Struct == tokT.Type().String() && fieldOf(fa).Field == "role" {
							if prm, isPrm := t.Val.(*ssa.Parameter); isPrm {
								// a shared token constructor: the constant roles its call sites pass
								if cs, ok := paramConsts(p, prm); ok {
									for _, c := range cs {
										produced[c.Value.ExactString()] = t.Pos()
									}
									continue
								}
							}
							if c, ok := t.Val.(*ssa.Const); ok && c.Value != nil {
								produced[c.Value.ExactString()] = t.Pos()
							} else {
								r.Unknown("G3", "role store", p.pos(t.Pos()), "kind=undecided: a non-constant role is stored into a token")
							}
						}
					}
				}
			}
		}
		for _, u := range roleUses(p) {
			consumed[u.role] = u.in.Pos()
		}
		seen := map[string]bool{}
		for k := range produced {
			seen[k] = true
		}
		for k := range consumed {
			seen[k] = true
		}
		var ks []string
		for k := range seen {
			ks = append(ks, k)
		}
		sort.Strings(ks)
		for _, k := range ks {
			name := roleNamesT[k]
			if name == "" {
				name = "role " + k
			}
			_, pr := produced[k]
			_, co := consumed[k]
			switch {
			case pr && co:
				r.OK("G3", name, p.pos(produced[k]), "produced and consumed", "", false)
			case pr:
				r.Bad("G3", name, p.pos(produced[k]), fmt.Sprintf("the scanner produces tokens of role %s but no parser function tests for it: such a token can never be part of an accepted expression, or is silently treated as something else", name))
			default:
				r.Bad("G3", name, p.pos(consumed[k]), fmt.Sprintf("the parser tests for role %s, which the scanner never produces", name))
			}
		}
	}

	// G4
	bp := newBoundsProver(p, eng)
	bp.houdiniGlobal(p.RList)
	for _, T := range bp.structTypes() {
		for _, c := range bp.invCandidates(T) {
			if c.G == "" || !c.GIsStr {
				continue
			}
			// only cursor/buffer pairs: the struct must be mutated through this pair somewhere
			if !bp.cand[c.key()] {
				why := ""
				for _, l := range bp.log {
					if strings.Contains(l, c.key()) {
						why = l
					}
				}
				// a candidate that never held (e.g. removed ≤ len(expression)) is not a cursor invariant:
				// report only the pair whose lower bound f ≥ 0 is inductive (a genuine cursor)
				lower := invField{T: c.T, F: c.F}
				if bp.cand[lower.key()] && cursorOf(p, c) {
					r.Bad("G4", fmt.Sprintf("invariant %s.%s <= len(%s)", c.T.Obj().Name(), c.F, c.G), "-", "the scan cursor can run past the end of the buffer, or a buffer rewrite/cursor move is inconsistent: "+shortVars(why))
				}
				continue
			}
			// c: cursor f ≤ len(buffer g), an inferred invariant: check every mutation of g and f
			for _, f := range p.RList {
				fb := bp.forFn(f)
				for _, b := range f.Blocks {
					for _, in := range b.Instrs {
						if call, ok := in.(*ssa.Call); ok && call.Call.StaticCallee() != nil && p.InModule(call.Call.StaticCallee()) {
							if ti := bp.transparent(call.Call.StaticCallee()); ti != nil {
								for _, u := range ti.updates {
									if u.fk.Struct == T.String() && u.fk.Field == c.F {
										if d, ok := fb.renameCallee(u.delta, call.Call.StaticCallee(), call, false); ok {
											checkCursorMoveCall(p, r, fb, call, d, c)
										}
									}
								}
							}
						}
						st, ok := in.(*ssa.Store)
						if !ok {
							continue
						}
						if ti := bp.transparent(f); ti != nil && len(ti.updates) > 0 {
							continue // judged at the call sites of this transparent mutator
						}
						fa, ok := st.Addr.(*ssa.FieldAddr)
						if !ok || fieldOf(fa).Struct != T.String() || baseIsLocalAlloc(fa.X, 0) {
							continue
						}
						switch fieldOf(fa).Field {
						case c.G:
							checkBufferRewrite(p, r, fb, st, fa, c)
						case c.F:
							checkCursorMove(p, r, fb, st, fa, c)
						}
					}
				}
			}
		}
	}

	// G5
	if pt := p.Func(p.ExpPkg, "(*tokenStream).parseTokens"); pt == nil {
		r.Unknown("G5", "anchor", "-", "unresolved anchor: (*tokenStream).parseTokens")
	} else {
		fb := bp.forFn(pt)
		n := 0
		for _, b := range pt.Blocks {
			ret, ok := b.Instrs[len(b.Instrs)-1].(*ssa.Return)
			if !ok {
				continue
			}
			if isNilValue(ret.Results[0], 0) {
				continue
			}
			n++
			atEnd := false
			for cf := range fb.facts[b.Index] {
				if call, ok := cf.c.(*ssa.Call); ok && !cf.pol && call.Call.StaticCallee() != nil && call.Call.StaticCallee().Name() == "hasMore" && call.Call.Args[0] == ssa.Value(pt.Params[0]) {
					// no token consumed between the test and the return: the cursor field is not written in between
					atEnd = true
				}
			}
			key := "parseTokens|return " + retDesc(ret)
			if atEnd {
				r.OK("G5", key, p.pos(ret.Pos()), "dominated by !hasMore()", "", true)
			} else {
				r.Bad("G5", key, p.pos(ret.Pos()), "a parse tree is returned at a point where tokens may remain: trailing input would be accepted")
			}
		}
		if n == 0 {
			r.Unknown("G5", "parseTokens", p.pos(pt.Pos()), "kind=undecided: no value return found")
		}
	}

	ruleG6(p, r, eng)
	if t, err := p.LoadTables(); err != nil {
		r.Rule("G7", "necessary", 500, "every listed id is readable by the scanner's id pattern")
		r.Unknown("G7", "tables", "-", err.Error())
	} else {
		ruleIDsScannable(p, r, t, kw, "G7")
	}
	ruleIDClassExact(p, r, kw, "G10")
	pinfo, pfuncs := ruleP1x(p, r, eng)
	ruleG11(p, r, pinfo, pfuncs)
	ruleG8(p, r)
	ruleAfterRecognition(p, r, "G9", true)
}

// ruleG8: a license atom absorbs at most one '+'. Two layers can absorb a '+' that abuts an id: the
// scanner's normalisation (an attempt of the extracted lookup plan that consumes it) and the parser's
// optional '+' after a license token. For every listed id X the text "X++" is run through the extracted
// plan; whatever is left is offered to the parser, which takes one '+' (G8p: exactly one call site of
// parseOperator("+") in parseLicense, not in a loop). If nothing is left, "X++" is accepted although no
// derivation of the grammar yields two '+' on one id.
func ruleG8(p *Prog, r *Report) {
	r.Rule("G8", "necessary", 500, "one '+' per license atom: for every listed id X, the scanner's lookup plan and the parser together do not absorb both '+' of \"X++\"")
	r.Rule("G8p", "necessary", 1, "the parser absorbs at most one '+' operator after a license token (one call site, outside any loop)")
	t, err := p.LoadTables()
	if err != nil {
		r.Unknown("G8", "tables", "-", err.Error())
		return
	}
	plan, err := extractPlan(p)
	if err != nil {
		r.Unknown("G8", "plan", "-", "kind=undecided: "+err.Error())
		return
	}
	pl := p.Func(p.ExpPkg, "(*tokenStream).parseLicense")
	parseOp := p.Func(p.ExpPkg, "(*tokenStream).parseOperator")
	if pl == nil || parseOp == nil {
		r.Unknown("G8p", "anchor", "-", "unresolved anchor: (*tokenStream).parseLicense / parseOperator")
		return
	}
	parserPlus := 0
	inLoop := false
	valueDependent := ""
	for _, f := range p.RList {
		for _, b := range f.Blocks {
			for _, in := range b.Instrs {
				c, ok := in.(*ssa.Call)
				if !ok || (c.Call.StaticCallee() == nil || !opMatcherSet(p)[c.Call.StaticCallee()]) || len(c.Call.Args) < 2 {
					continue
				}
				if s, ok := constString(c.Call.Args[1]); ok && s == "+" {
					parserPlus++
					// the '+' must be looked for whatever the license token's text is: the grammar allows
					// id '+' for every listed id, including those that end in -or-later
					for _, l := range pathLiterals(p, f, b) {
						if ls := l.String(); strings.Contains(ls, ".value") {
							valueDependent = fmt.Sprintf("%s: the '+' after a license is only looked for when %s", p.pos(c.Pos()), shortDesc(ls))
						}
					}
					for _, h := range f.Blocks {
						if isLoopHeader(h) && naturalLoop(h)[b] {
							inLoop = true
						}
					}
					if f != pl && !calledOnceOutsideLoops(p, f, pl) {
						inLoop = true // a second place that takes '+'
					}
				}
			}
		}
	}
	if valueDependent != "" {
		r.Bad("G8p", "parseLicense|'+'", p.pos(pl.Pos()), valueDependent+": for the other ids a following '+' is left in the stream and the expression is rejected although id '+' is in the grammar")
	} else if parserPlus == 1 && !inLoop {
		r.OK("G8p", "parseLicense|'+'", p.pos(pl.Pos()), "one optional '+' per license token", "", true)
	} else {
		r.Bad("G8p", "parseLicense|'+'", p.pos(pl.Pos()), fmt.Sprintf("the parser can take more than one '+' after a license (%d call sites of parseOperator(\"+\"), in a loop or outside parseLicense: %v)", parserPlus, inLoop))
	}
	take := 0
	if parserPlus > 0 {
		take = 1
	}
	ids := append(append([]string{}, t.Active...), t.Deprecated...)
	for _, id := range ids {
		res := plan.eval(t, id, "++")
		if !res.OK || res.Role != plan.LicenseRole {
			r.OK("G8", id, "-", "not a license token with '++' behind it", "", false)
			continue
		}
		left := res.Rest
		for i := 0; i < take; i++ {
			left = strings.TrimPrefix(left, "+")
		}
		if left == "" {
			r.Bad("G8", id, p.pos(plan.Fn.Pos()), fmt.Sprintf("%q is accepted: the scanner absorbs the first '+' (%s, token %s) and the parser the second; the grammar allows one '+' per id (compare \"MIT++\", which is rejected)", id+"++", res.Via, res.License))
		} else {
			r.OK("G8", id, "-", "a '+' is left over and rejected by the parser", res.Via, false)
		}
	}
}

// constStringSet: the finite set of constant strings v can be — a constant, a phi of such, an element of
// a local array/slice literal of strings, or a string field of an element of a local array literal of
// structs (table-driven code). Every element of the literal is taken as possible.
func constStringSet(v ssa.Value, d int) ([]string, bool) {
	if d > 4 {
		return nil, false
	}
	if s, ok := constString(v); ok {
		return []string{s}, true
	}
	literalOf := func(x ssa.Value) *ssa.Alloc {
		switch t := x.(type) {
		case *ssa.UnOp: // whole array loaded as a value
			if t.Op == token.MUL {
				if al, ok := t.X.(*ssa.Alloc); ok {
					return al
				}
			}
		case *ssa.Alloc:
			return t
		case *ssa.Slice:
			if al, ok := t.X.(*ssa.Alloc); ok {
				return al
			}
		}
		return nil
	}
	// collect the constants stored into element slots (optionally into one field of each element)
	collect := func(al *ssa.Alloc, field int) ([]string, bool) {
		var out []string
		for _, r := range *al.Referrers() {
			ia, ok := r.(*ssa.IndexAddr)
			if !ok {
				continue
			}
			for _, rr := range *ia.Referrers() {
				switch t := rr.(type) {
				case *ssa.Store:
					if field < 0 && t.Addr == ssa.Value(ia) {
						s, ok := constString(t.Val)
						if !ok {
							return nil, false
						}
						out = append(out, s)
					}
				case *ssa.FieldAddr:
					if field >= 0 && t.Field == field {
						for _, r3 := range *t.Referrers() {
							if st, ok := r3.(*ssa.Store); ok && st.Addr == ssa.Value(t) {
								s, ok := constString(st.Val)
								if !ok {
									return nil, false
								}
								out = append(out, s)
							}
						}
					}
				}
			}
		}
		return out, len(out) > 0
	}
	switch t := v.(type) {
	case *ssa.Phi:
		var out []string
		for _, e := range t.Edges {
			ss, ok := constStringSet(e, d+1)
			if !ok {
				return nil, false
			}
			out = append(out, ss...)
		}
		return out, len(out) > 0
	case *ssa.Index: // arr[i] on an array value
		if al := literalOf(t.X); al != nil {
			return collect(al, -1)
		}
	case *ssa.Field: // arr[i].f on an array-of-structs value
		if ss, ok := structFieldConsts(t.X, t.Field, d+1); ok {
			return ss, true
		}
		if ix, ok := t.X.(*ssa.Index); ok {
			if al := literalOf(ix.X); al != nil {
				return collect(al, t.Field)
			}
		}
	case *ssa.UnOp:
		if t.Op != token.MUL {
			break
		}
		switch a := t.X.(type) {
		case *ssa.IndexAddr: // slice or *array element
			if al := literalOf(a.X); al != nil {
				return collect(al, -1)
			}
		case *ssa.FieldAddr:
			if ia, ok := a.X.(*ssa.IndexAddr); ok {
				if al := literalOf(ia.X); al != nil {
					return collect(al, a.Field)
				}
			}
			// a field of a local struct variable that holds a copy of a table element (for _, e := range table)
			if lv, ok := a.X.(*ssa.Alloc); ok {
				var out []string
				n := 0
				for _, r := range *lv.Referrers() {
					st, ok := r.(*ssa.Store)
					if !ok || st.Addr != ssa.Value(lv) {
						continue
					}
					n++
					ss, ok := structFieldConsts(st.Val, a.Field, d+1)
					if !ok {
						return nil, false
					}
					out = append(out, ss...)
				}
				return out, n > 0 && len(out) > 0
			}
		}
	}
	return nil, false
}

// structFieldConsts: the constants field #f of struct value v can hold — v is a struct literal (loaded
// from its local), or an element of a local array literal of such structs.
func structFieldConsts(v ssa.Value, f int, d int) ([]string, bool) {
	if d > 6 {
		return nil, false
	}
	switch t := v.(type) {
	case *ssa.UnOp:
		if t.Op != token.MUL {
			return nil, false
		}
		al, ok := t.X.(*ssa.Alloc)
		if !ok {
			return nil, false
		}
		var out []string
		for _, r := range *al.Referrers() {
			fa, ok := r.(*ssa.FieldAddr)
			if !ok || fa.Field != f {
				continue
			}
			for _, rr := range *fa.Referrers() {
				if st, ok := rr.(*ssa.Store); ok && st.Addr == ssa.Value(fa) {
					s, ok := constString(st.Val)
					if !ok {
						return nil, false
					}
					out = append(out, s)
				}
			}
		}
		return out, len(out) > 0
	case *ssa.Index:
		ld, ok := t.X.(*ssa.UnOp)
		if !ok || ld.Op != token.MUL {
			return nil, false
		}
		arr, ok := ld.X.(*ssa.Alloc)
		if !ok {
			return nil, false
		}
		var out []string
		for _, r := range *arr.Referrers() {
			ia, ok := r.(*ssa.IndexAddr)
			if !ok {
				continue
			}
			for _, rr := range *ia.Referrers() {
				if st, ok := rr.(*ssa.Store); ok && st.Addr == ssa.Value(ia) {
					ss, ok := structFieldConsts(st.Val, f, d+1)
					if !ok {
						return nil, false
					}
					out = append(out, ss...)
				}
				// element initialised in place: &arr[i].f = const
				if fa, ok := rr.(*ssa.FieldAddr); ok && fa.Field == f {
					for _, r3 := range *fa.Referrers() {
						if st, ok := r3.(*ssa.Store); ok && st.Addr == ssa.Value(fa) {
							s, ok := constString(st.Val)
							if !ok {
								return nil, false
							}
							out = append(out, s)
						}
					}
				}
			}
		}
		return out, len(out) > 0
	}
	return nil, false
}

// paramConsts: the constants passed for parameter prm at every static call site of its function in the
// reachable code; ok is false when some site passes a non-constant or there is no site.
func paramConsts(p *Prog, prm *ssa.Parameter) ([]*ssa.Const, bool) {
	return paramConstsRec(p, prm, map[*ssa.Parameter]bool{})
}

func paramConstsRec(p *Prog, prm *ssa.Parameter, seen map[*ssa.Parameter]bool) ([]*ssa.Const, bool) {
	if seen[prm] {
		return nil, true
	}
	seen[prm] = true
	f := prm.Parent()
	idx := -1
	for i, fp := range f.Params {
		if fp == prm {
			idx = i
		}
	}
	if idx < 0 {
		return nil, false
	}
	var out []*ssa.Const
	sites := 0
	for _, g := range p.RList {
		for _, b := range g.Blocks {
			for _, in := range b.Instrs {
				ci, ok := in.(ssa.CallInstruction)
				if !ok || ci.Common().StaticCallee() != f || idx >= len(ci.Common().Args) {
					continue
				}
				sites++
				switch a := ci.Common().Args[idx].(type) {
				case *ssa.Const:
					if a.Value == nil {
						return nil, false
					}
					out = append(out, a)
				case *ssa.Parameter:
					// forwarded from the caller's own parameter: the constants its call sites pass
					cs, ok := paramConstsRec(p, a, seen)
					if !ok {
						return nil, false
					}
					out = append(out, cs...)
				default:
					return nil, false
				}
			}
		}
	}
	return out, sites > 0 && len(out) > 0
}

// unwrapThunk: the in-module method a synthetic thunk / bound-method wrapper forwards to, else f itself.
func unwrapThunk(p *Prog, f *ssa.Function) *ssa.Function {
	if f == nil || f.Synthetic == "" || p.InModule(f) {
		return f
	}
	var inner *ssa.Function
	n := 0
	for _, b := range f.Blocks {
		for _, in := range b.Instrs {
			if ci, ok := in.(ssa.CallInstruction); ok {
				if c := ci.Common().StaticCallee(); c != nil {
					inner = c
					n++
				}
			}
		}
	}
	if n == 1 && inner != nil {
		return inner
	}
	return f
}

// suffixGetter: call is g(recv) on the object whose buffer is being rewritten, and g is a one-block
// getter returning recv.<buffer>[k:] — a suffix of the old buffer.
func suffixGetter(p *Prog, call *ssa.Call, fa *ssa.FieldAddr, c invField) bool {
	g := call.Call.StaticCallee()
	if g == nil || !p.InModule(g) || len(g.Blocks) != 1 || len(call.Call.Args) == 0 || call.Call.Args[0] != fa.X || len(g.Params) == 0 {
		return false
	}
	ret, ok := g.Blocks[0].Instrs[len(g.Blocks[0].Instrs)-1].(*ssa.Return)
	if !ok || len(ret.Results) != 1 {
		return false
	}
	sl, ok := ret.Results[0].(*ssa.Slice)
	if !ok || sl.High != nil {
		return false
	}
	ld, ok := sl.X.(*ssa.UnOp)
	if !ok || ld.Op != token.MUL {
		return false
	}
	gfa, ok := ld.X.(*ssa.FieldAddr)
	return ok && gfa.X == ssa.Value(g.Params[0]) && fieldOf(gfa).Field == c.G && fieldOf(gfa).Struct == c.T.String()
}

// tailOf returns the last operand of a string concatenation chain.
func tailOf(v ssa.Value) ssa.Value {
	if bo, ok := v.(*ssa.BinOp); ok && bo.Op == token.ADD && isStringType(bo.Type()) {
		return tailOf(bo.Y)
	}
	return v
}

func mentionsOld(v ssa.Value, isOld func(ssa.Value) bool, d int) bool {
	if d > 6 {
		return false
	}
	if isOld(v) {
		return true
	}
	switch t := v.(type) {
	case *ssa.BinOp:
		return mentionsOld(t.X, isOld, d+1) || mentionsOld(t.Y, isOld, d+1)
	case *ssa.Slice:
		return mentionsOld(t.X, isOld, d+1)
	case *ssa.Call:
		for _, a := range t.Call.Args {
			if mentionsOld(a, isOld, d+1) {
				return true
			}
		}
	}
	return false
}

func checkBufferRewrite(p *Prog, r *Report, fb *fnBounds, st *ssa.Store, fa *ssa.FieldAddr, c invField) {
	f := st.Parent()
	isOld := func(v ssa.Value) bool {
		ld, ok := v.(*ssa.UnOp)
		if !ok || ld.Op != token.MUL {
			return false
		}
		fa2, ok := ld.X.(*ssa.FieldAddr)
		return ok && fa2.X == fa.X && fieldOf(fa2).Field == c.G && fieldOf(fa2).Struct == c.T.String()
	}
	type edge struct {
		val  ssa.Value
		at   ssa.Instruction // where facts are taken
		cond []constraint
	}
	var edges []edge
	if phi, ok := st.Val.(*ssa.Phi); ok {
		for i, e := range phi.Edges {
			pred := phi.Block().Preds[i]
			last := pred.Instrs[len(pred.Instrs)-1]
			var extra []constraint
			if ifi, isIf := last.(*ssa.If); isIf && pred.Succs[0] != pred.Succs[1] {
				extra = fb.condConstraints(ifi.Cond, pred.Succs[0] == phi.Block(), last, 0)
			}
			edges = append(edges, edge{e, last, extra})
		}
	} else {
		edges = append(edges, edge{st.Val, st, nil})
	}
	cursor := func(at ssa.Instruction) lin {
		cls := "fld:" + c.T.String() + "." + c.F
		return linVar(fmt.Sprintf("mem(%s.%s@%s)", fb.vid(fa.X, at), c.F, fb.versionAt(cls, at)))
	}
	bufLen := func(at ssa.Instruction) lin {
		cls := "fld:" + c.T.String() + "." + c.G
		return linVar("len:" + fmt.Sprintf("mem(%s.%s@%s)", fb.vid(fa.X, at), c.G, fb.versionAt(cls, at)))
	}
	for i, e := range edges {
		key := fmt.Sprintf("%s|rewrite of %s.%s (path %d)", p.shortKey(f), c.T.Obj().Name(), c.G, i)
		pos := p.pos(st.Pos())
		tail := tailOf(e.val)
		var k lin
		okTail := false
		what := ""
		switch t := tail.(type) {
		case *ssa.Slice:
			if isOld(t.X) && t.High == nil {
				if t.Low == nil {
					k, okTail = linConst(0), true
				} else if l, ok := fb.linOf(t.Low, t, 0); ok {
					k, okTail = l, true
				}
				what = "old[" + describeIdx(t.Low) + ":]"
			}
		case *ssa.Call:
			if suffixGetter(p, t, fa, c) {
				// a getter of "the unread rest": a suffix of the old buffer, starting len(old) - len(result) in
				k, okTail = bufLen(t).sub(fb.lenOf(t, t, 0)), true
				what = t.Call.StaticCallee().Name() + "()"
			}
			if callee := t.Call.StaticCallee(); callee != nil && (callee.String() == "strings.TrimPrefix") {
				if g, ok := t.Call.Args[0].(*ssa.Call); ok && suffixGetter(p, g, fa, c) {
					if _, isConst := constString(t.Call.Args[1]); isConst {
						k, okTail = bufLen(g).sub(fb.lenOf(g, g, 0)), true
						what = "TrimPrefix(" + g.Call.StaticCallee().Name() + "(), const)"
					}
				}
				if sl, ok := t.Call.Args[0].(*ssa.Slice); ok && isOld(sl.X) && sl.High == nil {
					if _, isConst := constString(t.Call.Args[1]); isConst {
						if sl.Low == nil {
							k, okTail = linConst(0), true
						} else if l, ok := fb.linOf(sl.Low, sl, 0); ok {
							k, okTail = l, true
						}
						what = "TrimPrefix(old[" + describeIdx(sl.Low) + ":], const)"
					}
				}
			}
		}
		facts := append(fb.factsBefore(e.at), e.cond...)
		if okTail {
			goal := geq(cursor(e.at), k, "tail starts at or before the cursor")
			if entails(addLenNonNeg(facts, goal), goal) {
				r.OK("G4", key, pos, "tail "+what+" starts at or before the cursor", "", true)
			} else {
				r.Bad("G4", key, pos, fmt.Sprintf("the rewritten buffer ends with %s, which starts after the cursor: the bytes between the cursor and that position are unread input and are dropped", what))
			}
			continue
		}
		if mentionsOld(e.val, isOld, 0) || true {
			// no kept tail on this path: nothing may be unread
			goal := geq(cursor(e.at), bufLen(e.at), "nothing unread")
			if entails(addLenNonNeg(facts, goal), goal) {
				r.OK("G4", key, pos, "no tail kept and nothing unread on this path", "", true)
			} else {
				r.Bad("G4", key, pos, "the buffer is rewritten without keeping the old buffer's unread tail, on a path where unread input may remain")
			}
		}
	}
}

func checkCursorMove(p *Prog, r *Report, fb *fnBounds, st *ssa.Store, fa *ssa.FieldAddr, c invField) {
	f := st.Parent()
	key := fmt.Sprintf("%s|%s.%s = %s", p.shortKey(f), c.T.Obj().Name(), c.F, describeIdx(st.Val))
	newV, ok := fb.linOf(st.Val, st, 0)
	if !ok {
		r.Unknown("G4", key, p.pos(st.Pos()), "kind=undecided: new cursor value is not linear")
		return
	}
	cls := "fld:" + c.T.String() + "." + c.F
	old := linVar(fmt.Sprintf("mem(%s.%s@%s)", fb.vid(fa.X, st), c.F, fb.versionAt(cls, st)))
	restore := false
	if ld, ok := st.Val.(*ssa.UnOp); ok && ld.Op == token.MUL {
		if fa2, ok := ld.X.(*ssa.FieldAddr); ok && fa2.X == fa.X && fieldOf(fa2).Field == c.F {
			restore = true
		}
	}
	cursorMoveCore(p, r, fb, f, st, key, old, newV, restore, c)
}

// checkCursorMoveCall: the same judgement for a call to a transparent mutator (advance(n)): the cursor
// moves by the renamed delta at the call site.
func checkCursorMoveCall(p *Prog, r *Report, fb *fnBounds, call *ssa.Call, delta lin, c invField) {
	f := call.Parent()
	key := fmt.Sprintf("%s|%s.%s moved by %s(%s)", p.shortKey(f), c.T.Obj().Name(), c.F, call.Call.StaticCallee().Name(), describeIdx(call.Call.Args[len(call.Call.Args)-1]))
	cls := "fld:" + c.T.String() + "." + c.F
	old := linVar(fmt.Sprintf("mem(%s.%s@%s)", fb.vid(call.Call.Args[0], call), c.F, fb.versionAt(cls, call)))
	cursorMoveCore(p, r, fb, f, call, key, old, old.add(delta), false, c)
}

func cursorMoveCore(p *Prog, r *Report, fb *fnBounds, f *ssa.Function, st ssa.Instruction, key string, old, newV lin, restore bool, c invField) {
	pos := p.pos(st.Pos())
	facts := fb.factsBefore(st)
	// backward or unchanged moves never skip input
	if g := geq(old, newV, "cursor does not advance"); entails(addLenNonNeg(facts, g), g) {
		r.OK("G4", key, pos, "cursor does not advance", "", true)
		return
	}
	// restore of a value loaded earlier from the same field
	if restore {
		r.OK("G4", key, pos, "restores a saved cursor", "", true)
		return
	}
	// forward by d: d must be the length of matched text
	d := newV.sub(old)
	matched := []struct {
		l   lin
		why string
	}{}
	for cf := range fb.facts[st.Block().Index] {
		if !cf.pol {
			// result == nil is false: the regexp matched (the early-return form of the test)
			if bo, ok := cf.c.(*ssa.BinOp); ok && bo.Op == token.EQL {
				for _, side := range []ssa.Value{bo.X, bo.Y} {
					if call, ok := side.(*ssa.Call); ok && call.Call.StaticCallee() != nil && call.Call.StaticCallee().String() == "(*regexp.Regexp).FindStringIndex" {
						et := "elem:int"
						e1 := linVar(fmt.Sprintf("elem(%s[%s]@%s)", ssaName(call), linConst(1).String(), fb.versionAt(et, st)))
						matched = append(matched, struct {
							l   lin
							why string
						}{e1, "regexp match end"})
					}
				}
			}
			continue
		}
		if call, ok := cf.c.(*ssa.Call); ok && call.Call.StaticCallee() != nil && call.Call.StaticCallee().String() == "strings.HasPrefix" {
			// HasPrefix(buffer[cursor:], next): advance by len(next)
			matched = append(matched, struct {
				l   lin
				why string
			}{fb.lenOf(call.Call.Args[1], call, 0), "HasPrefix matched"})
		}
		if bo, ok := cf.c.(*ssa.BinOp); ok && bo.Op == token.EQL {
			// buffer[cursor:cursor+1] == const
			for _, pair := range [][2]ssa.Value{{bo.X, bo.Y}, {bo.Y, bo.X}} {
				if s, isC := constString(pair[1]); isC {
					if _, isSl := pair[0].(*ssa.Slice); isSl {
						matched = append(matched, struct {
							l   lin
							why string
						}{linConst(int64(len(s))), "compared equal to a constant"})
					}
				}
			}
		}
		// the byte at the cursor was tested: pred(buffer[cursor]) or buffer[cursor] == const
		{
			atCursor := func(v ssa.Value) bool {
				var x, idx ssa.Value
				switch t := v.(type) {
				case *ssa.Index:
					x, idx = t.X, t.Index
				case *ssa.Lookup:
					x, idx = t.X, t.Index
				default:
					return false
				}
				ld, ok := x.(*ssa.UnOp)
				if !ok || ld.Op != token.MUL || !isStringType(x.Type()) {
					return false
				}
				fa, ok := ld.X.(*ssa.FieldAddr)
				if !ok || fieldOf(fa).Field != c.G || fieldOf(fa).Struct != c.T.String() {
					return false
				}
				clsG := "fld:" + c.T.String() + "." + c.G
				if fb.versionAt(clsG, ld) != fb.versionAt(clsG, st) {
					return false
				}
				il, ok := fb.linOf(idx, v.(ssa.Instruction), 0)
				return ok && il.sub(old).isConst() && il.sub(old).k.Sign() == 0
			}
			tested := false
			switch t := cf.c.(type) {
			case *ssa.Call:
				tested = len(t.Call.Args) == 1 && !t.Call.IsInvoke() && atCursor(t.Call.Args[0])
			case *ssa.BinOp:
				if t.Op == token.EQL {
					_, kx := t.X.(*ssa.Const)
					_, ky := t.Y.(*ssa.Const)
					tested = ky && atCursor(t.X) || kx && atCursor(t.Y)
				}
			}
			if tested {
				matched = append(matched, struct {
					l   lin
					why string
				}{linConst(1), "the byte at the cursor was tested"})
			}
		}
		if bo, ok := cf.c.(*ssa.BinOp); ok && bo.Op == token.NEQ {
			if call, ok := bo.X.(*ssa.Call); ok && call.Call.StaticCallee() != nil && call.Call.StaticCallee().String() == "(*regexp.Regexp).FindStringIndex" {
				et := "elem:int"
				e1 := linVar(fmt.Sprintf("elem(%s[%s]@%s)", ssaName(call), linConst(1).String(), fb.versionAt(et, st)))
				matched = append(matched, struct {
					l   lin
					why string
				}{e1, "regexp match end"})
			}
		}
	}
	// the same, seen through boolean helpers: literals of the path condition that compare the text at the
	// cursor with a constant
	if len(f.Params) > 0 {
		recv := "param:" + f.Params[0].Name()
		for _, l := range pathLiterals(p, f, st.Block()) {
			if kind, val := classifyPlanLiteral(l, recv, ""); kind == "needNext" {
				matched = append(matched, struct {
					l   lin
					why string
				}{linConst(int64(len(val))), "text at the cursor compared equal to a constant"})
			}
		}
	}
	for _, m := range matched {
		g1 := geq(m.l, d, "advance ≤ matched length")
		if entails(addLenNonNeg(facts, g1), g1) {
			r.OK("G4", key, pos, "advances by at most the length of matched text ("+m.why+")", "", true)
			return
		}
	}
	if why := predicateScanMatch(fb, f, st, d, c); why != "" {
		r.OK("G4", key, pos, why, "", true)
		return
	}
	r.Bad("G4", key, pos, fmt.Sprintf("the cursor moves forward by %s without a dominating match of that much text: unread input is skipped", d.String()))
}

// predicateScanMatch: the advance d is a counter n = phi(0, n+1) whose increment is guarded, on every
// path, by a predicate applied to the n-th byte of the unread text (buffer[cursor:], cursor and buffer
// unchanged since): the n bytes passed over have each been looked at and accepted.
func predicateScanMatch(fb *fnBounds, f *ssa.Function, st ssa.Instruction, d lin, c invField) string {
	// advance by len(rest) - len(strings.TrimLeft(rest, cutset)): the leading bytes of the unread text that are
	// in a constant cutset
	for _, b := range f.Blocks {
		for _, in := range b.Instrs {
			tc, ok := in.(*ssa.Call)
			if !ok || tc.Call.StaticCallee() == nil || tc.Call.StaticCallee().String() != "strings.TrimLeft" || len(tc.Call.Args) != 2 {
				continue
			}
			if _, isK := constString(tc.Call.Args[1]); !isK {
				continue
			}
			if !(tc.Block() == st.Block() && blockOrder(tc) < blockOrder(st) || tc.Block() != st.Block() && tc.Block().Dominates(st.Block())) {
				continue
			}
			rest := tc.Call.Args[0]
			if !isRestOfBuffer(fb, f, rest, st, c) {
				continue
			}
			want := fb.lenOf(rest, tc, 0).sub(linVar("len:" + ssaName(tc)))
			if diff := d.sub(want); diff.isConst() && diff.k.Sign() == 0 {
				return "advances by the number of leading bytes of the unread text that strings.TrimLeft removed (a constant cutset)"
			}
		}
	}
	if d.k.Sign() != 0 || len(d.c) != 1 {
		return ""
	}
	var name string
	for v, co := range d.c {
		if co.Cmp(big.NewRat(1, 1)) != 0 {
			return ""
		}
		name = v
	}
	var phi *ssa.Phi
	for _, b := range f.Blocks {
		for _, in := range b.Instrs {
			if ph, ok := in.(*ssa.Phi); ok && ssaName(ph) == name {
				phi = ph
			}
		}
	}
	if os.Getenv("SPDXVERIF_TRACE_G4") != "" {
		fmt.Fprintln(os.Stderr, "G4 scan", name, phi != nil)
		if phi != nil {
			for _, e := range phi.Edges {
				if bo, ok := e.(*ssa.BinOp); ok {
					for cf := range fb.facts[bo.Block().Index] {
						fmt.Fprintf(os.Stderr, "  fact %v %T %s\n", cf.pol, cf.c, cf.c)
					}
				}
			}
		}
	}
	if phi == nil {
		return ""
	}
	restOf := func(v ssa.Value) bool { return isRestOfBuffer(fb, f, v, st, c) }
	// acceptedAt: cond is pred(rest[phi]) for some predicate over one byte
	acceptedAt := func(cond ssa.Value) bool {
		var arg ssa.Value
		switch t := cond.(type) {
		case *ssa.Call:
			if len(t.Call.Args) != 1 || t.Call.IsInvoke() {
				return false
			}
			arg = t.Call.Args[0]
		case *ssa.BinOp:
			// rest[n] == const
			if t.Op != token.EQL {
				return false
			}
			if _, ok := t.Y.(*ssa.Const); ok {
				arg = t.X
			} else if _, ok := t.X.(*ssa.Const); ok {
				arg = t.Y
			} else {
				return false
			}
		default:
			return false
		}
		switch lk := arg.(type) {
		case *ssa.Lookup:
			return lk.Index == ssa.Value(phi) && restOf(lk.X)
		case *ssa.Index:
			return lk.Index == ssa.Value(phi) && restOf(lk.X)
		}
		return false
	}
	for _, e := range phi.Edges {
		if k, ok := e.(*ssa.Const); ok && k.Value != nil && k.Int64() == 0 {
			continue
		}
		bo, ok := e.(*ssa.BinOp)
		if !ok || bo.Op != token.ADD || bo.X != ssa.Value(phi) {
			return ""
		}
		if k, ok := bo.Y.(*ssa.Const); !ok || k.Value == nil || k.Int64() != 1 {
			return ""
		}
		guarded := false
		for cf := range fb.facts[bo.Block().Index] {
			if cf.pol && acceptedAt(cf.c) {
				guarded = true
			}
		}
		if !guarded {
			return ""
		}
	}
	return "advances by a count of bytes of the unread text that a predicate accepted one by one"
}

// ---------------------------------------------------------------------------------------------
// G6 by the abstract interpreter: at every `return nil` of a parser function, if the stream's
// cursor may have advanced since entry then the stream's error is non-nil.

type g6Observer struct {
	p     *Prog
	funcs map[*ssa.Function]bool
	// per return instruction: visits / bad
	res      map[*ssa.Return]*[2]int
	wit      map[*ssa.Return]string
	entryIdx map[string]AV
}

func ruleG6(p *Prog, r *Report, eng *Engine) {
	ts := p.ExpPkg.Types.Scope().Lookup("tokenStream")
	if ts == nil {
		r.Unknown("G6", "anchor", "-", "unresolved anchor: type tokenStream")
		return
	}
	n := 0
	for _, f := range p.RList {
		recv := f.Signature.Recv()
		if recv == nil || !strings.HasSuffix(recv.Type().String(), "tokenStream") {
			continue
		}
		res := f.Signature.Results()
		if res.Len() != 1 || kindOf(res.At(0).Type()) != KPtr {
			continue
		}
		// standalone run from an entry state with err == nil and a symbolic cursor
		ent := eng.entry[f]
		var args []CF
		if ent != nil {
			args = append(args, ent...)
		} else {
			// entry shapes of the receiver as seen at its call sites
			args = []CF{{K: KPtr, Nil: nonNil}}
		}
		obs := &g6Run{eng: eng, fn: f}
		outs := eng.RunStandalone(f, args, obs)
		recvAV := eng.lastArgs[0]
		for _, b := range f.Blocks {
			ret, ok := b.Instrs[len(b.Instrs)-1].(*ssa.Return)
			if !ok {
				continue
			}
			// Only returns of the nil constant are judged.  A return that hands on a sub-parser's result which is
			// nil in some abstract state was tried (DESIGN §11.22) and withdrawn: in a dispatcher that peeks at the
			// token's role and then calls the sub-parser for that role, the interpreter cannot tell that the
			// sub-parser's own role test must succeed, so 'nil, nothing consumed' is a spurious outcome there.
			if !isNilValue(ret.Results[0], 0) {
				continue
			}
			constNil := true
			n++
			key := fmt.Sprintf("%s|return nil", p.shortKey(f))
			bad := 0
			tot := 0
			for _, o := range outs {
				if o.Env.vals == nil {
					continue
				}
				if obs.at[o.Env] != ret {
					continue
				}
				tot++
				obj := recvAV.Obj
				if obj == 0 && recvAV.Sym != 0 {
					obj = o.Env.tgt[recvAV.Sym]
				}
				if obj == 0 {
					continue // receiver never touched: nothing consumed
				}
				errV, okE := o.Env.cells[cellKey{obj, ".err"}]
				idx, okI := o.Env.cells[cellKey{obj, ".index"}]
				start := obs.startIdx[o.Env]
				consumed := okI && !(idx.Base != 0 && idx.Base == start.Base && idx.Off == start.Off) && !(idx.K == KNum && start.K == KNum && o.Env.avKey(bare(idx)) == o.Env.avKey(bare(start)))
				errSet := okE && o.Env.nilnessOf(errV) == nonNil
				if consumed && !errSet {
					bad++
				}
			}
			if os.Getenv("SPDXVERIF_DEBUG_G6") != "" {
				fmt.Fprintf(os.Stderr, "G6DBG %s %s const-nil=%v states=%d bad=%d\n", f.Name(), p.pos(ret.Pos()), constNil, tot, bad)
			}
			if tot == 0 {
				r.OK("G6", key, p.pos(ret.Pos()), "unreachable in the analysed contexts", "", true)
			} else if bad > 0 {
				r.Bad("G6", key, p.pos(ret.Pos()), fmt.Sprintf("returns 'not present' (nil, no error) after the token cursor may have advanced (%d of %d abstract states): the caller continues as if nothing had been read and malformed input is accepted", bad, tot))
			} else {
				r.OK("G6", key, p.pos(ret.Pos()), "cursor unchanged or error set", fmt.Sprintf("%d abstract states", tot), true)
			}
		}
	}
	if n == 0 {
		r.Unknown("G6", "parser functions", "-", "kind=undecided: no parser function with a nil return found")
	}
}

// g6Run remembers, per outcome environment, the return taken and the cursor at entry.
type g6Run struct {
	eng      *Engine
	fn       *ssa.Function
	at       map[*Env]*ssa.Return
	startIdx map[*Env]AV
}

func (o *g6Run) Visit(eng *Engine, fn *ssa.Function, in ssa.Instruction, env *Env) {
	if o.at == nil {
		o.at = map[*Env]*ssa.Return{}
		o.startIdx = map[*Env]AV{}
	}
	if fn != o.fn || len(eng.stack) != 1 {
		return
	}
	if os.Getenv("SPDXVERIF_DEBUG_G6") == fn.Name() {
		fmt.Fprintf(os.Stderr, "G6VISIT %s b%d %T %s\n", fn.Name(), in.Block().Index, in, in.String())
	}
	if ret, ok := in.(*ssa.Return); ok {
		o.at[env] = ret
		if s, ok := env.marksAV["g6start"]; ok {
			o.startIdx[env] = s
		}
	}
	// remember the cursor value the first time the receiver's cursor cell exists
	if _, ok := env.marksAV["g6start"]; !ok {
		recv := eng.lastArgs[0]
		obj := recv.Obj
		if obj == 0 && recv.Sym != 0 {
			obj = env.tgt[recv.Sym]
		}
		if obj != 0 {
			if idx, ok := env.cells[cellKey{obj, ".index"}]; ok {
				if env.marksAV == nil {
					env.marksAV = map[string]AV{}
				}
				env.marksAV["g6start"] = idx
			}
		}
	}
}

// cursorOf: field c.F is used to slice or index field c.G of the same object somewhere in R.
func cursorOf(p *Prog, c invField) bool {
	for _, f := range p.RList {
		for _, b := range f.Blocks {
			for _, in := range b.Instrs {
				sl, ok := in.(*ssa.Slice)
				if !ok {
					continue
				}
				ld, ok := sl.X.(*ssa.UnOp)
				if !ok {
					continue
				}
				fa, ok := ld.X.(*ssa.FieldAddr)
				if !ok || fieldOf(fa).Struct != c.T.String() || fieldOf(fa).Field != c.G {
					continue
				}
				for _, bound := range []ssa.Value{sl.Low, sl.High} {
					if l, ok := bound.(*ssa.UnOp); ok {
						if fa2, ok := l.X.(*ssa.FieldAddr); ok && fa2.X == fa.X && fieldOf(fa2).Field == c.F {
							return true
						}
					}
				}
			}
		}
	}
	return false
}

// calledOnceOutsideLoops: helper is called at exactly one place in the module, that place is in `from` and
// outside every loop, and helper is never used as a value (a helper that a function delegates one step to).
func calledOnceOutsideLoops(p *Prog, helper, from *ssa.Function) bool {
	sites := 0
	for _, g := range p.RList {
		for _, b := range g.Blocks {
			for _, in := range b.Instrs {
				if mc, ok := in.(*ssa.MakeClosure); ok && mc.Fn == ssa.Value(helper) {
					return false
				}
				ci, ok := in.(ssa.CallInstruction)
				if !ok {
					continue
				}
				for _, a := range ci.Common().Args {
					if a == ssa.Value(helper) {
						return false
					}
				}
				if ci.Common().StaticCallee() != helper {
					continue
				}
				sites++
				if g != from {
					return false
				}
				for _, h := range g.Blocks {
					if isLoopHeader(h) && naturalLoop(h)[b] {
						return false
					}
				}
			}
		}
	}
	return sites == 1
}

// isRestOfBuffer: v is buffer[cursor:] of f's receiver (written out, or through a one-block helper that returns
// it), computed when cursor and buffer had the versions they have at st.
func isRestOfBuffer(fb *fnBounds, f *ssa.Function, v ssa.Value, st ssa.Instruction, c invField) bool {
	clsF := "fld:" + c.T.String() + "." + c.F
	clsG := "fld:" + c.T.String() + "." + c.G
	isRest := func(sl *ssa.Slice, recv ssa.Value) bool {
		if sl.High != nil || sl.Max != nil || sl.Low == nil {
			return false
		}
		ld, ok := sl.X.(*ssa.UnOp)
		if !ok || ld.Op != token.MUL {
			return false
		}
		fa, ok := ld.X.(*ssa.FieldAddr)
		if !ok || fa.X != recv || fieldOf(fa).Field != c.G {
			return false
		}
		lo, ok := sl.Low.(*ssa.UnOp)
		if !ok || lo.Op != token.MUL {
			return false
		}
		fl, ok := lo.X.(*ssa.FieldAddr)
		return ok && fl.X == recv && fieldOf(fl).Field == c.F
	}
	var at ssa.Instruction
	switch t := v.(type) {
	case *ssa.Slice:
		if len(f.Params) == 0 || !isRest(t, f.Params[0]) {
			return false
		}
		at = t
	case *ssa.Call:
		callee := t.Call.StaticCallee()
		if callee == nil || !fb.bp.p.InModule(callee) || len(callee.Blocks) != 1 || len(callee.Params) != 1 || len(f.Params) == 0 || t.Call.Args[0] != ssa.Value(f.Params[0]) {
			return false
		}
		if ti := fb.bp.transparent(callee); ti == nil || len(ti.updates) > 0 {
			return false
		}
		ret, ok := callee.Blocks[0].Instrs[len(callee.Blocks[0].Instrs)-1].(*ssa.Return)
		if !ok || len(ret.Results) != 1 {
			return false
		}
		sl, ok := ret.Results[0].(*ssa.Slice)
		if !ok || !isRest(sl, callee.Params[0]) {
			return false
		}
		at = t
	default:
		return false
	}
	return fb.versionAt(clsF, at) == fb.versionAt(clsF, st) && fb.versionAt(clsG, at) == fb.versionAt(clsG, st)
}

// ruleIDClassExact: the ids of the grammar (license ids, exception ids, LicenseRef and DocumentRef names) are
// non-empty runs over exactly the SPDX idstring alphabet — letters, digits, '-' and '.'. License and exception
// ids are further restricted by the lists; reference names are not, so for them the reader's byte class *is*
// the accepted language.
func ruleIDClassExact(p *Prog, r *Report, k *scanKeywords, rule string) {
	r.Rule(rule, "necessary", 1, "the id reader accepts exactly non-empty runs over the SPDX idstring alphabet [A-Za-z0-9.-]: no other byte can be part of a LicenseRef / DocumentRef name, and none of these is refused")
	if k == nil || k.IDPattern == "" {
		r.Unknown(rule, "id-class", "-", "unresolved anchor: the id reader's pattern / byte class")
		return
	}
	re, err := regexp.Compile(`^(?:` + k.IDPattern + `)$`)
	if err != nil {
		r.Unknown(rule, "id-class", "-", fmt.Sprintf("id pattern %q does not compile: %v", k.IDPattern, err))
		return
	}
	inClass := func(b byte) bool {
		return 'A' <= b && b <= 'Z' || 'a' <= b && b <= 'z' || '0' <= b && b <= '9' || b == '-' || b == '.'
	}
	var extra, missing []string
	for b := 0; b < 256; b++ {
		m := re.MatchString(string([]byte{byte(b)}))
		switch {
		case m && !inClass(byte(b)):
			extra = append(extra, fmt.Sprintf("%q", string([]byte{byte(b)})))
		case !m && inClass(byte(b)):
			missing = append(missing, fmt.Sprintf("%q", string([]byte{byte(b)})))
		}
	}
	var probs []string
	if len(extra) > 0 {
		probs = append(probs, "accepts "+strings.Join(extra, " ")+", which the grammar does not allow in an id (a LicenseRef or DocumentRef name containing it would be accepted)")
	}
	if len(missing) > 0 {
		probs = append(probs, "refuses "+strings.Join(missing, " ")+", which the grammar allows in an id")
	}
	if re.MatchString("") {
		probs = append(probs, "accepts the empty id")
	}
	if !re.MatchString("a-1.b") || !re.MatchString("Z9") {
		probs = append(probs, "does not accept a run of several id bytes")
	}
	if len(probs) > 0 {
		r.Bad(rule, "id-class", "-", fmt.Sprintf("the id reader (pattern %s) %s", k.IDPattern, strings.Join(probs, "; ")))
	} else {
		r.OK(rule, "id-class", "-", "exactly [A-Za-z0-9.-]+", k.IDPattern, true)
	}
}
