package main

import (
	"math/big"
	"sort"
	"strings"
)

// Linear arithmetic over named variables with rational Fourier–Motzkin elimination.
// Sound for integer entailment: if facts ∧ ¬goal has no rational solution it has no integer one.

type lin struct {
	c map[string]*big.Rat // variable -> coefficient
	k *big.Rat            // constant
}

func linConst(k int64) lin { return lin{c: map[string]*big.Rat{}, k: big.NewRat(k, 1)} }
func linVar(v string) lin  { return lin{c: map[string]*big.Rat{v: big.NewRat(1, 1)}, k: new(big.Rat)} }

func (a lin) clone() lin {
	n := lin{c: make(map[string]*big.Rat, len(a.c)), k: new(big.Rat).Set(a.k)}
	for v, c := range a.c {
		n.c[v] = new(big.Rat).Set(c)
	}
	return n
}

func (a lin) add(b lin) lin {
	n := a.clone()
	for v, c := range b.c {
		if o, ok := n.c[v]; ok {
			o.Add(o, c)
			if o.Sign() == 0 {
				delete(n.c, v)
			}
		} else {
			n.c[v] = new(big.Rat).Set(c)
		}
	}
	n.k.Add(n.k, b.k)
	return n
}

func (a lin) scale(f *big.Rat) lin {
	n := lin{c: make(map[string]*big.Rat, len(a.c)), k: new(big.Rat).Mul(a.k, f)}
	if f.Sign() == 0 {
		return n
	}
	for v, c := range a.c {
		n.c[v] = new(big.Rat).Mul(c, f)
	}
	return n
}

func (a lin) neg() lin         { return a.scale(big.NewRat(-1, 1)) }
func (a lin) sub(b lin) lin    { return a.add(b.neg()) }
func (a lin) addK(k int64) lin { return a.add(linConst(k)) }

func (a lin) isConst() bool { return len(a.c) == 0 }

func (a lin) String() string {
	var vs []string
	for v := range a.c {
		vs = append(vs, v)
	}
	sort.Strings(vs)
	var b strings.Builder
	for _, v := range vs {
		c := a.c[v]
		if c.Sign() >= 0 && b.Len() > 0 {
			b.WriteString(" + ")
		} else if c.Sign() < 0 {
			b.WriteString(" - ")
		}
		abs := new(big.Rat).Abs(c)
		if abs.Cmp(big.NewRat(1, 1)) != 0 {
			b.WriteString(abs.RatString() + "·")
		}
		b.WriteString(v)
	}
	if a.k.Sign() != 0 || b.Len() == 0 {
		if a.k.Sign() >= 0 && b.Len() > 0 {
			b.WriteString(" + ")
		} else if a.k.Sign() < 0 {
			b.WriteString(" - ")
		}
		b.WriteString(new(big.Rat).Abs(a.k).RatString())
	}
	return b.String()
}

// A constraint is e ≥ 0.
type constraint struct {
	e   lin
	why string
}

func geq(a, b lin, why string) constraint { return constraint{a.sub(b), why} }          // a ≥ b
func gt(a, b lin, why string) constraint  { return constraint{a.sub(b).addK(-1), why} } // a > b (integers)
func eqs(a, b lin, why string) []constraint {
	return []constraint{geq(a, b, why), geq(b, a, why)}
}

// infeasible reports whether the conjunction of constraints has no rational solution.
func infeasible(cs []constraint) bool {
	rows := make([]lin, 0, len(cs))
	for _, c := range cs {
		rows = append(rows, c.e)
	}
	for iter := 0; iter < 64; iter++ {
		// constant rows
		var keep []lin
		for _, r := range rows {
			if r.isConst() {
				if r.k.Sign() < 0 {
					return true
				}
				continue
			}
			keep = append(keep, r)
		}
		rows = keep
		if len(rows) == 0 {
			return false
		}
		// pick the variable with the fewest pos*neg products
		count := map[string][2]int{}
		for _, r := range rows {
			for v, c := range r.c {
				x := count[v]
				if c.Sign() > 0 {
					x[0]++
				} else {
					x[1]++
				}
				count[v] = x
			}
		}
		best, bestCost := "", -1
		var vs []string
		for v := range count {
			vs = append(vs, v)
		}
		sort.Strings(vs)
		for _, v := range vs {
			x := count[v]
			cost := x[0]*x[1] - x[0] - x[1]
			if bestCost == -1 || cost < bestCost {
				best, bestCost = v, cost
			}
		}
		var pos, negs, rest []lin
		for _, r := range rows {
			c, ok := r.c[best]
			switch {
			case !ok:
				rest = append(rest, r)
			case c.Sign() > 0:
				pos = append(pos, r)
			default:
				negs = append(negs, r)
			}
		}
		if len(pos)*len(negs) > 4000 {
			return false // give up: undecided
		}
		for _, p := range pos {
			for _, n := range negs {
				// p: a·x + P ≥ 0 (a>0), n: -b·x + N ≥ 0 (b>0)  =>  b·P + a·N ≥ 0
				a := p.c[best]
				b := new(big.Rat).Neg(n.c[best])
				comb := p.scale(b).add(n.scale(a))
				delete(comb.c, best)
				rest = append(rest, comb)
			}
		}
		rows = dedupRows(rest)
	}
	return false
}

func dedupRows(rows []lin) []lin {
	seen := map[string]bool{}
	var out []lin
	for _, r := range rows {
		// normalise by the smallest-variable coefficient magnitude
		k := r.String()
		if !seen[k] {
			seen[k] = true
			out = append(out, r)
		}
	}
	return out
}

// entails: do the facts imply goal (e ≥ 0)?
func entails(facts []constraint, goal constraint) bool {
	// relevance closure on variables
	rel := map[string]bool{}
	for v := range goal.e.c {
		rel[v] = true
	}
	used := make([]bool, len(facts))
	for changed := true; changed; {
		changed = false
		for i, f := range facts {
			if used[i] {
				continue
			}
			touch := false
			for v := range f.e.c {
				if rel[v] {
					touch = true
					break
				}
			}
			if touch || f.e.isConst() {
				used[i] = true
				changed = true
				for v := range f.e.c {
					rel[v] = true
				}
			}
		}
	}
	var cs []constraint
	for i, f := range facts {
		if used[i] {
			cs = append(cs, f)
		}
	}
	// ¬(e ≥ 0)  ≡  -e - 1 ≥ 0 over the integers
	cs = append(cs, constraint{goal.e.neg().addK(-1), "negated goal"})
	return infeasible(cs)
}
