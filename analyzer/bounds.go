package main

// Engine-2 (A5): bounds obligations decided by entailment between linear inequalities.
//
// Facts that hold at a program point on all paths: dominating branch conditions (must-dataflow),
// definitions of SSA values (linear forms, len relations), memory versioning by mod-sets, stdlib
// result contracts, summaries of small pure boolean methods, and candidates inferred Houdini-style:
// join-point (phi) invariants per function, and — globally — object invariants of struct types
// with an integer cursor and a string/slice buffer (0 ≤ f, f ≤ len(g)), "cursor covers the returned
// lexeme" postconditions and "cursor covers the argument" preconditions. Candidates are assumed
// everywhere and checked at every establishment point; those that fail are dropped until the set is
// inductive. No path is ever enumerated and no solver is asked about feasibility.

import (
	"fmt"
	"go/constant"
	"go/token"
	"go/types"
	"strings"

	"golang.org/x/tools/go/ssa"
)

type condFact struct {
	c   ssa.Value
	pol bool
}

type fnBounds struct {
	bp       *boundsProver
	fn       *ssa.Function
	facts    []map[condFact]bool // per block: conditions holding at entry (nil = ⊤ / unreachable)
	verCache map[string][]string // class -> version token at entry of each block
	phiInv   map[*ssa.Phi][]phiCand
	blockInv map[*ssa.BasicBlock][]blockCand
	order    map[ssa.Instruction]int
}

// blockCand: an object-invariant candidate assumed at the entry of a merge block.
type blockCand struct {
	desc  string
	alive bool
	at    func(at ssa.Instruction) constraint // instantiated at the end of a predecessor
	fact  constraint                          // instantiated at block entry
}

type phiCand struct {
	desc  string
	mk    func(x lin) constraint // candidate with the phi's value replaced by x
	alive bool
}

type boundsProver struct {
	transMemo map[*ssa.Function]*transparentInfo
	resMemo   map[string]int
	foundMemo map[*ssa.Function][]foundContract
	trueMemo  map[*ssa.Function][]*cmpSummary
	p         *Prog
	eng       *Engine
	eff       *Effects
	fns       map[*ssa.Function]*fnBounds
	cand      map[string]bool // global candidates alive: "inv|T|f>=0", "inv|T|f<=len:g", "post|fn|f", "pre|fn|f|argidx"
	// nilMods: fields possibly written on paths to a return whose value may be nil
	nilMods map[*ssa.Function]map[fieldKey]bool
	log     []string
	// falseMods: fields possibly written on paths to a return whose last (bool) result may be false
	falseMods map[*ssa.Function]map[fieldKey]bool
	// basesOnly: per struct type, whether its fields are stored only through parameters / local allocations
	basesOnly map[*types.Named]bool
}

// ---------------------------------------------------------------------------------------------
// variables

func ssaName(v ssa.Value) string {
	fn := ""
	if p := v.Parent(); p != nil {
		fn = p.String()
	}
	return fn + "::" + v.Name()
}

// vid: canonical identity of the value an SSA operand denotes at instruction `at`.
func (fb *fnBounds) vid(v ssa.Value, at ssa.Instruction) string {
	switch t := v.(type) {
	case *ssa.Const:
		if t.Value != nil {
			return "const:" + t.Value.ExactString()
		}
		return "const:zero"
	case *ssa.UnOp:
		if t.Op == token.MUL {
			return fb.memVar(t.X, t)
		}
	case *ssa.ChangeType:
		return fb.vid(t.X, at)
	case *ssa.Convert:
		if kindOf(t.Type()) == kindOf(t.X.Type()) {
			if _, isBasic := t.X.Type().Underlying().(*types.Basic); isBasic {
				return fb.vid(t.X, at)
			}
		}
	}
	return ssaName(v)
}

// memVar names the memory cell an address denotes, versioned at instruction `at`.
func (fb *fnBounds) memVar(addr ssa.Value, at ssa.Instruction) string {
	switch a := addr.(type) {
	case *ssa.FieldAddr:
		fk := fieldOf(a)
		cls := "fld:" + fk.String()
		return fmt.Sprintf("mem(%s.%s@%s)", fb.vid(a.X, at), fk.Field, fb.versionAt(cls, at))
	case *ssa.IndexAddr:
		et := a.Type().Underlying().(*types.Pointer).Elem()
		cls := "elem:" + et.String()
		return fmt.Sprintf("elem(%s[%s]@%s)", fb.vid(a.X, at), fb.idxKey(a.Index, at), fb.versionAt(cls, at))
	default:
		cls := "cell:" + ssaName(addr)
		return fmt.Sprintf("deref(%s@%s)", ssaName(addr), fb.versionAt(cls, at))
	}
}

func (fb *fnBounds) idxKey(v ssa.Value, at ssa.Instruction) string {
	l, ok := fb.linOf(v, at, 0)
	if ok {
		return l.String()
	}
	return fb.vid(v, at)
}

func isIntType(t types.Type) bool {
	b, ok := t.Underlying().(*types.Basic)
	return ok && b.Info()&types.IsInteger != 0
}

func isStringType(t types.Type) bool {
	b, ok := t.Underlying().(*types.Basic)
	return ok && b.Info()&types.IsString != 0
}

// linOf: linear form of an integer-valued SSA value.
func (fb *fnBounds) linOf(v ssa.Value, at ssa.Instruction, d int) (lin, bool) {
	if d > 12 {
		return lin{}, false
	}
	switch t := v.(type) {
	case *ssa.Const:
		if t.Value != nil && t.Value.Kind() == constant.Int {
			if i, ok := constant.Int64Val(t.Value); ok {
				return linConst(i), true
			}
		}
		if t.Value == nil && isIntType(t.Type()) {
			return linConst(0), true
		}
		return lin{}, false
	case *ssa.BinOp:
		if !isIntType(t.Type()) {
			return lin{}, false
		}
		x, okx := fb.linOf(t.X, t, d+1)
		y, oky := fb.linOf(t.Y, t, d+1)
		switch t.Op {
		case token.ADD:
			if okx && oky {
				return x.add(y), true
			}
		case token.SUB:
			if okx && oky {
				return x.sub(y), true
			}
		case token.MUL:
			if okx && oky && x.isConst() {
				return y.scale(x.k), true
			}
			if okx && oky && y.isConst() {
				return x.scale(y.k), true
			}
		}
		return linVar(ssaName(v)), true
	case *ssa.Call:
		if b, ok := t.Call.Value.(*ssa.Builtin); ok && (b.Name() == "len") {
			return fb.lenOf(t.Call.Args[0], t, d+1), true
		}
		if isIntType(t.Type()) {
			return linVar(ssaName(v)), true
		}
	case *ssa.UnOp:
		if t.Op == token.MUL && isIntType(t.Type()) {
			if fa, ok := t.X.(*ssa.FieldAddr); ok {
				if src, ok := structCopySource(fa.X); ok {
					return linVar(structFieldVar(src, fieldOf(fa).Field)), true
				}
			}
			return linVar(fb.memVar(t.X, t)), true
		}
		if t.Op == token.SUB && isIntType(t.Type()) {
			if x, ok := fb.linOf(t.X, t, d+1); ok {
				return x.neg(), true
			}
		}
	case *ssa.Convert:
		if isIntType(t.Type()) && isIntType(t.X.Type()) {
			// only int→int of the same size keeps the value; the code base uses plain int
			if types.Identical(t.Type().Underlying(), t.X.Type().Underlying()) {
				return fb.linOf(t.X, t, d+1)
			}
		}
	case *ssa.ChangeType:
		return fb.linOf(t.X, t, d+1)
	}
	if isIntType(v.Type()) {
		return linVar(ssaName(v)), true
	}
	return lin{}, false
}

// structCopySource: x is a local struct variable that holds a by-value copy of one struct value (a result of
// a call, typically): it is assigned as a whole exactly once and none of its fields is ever written or has
// its address taken otherwise. Returns the value it was filled from.
func structCopySource(x ssa.Value) (ssa.Value, bool) {
	al, ok := x.(*ssa.Alloc)
	if !ok {
		return nil, false
	}
	if n, _ := namedStruct(al.Type().Underlying().(*types.Pointer).Elem()); n == nil {
		return nil, false
	}
	var src ssa.Value
	for _, r := range *al.Referrers() {
		switch r := r.(type) {
		case *ssa.Store:
			if r.Addr != ssa.Value(al) || src != nil {
				return nil, false
			}
			src = r.Val
		case *ssa.FieldAddr:
			for _, rr := range *r.Referrers() {
				switch u := rr.(type) {
				case *ssa.UnOp:
					if u.Op != token.MUL {
						return nil, false
					}
				case *ssa.DebugRef:
				default:
					return nil, false
				}
			}
		case *ssa.UnOp:
			if r.Op != token.MUL {
				return nil, false
			}
		case *ssa.DebugRef:
		default:
			return nil, false
		}
	}
	switch src.(type) {
	case *ssa.Extract, *ssa.Call, *ssa.Parameter:
		return src, true
	}
	return nil, false
}

// structFieldVar names integer field f of a struct value.
func structFieldVar(v ssa.Value, f string) string { return "sf:" + ssaName(v) + "." + f }

// lenOf: linear form of len(v) for a string/slice/array-pointer value.
func (fb *fnBounds) lenOf(v ssa.Value, at ssa.Instruction, d int) lin {
	if d > 12 {
		return linVar("len:" + fb.vid(v, at))
	}
	// arrays (and pointers to arrays) have their length in the type
	{
		tt := v.Type().Underlying()
		if pt, ok := tt.(*types.Pointer); ok {
			tt = pt.Elem().Underlying()
		}
		if at, ok := tt.(*types.Array); ok {
			return linConst(at.Len())
		}
	}
	switch t := v.(type) {
	case *ssa.Const:
		if t.Value != nil && t.Value.Kind() == constant.String {
			return linConst(int64(len(constant.StringVal(t.Value))))
		}
		if t.IsNil() {
			return linConst(0)
		}
	case *ssa.Slice:
		var lo, hi lin
		okLo, okHi := true, true
		if t.Low != nil {
			lo, okLo = fb.linOf(t.Low, t, d+1)
		} else {
			lo = linConst(0)
		}
		if t.High != nil {
			hi, okHi = fb.linOf(t.High, t, d+1)
		} else {
			hi = fb.lenOf(t.X, t, d+1)
		}
		if okLo && okHi {
			return hi.sub(lo)
		}
	case *ssa.BinOp:
		if t.Op == token.ADD && isStringType(t.Type()) {
			return fb.lenOf(t.X, t, d+1).add(fb.lenOf(t.Y, t, d+1))
		}
	case *ssa.MakeSlice:
		if l, ok := fb.linOf(t.Len, t, d+1); ok {
			return l
		}
	case *ssa.Call:
		if callee := t.Call.StaticCallee(); callee != nil && fb.bp.p.InModule(callee) {
			if ti := fb.bp.transparent(callee); ti != nil && ti.retLen != nil {
				if l, ok := fb.renameCallee(*ti.retLen, callee, t, false); ok {
					return l
				}
			}
		}
	case *ssa.ChangeType:
		return fb.lenOf(t.X, at, d+1)
	case *ssa.Convert:
		if isStringType(t.Type()) && isStringType(t.X.Type()) {
			return fb.lenOf(t.X, at, d+1)
		}
	}
	if pt, ok := v.Type().Underlying().(*types.Pointer); ok {
		if at, ok := pt.Elem().Underlying().(*types.Array); ok {
			return linConst(at.Len())
		}
	}
	return linVar("len:" + fb.vid(v, at))
}

// ---------------------------------------------------------------------------------------------
// memory versions

func (fb *fnBounds) kills(in ssa.Instruction, cls string) bool {
	switch t := in.(type) {
	case *ssa.Store:
		switch a := t.Addr.(type) {
		case *ssa.FieldAddr:
			return cls == "fld:"+fieldOf(a).String()
		case *ssa.IndexAddr:
			return cls == "elem:"+a.Type().Underlying().(*types.Pointer).Elem().String()
		default:
			// a struct stored as a whole rewrites every field of it
			if n, _ := namedStruct(t.Val.Type()); n != nil && strings.HasPrefix(cls, "fld:"+n.String()+".") {
				return true
			}
			if cls == "cell:"+ssaName(t.Addr) {
				return true
			}
			// a store through an unknown pointer may hit any cell of that pointee type
			if strings.HasPrefix(cls, "cell:") {
				if _, isAlloc := t.Addr.(*ssa.Alloc); !isAlloc {
					if _, isFV := t.Addr.(*ssa.FreeVar); !isFV {
						return true
					}
				}
			}
		}
	case *ssa.MapUpdate:
		return false
	case ssa.CallInstruction:
		com := t.Common()
		if _, ok := com.Value.(*ssa.Builtin); ok {
			if b := com.Value.(*ssa.Builtin); b.Name() == "copy" || b.Name() == "clear" {
				return strings.HasPrefix(cls, "elem:")
			}
			return false
		}
		callee := com.StaticCallee()
		if callee == nil {
			if mc, ok := com.Value.(*ssa.MakeClosure); ok {
				callee = mc.Fn.(*ssa.Function)
			} else if ts, ok := fb.bp.dynTargets(t); ok && !strings.HasPrefix(cls, "cell:") {
				// one of a known set of in-module functions: the union of their effects
				for _, tg := range ts {
					if strings.HasPrefix(cls, "fld:") {
						for fk := range fb.bp.eff.trans[tg] {
							if cls == "fld:"+fk.String() {
								return true
							}
						}
					}
					if strings.HasPrefix(cls, "elem:") && fb.bp.eff.transElem[tg][strings.TrimPrefix(cls, "elem:")] {
						return true
					}
				}
				return false
			} else {
				return true
			}
		}
		if !fb.bp.p.InModule(callee) {
			si := classifyStd(callee)
			switch si.Class {
			case stdPure:
				return false
			case stdMutatesArg:
				return strings.HasPrefix(cls, "elem:") || strings.HasPrefix(cls, "cell:") && false
			}
			return true
		}
		if strings.HasPrefix(cls, "fld:") {
			for fk := range fb.bp.eff.trans[callee] {
				if cls == "fld:"+fk.String() {
					return true
				}
			}
			return false
		}
		if strings.HasPrefix(cls, "elem:") {
			return fb.bp.eff.transElem[callee][strings.TrimPrefix(cls, "elem:")]
		}
		// cell classes: an in-module callee can only write the cell if its address escaped to it;
		// closures capture cells by reference
		if strings.HasPrefix(cls, "cell:") {
			for _, a := range com.Args {
				if "cell:"+ssaName(a) == cls {
					return true
				}
			}
			if mc, ok := com.Value.(*ssa.MakeClosure); ok {
				for _, b := range mc.Bindings {
					if "cell:"+ssaName(b) == cls {
						return cellWrittenIn(mc.Fn.(*ssa.Function), b, mc)
					}
				}
			}
			return false
		}
	}
	return false
}

// cellWrittenIn: does closure fn store through the free variable bound to b?
func cellWrittenIn(fn *ssa.Function, b ssa.Value, mc *ssa.MakeClosure) bool {
	for i, bind := range mc.Bindings {
		if bind != b || i >= len(fn.FreeVars) {
			continue
		}
		fv := fn.FreeVars[i]
		for _, r := range *fv.Referrers() {
			if st, ok := r.(*ssa.Store); ok && st.Addr == fv {
				return true
			}
		}
	}
	return false
}

func (fb *fnBounds) versions(cls string) []string {
	if v, ok := fb.verCache[cls]; ok {
		return v
	}
	n := len(fb.fn.Blocks)
	in := make([]string, n)
	out := make([]string, n)
	for i := range in {
		in[i] = "?"
		out[i] = "?"
	}
	in[0] = "entry"
	for changed := true; changed; {
		changed = false
		for _, b := range fb.fn.Blocks {
			if b.Index != 0 {
				v := "?"
				for _, p := range b.Preds {
					o := out[p.Index]
					if o == "?" {
						continue
					}
					if v == "?" {
						v = o
					} else if v != o {
						v = fmt.Sprintf("merge%d", b.Index)
					}
				}
				if v != in[b.Index] && !(strings.HasPrefix(in[b.Index], "merge") && v != "?") {
					in[b.Index] = v
					changed = true
				}
			}
			cur := in[b.Index]
			for i, ins := range b.Instrs {
				if fb.kills(ins, cls) {
					cur = fmt.Sprintf("k%d.%d", b.Index, i)
				}
			}
			if cur != out[b.Index] {
				out[b.Index] = cur
				changed = true
			}
		}
	}
	fb.verCache[cls] = in
	return in
}

// versionAt: version of class cls just before instruction `at` executes.
func (fb *fnBounds) versionAt(cls string, at ssa.Instruction) string {
	b := at.Block()
	if b == nil {
		return "entry"
	}
	cur := fb.versions(cls)[b.Index]
	for i, ins := range b.Instrs {
		if ins == at {
			break
		}
		if fb.kills(ins, cls) {
			cur = fmt.Sprintf("k%d.%d", b.Index, i)
		}
	}
	return cur
}

// versionAfter: version of cls right after `at`.
func (fb *fnBounds) versionAfter(cls string, at ssa.Instruction) string {
	if fb.kills(at, cls) {
		b := at.Block()
		for i, ins := range b.Instrs {
			if ins == at {
				return fmt.Sprintf("k%d.%d", b.Index, i)
			}
		}
	}
	return fb.versionAt(cls, at)
}

// ---------------------------------------------------------------------------------------------
// branch facts

func (fb *fnBounds) computeFacts() {
	n := len(fb.fn.Blocks)
	fb.facts = make([]map[condFact]bool, n)
	fb.facts[0] = map[condFact]bool{}
	for changed := true; changed; {
		changed = false
		for _, b := range fb.fn.Blocks {
			if b.Index == 0 {
				continue
			}
			var acc map[condFact]bool
			first := true
			for _, p := range b.Preds {
				pf := fb.facts[p.Index]
				if pf == nil {
					continue // not yet reached: ⊤
				}
				edge := map[condFact]bool{}
				for k := range pf {
					edge[k] = true
				}
				if ifi, ok := p.Instrs[len(p.Instrs)-1].(*ssa.If); ok && p.Succs[0] != p.Succs[1] {
					if p.Succs[0] == b {
						edge[condFact{ifi.Cond, true}] = true
					} else if p.Succs[1] == b {
						edge[condFact{ifi.Cond, false}] = true
					}
				}
				if first {
					acc = edge
					first = false
				} else {
					for k := range acc {
						if !edge[k] {
							delete(acc, k)
						}
					}
				}
			}
			if first {
				continue
			}
			old := fb.facts[b.Index]
			if old == nil || len(old) != len(acc) {
				fb.facts[b.Index] = acc
				changed = true
			} else {
				for k := range acc {
					if !old[k] {
						fb.facts[b.Index] = acc
						changed = true
						break
					}
				}
			}
		}
	}
}

// dominatesInstr: does instruction a execute before b on every path to b?
func (fb *fnBounds) dominatesInstr(a, b ssa.Instruction) bool {
	ba, bb := a.Block(), b.Block()
	if ba == nil || bb == nil {
		return false
	}
	if ba == bb {
		return fb.order[a] < fb.order[b]
	}
	return ba.Dominates(bb)
}

// ---------------------------------------------------------------------------------------------
// boolean method summaries: single-block pure functions returning a comparison

type cmpSummary struct {
	op   token.Token
	x, y lin // over callee-relative variables
	fb   *fnBounds
}

func (bp *boundsProver) boolSummary(callee *ssa.Function) *cmpSummary {
	if len(callee.Blocks) != 1 {
		return nil
	}
	b := callee.Blocks[0]
	ret, ok := b.Instrs[len(b.Instrs)-1].(*ssa.Return)
	if !ok || len(ret.Results) != 1 {
		return nil
	}
	for _, in := range b.Instrs {
		switch t := in.(type) {
		case *ssa.FieldAddr, *ssa.UnOp, *ssa.BinOp, *ssa.Return, *ssa.DebugRef:
		case *ssa.Call:
			if bi, ok := t.Call.Value.(*ssa.Builtin); !ok || bi.Name() != "len" {
				return nil
			}
		default:
			return nil
		}
	}
	cmp, ok := ret.Results[0].(*ssa.BinOp)
	if !ok {
		return nil
	}
	cfb := bp.forFn(callee)
	x, okx := cfb.linOf(cmp.X, ret, 0)
	y, oky := cfb.linOf(cmp.Y, ret, 0)
	if !okx || !oky {
		return nil
	}
	return &cmpSummary{op: cmp.Op, x: x, y: y, fb: cfb}
}

// trueFacts: comparisons over the entry state that must hold whenever a side-effect-free boolean method
// returns true (a && chain such as hasMore() && s[i] == c && …). Each is a cmpSummary over
// callee-relative variables.
func (bp *boundsProver) trueFacts(callee *ssa.Function) []*cmpSummary {
	if bp.trueMemo == nil {
		bp.trueMemo = map[*ssa.Function][]*cmpSummary{}
	}
	if v, ok := bp.trueMemo[callee]; ok {
		return v
	}
	bp.trueMemo[callee] = nil // cycles
	res := callee.Signature.Results()
	if res.Len() != 1 || !isBoolType(res.At(0).Type()) || len(callee.Blocks) == 0 {
		return nil
	}
	if s := bp.boolSummary(callee); s != nil {
		bp.trueMemo[callee] = []*cmpSummary{s}
		return bp.trueMemo[callee]
	}
	// purity: nothing is written
	for _, b := range callee.Blocks {
		for _, in := range b.Instrs {
			switch t := in.(type) {
			case *ssa.Store, *ssa.MapUpdate, *ssa.Send, *ssa.Go, *ssa.Defer, *ssa.Panic:
				return nil
			case *ssa.Call:
				if _, ok := t.Call.Value.(*ssa.Builtin); ok {
					continue
				}
				c := t.Call.StaticCallee()
				if c == nil {
					return nil
				}
				if bp.p.InModule(c) {
					if bp.trueFacts(c) == nil {
						return nil
					}
					continue
				}
				if classifyStd(c).Class != stdPure {
					return nil
				}
			}
		}
	}
	cfb := bp.forFn(callee)
	type cs = map[condFact]bool
	var cases []cs
	addCase := func(b *ssa.BasicBlock, extra ssa.Value) {
		m := cs{}
		for cf := range cfb.facts[b.Index] {
			m[cf] = true
		}
		if extra != nil {
			m[condFact{extra, true}] = true
		}
		cases = append(cases, m)
	}
	var visit func(v ssa.Value, b *ssa.BasicBlock, seen map[ssa.Value]bool)
	visit = func(v ssa.Value, b *ssa.BasicBlock, seen map[ssa.Value]bool) {
		if seen[v] {
			return
		}
		seen[v] = true
		switch t := v.(type) {
		case *ssa.Const:
			if t.Value != nil && t.Value.String() == "true" {
				addCase(b, nil)
			}
		case *ssa.Phi:
			for i, e := range t.Edges {
				visit(e, t.Block().Preds[i], seen)
			}
		default:
			addCase(b, v)
		}
	}
	for _, b := range callee.Blocks {
		if ret, ok := b.Instrs[len(b.Instrs)-1].(*ssa.Return); ok {
			visit(ret.Results[0], b, map[ssa.Value]bool{})
		}
	}
	if len(cases) == 0 {
		return nil
	}
	var out []*cmpSummary
	for cf := range cases[0] {
		all := true
		for _, m := range cases[1:] {
			if !m[cf] {
				all = false
			}
		}
		if !all || !cf.pol {
			continue
		}
		switch c := cf.c.(type) {
		case *ssa.BinOp:
			x, okx := cfb.linOf(c.X, callee.Blocks[0].Instrs[0], 0)
			y, oky := cfb.linOf(c.Y, callee.Blocks[0].Instrs[0], 0)
			if okx && oky && isIntType(c.X.Type()) {
				switch c.Op {
				case token.LSS, token.LEQ, token.GTR, token.GEQ, token.EQL:
					out = append(out, &cmpSummary{op: c.Op, x: x, y: y, fb: cfb})
				}
			}
		case *ssa.Call:
			if inner := c.Call.StaticCallee(); inner != nil && bp.p.InModule(inner) {
				for _, s := range bp.trueFacts(inner) {
					x, okx := cfb.renameCallee(s.x, inner, c, false)
					y, oky := cfb.renameCallee(s.y, inner, c, false)
					if okx && oky {
						out = append(out, &cmpSummary{op: s.op, x: x, y: y, fb: cfb})
					}
				}
			}
		}
	}
	bp.trueMemo[callee] = out
	return out
}

// renameCallee maps callee-relative variable names (parameters, entry versions) to the caller's
// values at call instruction `at`.
func (fb *fnBounds) renameCallee(l lin, callee *ssa.Function, call ssa.CallInstruction, after bool) (lin, bool) {
	res := linConst(0)
	res.k.Set(l.k)
	for v, c := range l.c {
		nv, ok := fb.renameVar(v, callee, call, after)
		if !ok {
			return lin{}, false
		}
		res = res.add(nv.scale(c))
	}
	return res, true
}

// renameVar rewrites one callee variable. Supported forms: callee parameters (int), mem(<param>.f@entry),
// len:mem(<param>.f@entry), len:<param>.
func (fb *fnBounds) renameVar(v string, callee *ssa.Function, call ssa.CallInstruction, after bool) (lin, bool) {
	com := call.Common()
	at := call.(ssa.Instruction)
	paramArg := func(name string) (ssa.Value, bool) {
		for i, p := range callee.Params {
			if ssaName(p) == name && i < len(com.Args) {
				return com.Args[i], true
			}
		}
		return nil, false
	}
	isLen := strings.HasPrefix(v, "len:")
	core := strings.TrimPrefix(v, "len:")
	if strings.HasPrefix(core, "mem(") && strings.HasSuffix(core, "@entry)") {
		inner := core[len("mem(") : len(core)-len("@entry)")]
		dot := strings.LastIndex(inner, ".")
		if dot < 0 {
			return lin{}, false
		}
		base, field := inner[:dot], inner[dot+1:]
		arg, ok := paramArg(base)
		if !ok {
			return lin{}, false
		}
		pt, ok := arg.Type().Underlying().(*types.Pointer)
		if !ok {
			return lin{}, false
		}
		cls := "fld:" + pt.Elem().String() + "." + field
		ver := fb.versionAt(cls, at)
		if after {
			ver = fb.versionAfter(cls, at)
		}
		name := fmt.Sprintf("mem(%s.%s@%s)", fb.vid(arg, at), field, ver)
		if isLen {
			name = "len:" + name
		}
		return linVar(name), true
	}
	if arg, ok := paramArg(core); ok {
		if isLen {
			return fb.lenOf(arg, at, 0), true
		}
		return fb.linOf(arg, at, 0)
	}
	return lin{}, false
}

// ---------------------------------------------------------------------------------------------
// conditions → constraints

func (fb *fnBounds) condConstraints(c ssa.Value, pol bool, at ssa.Instruction, d int) []constraint {
	if d > 6 {
		return nil
	}
	switch t := c.(type) {
	case *ssa.UnOp:
		if t.Op == token.NOT {
			return fb.condConstraints(t.X, !pol, at, d+1)
		}
	case *ssa.Extract:
		// found == false of an in-module (…, bool) function: fields it does not write on a path to a
		// possibly-false return are unchanged by the call
		if call, ok := t.Tuple.(*ssa.Call); ok && !pol && call.Call.StaticCallee() != nil && fb.bp.p.InModule(call.Call.StaticCallee()) {
			callee := call.Call.StaticCallee()
			if t.Index == callee.Signature.Results().Len()-1 {
				if fm := fb.bp.falseModsOf(callee); fm != nil {
					var cs []constraint
					for i, prm := range callee.Params {
						pt, ok := prm.Type().Underlying().(*types.Pointer)
						if !ok || i >= len(call.Call.Args) {
							continue
						}
						n, st := namedStruct(pt.Elem())
						if n == nil {
							continue
						}
						arg := call.Call.Args[i]
						for fi := 0; fi < st.NumFields(); fi++ {
							f := st.Field(fi)
							fk := fieldKey{Struct: n.String(), Field: f.Name()}
							if !fb.bp.eff.trans[callee][fk] || fm[fk] {
								continue
							}
							cls := "fld:" + fk.String()
							before := fmt.Sprintf("mem(%s.%s@%s)", fb.vid(arg, call), f.Name(), fb.versionAt(cls, call))
							after := fmt.Sprintf("mem(%s.%s@%s)", fb.vid(arg, call), f.Name(), fb.versionAfter(cls, call))
							why := fmt.Sprintf("%s returned false: %s.%s is not written on any path to a possibly-false return", callee.Name(), n.Obj().Name(), f.Name())
							switch {
							case isIntType(f.Type()):
								cs = append(cs, eqs(linVar(before), linVar(after), why)...)
							case isStringType(f.Type()) || kindOf(f.Type()) == KSlice:
								cs = append(cs, eqs(linVar("len:"+before), linVar("len:"+after), why)...)
							}
						}
					}
					return cs
				}
			}
		}
		// found == true of an in-module (…, bool) function: what its integer results are known to be at
		// every return that can say true (positions in an argument, positions in an element of an argument)
		if call, ok := t.Tuple.(*ssa.Call); ok && pol && call.Call.StaticCallee() != nil && fb.bp.p.InModule(call.Call.StaticCallee()) {
			callee := call.Call.StaticCallee()
			if t.Index == callee.Signature.Results().Len()-1 {
				var cs []constraint
				results := map[int]ssa.Value{}
				for _, ref := range *call.Referrers() {
					if ex, ok := ref.(*ssa.Extract); ok {
						results[ex.Index] = ex
					}
				}
				resVar := func(k int, f string) (lin, bool) {
					rv := results[k]
					if rv == nil {
						return lin{}, false
					}
					if f == "" {
						return linVar(ssaName(rv)), true
					}
					return linVar(structFieldVar(rv, f)), true
				}
				for _, fc := range fb.bp.foundContracts(callee) {
					rv, ok := resVar(fc.K, fc.KF)
					if !ok || fc.P >= len(call.Call.Args) {
						continue
					}
					why := fmt.Sprintf("%s said true: %s", callee.Name(), fc.desc)
					switch fc.Kind {
					case 0:
						cs = append(cs, geq(rv, linConst(0), why))
					case 1:
						cs = append(cs, gt(fb.lenOf(call.Call.Args[fc.P], at, 0), rv, why))
					case 2:
						rj, ok := resVar(fc.J, fc.JF)
						if !ok {
							continue
						}
						arg := call.Call.Args[fc.P]
						sl, ok := arg.Type().Underlying().(*types.Slice)
						if !ok {
							continue
						}
						cls := "elem:" + sl.Elem().String()
						name := fmt.Sprintf("len:elem(%s[%s]@%s)", fb.vid(arg, at), rj.String(), fb.versionAt(cls, at))
						cs = append(cs, gt(linVar(name), rv, why))
					}
				}
				if len(cs) > 0 {
					return cs
				}
			}
		}
		// found of strings.CutSuffix / CutPrefix: len(s) = len(before|after) + len(affix)
		if call, ok := t.Tuple.(*ssa.Call); ok && t.Index == 1 && pol && call.Call.StaticCallee() != nil {
			switch call.Call.StaticCallee().String() {
			case "strings.CutSuffix", "strings.CutPrefix":
				for _, ref := range *call.Referrers() {
					if ex, ok := ref.(*ssa.Extract); ok && ex.Index == 0 {
						rest := linVar("len:" + ssaName(ex))
						return eqs(fb.lenOf(call.Call.Args[0], call, 0), rest.add(fb.lenOf(call.Call.Args[1], call, 0)), call.Call.StaticCallee().Name()+" found the affix")
					}
				}
			}
		}
	case *ssa.BinOp:
		op := t.Op
		if !pol {
			switch op {
			case token.LSS:
				op = token.GEQ
			case token.LEQ:
				op = token.GTR
			case token.GTR:
				op = token.LEQ
			case token.GEQ:
				op = token.LSS
			case token.EQL:
				op = token.NEQ
			case token.NEQ:
				op = token.EQL
			}
		}
		if isIntType(t.X.Type()) {
			x, okx := fb.linOf(t.X, t, 0)
			y, oky := fb.linOf(t.Y, t, 0)
			if okx && oky {
				why := fmt.Sprintf("branch %s %s %s", describeIdx(t.X), op, describeIdx(t.Y))
				switch op {
				case token.LSS:
					return []constraint{gt(y, x, why)}
				case token.LEQ:
					return []constraint{geq(y, x, why)}
				case token.GTR:
					return []constraint{gt(x, y, why)}
				case token.GEQ:
					return []constraint{geq(x, y, why)}
				case token.EQL:
					return eqs(x, y, why)
				}
			}
			return nil
		}
		if isStringType(t.X.Type()) && op == token.EQL {
			// equal strings have equal lengths
			return eqs(fb.lenOf(t.X, t, 0), fb.lenOf(t.Y, t, 0), "equal strings")
		}
		// reference compared with nil
		if op == token.NEQ || op == token.EQL {
			var ref ssa.Value
			if cst, ok := t.Y.(*ssa.Const); ok && cst.IsNil() {
				ref = t.X
			} else if cst, ok := t.X.(*ssa.Const); ok && cst.IsNil() {
				ref = t.Y
			}
			if ref != nil {
				return fb.nilFacts(ref, op == token.EQL, t)
			}
		}
	case *ssa.Call:
		callee := t.Call.StaticCallee()
		if callee == nil {
			return nil
		}
		switch callee.String() {
		case "strings.HasPrefix", "strings.HasSuffix":
			if pol {
				return []constraint{geq(fb.lenOf(t.Call.Args[0], t, 0), fb.lenOf(t.Call.Args[1], t, 0), callee.Name()+" is true")}
			}
			return nil
		}
		if fb.bp.p.InModule(callee) && pol && fb.bp.boolSummary(callee) == nil {
			var cs []constraint
			for _, s := range fb.bp.trueFacts(callee) {
				x, okx := fb.renameCallee(s.x, callee, t, false)
				y, oky := fb.renameCallee(s.y, callee, t, false)
				if !okx || !oky {
					continue
				}
				why := fmt.Sprintf("%s() is true", callee.Name())
				switch s.op {
				case token.LSS:
					cs = append(cs, gt(y, x, why))
				case token.LEQ:
					cs = append(cs, geq(y, x, why))
				case token.GTR:
					cs = append(cs, gt(x, y, why))
				case token.GEQ:
					cs = append(cs, geq(x, y, why))
				case token.EQL:
					cs = append(cs, eqs(x, y, why)...)
				}
			}
			return cs
		}
		if fb.bp.p.InModule(callee) {
			if s := fb.bp.boolSummary(callee); s != nil {
				x, okx := fb.renameCallee(s.x, callee, t, false)
				y, oky := fb.renameCallee(s.y, callee, t, false)
				if okx && oky {
					op := s.op
					if !pol {
						switch op {
						case token.LSS:
							op = token.GEQ
						case token.LEQ:
							op = token.GTR
						case token.GTR:
							op = token.LEQ
						case token.GEQ:
							op = token.LSS
						case token.EQL:
							op = token.NEQ
						case token.NEQ:
							op = token.EQL
						}
					}
					why := fmt.Sprintf("%s() is %v", callee.Name(), pol)
					switch op {
					case token.LSS:
						return []constraint{gt(y, x, why)}
					case token.LEQ:
						return []constraint{geq(y, x, why)}
					case token.GTR:
						return []constraint{gt(x, y, why)}
					case token.GEQ:
						return []constraint{geq(x, y, why)}
					case token.EQL:
						return eqs(x, y, why)
					}
				}
			}
		}
	}
	return nil
}

// A transparent helper is a one-block method that only reads fields and/or bumps integer fields of its
// receiver by a parameter or a constant (advance(n), rest(), peekByte()). It is treated as if inlined: a
// call has exactly its field updates as effect, its string/slice result has the length its body says, and
// the object invariants are neither checked at its exit nor assumed after a call to it (the caller's
// own next boundary has to re-establish them).
type transparentInfo struct {
	updates []transUpdate
	retLen  *lin // length of the (single) string/slice result over callee-relative variables
}

type transUpdate struct {
	fk    fieldKey
	delta lin // new - old, over callee parameter names / constants
}

func (bp *boundsProver) transparent(fn *ssa.Function) *transparentInfo {
	if bp.transMemo == nil {
		bp.transMemo = map[*ssa.Function]*transparentInfo{}
	}
	if ti, ok := bp.transMemo[fn]; ok {
		return ti
	}
	bp.transMemo[fn] = nil
	if fn == nil || len(fn.Blocks) != 1 || len(fn.Params) == 0 || fn.Signature.Recv() == nil {
		return nil
	}
	if _, ok := fn.Params[0].Type().Underlying().(*types.Pointer); !ok {
		return nil
	}
	b := fn.Blocks[0]
	ti := &transparentInfo{}
	cfb := bp.forFn(fn)
	var stores []*ssa.Store
	for _, in := range b.Instrs {
		switch t := in.(type) {
		case *ssa.FieldAddr, *ssa.UnOp, *ssa.BinOp, *ssa.Slice, *ssa.Lookup, *ssa.Index, *ssa.IndexAddr, *ssa.Return, *ssa.DebugRef, *ssa.Convert, *ssa.ChangeType:
		case *ssa.Call:
			if bi, ok := t.Call.Value.(*ssa.Builtin); !ok || (bi.Name() != "len" && bi.Name() != "cap") {
				return nil
			}
		case *ssa.Store:
			fa, ok := t.Addr.(*ssa.FieldAddr)
			if !ok || fa.X != ssa.Value(fn.Params[0]) || !isIntType(t.Val.Type()) {
				return nil
			}
			stores = append(stores, t)
		default:
			return nil
		}
	}
	for _, st := range stores {
		fa := st.Addr.(*ssa.FieldAddr)
		fk := fieldOf(fa)
		nv, ok := cfb.linOf(st.Val, st, 0)
		if !ok {
			return nil
		}
		old := linVar(fmt.Sprintf("mem(%s.%s@entry)", ssaName(fn.Params[0]), fk.Field))
		d := nv.sub(old)
		// delta over parameters and constants only
		for v := range d.c {
			isPrm := false
			for _, prm := range fn.Params[1:] {
				if v == ssaName(prm) {
					isPrm = true
				}
			}
			if !isPrm {
				return nil
			}
		}
		ti.updates = append(ti.updates, transUpdate{fk, d})
	}
	ret := b.Instrs[len(b.Instrs)-1].(*ssa.Return)
	if len(ret.Results) == 1 && (isStringType(ret.Results[0].Type()) || kindOf(ret.Results[0].Type()) == KSlice) {
		l := cfb.lenOf(ret.Results[0], ret, 0)
		if len(stores) > 0 {
			// a field read back after its (single) update is the entry value plus the delta
			perField := map[string]int{}
			for _, u := range ti.updates {
				perField[u.fk.Field]++
			}
			res := linConst(0)
			res.k.Set(l.k)
			okAll := true
			for v, c := range l.c {
				repl := linVar(v)
				if strings.HasPrefix(v, "mem(") && !strings.HasSuffix(v, "@entry)") {
					okAll = false
					for _, u := range ti.updates {
						pre := fmt.Sprintf("mem(%s.%s@", ssaName(fn.Params[0]), u.fk.Field)
						if strings.HasPrefix(v, pre) && perField[u.fk.Field] == 1 {
							repl = linVar(pre + "entry)").add(u.delta)
							okAll = true
						}
					}
					if !okAll {
						break
					}
				}
				res = res.add(repl.scale(c))
			}
			if okAll {
				ti.retLen = &res
			}
		} else {
			ti.retLen = &l
		}
	}
	if len(ti.updates) == 0 && ti.retLen == nil {
		// a pure getter of a scalar (peekByte): nothing to summarise, but still transparent
	}
	bp.transMemo[fn] = ti
	return ti
}

// dynTargets: the in-module functions a dynamic call can reach according to the call graph, with
// synthetic thunks / bound-method wrappers replaced by the method they forward to. ok is false when a
// target is unknown or outside the module.
func (bp *boundsProver) dynTargets(call ssa.CallInstruction) ([]*ssa.Function, bool) {
	p := bp.p
	if p.CG == nil {
		return nil, false
	}
	n := p.CG.Nodes[call.Parent()]
	if n == nil {
		return nil, false
	}
	var out []*ssa.Function
	seen := map[*ssa.Function]bool{}
	for _, e := range n.Out {
		if e.Site != call {
			continue
		}
		f := e.Callee.Func
		for i := 0; i < 3 && f != nil && f.Synthetic != "" && !p.InModule(f); i++ {
			// the wrapper's single static in-module callee
			var inner *ssa.Function
			cnt := 0
			for _, b := range f.Blocks {
				for _, in := range b.Instrs {
					if ci, ok := in.(ssa.CallInstruction); ok {
						if c := ci.Common().StaticCallee(); c != nil {
							inner = c
							cnt++
						}
					}
				}
			}
			if cnt != 1 {
				return nil, false
			}
			f = inner
		}
		if f == nil || !p.InModule(f) {
			return nil, false
		}
		if !seen[f] {
			seen[f] = true
			out = append(out, f)
		}
	}
	return out, len(out) > 0
}

// dynArgs: the objects a dynamic call hands to its target: the explicit arguments and, when the callee
// value is a slot of a local table of bound method values, the receiver bound in every slot (provided all
// slots bind the same values).
func dynArgs(call ssa.CallInstruction) []ssa.Value {
	out := append([]ssa.Value{}, call.Common().Args...)
	vi, ok := call.Common().Value.(ssa.Instruction)
	if !ok {
		return out
	}
	tbl, _, _, ok := tableElem(vi)
	if !ok || len(funcTableOf(tbl)) == 0 {
		return out
	}
	binds := funcTableBindings(tbl)
	var common []ssa.Value
	for i, mc := range binds {
		if mc == nil {
			return out
		}
		if i == 0 {
			common = mc.Bindings
			continue
		}
		if len(mc.Bindings) != len(common) {
			return out
		}
		for j := range common {
			if mc.Bindings[j] != common[j] {
				return out
			}
		}
	}
	return append(out, common...)
}

// nilFacts: consequences of ref == nil (isNil) or ref != nil.
func (fb *fnBounds) nilFacts(ref ssa.Value, isNilCase bool, at ssa.Instruction) []constraint {
	call, ok := ref.(*ssa.Call)
	if !ok {
		return nil
	}
	callee := call.Call.StaticCallee()
	if callee == nil {
		// a nil result of a call to one of a known set of functions: a field is unchanged if none of
		// them writes it on a path to a possibly-nil return
		ts, ok := fb.bp.dynTargets(call)
		if !ok || !isNilCase {
			return nil
		}
		var cs []constraint
		for i, a := range dynArgs(call) {
			pt, ok := a.Type().Underlying().(*types.Pointer)
			if !ok {
				continue
			}
			n, st := namedStruct(pt.Elem())
			if n == nil {
				continue
			}
			_ = i
			for fi := 0; fi < st.NumFields(); fi++ {
				f := st.Field(fi)
				fk := fieldKey{Struct: n.String(), Field: f.Name()}
				written, anyWrites := false, false
				for _, tg := range ts {
					nm := fb.bp.nilModsOf(tg)
					if nm == nil {
						written = true
						break
					}
					if fb.bp.eff.trans[tg][fk] {
						anyWrites = true
						if nm[fk] {
							written = true
						}
					}
				}
				if written || !anyWrites {
					continue
				}
				cls := "fld:" + fk.String()
				before := fmt.Sprintf("mem(%s.%s@%s)", fb.vid(a, call), f.Name(), fb.versionAt(cls, call))
				after := fmt.Sprintf("mem(%s.%s@%s)", fb.vid(a, call), f.Name(), fb.versionAfter(cls, call))
				why := fmt.Sprintf("the call returned nil: no possible target writes %s.%s on a path to a possibly-nil return", n.Obj().Name(), f.Name())
				switch {
				case isIntType(f.Type()):
					cs = append(cs, eqs(linVar(before), linVar(after), why)...)
				case isStringType(f.Type()) || kindOf(f.Type()) == KSlice:
					cs = append(cs, eqs(linVar("len:"+before), linVar("len:"+after), why)...)
				}
			}
		}
		return cs
	}
	if callee.String() == "(*regexp.Regexp).FindStringIndex" && !isNilCase {
		// non-nil result: a pair [lo, hi] with 0 ≤ lo ≤ hi ≤ len(s)
		et := "elem:int"
		ver := fb.versionAt(et, at)
		e0 := linVar(fmt.Sprintf("elem(%s[%s]@%s)", ssaName(call), linConst(0).String(), ver))
		e1 := linVar(fmt.Sprintf("elem(%s[%s]@%s)", ssaName(call), linConst(1).String(), ver))
		ln := linVar("len:" + ssaName(call))
		why := "FindStringIndex result contract"
		cs := eqs(ln, linConst(2), why)
		cs = append(cs, geq(e0, linConst(0), why), geq(e1, e0, why), geq(fb.lenOf(call.Call.Args[1], call, 0), e1, why))
		return cs
	}
	if fb.bp.p.InModule(callee) && isNilCase {
		// a nil result was produced by a return whose value may be nil: fields not written on any path
		// to such a return are unchanged by the call
		nm := fb.bp.nilModsOf(callee)
		if nm == nil {
			return nil
		}
		var cs []constraint
		for i, prm := range callee.Params {
			pt, ok := prm.Type().Underlying().(*types.Pointer)
			if !ok || i >= len(call.Call.Args) {
				continue
			}
			n, st := namedStruct(pt.Elem())
			if n == nil {
				continue
			}
			arg := call.Call.Args[i]
			for fi := 0; fi < st.NumFields(); fi++ {
				f := st.Field(fi)
				fk := fieldKey{Struct: n.String(), Field: f.Name()}
				if !fb.bp.eff.trans[callee][fk] || nm[fk] {
					continue
				}
				cls := "fld:" + fk.String()
				before := fmt.Sprintf("mem(%s.%s@%s)", fb.vid(arg, call), f.Name(), fb.versionAt(cls, call))
				after := fmt.Sprintf("mem(%s.%s@%s)", fb.vid(arg, call), f.Name(), fb.versionAfter(cls, call))
				why := fmt.Sprintf("%s returned nil: %s.%s is not written on any path to a possibly-nil return", callee.Name(), n.Obj().Name(), f.Name())
				switch {
				case isIntType(f.Type()):
					cs = append(cs, eqs(linVar(before), linVar(after), why)...)
				case isStringType(f.Type()) || kindOf(f.Type()) == KSlice:
					cs = append(cs, eqs(linVar("len:"+before), linVar("len:"+after), why)...)
				}
			}
		}
		return cs
	}
	return nil
}

// nilModsOf: fields possibly stored (directly or through callees) on some path from entry to a
// return whose (first) result may be nil. nil when the function has no pointer result.
func (bp *boundsProver) nilModsOf(fn *ssa.Function) map[fieldKey]bool {
	if m, ok := bp.nilMods[fn]; ok {
		return m
	}
	bp.nilMods[fn] = nil
	res := fn.Signature.Results()
	if res.Len() == 0 || kindOf(res.At(0).Type()) != KPtr {
		return nil
	}
	fb := bp.forFn(fn)
	m := map[fieldKey]bool{}
	for _, b := range fn.Blocks {
		ret, ok := b.Instrs[len(b.Instrs)-1].(*ssa.Return)
		if !ok {
			continue
		}
		if fb.provablyNonNil(ret.Results[0], ret) {
			continue
		}
		// blocks that can reach b
		reach := map[*ssa.BasicBlock]bool{b: true}
		work := []*ssa.BasicBlock{b}
		for len(work) > 0 {
			x := work[len(work)-1]
			work = work[:len(work)-1]
			for _, p := range x.Preds {
				if !reach[p] {
					reach[p] = true
					work = append(work, p)
				}
			}
		}
		for rb := range reach {
			for _, in := range rb.Instrs {
				switch t := in.(type) {
				case *ssa.Store:
					if fa, ok := t.Addr.(*ssa.FieldAddr); ok {
						m[fieldOf(fa)] = true
					}
				case ssa.CallInstruction:
					if c := t.Common().StaticCallee(); c != nil && bp.p.InModule(c) {
						// a callee whose nil result leads here contributes only its own nil-mods when the
						// path to this return requires that result to be nil; conservatively: all its mods
						for fk := range bp.eff.trans[c] {
							m[fk] = true
						}
					} else if _, isBuiltin := t.Common().Value.(*ssa.Builtin); c == nil && !isBuiltin {
						for fk := range bp.eff.trans[fn] {
							m[fk] = true
						}
					}
				}
			}
		}
	}
	bp.nilMods[fn] = m
	return m
}

// falseModsOf: for a function whose last result is a bool ("found", "ok"): the fields possibly stored
// (directly or through callees) on some path to a return where that bool may be false. A store that only
// runs under the very value that is returned being true does not count, and a callee whose own "found" is
// what this function returns contributes only its own false-mods. nil when the last result is not a bool.
func (bp *boundsProver) falseModsOf(fn *ssa.Function) map[fieldKey]bool {
	if bp.falseMods == nil {
		bp.falseMods = map[*ssa.Function]map[fieldKey]bool{}
	}
	if m, ok := bp.falseMods[fn]; ok {
		return m
	}
	res := fn.Signature.Results()
	if res.Len() < 2 || !isBoolType(res.At(res.Len()-1).Type()) || len(fn.Blocks) == 0 {
		bp.falseMods[fn] = nil
		return nil
	}
	// while computing (recursion): everything the function may write
	all := map[fieldKey]bool{}
	for fk := range bp.eff.trans[fn] {
		all[fk] = true
	}
	bp.falseMods[fn] = all
	fb := bp.forFn(fn)
	last := res.Len() - 1
	m := map[fieldKey]bool{}
	for _, b := range fn.Blocks {
		ret, ok := b.Instrs[len(b.Instrs)-1].(*ssa.Return)
		if !ok || last >= len(ret.Results) {
			continue
		}
		v := ret.Results[last]
		if c, isC := v.(*ssa.Const); isC && c.Value != nil && c.Value.String() == "true" {
			continue
		}
		underTrue := func(blk *ssa.BasicBlock) bool {
			if _, isC := v.(*ssa.Const); isC {
				return false
			}
			for cf := range fb.facts[blk.Index] {
				if cf.c == v && cf.pol {
					return true
				}
			}
			return false
		}
		if underTrue(b) {
			continue // this return only happens with the value true
		}
		reach := map[*ssa.BasicBlock]bool{b: true}
		work := []*ssa.BasicBlock{b}
		for len(work) > 0 {
			x := work[len(work)-1]
			work = work[:len(work)-1]
			for _, p := range x.Preds {
				if !reach[p] {
					reach[p] = true
					work = append(work, p)
				}
			}
		}
		for rb := range reach {
			if underTrue(rb) {
				continue
			}
			for _, in := range rb.Instrs {
				switch t := in.(type) {
				case *ssa.Store:
					if fa, ok := t.Addr.(*ssa.FieldAddr); ok {
						m[fieldOf(fa)] = true
					}
				case ssa.CallInstruction:
					if c := t.Common().StaticCallee(); c != nil && bp.p.InModule(c) {
						mods := bp.eff.trans[c]
						// the callee's own "found" is what is returned here
						if ex, isEx := v.(*ssa.Extract); isEx && ex.Tuple == in.(ssa.Value) && ex.Index == c.Signature.Results().Len()-1 {
							if fm := bp.falseModsOf(c); fm != nil {
								mods = fm
							}
						}
						// this return is only reached after the callee answered "not found"
						for cf := range fb.facts[b.Index] {
							if ex, isEx := cf.c.(*ssa.Extract); isEx && !cf.pol && ex.Tuple == in.(ssa.Value) && ex.Index == c.Signature.Results().Len()-1 {
								if fm := bp.falseModsOf(c); fm != nil {
									mods = fm
								}
							}
						}
						for fk := range mods {
							m[fk] = true
						}
					} else if _, isBuiltin := t.Common().Value.(*ssa.Builtin); c == nil && !isBuiltin {
						for fk := range bp.eff.trans[fn] {
							m[fk] = true
						}
					}
				}
			}
		}
	}
	bp.falseMods[fn] = m
	return m
}

// provablyNonNil: v is an address of a local object or is guarded by v != nil at `at`.
func (fb *fnBounds) provablyNonNil(v ssa.Value, at ssa.Instruction) bool {
	switch t := v.(type) {
	case *ssa.Alloc, *ssa.FieldAddr, *ssa.IndexAddr, *ssa.MakeInterface:
		return true
	case *ssa.Const:
		return !t.IsNil()
	}
	b := at.Block()
	for cf := range fb.facts[b.Index] {
		bo, ok := cf.c.(*ssa.BinOp)
		if !ok {
			continue
		}
		var ref ssa.Value
		if c, ok := bo.Y.(*ssa.Const); ok && c.IsNil() {
			ref = bo.X
		} else if c, ok := bo.X.(*ssa.Const); ok && c.IsNil() {
			ref = bo.Y
		}
		if ref != v {
			continue
		}
		if (bo.Op == token.NEQ && cf.pol) || (bo.Op == token.EQL && !cf.pol) {
			return true
		}
	}
	return false
}
