package main

import (
	"os"
	"runtime/pprof"
	"testing"
)

func TestProfileEngine(t *testing.T) {
	if os.Getenv("SPDXVERIF_PROFILE") == "" {
		t.Skip()
	}
	p, err := Load("/repo", Config{}, "vta")
	if err != nil {
		t.Fatal(err)
	}
	f, _ := os.Create("/tmp/cpu.prof")
	pprof.StartCPUProfile(f)
	RunEngine(p)
	pprof.StopCPUProfile()
	f.Close()
}
