package main

func init() {
	// C11's code clause is added to the table clause registered in prop_c11.go
	old := props["C11"].Run
	props["C11"].Run = func(p *Prog, r *Report) {
		old(p, r)
		rulesRangeCode(p, r)
	}
}
