package main

import (
	"fmt"
	"go/token"
	"go/types"
	"regexp"
	"sort"
	"strings"

	"golang.org/x/tools/go/ssa"
)

func init() {
	register("C09", &propDef{
		Level:   "other",
		Explain: "Table clauses exhaustive over all ~740 listed ids, code clauses by provenance: K0a no two ids are equal under the case folding strings.EqualFold implements, K0b no id has a case variant that starts with a keyword the scanner matches (case-sensitively) before ids, K0c the id reader's pattern or byte class admits every listed id whole in upper and in lower case, K1 the list lookup compares with EqualFold and returns the list's own spelling, K2 only list spelling reaches license/exception tokens and node fields, K3 every later comparison of license or exception text is between canonical strings (node fields, their canonical rendering, range-table constants), K4 output is built from those fields (C06 E3). Operators, reference prefixes and the -only/-or-later suffixes are matched exactly by construction and are outside the claim.",
		Run:     rulesC09,
		Trusted: []string{"go/ssa lowering", "strings.EqualFold implements Unicode simple case folding (the checker uses the same function on constants)"},
	})
}

// lookupInfo describes the case-insensitive list lookup and its wrappers.
type lookupInfo struct {
	Lookup   *ssa.Function            // inLicenseList
	Wrappers map[*ssa.Function]string // wrapper -> table getter name
}

func findLookup(p *Prog) (*lookupInfo, error) {
	li := &lookupInfo{Wrappers: map[*ssa.Function]string{}}
	for _, cs := range p.StdCallees["strings.EqualFold"] {
		f := cs.Caller
		if f.Parent() != nil {
			f = f.Parent() // the predicate closure of a slices.IndexFunc / ContainsFunc search
		}
		if len(f.Params) == 2 && kindOf(f.Params[0].Type()) == KSlice && isStringType(f.Params[1].Type()) && f.Signature.Results().Len() == 2 {
			li.Lookup = f
		}
	}
	if li.Lookup == nil {
		return nil, fmt.Errorf("unresolved anchor: the list lookup (a function taking ([]string, string) that compares with strings.EqualFold)")
	}
	for _, f := range p.RList {
		for _, b := range f.Blocks {
			for _, in := range b.Instrs {
				c, ok := in.(*ssa.Call)
				if !ok || c.Call.StaticCallee() != li.Lookup {
					continue
				}
				lst := c.Call.Args[0]
				for {
					// a conversion to a named list type (idList(GetLicenses())) is still that list
					ct, isCT := lst.(*ssa.ChangeType)
					if !isCT {
						break
					}
					lst = ct.X
				}
				if g, ok := lst.(*ssa.Call); ok && g.Call.StaticCallee() != nil && g.Call.StaticCallee().Pkg == p.SSAPkg[p.LicPkg.PkgPath] {
					li.Wrappers[f] = g.Call.StaticCallee().Name()
				} else if g, ok := lst.(*ssa.Call); ok && g.Call.StaticCallee() == nil {
					// the list comes from a getter handed in as a parameter: the callers that pass a table
					// getter are the wrappers of that table
					idx := -1
					for i, prm := range f.Params {
						if g.Call.Value == ssa.Value(prm) {
							idx = i
						}
					}
					n := 0
					if idx >= 0 {
						for _, caller := range p.RList {
							for _, cb := range caller.Blocks {
								for _, cin := range cb.Instrs {
									cc, ok := cin.(*ssa.Call)
									if !ok || cc.Call.StaticCallee() != f || idx >= len(cc.Call.Args) {
										continue
									}
									n++
									if gf, ok := cc.Call.Args[idx].(*ssa.Function); ok && gf.Pkg == p.SSAPkg[p.LicPkg.PkgPath] {
										li.Wrappers[caller] = gf.Name()
									} else {
										li.Wrappers[caller] = "?"
									}
								}
							}
						}
					}
					if n == 0 {
						li.Wrappers[f] = "?"
					}
				} else {
					li.Wrappers[f] = "?"
				}
			}
		}
	}
	return li, nil
}

type indexFuncForm struct {
	call  *ssa.Call
	probs []string
}

// indexFuncLookup recognises f(list, probe) built on slices.IndexFunc(list, pred) where pred is a closure
// of f returning exactly strings.EqualFold(element, probe).
func indexFuncLookup(p *Prog, f *ssa.Function) *indexFuncForm {
	for _, b := range f.Blocks {
		for _, in := range b.Instrs {
			c, ok := in.(*ssa.Call)
			if !ok || c.Call.StaticCallee() == nil {
				continue
			}
			callee := c.Call.StaticCallee()
			base := callee.Name()
			if o := callee.Origin(); o != nil {
				base = o.Name()
			}
			pkg := ""
			if o := callee.Origin(); o != nil && o.Pkg != nil {
				pkg = o.Pkg.Pkg.Path()
			}
			if pkg != "slices" || base != "IndexFunc" || len(c.Call.Args) != 2 {
				continue
			}
			res := &indexFuncForm{call: c}
			if c.Call.Args[0] != ssa.Value(f.Params[0]) {
				res.probs = append(res.probs, "the search does not run over the list parameter")
			}
			mc, ok := c.Call.Args[1].(*ssa.MakeClosure)
			if !ok {
				res.probs = append(res.probs, "the predicate of the search is not a local closure")
				return res
			}
			pred := mc.Fn.(*ssa.Function)
			okPred := len(pred.Blocks) == 1
			if okPred {
				ret, isRet := pred.Blocks[0].Instrs[len(pred.Blocks[0].Instrs)-1].(*ssa.Return)
				okPred = false
				if isRet && len(ret.Results) == 1 {
					if ef, ok := ret.Results[0].(*ssa.Call); ok && ef.Call.StaticCallee() != nil && ef.Call.StaticCallee().String() == "strings.EqualFold" {
						probeOK, elemOK := false, false
						for _, a := range ef.Call.Args {
							if a == ssa.Value(pred.Params[0]) {
								elemOK = true
							}
							fvOf := a
							byRef := false
							if ld, ok := a.(*ssa.UnOp); ok && ld.Op == token.MUL {
								fvOf, byRef = ld.X, true
							}
							if fv, ok := fvOf.(*ssa.FreeVar); ok {
								for i, v := range pred.FreeVars {
									if v != fv || i >= len(mc.Bindings) {
										continue
									}
									if !byRef && mc.Bindings[i] == ssa.Value(f.Params[1]) {
										probeOK = true
									}
									if al, ok := mc.Bindings[i].(*ssa.Alloc); ok && byRef {
										// the parameter spilled to a cell: exactly one store, of the parameter
										n, okStore := 0, false
										for _, rr := range *al.Referrers() {
											if st, ok := rr.(*ssa.Store); ok && st.Addr == ssa.Value(al) {
												n++
												okStore = st.Val == ssa.Value(f.Params[1])
											}
										}
										if n == 1 && okStore {
											probeOK = true
										}
									}
								}
							}
						}
						okPred = probeOK && elemOK
					}
				}
			}
			if !okPred {
				res.probs = append(res.probs, "the predicate is not exactly strings.EqualFold(element, probe)")
			}
			return res
		}
	}
	return nil
}

// ruleK1: shape of the list lookup and of its wrappers (shared by C09, C07 and C12).
func ruleK1(p *Prog, r *Report) *lookupInfo {
	r.Rule("K1", "necessary", 4, "the list lookup is one full forward scan that compares every list element with the probe by strings.EqualFold and, on success, returns the list element (never the probe); nothing ends an iteration before the comparison; every wrapper passes a table getter's fresh result as the list")
	li, err := findLookup(p)
	if err != nil {
		r.Unknown("K1", "lookup", "-", err.Error())
		return nil
	}
	f := li.Lookup
	r.Funcs[p.shortKey(f)] = true
	bp := newBoundsProver(p, sharedEngineLite(p))
	fb := bp.forFn(f)
	// K1, search-function form: i := slices.IndexFunc(list, func(e) bool { return EqualFold(e, probe) });
	// success is i >= 0 and returns list[i]. The library function scans forward over the whole slice.
	if idx := indexFuncLookup(p, f); idx != nil {
		var probs []string
		trueRets := 0
		for _, b := range f.Blocks {
			ret, ok := b.Instrs[len(b.Instrs)-1].(*ssa.Return)
			if !ok {
				continue
			}
			c, isC := ret.Results[0].(*ssa.Const)
			if isC && c.Value != nil && c.Value.String() == "false" {
				continue
			}
			trueRets++
			okElem := false
			if ld, ok := ret.Results[1].(*ssa.UnOp); ok && ld.Op == token.MUL {
				if ia, ok := ld.X.(*ssa.IndexAddr); ok && ia.X == ssa.Value(f.Params[0]) && ia.Index == ssa.Value(idx.call) {
					okElem = true
				}
			}
			if !okElem {
				probs = append(probs, fmt.Sprintf("%s: on success the lookup returns %s, not the list element the search found", p.pos(ret.Pos()), describe(ret.Results[1])))
			}
			guarded := false
			for cf := range fb.facts[b.Index] {
				bo, ok := cf.c.(*ssa.BinOp)
				if !ok {
					continue
				}
				k, isK := bo.Y.(*ssa.Const)
				if bo.X != ssa.Value(idx.call) || !isK || k.Value == nil {
					continue
				}
				kv := k.Value.ExactString()
				if (bo.Op == token.GEQ && kv == "0" && cf.pol) || (bo.Op == token.LSS && kv == "0" && !cf.pol) || (bo.Op == token.GTR && kv == "-1" && cf.pol) || (bo.Op == token.NEQ && kv == "-1" && cf.pol) || (bo.Op == token.EQL && kv == "-1" && !cf.pol) {
					guarded = true
				}
			}
			if !guarded {
				probs = append(probs, fmt.Sprintf("%s: success is not decided by 'the search found an index'", p.pos(ret.Pos())))
			}
		}
		if trueRets == 0 {
			probs = append(probs, "no success return found")
		}
		probs = append(probs, idx.probs...)
		if len(probs) > 0 {
			r.Bad("K1", p.shortKey(f), p.pos(f.Pos()), strings.Join(probs, "; "))
		} else {
			r.OK("K1", p.shortKey(f), p.pos(f.Pos()), "slices.IndexFunc with an EqualFold predicate; returns list spelling", "", true)
		}
	} else
	// K1: returns
	{
		var probs []string
		trueRets := 0
		for _, b := range f.Blocks {
			ret, ok := b.Instrs[len(b.Instrs)-1].(*ssa.Return)
			if !ok {
				continue
			}
			c, isC := ret.Results[0].(*ssa.Const)
			if isC && c.Value != nil && c.Value.String() == "false" {
				continue
			}
			trueRets++
			if !isElemOf(ret.Results[1], f.Params[0]) {
				probs = append(probs, fmt.Sprintf("%s: on success the lookup returns %s, not the list's own element: the caller's spelling leaks into tokens", p.pos(ret.Pos()), describe(ret.Results[1])))
			}
			guarded := false
			for cf := range fb.facts[b.Index] {
				call, ok := cf.c.(*ssa.Call)
				if !ok || !cf.pol || call.Call.StaticCallee() == nil {
					continue
				}
				if call.Call.StaticCallee().String() == "strings.EqualFold" {
					a0, a1 := call.Call.Args[0], call.Call.Args[1]
					if (isElemOf(a0, f.Params[0]) && a1 == ssa.Value(f.Params[1])) || (isElemOf(a1, f.Params[0]) && a0 == ssa.Value(f.Params[1])) {
						guarded = true
					}
				}
			}
			if !guarded {
				probs = append(probs, fmt.Sprintf("%s: success is not decided by strings.EqualFold(list element, probe)", p.pos(ret.Pos())))
			}
		}
		if trueRets == 0 {
			probs = append(probs, "no success return found")
		}
		// exhaustive: one full forward range over the list, and nothing can end an iteration before the comparison
		var hdrs []*ssa.BasicBlock
		for _, b := range f.Blocks {
			if isLoopHeader(b) {
				hdrs = append(hdrs, b)
			}
		}
		var test *ssa.BasicBlock
		for _, b := range f.Blocks {
			if iff, ok := b.Instrs[len(b.Instrs)-1].(*ssa.If); ok {
				if c, ok := iff.Cond.(*ssa.Call); ok && c.Call.StaticCallee() != nil && c.Call.StaticCallee().String() == "strings.EqualFold" {
					test = b
				}
			}
		}
		if len(hdrs) != 1 || test == nil {
			probs = append(probs, fmt.Sprintf("the lookup is not one loop over the list with an EqualFold test per element (%d loops)", len(hdrs)))
		} else {
			h := hdrs[0]
			full := false
			if ifi, ok := h.Instrs[len(h.Instrs)-1].(*ssa.If); ok {
				if cmp, ok := ifi.Cond.(*ssa.BinOp); ok && cmp.Op == token.LSS {
					if ln, ok := cmp.Y.(*ssa.Call); ok && len(ln.Call.Args) == 1 && ln.Call.Args[0] == ssa.Value(f.Params[0]) && isRangeIndexOf(cmp.X, f.Params[0]) == nil {
						full = true
					}
				}
			}
			if !full {
				probs = append(probs, "the loop of the lookup is not a full forward range over the list: entries can be passed over (the tables are not sorted under case folding)")
			}
			probs = append(probs, skipsInSearch(p, hdrs, test)...)
		}
		if len(probs) > 0 {
			r.Bad("K1", p.shortKey(f), p.pos(f.Pos()), strings.Join(probs, "; "))
		} else {
			r.OK("K1", p.shortKey(f), p.pos(f.Pos()), "EqualFold; returns list spelling", "", true)
		}
	}
	var ws []*ssa.Function
	for w := range li.Wrappers {
		ws = append(ws, w)
	}
	sort.Slice(ws, func(i, j int) bool { return ws[i].String() < ws[j].String() })
	for _, w := range ws {
		if li.Wrappers[w] == "?" {
			r.Bad("K1", "wrapper "+p.shortKey(w), p.pos(w.Pos()), "the list passed to the lookup is not the direct result of a table getter")
		} else {
			r.OK("K1", "wrapper "+p.shortKey(w), p.pos(w.Pos()), "list = spdxlicenses."+li.Wrappers[w]+"()", "", false)
		}
	}

	return li
}

func rulesC09(p *Prog, r *Report) {
	t, err := p.LoadTables()
	r.Rule("A1", "exact", 3, "the id tables are compile-time constants the checker can evaluate")
	if err != nil {
		r.Unknown("A1", "tables", "-", err.Error())
		return
	}
	r.OK("A1", "GetLicenses", "-", "evaluated", "", true)
	r.OK("A1", "GetDeprecated", "-", "evaluated", "", true)
	r.OK("A1", "GetExceptions", "-", "evaluated", "", true)
	ruleFoldUnique(p, r, t, "K0a")
	kw, kerr := scannerKeywords(p)
	if kerr != nil {
		r.Rule("K0b", "necessary", 500, "keyword prefixes")
		r.Unknown("K0b", "scanner-keywords", "-", kerr.Error())
	} else {
		ruleKeywordPrefix(p, r, t, kw.All(), "K0b")
		ruleIDClassCaseClosed(p, r, t, kw.IDPattern, "K0c")
	}

	r.Rule("K2", "necessary", 3, "only list spelling reaches tokens and nodes: license/exception tokens take their value from the lookup's string result under the lookup's success; license and exception fields of nodes take their values from token values only")
	r.Rule("K3", "necessary", 3, "downstream comparisons of license/exception text are between canonical strings")

	li := ruleK1(p, r)
	if li == nil {
		return
	}
	bp := newBoundsProver(p, sharedEngineLite(p))
	// K2: token literals with an id role
	tokT := p.ExpPkg.Types.Scope().Lookup("token")
	lnp := p.ExpPkg.Types.Scope().Lookup("licenseNodePartial")
	if tokT == nil || lnp == nil {
		r.Unknown("K2", "anchor", "-", "unresolved anchor: token / licenseNodePartial")
		return
	}
	idRoles := map[string]bool{}
	sc := p.ExpPkg.Types.Scope()
	for _, n := range []string{"licenseToken", "exceptionToken"} {
		if c, ok := sc.Lookup(n).(*types.Const); ok {
			idRoles[c.Val().ExactString()] = true
		}
	}
	for _, fn := range p.RList {
		fbn := bp.forFn(fn)
		if tokenCtor(p, fn) != nil {
			continue // a constructor helper: its call sites are the literals
		}
		{
			for _, tl := range tokenLitsIn(p, fn) {
				al := tl.At
				role, value := tl.Role, tl.Value
				var rc *ssa.Const
				switch rv := role.(type) {
				case *ssa.Const:
					rc = rv
				case *ssa.Parameter:
					// a builder that is handed the role: any id role among the constants its call sites pass
					if cs, ok := paramConsts(p, rv); ok {
						for _, c := range cs {
							if c.Value != nil && idRoles[c.Value.ExactString()] {
								rc = c
							}
						}
					} else {
						r.Unknown("K2", fmt.Sprintf("%s|token literal", p.shortKey(fn)), p.pos(al.Pos()), "kind=undecided: the role of a token literal is not resolvable to constants")
						continue
					}
				}
				if rc == nil || rc.Value == nil || !idRoles[rc.Value.ExactString()] {
					continue
				}
				key := fmt.Sprintf("%s|token literal role %s", p.shortKey(fn), rc.Value.ExactString())
				ex, ok := value.(*ssa.Extract)
				var call *ssa.Call
				if ok && ex.Index == 1 {
					call, _ = ex.Tuple.(*ssa.Call)
				}
				isLookupFn := func(f *ssa.Function) bool { return f != nil && (li.Wrappers[f] != "" || f == li.Lookup) }
				okCall := false
				if call != nil {
					if sc := call.Call.StaticCallee(); sc != nil {
						okCall = isLookupFn(sc)
					} else if prm, isPrm := call.Call.Value.(*ssa.Parameter); isPrm {
						// the lookup is handed in: every call site passes one of the list lookups
						if fs, ok := paramFuncs(p, prm); ok {
							okCall = true
							for _, f := range fs {
								if !isLookupFn(f) {
									okCall = false
								}
							}
						}
					}
				}
				if !okCall {
					r.Bad("K2", key, p.pos(al.Pos()), fmt.Sprintf("the token's value is %s, not the string result of the list lookup: the caller's spelling (letter case) reaches the token", describe(value)))
					continue
				}
				// dominated by the lookup's success
				okDom := false
				for cf := range fbn.facts[al.Block().Index] {
					if ex0, ok := cf.c.(*ssa.Extract); ok && cf.pol && ex0.Index == 0 && ex0.Tuple == ssa.Value(call) {
						okDom = true
					}
				}
				if !okDom {
					r.Bad("K2", key, p.pos(al.Pos()), "the token is built from the lookup's string result without the lookup having succeeded (on failure that string is the caller's own spelling)")
					continue
				}
				r.OK("K2", key, p.pos(al.Pos()), "value = list spelling under lookup success", "", true)
			}
		}
	}
	// K2b: node fields license / exception from token.value only
	for _, fn := range p.RList {
		for _, b := range fn.Blocks {
			for _, in := range b.Instrs {
				st, ok := in.(*ssa.Store)
				if !ok {
					continue
				}
				fa, ok := st.Addr.(*ssa.FieldAddr)
				if !ok || fieldOf(fa).Struct != lnp.Type().String() {
					continue
				}
				fld := fieldOf(fa).Field
				if fld != "license" && fld != "exception" {
					continue
				}
				key := fmt.Sprintf("%s|licenseNodePartial.%s =", p.shortKey(fn), fld)
				if s, ok := constString(st.Val); ok && s == "" {
					r.OK("K2", key, p.pos(st.Pos()), "empty initialiser", "", false)
					continue
				}
				if tokenValueOrigin(p, st.Val, tokT.Type(), map[ssa.Value]bool{}) {
					r.OK("K2", key, p.pos(st.Pos()), "from token.value", "", true)
				} else {
					r.Bad("K2", key, p.pos(st.Pos()), fmt.Sprintf("node field %s is set from %s, not from a token's value", fld, describe(st.Val)))
				}
			}
		}
	}

	// K3
	qz := &quantizer{p: p, elemVar: map[ssa.Value]string{}}
	canonical := regexp.MustCompile(`^(\*?\(\*spdxexp\.node\)\.(license|exception|licenseRef|documentRef|reconstructedLicenseString)\(.*\)|.*\.lic\.(license|exception)|.*\.ref\.(licenseRef|documentRef)|spdxexp\.simplifyLicense\(.*\)|strings\.TrimSuffix\(.*, "-or-later"\)|elem\(elem\(elem\(spdxexp/spdxlicenses\.LicenseRanges\(\)\)\)\)|\*local)$`)
	n := 0
	// scope: everything the two pair matchers can reach (static calls and closures), wherever it lives;
	// the list lookup and its predicate closure compare the caller's spelling by design (K1)
	inScope := map[*ssa.Function]bool{}
	{
		var walk func(f *ssa.Function)
		walk = func(f *ssa.Function) {
			if f == nil || inScope[f] || !p.InModule(f) || f == li.Lookup || f.Parent() == li.Lookup {
				return
			}
			inScope[f] = true
			for _, b := range f.Blocks {
				for _, in := range b.Instrs {
					if ci, ok := in.(ssa.CallInstruction); ok {
						walk(ci.Common().StaticCallee())
						for _, a := range ci.Common().Args {
							if mc, ok := a.(*ssa.MakeClosure); ok {
								walk(mc.Fn.(*ssa.Function))
							}
						}
					}
					if mc, ok := in.(*ssa.MakeClosure); ok {
						walk(mc.Fn.(*ssa.Function))
					}
				}
			}
		}
		for _, n := range []string{"(*nodePair).licensesAreCompatible", "(*nodePair).licenseRefsAreCompatible"} {
			walk(p.Func(p.ExpPkg, n))
		}
	}
	for _, fn := range p.RList {
		if !inScope[fn] {
			continue
		}
		for _, b := range fn.Blocks {
			for _, in := range b.Instrs {
				var x, y ssa.Value
				what := ""
				switch tt := in.(type) {
				case *ssa.BinOp:
					if (tt.Op == token.EQL || tt.Op == token.NEQ || tt.Op == token.LSS) && isStringType(tt.X.Type()) {
						x, y, what = tt.X, tt.Y, tt.Op.String()
					}
				case *ssa.Call:
					if c := tt.Call.StaticCallee(); c != nil && c.String() == "strings.EqualFold" {
						x, y, what = tt.Call.Args[0], tt.Call.Args[1], "EqualFold"
					}
				}
				if x == nil {
					continue
				}
				// constants (conjunction keywords) are canonical by definition
				okOps := true
				var descs []string
				for _, v := range []ssa.Value{x, y} {
					if _, isC := constString(v); isC {
						descs = append(descs, "const")
						continue
					}
					d := qz.prov(v, 0)
					isCanon := func(d string) bool {
						return canonical.MatchString(d) || strings.HasPrefix(d, "*(*spdxexp.node).conjunction(")
					}
					if !isCanon(d) && strings.Contains(d, "param:") {
						// an operand that comes in through a parameter of a helper: what every call site passes
						if alts := provAtCallSites(p, qz, fn, v, 0); len(alts) > 0 {
							all := true
							for _, a := range alts {
								if !isCanon(a) {
									all = false
									d = a
								}
							}
							if all {
								d = alts[0]
							}
						}
					}
					descs = append(descs, d)
					if !isCanon(d) {
						okOps = false
					}
				}
				n++
				key := fmt.Sprintf("%s|%s %s %s", p.shortKey(fn), shortDesc(descs[0]), what, shortDesc(descs[1]))
				if okOps {
					r.OK("K3", key, p.pos(in.Pos()), "both operands canonical", "", true)
				} else {
					r.Bad("K3", key, p.pos(in.Pos()), fmt.Sprintf("a comparison of license text uses an operand that is not a canonical string (node field, canonical rendering, range-table constant): %s %s %s", descs[0], what, descs[1]))
				}
			}
		}
	}
	if n == 0 {
		r.Unknown("K3", "comparisons", "-", "kind=undecided: no string comparison found in the matcher files")
	}
	ruleAfterRecognition(p, r, "K5", false)
	// K6: before recognition, too, the caller's spelling is judged only by tests that ignore letter case or
	// concern a fixed, case-sensitive-by-design suffix: the normalisation must resolve into a decision list
	// whose guards are the folding lookups, constant-suffix tests and '+' probes (the same extraction C08
	// evaluates). A guard of another kind — a case-sensitive table search on the raw id, say — makes the
	// answer depend on the letter case the id was written in.
	r.Rule("K6", "necessary", 1, "the id normalisation decides on the raw id only through the folding lookups, constant-suffix tests and '+' probes (its decision list resolves)")
	if plan, err := extractPlan(p); err != nil {
		r.Unknown("K6", "normalizeLicense|guards", "-", "kind=undecided: the normalisation takes a decision on the raw id that is not resolved into a folding lookup, a constant-suffix test or a '+' probe: "+err.Error())
	} else {
		r.OK("K6", "normalizeLicense|guards", p.pos(plan.Fn.Pos()), "decision list resolved", fmt.Sprintf("%d attempts", len(plan.Attempts)), true)
	}
}

var successLitRe = regexp.MustCompile(`^\((?:nil == (.*\(.*\))|(.*\(.*\)) == nil)\)$`)

// afterRecognition: block b of a scanner method is only reached after an id was recognised — its path
// condition contains "the result of <a *token-returning stream/lookup call> is not nil". Returns the call.
func afterRecognition(p *Prog, f *ssa.Function, b *ssa.BasicBlock) (string, bool) {
	for _, l := range pathLiterals(p, f, b) {
		if l.Op != "not" || l.Args[0].Op != "atom" {
			continue
		}
		if m := successLitRe.FindStringSubmatch(l.Args[0].Atom); m != nil {
			call := m[1] + m[2]
			if strings.Contains(call, "ormalize") || strings.Contains(call, "ookup") {
				return call, true
			}
		}
	}
	return "", false
}

// ruleK5 (C09) / G9 (C05): once the scanner has recognised an id (a lookup or the normalisation returned
// a token), nothing may be decided on the caller's spelling of that id any more, and the id may not be
// rejected: a branch on the raw text after recognition makes acceptance depend on letter case (the
// lookup folds case, the raw text does not), an error after recognition rejects a listed id.
func ruleAfterRecognition(p *Prog, r *Report, rule string, wantErrors bool) {
	if wantErrors {
		r.Rule(rule, "necessary", 1, "a recognised id is not rejected afterwards: no error is recorded by the scanner on a path where a lookup / the normalisation has already returned a token")
	} else {
		r.Rule(rule, "necessary", 1, "after an id was recognised no decision is taken on the caller's spelling of it: no branch condition on a path behind a successful lookup / normalisation mentions the raw id text")
	}
	n := 0
	for _, f := range p.RList {
		if f.Signature.Recv() == nil || !strings.Contains(f.Signature.Recv().Type().String(), "expressionStream") {
			continue
		}
		qz := &quantizer{p: p, elemVar: map[ssa.Value]string{}, inlineAll: true}
		for _, b := range f.Blocks {
			via, after := afterRecognition(p, f, b)
			if !after {
				continue
			}
			for _, in := range b.Instrs {
				switch t := in.(type) {
				case *ssa.If:
					if wantErrors {
						continue
					}
					n++
					key := fmt.Sprintf("%s|branch after recognition", p.shortKey(f))
					cs := qz.boolOf(t.Cond, map[*ssa.Phi]*qf{}).String()
					raw := ""
					for _, prm := range f.Params[1:] {
						if isStringType(prm.Type()) && strings.Contains(cs, "param:"+prm.Name()) {
							raw = prm.Name()
						}
					}
					if strings.Contains(cs, ".readID(") {
						raw = "the text read by readID"
					}
					if raw != "" {
						r.Bad(rule, key, p.pos(t.Cond.Pos()), fmt.Sprintf("after %s returned a token, the scanner still branches on the caller's spelling (%s): %s — what is accepted then depends on the letter case the id was written in", shortDesc(via), raw, shortDesc(cs)))
					} else {
						r.OK(rule, key, p.pos(t.Cond.Pos()), "condition does not mention the raw id text", "", false)
					}
				case *ssa.Store:
					if !wantErrors {
						continue
					}
					fa, ok := t.Addr.(*ssa.FieldAddr)
					if !ok || fieldOf(fa).Field != "err" {
						continue
					}
					if c, isC := t.Val.(*ssa.Const); isC && c.IsNil() {
						continue
					}
					n++
					r.Bad(rule, fmt.Sprintf("%s|error after recognition", p.shortKey(f)), p.pos(t.Pos()), fmt.Sprintf("an error is recorded after %s has already returned a token: an id that is on the lists (in some spelling) is rejected", shortDesc(via)))
				}
			}
		}
	}
	if n == 0 {
		r.OK(rule, "scanner", "-", "nothing is decided or rejected after recognition", "", true)
	}
}

func shortDesc(s string) string {
	s = strings.ReplaceAll(s, "(*spdxexp.node).", "")
	s = strings.ReplaceAll(s, "spdxexp.", "")
	if len(s) > 60 {
		s = s[:60] + "…"
	}
	return s
}

// callSiteArgs: the values passed for prm at all static call sites of its function within the module.
func callSiteArgs(p *Prog, prm *ssa.Parameter) ([]ssa.Value, bool) {
	f := prm.Parent()
	idx := -1
	for i, fp := range f.Params {
		if fp == prm {
			idx = i
		}
	}
	if idx < 0 || f.Parent() != nil {
		return nil, false
	}
	var out []ssa.Value
	for _, g := range p.RList {
		for _, b := range g.Blocks {
			for _, in := range b.Instrs {
				ci, ok := in.(ssa.CallInstruction)
				if !ok {
					continue
				}
				if ci.Common().StaticCallee() == f && idx < len(ci.Common().Args) {
					out = append(out, ci.Common().Args[idx])
					continue
				}
				// the function escaping as a value makes its call sites unknown
				for _, a := range ci.Common().Args {
					if a == ssa.Value(f) {
						return nil, false
					}
				}
			}
		}
	}
	return out, len(out) > 0
}

// paramFuncs: the functions passed for a function-typed parameter at all (static) call sites of its function.
func paramFuncs(p *Prog, prm *ssa.Parameter) ([]*ssa.Function, bool) {
	f := prm.Parent()
	idx := -1
	for i, fp := range f.Params {
		if fp == prm {
			idx = i
		}
	}
	if idx < 0 {
		return nil, false
	}
	var out []*ssa.Function
	for _, g := range p.RList {
		for _, b := range g.Blocks {
			for _, in := range b.Instrs {
				ci, ok := in.(ssa.CallInstruction)
				if !ok || ci.Common().StaticCallee() != f || idx >= len(ci.Common().Args) {
					continue
				}
				fn, ok := ci.Common().Args[idx].(*ssa.Function)
				if !ok {
					return nil, false
				}
				out = append(out, fn)
			}
		}
	}
	return out, len(out) > 0
}

// tokenValueOrigin: v is loaded from the value field of a token (possibly via a pointer result of a
// function that returns &token.value, or a phi of such).
func tokenValueOrigin(p *Prog, v ssa.Value, tok types.Type, seen map[ssa.Value]bool) bool {
	if seen[v] {
		return true
	}
	seen[v] = true
	switch t := v.(type) {
	case *ssa.UnOp:
		if t.Op != token.MUL {
			return false
		}
		switch a := t.X.(type) {
		case *ssa.FieldAddr:
			return fieldOf(a).Struct == tok.String() && fieldOf(a).Field == "value"
		case *ssa.Call:
			// pointer-returning in-module function: every non-nil return is &token.value
			callee := a.Call.StaticCallee()
			if callee == nil {
				return false
			}
			okAll := false
			for _, b := range callee.Blocks {
				ret, ok := b.Instrs[len(b.Instrs)-1].(*ssa.Return)
				if !ok {
					continue
				}
				if c, ok := ret.Results[0].(*ssa.Const); ok && c.IsNil() {
					continue
				}
				fa, ok := ret.Results[0].(*ssa.FieldAddr)
				if !ok || fieldOf(fa).Struct != tok.String() || fieldOf(fa).Field != "value" {
					return false
				}
				okAll = true
			}
			return okAll
		}
	case *ssa.Parameter:
		// a constructor's parameter: what every call site passes (the empty constant is the unset field)
		args, ok := callSiteArgs(p, t)
		if !ok {
			return false
		}
		n := 0
		for _, a := range args {
			if s, isC := constString(a); isC && s == "" {
				continue
			}
			n++
			if !tokenValueOrigin(p, a, tok, seen) {
				return false
			}
		}
		return n > 0
	case *ssa.Phi:
		for _, e := range t.Edges {
			if s, isC := constString(e); isC && s == "" {
				continue
			}
			if !tokenValueOrigin(p, e, tok, seen) {
				return false
			}
		}
		return true
	case *ssa.Extract, *ssa.Call:
		// a string result of an in-module helper: every return that is not the empty/zero constant
		// (the companion of "not found") must itself be a token's value
		var call *ssa.Call
		idx := 0
		if ex, ok := t.(*ssa.Extract); ok {
			call, _ = ex.Tuple.(*ssa.Call)
			idx = ex.Index
		} else {
			call = t.(*ssa.Call)
		}
		if call == nil || call.Call.StaticCallee() == nil || len(call.Call.StaticCallee().Blocks) == 0 {
			return false
		}
		callee := call.Call.StaticCallee()
		n := 0
		for _, b := range callee.Blocks {
			ret, ok := b.Instrs[len(b.Instrs)-1].(*ssa.Return)
			if !ok || idx >= len(ret.Results) {
				continue
			}
			if _, isC := ret.Results[idx].(*ssa.Const); isC {
				continue
			}
			n++
			if !tokenValueOrigin(p, ret.Results[idx], tok, seen) {
				return false
			}
		}
		return n > 0
	}
	return false
}

// provAtCallSites: the provenance of v (a value of fn that depends on fn's parameters) with fn's parameters
// bound to what each in-module call site passes; one description per call site (callers' own parameters
// are resolved the same way, up to three levels). Empty if fn has no static call site.
func provAtCallSites(p *Prog, qz *quantizer, fn *ssa.Function, v ssa.Value, depth int) []string {
	var out []string
	if depth > 2 {
		return nil
	}
	for _, g := range p.RList {
		for _, b := range g.Blocks {
			for _, in := range b.Instrs {
				c, ok := in.(*ssa.Call)
				if !ok || c.Call.StaticCallee() != fn {
					continue
				}
				// descriptions of the arguments in the caller (resolved through the caller's own call sites
				// when they mention its parameters)
				argAlts := make([][]string, len(fn.Params))
				for i := range fn.Params {
					if i >= len(c.Call.Args) {
						continue
					}
					d := qz.prov(c.Call.Args[i], 1)
					if strings.Contains(d, "param:") && g != fn {
						if up := provAtCallSites(p, qz, g, c.Call.Args[i], depth+1); len(up) > 0 {
							argAlts[i] = up
							continue
						}
					}
					argAlts[i] = []string{d}
				}
				// one binding per alternative index (alternatives of different parameters are paired by position,
				// padding with the first: enough for a judgement that must hold for all of them)
				n := 1
				for _, a := range argAlts {
					if len(a) > n {
						n = len(a)
					}
				}
				for k := 0; k < n; k++ {
					saved := map[ssa.Value]string{}
					had := map[ssa.Value]bool{}
					for i, prm := range fn.Params {
						if len(argAlts[i]) == 0 {
							continue
						}
						if old, ok := qz.elemVar[prm]; ok {
							saved[prm], had[prm] = old, true
						}
						a := argAlts[i][0]
						if k < len(argAlts[i]) {
							a = argAlts[i][k]
						}
						qz.elemVar[prm] = a
					}
					out = append(out, qz.prov(v, 0))
					for _, prm := range fn.Params {
						delete(qz.elemVar, prm)
						if had[prm] {
							qz.elemVar[prm] = saved[prm]
						}
					}
				}
			}
		}
	}
	return out
}
