package main

import (
	"fmt"
	"go/token"
	"go/types"
	"regexp/syntax"
	"sort"
	"strings"

	"golang.org/x/tools/go/ssa"
)

var engineCache = map[*Prog]*Engine{}

// sharedEngine runs engine-1 once per loaded program (without observers).
func sharedEngine(p *Prog) *Engine {
	if e, ok := engineCache[p]; ok {
		return e
	}
	e := RunEngine(p)
	engineCache[p] = e
	return e
}

func init() {
	register("C03", &propDef{
		Level:   "other",
		Explain: "Complete enumeration of the panic-capable SSA instructions in every function reachable from the exported API (nil dereference, nil-map write, type assertion, index/slice bounds, integer division, explicit panic, calls into the standard library), each discharged by a sound static argument or reported with its file:line. Nil-ness is decided by an abstract interpreter over the whole call graph (finite domains: nil-ness, struct shapes derived from the construction sites, small constant sets; trace partitioning; inlining of non-recursive calls; context-free summaries at recursion boundaries). Bounds are decided by entailment between linear inequalities (dominating branch conditions, SSA definitions, memory versioning by mod-sets, stdlib contracts, Houdini-inferred object invariants and cursor contracts) using Fourier–Motzkin elimination. Nothing is executed; no input value is ever represented. Not claimed: stack exhaustion from nesting depth and memory exhaustion (C14).",
		Run:     rulesC03,
		Trusted: []string{"go/ssa lowering", "the stdlib contract table (no-panic entries and result contracts of regexp, strings, sort, errors, fmt)", "Go semantics of nil slices/maps (reads are safe) and of the sort.Slice index contract"},
	})
}

func instrDesc(in ssa.Instruction) string {
	switch t := in.(type) {
	case *ssa.FieldAddr:
		st := t.X.Type().Underlying().(*types.Pointer).Elem().Underlying().(*types.Struct)
		return "&(" + describe(t.X) + ")." + st.Field(t.Field).Name()
	case *ssa.UnOp:
		return "*" + describe(t.X)
	case *ssa.Store:
		return "store *" + describe(t.Addr)
	case *ssa.IndexAddr:
		return "&" + describe(t.X) + "[" + describeIdx(t.Index) + "]"
	case *ssa.Index:
		return describe(t.X) + "[" + describeIdx(t.Index) + "]"
	case *ssa.Lookup:
		return describe(t.X) + "[" + describeIdx(t.Index) + "]"
	case *ssa.Slice:
		lo, hi := "", ""
		if t.Low != nil {
			lo = describeIdx(t.Low)
		}
		if t.High != nil {
			hi = describeIdx(t.High)
		}
		return describe(t.X) + "[" + lo + ":" + hi + "]"
	case *ssa.MapUpdate:
		return "map update " + describe(t.Map)
	case *ssa.TypeAssert:
		return "type assertion on " + describe(t.X)
	case ssa.CallInstruction:
		com := t.Common()
		if c := com.StaticCallee(); c != nil {
			return "call " + c.String()
		}
		if com.IsInvoke() {
			return "invoke " + com.Method.Name()
		}
		return "call " + describe(com.Value)
	case *ssa.BinOp:
		return describeIdx(t.X) + " " + t.Op.String() + " " + describeIdx(t.Y)
	}
	return fmt.Sprintf("%T", in)
}

func describeIdx(v ssa.Value) string {
	switch v := v.(type) {
	case *ssa.Const:
		if v.Value == nil {
			return "nil"
		}
		return v.Value.String()
	case *ssa.BinOp:
		return describeIdx(v.X) + v.Op.String() + describeIdx(v.Y)
	case *ssa.Call:
		if b, ok := v.Call.Value.(*ssa.Builtin); ok {
			return b.Name() + "(" + describe(v.Call.Args[0]) + ")"
		}
	case *ssa.Phi:
		if v.Comment != "" {
			return v.Comment
		}
	}
	return describe(v)
}

func rulesC03(p *Prog, r *Report) {
	r.Rule("N", "sufficient", 150, "nil dereference: every pointer dereference (field address, load, store, element address through *array, interface method call, call of a function value, method call on a stdlib pointer receiver) is reached only with a non-nil operand in every analysed context, or is unreachable")
	r.Rule("M", "sufficient", 1, "nil-map write: the map operand of every map update is non-nil")
	r.Rule("T", "sufficient", 0, "type assertions use the comma-ok form (none is present today)")
	r.Rule("D", "sufficient", 0, "integer division/remainder by a possibly-zero divisor and shifts by a possibly-negative count are absent")
	r.Rule("P", "sufficient", 5, "explicit panics are absent and every out-of-module callee is in the no-panic table for the argument facts established at the call site")
	r.Rule("COV", "exact", 50, "every function reachable from the API was analysed by the interpreter in at least one context")

	eng := sharedEngine(p)
	r.Extra["engine"] = map[string]any{"global_rounds": eng.rounds, "function_runs": eng.runs, "symbols": len(eng.symName), "abstract_objects": len(eng.objName)}
	var notes []string
	for n := range eng.notes {
		if !strings.HasPrefix(n, "chk") {
			notes = append(notes, n)
		}
	}
	sort.Strings(notes)
	r.Extra["engine_notes"] = notes

	for _, f := range p.RList {
		key := p.shortKey(f)
		r.Funcs[key] = true
		if eng.fnVisits[f] == 0 {
			r.Unknown("COV", key, p.pos(f.Pos()), "kind=undecided: function is reachable in the call graph but was never reached by the abstract interpreter (analysis hole)")
		} else {
			r.OK("COV", key, p.pos(f.Pos()), "analysed", fmt.Sprintf("%d contexts/runs", eng.fnVisits[f]), false)
		}
		for _, b := range f.Blocks {
			for _, in := range b.Instrs {
				pos := p.pos(in.Pos())
				if !in.Pos().IsValid() {
					pos = p.pos(f.Pos())
				}
				ikey := key + "|" + instrDesc(in)
				// nil obligations recorded by the engine
				if rec := eng.derefs[in]; rec != nil {
					rule := "N"
					switch rec.Kind {
					case "nilmap":
						rule = "M"
					case "typeassert":
						rule = "T"
					}
					if rec.Bad > 0 {
						r.Bad(rule, ikey, pos, fmt.Sprintf("%s (in %d of %d analysed visits)", rec.Witness, rec.Bad, rec.Visits))
					} else {
						nontriv := true
						if a, ok := derefOperand(in).(*ssa.Alloc); ok && a != nil {
							nontriv = false
						}
						r.OK(rule, ikey, pos, "non-nil in every context", fmt.Sprintf("%d visits", rec.Visits), nontriv)
					}
				} else if needsNil(in) {
					if eng.visits[in] == 0 && eng.fnVisits[f] > 0 {
						r.OK("N", ikey, pos, "unreachable", "no abstract state reaches this instruction in any analysed context", true)
					} else if eng.fnVisits[f] > 0 {
						// visited but the engine recorded no obligation: operand is a local/field address
						r.OK("N", ikey, pos, "address of a local object", "", false)
					}
				}
				switch t := in.(type) {
				case *ssa.BinOp:
					switch t.Op {
					case token.QUO, token.REM:
						if b, ok := t.X.Type().Underlying().(*types.Basic); ok && b.Info()&types.IsInteger != 0 {
							if c, ok := t.Y.(*ssa.Const); ok && c.Int64() != 0 {
								r.OK("D", ikey, pos, "constant non-zero divisor", "", false)
							} else {
								r.Unknown("D", ikey, pos, "kind=undecided: integer division by a value not proved non-zero")
							}
						}
					case token.SHL, token.SHR:
						if b, ok := t.Y.Type().Underlying().(*types.Basic); ok && b.Info()&types.IsUnsigned == 0 {
							if c, ok := t.Y.(*ssa.Const); ok && c.Int64() >= 0 {
								r.OK("D", ikey, pos, "constant shift count", "", false)
							} else {
								r.Unknown("D", ikey, pos, "kind=undecided: shift by a signed count not proved non-negative")
							}
						}
					}
				case *ssa.Panic:
					if eng.visits[in] == 0 && eng.fnVisits[f] > 0 {
						r.OK("P", ikey, pos, "unreachable", "", true)
					} else {
						r.Bad("P", ikey, pos, "explicit panic reachable from the API")
					}
				case *ssa.SliceToArrayPointer:
					r.Unknown("P", ikey, pos, "kind=undecided: slice to array conversion panics on short slices")
				case ssa.CallInstruction:
					com := t.Common()
					if bi, ok := com.Value.(*ssa.Builtin); ok {
						if bi.Name() == "panic" {
							r.Bad("P", ikey, pos, "explicit panic reachable from the API")
						}
						continue
					}
					callee := com.StaticCallee()
					if callee == nil || p.InModule(callee) {
						continue
					}
					si := classifyStd(callee)
					why := stdNoPanic(callee, com)
					switch {
					case si.NoPanic && why == "":
						r.OK("P", ikey, pos, "stdlib callee in the no-panic table", callee.String(), false)
					case why != "":
						r.Bad("P", ikey, pos, why)
					default:
						r.Unknown("P", ikey, pos, fmt.Sprintf("kind=undecided: %s is not in the no-panic table", callee))
					}
				}
			}
		}
	}
	rulesBounds(p, r)
}

func compiles(pattern string) bool {
	_, err := syntax.Parse(pattern, syntax.Perl)
	return err == nil
}

func needsNil(in ssa.Instruction) bool {
	switch t := in.(type) {
	case *ssa.FieldAddr:
		return true
	case *ssa.UnOp:
		return t.Op == token.MUL
	case *ssa.Store:
		return true
	case *ssa.IndexAddr:
		_, ok := t.X.Type().Underlying().(*types.Pointer)
		return ok
	case *ssa.Slice:
		_, ok := t.X.Type().Underlying().(*types.Pointer)
		return ok
	case *ssa.MapUpdate:
		return true
	}
	return false
}

func derefOperand(in ssa.Instruction) ssa.Value {
	switch t := in.(type) {
	case *ssa.FieldAddr:
		return t.X
	case *ssa.UnOp:
		return t.X
	case *ssa.Store:
		return t.Addr
	case *ssa.IndexAddr:
		return t.X
	case *ssa.Slice:
		return t.X
	}
	return nil
}

// stdNoPanic: extra argument preconditions of otherwise panic-free callees. Returns "" when satisfied.
func stdNoPanic(callee *ssa.Function, com *ssa.CallCommon) string {
	switch callee.String() {
	case "sort.Slice", "sort.SliceStable":
		if _, ok := com.Args[0].(*ssa.MakeInterface); ok {
			if _, isSlice := com.Args[0].(*ssa.MakeInterface).X.Type().Underlying().(*types.Slice); !isSlice {
				return "sort.Slice called with a non-slice (panics)"
			}
			return ""
		}
		return "sort.Slice first argument is not statically a slice"
	case "regexp.MustCompile":
		if s, ok := constString(com.Args[0]); ok {
			if compiles(s) {
				return ""
			}
			return fmt.Sprintf("regexp.MustCompile(%q) panics: pattern does not compile", s)
		}
		return "regexp.MustCompile with a non-constant pattern may panic"
	}
	return ""
}
